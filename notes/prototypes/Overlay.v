(* Design-phase prototype (not part of any build): C18 overlay filesystem.
   A layer is abstract (its Open / ReadDir / Glob results are given); the overlay
   is the model of overlay_fs.go (with the ReadDir "found" repair, candidate P).
   Names are nat here; the real model uses bytes with the lexicographic order. *)
From Coq Require Import List Bool Arith Lia Sorting.Sorted Sorting.Permutation.
Import ListNotations.

Section Overlay.
Variable entry : Type.            (* what Open yields: content + metadata *)
Definition name := nat.
Definition dirent := (name * bool)%type.   (* name, isDir *)

Record layer := {
  l_open : name -> option entry;
  l_readdir : name -> option (list dirent);
  l_glob : nat -> list name }.

Definition layers := list (option layer).      (* None = nil layer *)
Definition live (ls : layers) : list layer := flat_map (fun o => match o with Some l => [l] | None => [] end) ls.

(* ---- Open ---- *)
Fixpoint ov_open (ls : list layer) (p : name) : option entry :=
  match ls with
  | [] => None
  | l :: r => match l_open l p with Some e => Some e | None => ov_open r p end
  end.

Theorem open_first ls p e : ov_open ls p = Some e <->
  exists pre l post, ls = pre ++ l :: post /\ l_open l p = Some e /\
                     Forall (fun l' => l_open l' p = None) pre.
Proof.
  split.
  - induction ls as [|l r IH]; cbn; [discriminate|].
    destruct (l_open l p) eqn:E.
    + intros [= ->]. exists [], l, r. auto.
    + intro H. destruct (IH H) as (pre & l' & post & -> & Hl & Hp).
      exists (l :: pre), l', post. auto.
  - intros (pre & l & post & -> & Hl & Hp). induction Hp as [|x pre Hx _ IH]; cbn.
    + now rewrite Hl.
    + now rewrite Hx.
Qed.
Theorem open_none ls p : ov_open ls p = None <-> Forall (fun l => l_open l p = None) ls.
Proof.
  induction ls as [|l r IH]; cbn; [split; auto|].
  destruct (l_open l p) eqn:E; split.
  - discriminate.
  - intro H. inversion H. congruence.
  - intro H. constructor; [assumption|]. now apply IH.
  - intro H. inversion H. now apply IH.
Qed.
Theorem nil_skipped (ls : layers) p : ov_open (live (None :: ls)) p = ov_open (live ls) p.
Proof. reflexivity. Qed.

(* ---- ReadDir ---- *)
Definition has (n : name) (acc : list dirent) : bool := existsb (fun d => Nat.eqb (fst d) n) acc.
Fixpoint add_new (acc es : list dirent) : list dirent :=
  match es with
  | [] => acc
  | d :: r => if has (fst d) acc then add_new acc r else add_new (acc ++ [d]) r
  end.
Fixpoint merge (ls : list layer) (d : name) (acc : list dirent) (found : bool) : list dirent * bool :=
  match ls with
  | [] => (acc, found)
  | l :: r => match l_readdir l d with
              | Some es => merge r d (add_new acc es) true
              | None => merge r d acc found
              end
  end.
Fixpoint insert (d : dirent) (l : list dirent) : list dirent :=
  match l with
  | [] => [d]
  | x :: r => if Nat.leb (fst d) (fst x) then d :: l else x :: insert d r
  end.
Definition sort (l : list dirent) : list dirent := fold_right insert [] l.
Definition ov_readdir (ls : list layer) (d : name) : option (list dirent) :=
  let '(acc, found) := merge ls d [] false in if found then Some (sort acc) else None.

Definition le_d (a b : dirent) : Prop := fst a <= fst b.
Lemma insert_perm d l : Permutation (insert d l) (d :: l).
Proof.
  induction l as [|x r IH]; cbn; [auto|]. destruct (Nat.leb (fst d) (fst x)); [auto|].
  rewrite IH. apply perm_swap.
Qed.
Lemma sort_perm l : Permutation (sort l) l.
Proof. induction l; cbn; [auto|]. rewrite insert_perm. auto. Qed.
Lemma insert_sorted d l : Sorted le_d l -> Sorted le_d (insert d l).
Proof.
  induction 1 as [|x r Hr IH Hx]; cbn; [repeat constructor|].
  destruct (Nat.leb (fst d) (fst x)) eqn:E.
  - apply Nat.leb_le in E. repeat constructor; auto.
  - apply Nat.leb_gt in E. constructor; [assumption|].
    destruct r as [|y r]; cbn in *.
    + constructor. unfold le_d. lia.
    + destruct (Nat.leb (fst d) (fst y)); constructor; unfold le_d; try lia.
      inversion Hx; assumption.
Qed.
Lemma sort_sorted l : Sorted le_d (sort l).
Proof. induction l; cbn; [constructor|]. now apply insert_sorted. Qed.

(* the listing is name-sorted *)
Theorem readdir_sorted ls d es : ov_readdir ls d = Some es -> Sorted le_d es.
Proof.
  unfold ov_readdir. destruct (merge ls d [] false) as [acc f]. destruct f; [|discriminate].
  intros [= <-]. apply sort_sorted.
Qed.

(* an error exactly when no layer has the directory (candidate P; on the unchanged
   tree the test is "merged listing empty and some layer failed") *)
Lemma merge_found ls d : forall acc f, snd (merge ls d acc f) = f || existsb (fun l => match l_readdir l d with Some _ => true | None => false end) ls.
Proof.
  induction ls as [|l r IH]; intros acc f; cbn; [now rewrite orb_false_r|].
  destruct (l_readdir l d); rewrite IH; cbn; [now rewrite orb_true_r|reflexivity].
Qed.
Theorem readdir_error_iff ls d : ov_readdir ls d = None <-> Forall (fun l => l_readdir l d = None) ls.
Proof.
  unfold ov_readdir. pose proof (merge_found ls d [] false) as H.
  destruct (merge ls d [] false) as [acc f]. cbn in H. subst f.
  rewrite Forall_forall. destruct (existsb _ ls) eqn:E.
  - split; [discriminate|]. intro Hn. apply existsb_exists in E. destruct E as [l [Hl Hs]].
    rewrite (Hn l Hl) in Hs. discriminate.
  - split; [|reflexivity]. intros _ l Hl. destruct (l_readdir l d) eqn:El; [|reflexivity].
    assert (existsb (fun l => match l_readdir l d with Some _ => true | None => false end) ls = true).
    { apply existsb_exists. exists l. now rewrite El. }
    congruence.
Qed.

(* names are unique, and each entry is the one of the first layer that lists its name *)
Definition names (l : list dirent) := map fst l.
Lemma has_spec n acc : has n acc = true <-> In n (names acc).
Proof.
  unfold has, names. rewrite existsb_exists, in_map_iff. split.
  - intros [d [Hd He]]. apply Nat.eqb_eq in He. eauto.
  - intros [d [He Hd]]. exists d. split; [assumption|]. now apply Nat.eqb_eq.
Qed.
Lemma nodup_snoc (l : list name) x : NoDup l -> ~ In x l -> NoDup (l ++ [x]).
Proof.
  induction 1 as [|y l Hy Hl IH]; intros Hx; cbn.
  - repeat constructor. auto.
  - constructor.
    + rewrite in_app_iff. cbn. intros [H|[H|[]]]; [auto|]. apply Hx. left. auto.
    + apply IH. intro H. apply Hx. right. auto.
Qed.
Lemma add_new_nodup es : forall acc, NoDup (names acc) -> NoDup (names (add_new acc es)).
Proof.
  induction es as [|d r IH]; intros acc H; cbn; [assumption|].
  destruct (has (fst d) acc) eqn:E; [auto|]. apply IH.
  unfold names. rewrite map_app. cbn. apply nodup_snoc; [assumption|].
  intro Hin. apply has_spec in Hin. congruence.
Qed.
Lemma add_new_keeps es : forall acc d, In d acc -> In d (add_new acc es).
Proof.
  induction es as [|x r IH]; intros acc d H; cbn; [assumption|].
  destruct (has (fst x) acc); apply IH; [assumption|]. apply in_or_app. auto.
Qed.
Lemma add_new_from es : forall acc d, In d (add_new acc es) -> In d acc \/ In d es.
Proof.
  induction es as [|x r IH]; intros acc d H; cbn in *; [auto|].
  destruct (has (fst x) acc).
  - destruct (IH _ _ H); auto.
  - destruct (IH _ _ H) as [H1|H1]; [|auto]. apply in_app_or in H1. destruct H1 as [H1|[->|[]]]; auto.
Qed.
(* an entry whose name is new is taken from this listing: its first occurrence *)
Lemma add_new_takes_head acc d r : has (fst d) acc = false -> In d (add_new acc (d :: r)).
Proof. intro H. cbn. rewrite H. apply add_new_keeps. apply in_or_app. right. left. auto. Qed.

Lemma merge_nodup ls d : forall acc f, NoDup (names acc) -> NoDup (names (fst (merge ls d acc f))).
Proof.
  induction ls as [|l r IH]; intros acc f H; cbn; [assumption|].
  destruct (l_readdir l d); apply IH; [now apply add_new_nodup|assumption].
Qed.
Lemma merge_keeps ls d : forall acc f e, In e acc -> In e (fst (merge ls d acc f)).
Proof.
  induction ls as [|l r IH]; intros acc f e H; cbn; [assumption|].
  destruct (l_readdir l d); apply IH; [now apply add_new_keeps|assumption].
Qed.
Lemma merge_from ls d : forall acc f e, In e (fst (merge ls d acc f)) ->
  In e acc \/ exists l es, In l ls /\ l_readdir l d = Some es /\ In e es.
Proof.
  induction ls as [|l r IH]; intros acc f e H; cbn in *; [auto|].
  destruct (l_readdir l d) eqn:E.
  - destruct (IH _ _ _ H) as [H1|(l' & es & Hl & Hr & He)].
    + destruct (add_new_from _ _ _ H1); [auto|]. right. exists l, l0. auto.
    + right. exists l', es. auto.
  - destruct (IH _ _ _ H) as [H1|(l' & es & Hl & Hr & He)]; [auto|]. right. exists l', es. auto.
Qed.

Theorem readdir_names_unique ls d es : ov_readdir ls d = Some es -> NoDup (names es).
Proof.
  unfold ov_readdir. pose proof (merge_nodup ls d [] false (NoDup_nil _)) as H.
  destruct (merge ls d [] false) as [acc f]. destruct f; [|discriminate]. intros [= <-].
  cbn in H. unfold names in *. eapply Permutation_NoDup; [|exact H].
  apply Permutation_map. symmetry. apply sort_perm.
Qed.
Theorem readdir_from_layers ls d es e : ov_readdir ls d = Some es -> In e es ->
  exists l esl, In l ls /\ l_readdir l d = Some esl /\ In e esl.
Proof.
  unfold ov_readdir. pose proof (merge_from ls d [] false e) as H.
  destruct (merge ls d [] false) as [acc f]. destruct f; [|discriminate]. intros [= <-] Hin.
  cbn in H. destruct H as [[]|H]; [|exact H].
  eapply Permutation_in; [apply sort_perm|exact Hin].
Qed.
(* the upper layer shadows: the first entry it lists under a name is the one served *)
Theorem readdir_upper_wins l r d e esr es :
  l_readdir l d = Some (e :: esr) -> ov_readdir (l :: r) d = Some es -> In e es.
Proof.
  unfold ov_readdir. cbn [merge]. intros -> .
  pose proof (merge_keeps r d (add_new [] (e :: esr)) true e) as H.
  destruct (merge r d (add_new [] (e :: esr)) true) as [acc f]. destruct f; [|discriminate].
  intros [= <-]. eapply Permutation_in; [symmetry; apply sort_perm|].
  apply H. apply add_new_takes_head. reflexivity.
Qed.

(* ---- Glob ---- *)
Fixpoint dedup (l : list name) : list name :=
  match l with [] => [] | x :: r => if existsb (Nat.eqb x) r then dedup r else x :: dedup r end.
Definition ov_glob (ls : list layer) (pat : nat) : list name :=
  map fst (sort (map (fun n => (n, false)) (dedup (flat_map (fun l => l_glob l pat) ls)))).
Lemma dedup_in x l : In x (dedup l) <-> In x l.
Proof.
  induction l as [|y r IH]; cbn; [tauto|]. destruct (existsb (Nat.eqb y) r) eqn:E.
  - rewrite IH. split; [auto|]. intros [->|H]; [|assumption].
    apply existsb_exists in E. destruct E as [z [Hz Hq]]. apply Nat.eqb_eq in Hq. now subst.
  - cbn. rewrite IH. tauto.
Qed.
Theorem glob_union ls pat x : In x (ov_glob ls pat) <-> exists l, In l ls /\ In x (l_glob l pat).
Proof.
  unfold ov_glob. rewrite in_map_iff. split.
  - intros [[n b] [<- H]]. cbn. apply (Permutation_in _ (sort_perm _)) in H.
    apply in_map_iff in H. destruct H as [m [[= <- <-] H]]. rewrite dedup_in in H.
    apply in_flat_map in H. exact H.
  - intros [l [Hl Hx]]. exists (x, false). split; [reflexivity|].
    eapply Permutation_in; [symmetry; apply sort_perm|].
    apply (in_map (fun n => (n, false))). rewrite dedup_in.
    apply in_flat_map. eauto.
Qed.
End Overlay.
Print Assumptions readdir_upper_wins.
Print Assumptions glob_union.
