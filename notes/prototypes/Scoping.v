(* Design-phase prototype (not part of any build): C04 / C05 scoping by state
   threading.  A miniature evaluator threads the scope stack (innermost first)
   through text, elements, <template :x> (writes into the CURRENT scope), v-for
   (push, bind, evaluate, pop - per item) and include (push props, set front-matter,
   evaluate the component, pop).  Theorems: evaluation never touches a scope below
   the top and never changes the height; v-for and include leave the stack exactly
   as they found it (nothing leaks), on success; inside an include front-matter
   wins over props, props over the includer's variables. *)
From Coq Require Import List Bool Arith Lia.
Import ListNotations.
Definition name := nat.
Inductive val := VNil | VNum (n : nat) | VList (l : list val).
Definition scope := list (name * val).
Definition stack := list scope.

Fixpoint assoc (m : scope) (k : name) : option val :=
  match m with [] => None | (k', v) :: r => if Nat.eqb k' k then Some v else assoc r k end.
Fixpoint look (s : stack) (k : name) : option val :=
  match s with [] => None | m :: r => match assoc m k with Some v => Some v | None => look r k end end.
Definition set_top (s : stack) (k : name) (v : val) : stack :=
  match s with [] => [[(k, v)]] | m :: r => ((k, v) :: m) :: r end.
Definition pop (s : stack) : stack := match s with [] => [] | _ :: r => r end.

Inductive tnode :=
| TShow (x : name)                                   (* {{ x }} : prints the visible value *)
| TElem (kids : list tnode)
| TSet (x : name) (v : val)                          (* <template :x="v"> *)
| TFor (v coll : name) (body : list tnode)
| TInclude (props fm : scope) (comp : list tnode).   (* props already evaluated; component front-matter *)

Inductive res (A : Type) := Ok (a : A) | Err.
Arguments Ok {A}. Arguments Err {A}.
Definition out := list (option val).

Section With.
  Variable ev : stack -> tnode -> res (out * stack).
  Fixpoint evals (s : stack) (ts : list tnode) : res (out * stack) :=
    match ts with
    | [] => Ok ([], s)
    | t :: r => match ev s t with
                | Ok (o1, s1) => match evals s1 r with Ok (o2, s2) => Ok (o1 ++ o2, s2) | Err => Err end
                | Err => Err
                end
    end.
  Fixpoint loop (v : name) (body : list tnode) (s : stack) (items : list val) : res (out * stack) :=
    match items with
    | [] => Ok ([], s)
    | it :: rest => match evals (set_top ([] :: s) v it) body with
                    | Ok (o1, s1) => match loop v body (pop s1) rest with Ok (o2, s2) => Ok (o1 ++ o2, s2) | Err => Err end
                    | Err => Err
                    end
    end.
End With.

Fixpoint eval (fuel : nat) (s : stack) (t : tnode) : res (out * stack) :=
  match fuel with O => Err | S f =>
  match t with
  | TShow x => Ok ([look s x], s)
  | TElem kids => evals (eval f) s kids
  | TSet x v => Ok ([], set_top s x v)
  | TFor v coll body =>
      match look s coll with
      | Some (VList items) => loop (eval f) v body s items
      | _ => Ok ([], s)
      end
  | TInclude props fm comp =>
      match evals (eval f) ((fm ++ props) :: s) comp with
      | Ok (o, s1) => Ok (o, pop s1)
      | Err => Err
      end
  end end.

(* only the top scope may change, the height never does *)
Definition frame_ok (ev : stack -> tnode -> res (out * stack)) : Prop :=
  forall top rest t o s', ev (top :: rest) t = Ok (o, s') -> exists top', s' = top' :: rest.

Lemma evals_frame ev : frame_ok ev -> forall ts top rest o s',
  evals ev (top :: rest) ts = Ok (o, s') -> exists top', s' = top' :: rest.
Proof.
  intros Hev ts. induction ts as [|t r IH]; intros top rest o s' H; cbn in H.
  - injection H as <- <-. eauto.
  - destruct (ev (top :: rest) t) as [[o1 s1]|] eqn:E1; [|discriminate].
    destruct (Hev _ _ _ _ _ E1) as [t1 ->].
    destruct (evals ev (t1 :: rest) r) as [[o2 s2]|] eqn:E2; [|discriminate]. injection H as <- <-. eauto.
Qed.
Lemma loop_exact ev : frame_ok ev -> forall v body items s o s',
  loop ev v body s items = Ok (o, s') -> s' = s.
Proof.
  intros Hev v body items. induction items as [|it rest IH]; intros s o s' H; cbn [loop] in H.
  - now injection H as <- <-.
  - destruct (evals ev (set_top ([] :: s) v it) body) as [[o1 s1]|] eqn:E1; [|discriminate].
    cbn [set_top] in E1. destruct (evals_frame ev Hev _ _ _ _ _ E1) as [t1 ->]. cbn [pop] in H.
    destruct (loop ev v body s rest) as [[o2 s2]|] eqn:E2; [|discriminate]. injection H as <- <-. eapply IH; eauto.
Qed.

Theorem eval_frame : forall fuel, frame_ok (eval fuel).
Proof.
  induction fuel as [|f IH]; intros top rest t o s' H; [discriminate|].
  destruct t as [x | kids | x v | v coll body | props fm comp]; cbn [eval] in H.
  - injection H as <- <-. eauto.
  - eapply evals_frame; eauto.
  - injection H as <- <-. cbn. eauto.
  - destruct (look (top :: rest) coll) as [[| |items]|]; try (injection H as <- <-; eauto).
    apply (loop_exact _ IH) in H. subst. eauto.
  - destruct (evals (eval f) ((fm ++ props) :: top :: rest) comp) as [[o1 s1]|] eqn:E; [|discriminate].
    injection H as <- <-. destruct (evals_frame _ IH _ _ _ _ _ E) as [t1 ->]. cbn. eauto.
Qed.

(* C04: a loop leaves the stack exactly as it found it *)
Theorem for_restores fuel s v coll body o s' : eval fuel s (TFor v coll body) = Ok (o, s') -> s' = s.
Proof.
  destruct fuel as [|f]; [discriminate|]. cbn [eval].
  destruct (look s coll) as [[| |items]|]; try (intro H; now injection H as <- <-).
  intro H. eapply loop_exact; [apply eval_frame|exact H].
Qed.
(* C05: nothing an include binds is visible afterwards *)
Theorem include_no_leak fuel s props fm comp o s' : eval fuel s (TInclude props fm comp) = Ok (o, s') -> s' = s.
Proof.
  destruct fuel as [|f]; [discriminate|]. cbn [eval].
  destruct (evals (eval f) ((fm ++ props) :: s) comp) as [[o1 s1]|] eqn:E; [|discriminate].
  intro H. injection H as <- <-. destruct (evals_frame _ (eval_frame f) _ _ _ _ _ E) as [t1 ->]. reflexivity.
Qed.
(* C05: inside the component front-matter wins over props, props over the includer *)
Lemma assoc_app a b k : assoc (a ++ b) k = match assoc a k with Some v => Some v | None => assoc b k end.
Proof. induction a as [|[x y] r IH]; cbn; [reflexivity|]. destruct (Nat.eqb x k); auto. Qed.
Theorem include_precedence s props fm k :
  look ((fm ++ props) :: s) k =
  match assoc fm k with Some v => Some v | None =>
  match assoc props k with Some v => Some v | None => look s k end end.
Proof. cbn. rewrite assoc_app. destruct (assoc fm k); [reflexivity|]. destruct (assoc props k); reflexivity. Qed.
Print Assumptions for_restores.
Print Assumptions include_no_leak.

(* shadowing: the loop variable hides the outer x inside, the outer value is back after *)
Example shadow :
  eval 5 [[(0, VNum 7); (1, VList [VNum 1; VNum 2])]] (TElem [TShow 0; TFor 0 1 [TShow 0]; TShow 0])
  = Ok ([Some (VNum 7); Some (VNum 1); Some (VNum 2); Some (VNum 7)], [[(0, VNum 7); (1, VList [VNum 1; VNum 2])]]).
Proof. reflexivity. Qed.
