(* Design-phase prototype (not part of any build): C10 item 3, the pool invariant.
   Scope maps come from a pool and go back to it cleared.  Whatever the history of
   pushes, sets and pops, every map in the pool is empty, so a render on a long-used
   engine sees exactly what it would see with freshly allocated maps. *)
From Coq Require Import List Bool Arith Lia.
Import ListNotations.
Section P.
Variable val : Type.
Definition scope := list (nat * val).
Record state := { stack : list scope; pool : list scope }.
Inductive op := Push | Pop | Set_ (k : nat) (v : val).
(* pooled implementation *)
Definition step (s : state) (o : op) : state :=
  match o with
  | Push => match pool s with
            | m :: r => {| stack := m :: stack s; pool := r |}     (* reuse *)
            | [] => {| stack := [] :: stack s; pool := [] |}       (* New *)
            end
  | Pop => match stack s with
           | _ :: r => {| stack := r; pool := [] :: pool s |}      (* clear, then Put *)
           | [] => s
           end
  | Set_ k v => match stack s with
                | m :: r => {| stack := ((k, v) :: m) :: r; pool := pool s |}
                | [] => s
                end
  end.
(* reference implementation: always a fresh map *)
Definition step_fresh (st : list scope) (o : op) : list scope :=
  match o with
  | Push => [] :: st
  | Pop => match st with _ :: r => r | [] => [] end
  | Set_ k v => match st with m :: r => ((k, v) :: m) :: r | [] => [] end
  end.
Definition pool_clean (s : state) : Prop := Forall (fun m => m = []) (pool s).

Lemma step_clean s o : pool_clean s -> pool_clean (step s o).
Proof.
  unfold pool_clean. destruct s as [st pl]. cbn. intro H. destruct o; cbn.
  - destruct pl as [|m r]; cbn; [constructor|now inversion H].
  - destruct st; cbn; [assumption|]. constructor; auto.
  - destruct st; cbn; assumption.
Qed.
Lemma step_same s o : pool_clean s -> stack (step s o) = step_fresh (stack s) o.
Proof.
  unfold pool_clean. destruct s as [st pl]. cbn. intro H. destruct o; cbn.
  - destruct pl as [|m r]; cbn; [reflexivity|]. inversion H. now subst.
  - destruct st; reflexivity.
  - destruct st; reflexivity.
Qed.
Theorem pooled_equals_fresh ops : forall s, pool_clean s ->
  stack (fold_left step ops s) = fold_left step_fresh ops (stack s).
Proof.
  induction ops as [|o r IH]; intros s H; cbn; [reflexivity|].
  rewrite IH by now apply step_clean. now rewrite step_same.
Qed.
End P.
Print Assumptions pooled_equals_fresh.
