(* Design-phase prototype (not part of any build): C06 slots with the closure
   semantics of candidate R.  Supplied content remembers the stack height and the
   slot closure of the place where it was written; a <slot> evaluates a fresh copy
   of it with exactly those scopes plus the slot's props.  Theorems: what a slot
   renders does not depend on the scopes the component pushed (so content written
   for one instance cannot see, or be confused with, another instance's props);
   a slot with nothing supplied renders its fallback. *)
From Coq Require Import List Bool Arith Lia.
Import ListNotations.
Definition name := nat.
Definition val := nat.
Definition scope := list (name * val).
Definition stack := list scope.                       (* OUTERMOST FIRST here: height = length *)

Fixpoint assoc (m : scope) (k : name) : option val :=
  match m with [] => None | (k', v) :: r => if Nat.eqb k' k then Some v else assoc r k end.
Fixpoint look (s : stack) (k : name) : option val :=        (* innermost = last *)
  match s with [] => None | m :: r => match look r k with Some v => Some v | None => assoc m k end end.

Inductive tnode :=
| TShow (x : name)
| TElem (kids : list tnode)
| TSlot (props : scope) (fallback : list tnode)
| TInclude (props : scope) (comp : list tnode) (content : list tnode).

(* supplied content as a closure *)
Inductive closure := Clo (content : list tnode) (depth : nat) (outer : option closure).
Definition out := list (option val).

Section With.
  Variable ev : stack -> option closure -> tnode -> option out.
  Fixpoint evals (s : stack) (c : option closure) (ts : list tnode) : option out :=
    match ts with
    | [] => Some []
    | t :: r => match ev s c t, evals s c r with Some a, Some b => Some (a ++ b) | _, _ => None end
    end.
End With.

Fixpoint eval (fuel : nat) (s : stack) (c : option closure) (t : tnode) : option out :=
  match fuel with O => None | S f =>
  match t with
  | TShow x => Some [look s x]
  | TElem kids => evals (eval f) s c kids
  | TSlot props fb =>
      match c with
      | Some (Clo content depth outer) =>
          match content with
          | [] => evals (eval f) s c fb                              (* nothing supplied: fallback, component scope *)
          | _ => evals (eval f) (firstn depth s ++ [props]) outer content
          end
      | None => evals (eval f) s c fb
      end
  | TInclude props comp content =>
      evals (eval f) (s ++ [props]) (Some (Clo content (length s) c)) comp
  end end.

(* what a filled slot renders is a function of the includer's scopes, the slot props and
   the includer's own closure - not of anything pushed since *)
Theorem slot_sees_includer_only fuel base pushed1 pushed2 props fb content outer :
  content <> [] ->
  eval fuel (base ++ pushed1) (Some (Clo content (length base) outer)) (TSlot props fb) =
  eval fuel (base ++ pushed2) (Some (Clo content (length base) outer)) (TSlot props fb).
Proof.
  intro Hne. destruct fuel as [|f]; [reflexivity|]. cbn [eval].
  destruct content as [|c0 cs]; [congruence|].
  rewrite !firstn_app, !Nat.sub_diag, !firstn_all. cbn [firstn]. reflexivity.
Qed.
Theorem slot_fallback fuel s props fb outer depth :
  eval (S fuel) s (Some (Clo [] depth outer)) (TSlot props fb) = evals (eval fuel) s (Some (Clo [] depth outer)) fb.
Proof. reflexivity. Qed.
Theorem slot_unfilled fuel s props fb : eval (S fuel) s None (TSlot props fb) = evals (eval fuel) s None fb.
Proof. reflexivity. Qed.

(* two instances side by side, each with its own content and a prop named like an includer variable *)
Definition card := [TElem [TShow 1; TSlot [(2, 99)] [TShow 3]]].
Example per_instance :
  eval 6 [[(0, 10); (1, 11); (3, 33)]] None
    (TElem [TInclude [(1, 41)] card [TShow 0; TShow 1; TShow 2];     (* content sees includer's 1 = 11, slot prop 2 = 99 *)
            TInclude [(1, 42)] card []])                             (* nothing supplied: fallback, in the component scope *)
  = Some [Some 41; Some 10; Some 11; Some 99;  Some 42; Some 33].
Proof. reflexivity. Qed.
(* pass-through: content given to an outer component forwarded into an inner one *)
Example pass_through :
  eval 8 [[(0, 7)]] None
    (TInclude [] [TInclude [] [TSlot [] [TShow 9]] [TSlot [] []]] [TShow 0])
  = Some [Some 7].
Proof. reflexivity. Qed.
Print Assumptions slot_sees_includer_only.
