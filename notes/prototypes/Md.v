(* Design-phase prototype (not part of any build): C20 proof architecture.
   On a small Markdown AST: the string the vuego path produces (every node rendered
   through its template, children concatenated and inserted raw through v-html,
   text segments escaped - i.e. with the text repair) IS the serialisation of the
   reference DOM.  Together with RoundTrip.ser_roundtrip this gives: re-reading the
   vuego output yields the reference DOM (for ASTs whose reference DOM is in parser
   normal form). *)
From Coq Require Import List Strings.Byte Strings.String Bool Lia.
Import ListNotations.
Require Import Escape Tok RoundTrip.

Inductive inline := IText (s : bytes) | ICode (s : bytes) | IEm (l : list inline) | IStrong (l : list inline)
                  | ILink (href : bytes) (l : list inline).
Inductive block := BPara (l : list inline) | BHeading (l : list inline) | BQuote (b : list block).

Definition t_em := bs "em". Definition t_strong := bs "strong". Definition t_code := bs "code".
Definition t_a := bs "a". Definition t_p := bs "p". Definition t_h1 := bs "h1". Definition t_bq := bs "blockquote".
Definition k_href := bs "href".

(* the reference DOM *)
Fixpoint ref_i (i : inline) : node :=
  match i with
  | IText s => Text s
  | ICode s => Elem t_code [] [Text s]
  | IEm l => Elem t_em [] (map ref_i l)
  | IStrong l => Elem t_strong [] (map ref_i l)
  | ILink h l => Elem t_a [(k_href, h)] (map ref_i l)
  end.
Fixpoint ref_b (b : block) : node :=
  match b with
  | BPara l => Elem t_p [] (map ref_i l)
  | BHeading l => Elem t_h1 [] (map ref_i l)
  | BQuote bl => Elem t_bq [] (map ref_b bl)
  end.

(* the vuego path: a template  <t attrs v-html="content"></t>  emits  <t attrs> ++ content ++ </t>  *)
Definition tpl (t : bytes) (a : attrs) (content : bytes) : bytes :=
  [x3c] ++ t ++ ser_attrs a ++ [x3e] ++ content ++ [x3c; x2f] ++ t ++ [x3e].
Fixpoint md_i (i : inline) : bytes :=
  match i with
  | IText s => escape s
  | ICode s => tpl t_code [] (escape s)                 (* <code>{{ content }}</code> : escaped interpolation *)
  | IEm l => tpl t_em [] (flat_map md_i l)
  | IStrong l => tpl t_strong [] (flat_map md_i l)
  | ILink h l => tpl t_a [(k_href, h)] (flat_map md_i l)  (* :href bound attribute, escaped by the serialiser *)
  end.
Fixpoint md_b (b : block) : bytes :=
  match b with
  | BPara l => tpl t_p [] (flat_map md_i l)
  | BHeading l => tpl t_h1 [] (flat_map md_i l)
  | BQuote bl => tpl t_bq [] (flat_map md_b bl)
  end.

Section InlineInd.
  Variable P : inline -> Prop.
  Hypotheses (H1 : forall s, P (IText s)) (H2 : forall s, P (ICode s))
             (H3 : forall l, Forall P l -> P (IEm l)) (H4 : forall l, Forall P l -> P (IStrong l))
             (H5 : forall h l, Forall P l -> P (ILink h l)).
  Fixpoint inline_ind' (i : inline) : P i :=
    let go := fix go (l : list inline) : Forall P l :=
      match l with [] => Forall_nil _ | x :: r => Forall_cons _ (inline_ind' x) (go r) end in
    match i with
    | IText s => H1 s | ICode s => H2 s | IEm l => H3 l (go l) | IStrong l => H4 l (go l) | ILink h l => H5 h l (go l)
    end.
End InlineInd.
Section BlockInd.
  Variable P : block -> Prop.
  Hypotheses (H1 : forall l, P (BPara l)) (H2 : forall l, P (BHeading l)) (H3 : forall l, Forall P l -> P (BQuote l)).
  Fixpoint block_ind' (b : block) : P b :=
    match b with
    | BPara l => H1 l | BHeading l => H2 l
    | BQuote l => H3 l ((fix go (l : list block) : Forall P l :=
                           match l with [] => Forall_nil _ | x :: r => Forall_cons _ (block_ind' x) (go r) end) l)
    end.
End BlockInd.

Lemma flat_map_ser_map {A} (f : A -> bytes) (g : A -> node) l :
  Forall (fun x => f x = ser (g x)) l -> flat_map f l = flat_map ser (map g l).
Proof. induction 1 as [|x r Hx _ IH]; cbn; [reflexivity|]. now rewrite Hx, IH. Qed.

Theorem md_inline_is_ser : forall i, md_i i = ser (ref_i i).
Proof.
  induction i as [s | s | l IH | l IH | h l IH] using inline_ind'; cbn [md_i ref_i ser]; unfold tpl.
  - reflexivity.
  - cbn [flat_map]. now rewrite app_nil_r.
  - now rewrite (flat_map_ser_map _ _ _ IH).
  - now rewrite (flat_map_ser_map _ _ _ IH).
  - now rewrite (flat_map_ser_map _ _ _ IH).
Qed.
Theorem md_block_is_ser : forall b, md_b b = ser (ref_b b).
Proof.
  induction b as [l | l | bl IH] using block_ind'; cbn [md_b ref_b ser]; unfold tpl.
  - rewrite (flat_map_ser_map md_i ref_i); [reflexivity|]. apply Forall_forall. intros x _. apply md_inline_is_ser.
  - rewrite (flat_map_ser_map md_i ref_i); [reflexivity|]. apply Forall_forall. intros x _. apply md_inline_is_ser.
  - now rewrite (flat_map_ser_map _ _ _ IH).
Qed.

(* re-reading the vuego output gives the reference DOM *)
Corollary md_agrees doc :
  forallb wf (map ref_b doc) = true -> nf_list nf (map ref_b doc) = true ->
  build (tokens (flat_map md_b doc)) [] [] = Some (map ref_b doc).
Proof.
  intros Hw Hn. rewrite (flat_map_ser_map md_b ref_b).
  - now apply ser_roundtrip.
  - apply Forall_forall. intros b _. apply md_block_is_ser.
Qed.
Print Assumptions md_agrees.

Example sample :
  let doc := [BPara [IText (bs "a < b & "); IEm [IText (bs "{{ x }}")]; ICode (bs "x<y")];
              BQuote [BPara [ILink (bs "?a=1&b=""2") [IStrong [IText (bs "l")]]]]] in
  build (tokens (flat_map md_b doc)) [] [] = Some (map ref_b doc).
Proof. vm_compute. reflexivity. Qed.
