(* Design-phase prototype (not part of any build): C09 lock discipline.
   Any number of threads, each running a straight-line program of lock
   acquisitions / releases (RWMutex: read or write mode) and reads / writes of
   shared locations, interleaved by an arbitrary schedule.  If every program is
   DISCIPLINED - each write of x happens while holding guard(x) in write mode,
   each read of x while holding guard(x) in some mode - then no reachable state
   is RACY (two different threads simultaneously about to perform conflicting
   accesses).  Unbounded in the number of threads and in the schedule. *)
From Coq Require Import List Bool Arith Lia.
Import ListNotations.

Definition thread := nat. Definition lock := nat. Definition loc := nat.
Inductive action := Acq (l : lock) (w : bool) | Rel (l : lock) (w : bool) | Rd (x : loc) | Wr (x : loc).

Section Lockset.
Variable guard : loc -> lock.

Definition holding := (lock * bool)%type.
Definition hold_eqb (a b : holding) : bool := Nat.eqb (fst a) (fst b) && Bool.eqb (snd a) (snd b).
Fixpoint remove1 (h : holding) (hs : list holding) : list holding :=
  match hs with [] => [] | x :: r => if hold_eqb h x then r else x :: remove1 h r end.
Definition has (h : holding) (hs : list holding) : bool := existsb (hold_eqb h) hs.
Definition has_lock (l : lock) (hs : list holding) : bool := existsb (fun h => Nat.eqb (fst h) l) hs.

(* the per-program discipline, a decidable syntactic check *)
Fixpoint disciplined (hs : list holding) (p : list action) : bool :=
  match p with
  | [] => true
  | Acq l w :: r => disciplined ((l, w) :: hs) r
  | Rel l w :: r => has (l, w) hs && disciplined (remove1 (l, w) hs) r
  | Rd x :: r => has_lock (guard x) hs && disciplined hs r
  | Wr x :: r => has (guard x, true) hs && disciplined hs r
  end.

(* global state: remaining program and current holdings of every thread *)
Record state := { prog : thread -> list action; held : thread -> list holding }.
Definition upd {A} (f : thread -> A) (t : thread) (v : A) : thread -> A := fun u => if Nat.eqb u t then v else f u.

(* RWMutex: a write acquisition needs the lock free, a read acquisition needs no writer *)
Definition free_for (s : state) (t : thread) (l : lock) (w : bool) : Prop :=
  forall u, (if w then has_lock l (held s u) = false else has (l, true) (held s u) = false).

Inductive step : state -> thread -> state -> Prop :=
| SAcq s t l w r : prog s t = Acq l w :: r -> free_for s t l w ->
    step s t {| prog := upd (prog s) t r; held := upd (held s) t ((l, w) :: held s t) |}
| SRel s t l w r : prog s t = Rel l w :: r ->
    step s t {| prog := upd (prog s) t r; held := upd (held s) t (remove1 (l, w) (held s t)) |}
| SRd s t x r : prog s t = Rd x :: r -> step s t {| prog := upd (prog s) t r; held := held s |}
| SWr s t x r : prog s t = Wr x :: r -> step s t {| prog := upd (prog s) t r; held := held s |}.

Inductive reach (s0 : state) : state -> Prop :=
| RInit : reach s0 s0
| RStep s t s' : reach s0 s -> step s t s' -> reach s0 s'.

Definition next_access (s : state) (t : thread) : option (loc * bool) :=
  match prog s t with Rd x :: _ => Some (x, false) | Wr x :: _ => Some (x, true) | _ => None end.
Definition racy (s : state) : Prop :=
  exists t u x wt wu, t <> u /\ next_access s t = Some (x, wt) /\ next_access s u = Some (x, wu) /\ (wt || wu = true).

(* invariants *)
Definition excl (s : state) : Prop :=
  forall t u l, t <> u -> has (l, true) (held s t) = true -> has_lock l (held s u) = false.
Definition disc (s : state) : Prop := forall t, disciplined (held s t) (prog s t) = true.

Lemma upd_same {A} (f : thread -> A) t v : upd f t v t = v.
Proof. unfold upd. now rewrite Nat.eqb_refl. Qed.
Lemma upd_other {A} (f : thread -> A) t v u : u <> t -> upd f t v u = f u.
Proof. unfold upd. intro H. apply Nat.eqb_neq in H. now rewrite H. Qed.

Lemma hold_eqb_spec a b : hold_eqb a b = true <-> a = b.
Proof.
  destruct a as [l w], b as [l' w']. unfold hold_eqb. cbn. rewrite andb_true_iff, Nat.eqb_eq. split.
  - intros [-> H]. apply Bool.eqb_prop in H. now subst.
  - intros [= -> ->]. split; [reflexivity|apply Bool.eqb_reflx].
Qed.
Lemma has_in h hs : has h hs = true <-> In h hs.
Proof. unfold has. rewrite existsb_exists. split; [intros [x [Hx E]]; apply hold_eqb_spec in E; now subst|intro H; exists h; split; [assumption|now apply hold_eqb_spec]]. Qed.
Lemma has_lock_in l hs : has_lock l hs = true <-> exists w, In (l, w) hs.
Proof.
  unfold has_lock. rewrite existsb_exists. split.
  - intros [[l' w] [Hx E]]. cbn in E. apply Nat.eqb_eq in E. subst. eauto.
  - intros [w H]. exists (l, w). split; [assumption|apply Nat.eqb_refl].
Qed.
Lemma remove1_incl h hs x : In x (remove1 h hs) -> In x hs.
Proof. induction hs as [|y r IH]; cbn; [auto|]. destruct (hold_eqb h y); cbn; intuition. Qed.
Lemma has_write_has_lock l hs : has (l, true) hs = true -> has_lock l hs = true.
Proof. rewrite has_in, has_lock_in. eauto. Qed.

Lemma step_inv s t s' : step s t s' -> excl s -> disc s -> excl s' /\ disc s'.
Proof.
  intros Hs He Hd. pose proof (Hd t) as Hdt. inversion Hs as [? ? l w r Hp Hf | ? ? l w r Hp | ? ? x r Hp | ? ? x r Hp]; subst;
    rewrite Hp in Hdt; cbn [disciplined] in Hdt.
  - split.
    + intros a b l0 Hab Hw. cbn [held prog] in *. destruct (Nat.eq_dec a t) as [->|Ha].
      * rewrite upd_same in Hw. rewrite upd_other by auto.
        apply has_in in Hw. destruct Hw as [Heq|Hw].
        -- injection Heq as Hl Hww. subst l0 w. specialize (Hf b). cbn in Hf. exact Hf.
        -- apply He with (t := t); auto. now apply has_in.
      * rewrite upd_other in Hw by auto. destruct (Nat.eq_dec b t) as [->|Hb].
        -- rewrite upd_same. destruct (has_lock l0 ((l, w) :: held s t)) eqn:E; [|reflexivity]. exfalso.
           apply has_lock_in in E. destruct E as [w' [Heq|Hin]].
           ++ injection Heq as Hl Hww. subst l0 w'. specialize (Hf a). destruct w; [|congruence].
              apply has_write_has_lock in Hw. congruence.
           ++ assert (has_lock l0 (held s t) = true) by (apply has_lock_in; eauto).
              rewrite (He a t l0) in H; auto; discriminate.
        -- rewrite upd_other by auto. apply He with (t := a); auto.
    + intro a. cbn [held prog]. destruct (Nat.eq_dec a t) as [->|Ha]; [now rewrite !upd_same|rewrite !upd_other by auto; apply Hd].
  - apply andb_true_iff in Hdt. destruct Hdt as [_ Hdt]. split.
    + intros a b l0 Hab Hw. cbn [held prog] in *. destruct (Nat.eq_dec a t) as [->|Ha].
      * rewrite upd_same in Hw. rewrite upd_other by auto. apply He with (t := t); auto.
        apply has_in. apply has_in in Hw. eapply remove1_incl; eauto.
      * rewrite upd_other in Hw by auto. destruct (Nat.eq_dec b t) as [->|Hb].
        -- rewrite upd_same. destruct (has_lock l0 (remove1 (l, w) (held s t))) eqn:E; [|reflexivity]. exfalso.
           apply has_lock_in in E. destruct E as [w' Hin]. apply remove1_incl in Hin.
           assert (has_lock l0 (held s t) = true) by (apply has_lock_in; eauto).
           rewrite (He a t l0) in H; auto; discriminate.
        -- rewrite upd_other by auto. apply He with (t := a); auto.
    + intro a. cbn [held prog]. destruct (Nat.eq_dec a t) as [->|Ha]; [now rewrite !upd_same|rewrite !upd_other by auto; apply Hd].
  - apply andb_true_iff in Hdt. destruct Hdt as [_ Hdt]. split; [exact He|].
    intro a. cbn [held prog]. destruct (Nat.eq_dec a t) as [->|Ha]; [now rewrite upd_same|rewrite upd_other by auto; apply Hd].
  - apply andb_true_iff in Hdt. destruct Hdt as [_ Hdt]. split; [exact He|].
    intro a. cbn [held prog]. destruct (Nat.eq_dec a t) as [->|Ha]; [now rewrite upd_same|rewrite upd_other by auto; apply Hd].
Qed.

Lemma not_racy s : excl s -> disc s -> ~ racy s.
Proof.
  intros He Hd (t & u & x & wt & wu & Htu & Ht & Hu & Hw).
  unfold next_access in *. pose proof (Hd t) as Dt. pose proof (Hd u) as Du.
  destruct (prog s t) as [|[| |xt|xt] rt]; try discriminate; destruct (prog s u) as [|[| |xu|xu] ru]; try discriminate;
    injection Ht as Hx1 Hw1; injection Hu as Hx2 Hw2; subst xt xu wt wu; cbn in Hw; try discriminate;
    cbn [disciplined] in Dt, Du; apply andb_true_iff in Dt, Du; destruct Dt as [Dt _], Du as [Du _].
  - (* read / write *) rewrite (He u t (guard x)) in Dt; auto; discriminate.
  - (* write / read *) rewrite (He t u (guard x)) in Du; auto; discriminate.
  - (* write / write *) apply has_write_has_lock in Du. rewrite (He t u (guard x)) in Du; auto; discriminate.
Qed.

Theorem lockset_sound (progs : thread -> list action) :
  (forall t, disciplined [] (progs t) = true) ->
  forall s, reach {| prog := progs; held := fun _ => [] |} s -> ~ racy s.
Proof.
  intros Hp s Hr. assert (H : excl s /\ disc s).
  { induction Hr as [|s t s' _ IH Hs].
    - split; [intros t u l _ Hw; cbn in Hw; discriminate|intro t; apply Hp].
    - destruct IH. eapply step_inv; eauto. }
  destruct H. now apply not_racy.
Qed.
End Lockset.
Print Assumptions lockset_sound.

(* the cache pattern of loadCachedWithFrontMatter: RLock; read map; RUnlock; ... Lock; write map; Unlock *)
Example cache_program_disciplined :
  disciplined (fun _ => 0) [] [Acq 0 false; Rd 5; Rel 0 false; Acq 0 true; Wr 5; Rel 0 true] = true.
Proof. reflexivity. Qed.
(* the unchanged getCachedPath: len(m) read outside the lock *)
Example pathcache_len_undisciplined :
  disciplined (fun _ => 0) [] [Acq 0 false; Rd 5; Rel 0 false; Rd 5; Acq 0 true; Wr 5; Rel 0 true] = false.
Proof. reflexivity. Qed.
