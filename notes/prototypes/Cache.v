(* Design-phase prototype (not part of any build): C15 template cache.
   Model of Vue.loadCachedWithFrontMatter (with candidate O: a Stat error is a
   miss) as a state machine over an in-memory filesystem with explicit mtimes;
   invariant + theorem: after ANY history of edits / deletes / renders in which
   an edit never re-uses the mtime currently remembered by the cache, a render
   through the cache returns exactly what a fresh engine returns. *)
From Coq Require Import List Bool Arith Lia.
Import ListNotations.

Section Cache.
Variables content parsed : Type.
Variable parse : content -> parsed.        (* front-matter + DOM; a pure function of the bytes *)
Definition name := nat.
Definition mtime := nat.                   (* 0 = the filesystem reports no mtime *)

Record state := { files : name -> option (content * mtime);
                  cache : name -> option (parsed * mtime) }.
Definition upd {A} (m : name -> option A) (k : name) (v : option A) : name -> option A :=
  fun x => if Nat.eqb x k then v else m x.

Inductive op := Edit (f : name) (c : content) (t : mtime) | Delete (f : name) | Render (f : name).
Inductive out := ONone | OOk (p : parsed) | OErr.

Definition render_fresh (fs : name -> option (content * mtime)) (f : name) : out :=
  match fs f with Some (c, _) => OOk (parse c) | None => OErr end.

Definition render_cached (s : state) (f : name) : state * out :=
  match files s f with
  | None => (s, OErr)                                        (* Stat fails: miss, then the read fails *)
  | Some (c, t) =>
      match cache s f with
      | Some (p, tc) =>
          if Nat.eqb t 0 || Nat.eqb tc t then (s, OOk p)      (* hit *)
          else ({| files := files s; cache := upd (cache s) f (Some (parse c, t)) |}, OOk (parse c))
      | None => ({| files := files s; cache := upd (cache s) f (Some (parse c, t)) |}, OOk (parse c))
      end
  end.

Definition step (s : state) (o : op) : state * out :=
  match o with
  | Edit f c t => ({| files := upd (files s) f (Some (c, t)); cache := cache s |}, ONone)
  | Delete f => ({| files := upd (files s) f None; cache := cache s |}, ONone)
  | Render f => render_cached s f
  end.

(* the guard of the property: mtimes exist and an edit changes the mtime the cache remembers *)
Definition guard (s : state) (o : op) : Prop :=
  match o with
  | Edit f _ t => t <> 0 /\ (forall p tc, cache s f = Some (p, tc) -> tc <> t)
  | _ => True
  end.

Definition coherent (s : state) : Prop :=
  forall f p tc c t, cache s f = Some (p, tc) -> files s f = Some (c, t) -> tc = t -> p = parse c.
Definition timed (s : state) : Prop := forall f c t, files s f = Some (c, t) -> t <> 0.

Lemma upd_same {A} (m : name -> option A) k v : upd m k v k = v.
Proof. unfold upd. now rewrite Nat.eqb_refl. Qed.
Lemma upd_other {A} (m : name -> option A) k v x : x <> k -> upd m k v x = m x.
Proof. unfold upd. intro H. apply Nat.eqb_neq in H. now rewrite H. Qed.

Lemma step_inv s o : coherent s -> timed s -> guard s o ->
  coherent (fst (step s o)) /\ timed (fst (step s o)).
Proof.
  intros Hc Ht Hg. destruct o as [f c t | f | f]; cbn [step fst].
  - destruct Hg as [Ht0 Hg]. split.
    + intros g p tc c' t' Hca Hfi Heq. cbn in *. destruct (Nat.eq_dec g f) as [->|Hne].
      * rewrite upd_same in Hfi. injection Hfi as <- <-. exfalso. eapply Hg; eauto.
      * rewrite upd_other in Hfi by assumption. eapply Hc; eauto.
    + intros g c' t' Hfi. cbn in *. destruct (Nat.eq_dec g f) as [->|Hne].
      * rewrite upd_same in Hfi. now injection Hfi as <- <-.
      * rewrite upd_other in Hfi by assumption. eapply Ht; eauto.
  - split.
    + intros g p tc c' t' Hca Hfi Heq. cbn in *. destruct (Nat.eq_dec g f) as [->|Hne].
      * rewrite upd_same in Hfi. discriminate.
      * rewrite upd_other in Hfi by assumption. eapply Hc; eauto.
    + intros g c' t' Hfi. cbn in *. destruct (Nat.eq_dec g f) as [->|Hne].
      * rewrite upd_same in Hfi. discriminate.
      * rewrite upd_other in Hfi by assumption. eapply Ht; eauto.
  - unfold render_cached. destruct (files s f) as [[c t]|] eqn:Ef; [|auto].
    assert (Hnew : coherent {| files := files s; cache := upd (cache s) f (Some (parse c, t)) |}).
    { intros g p tc c' t' Hca Hfi Heq. cbn in *. destruct (Nat.eq_dec g f) as [->|Hne].
      - rewrite upd_same in Hca. injection Hca as <- <-. congruence.
      - rewrite upd_other in Hca by assumption. eapply Hc; eauto. }
    destruct (cache s f) as [[p tc]|]; [|split; [exact Hnew|exact Ht]].
    destruct (Nat.eqb t 0 || Nat.eqb tc t); split; auto.
Qed.

(* one render through the cache answers like a fresh engine *)
Lemma render_agrees s f : coherent s -> timed s -> snd (render_cached s f) = render_fresh (files s) f.
Proof.
  intros Hc Ht. unfold render_cached, render_fresh. destruct (files s f) as [[c t]|] eqn:Ef; [|reflexivity].
  destruct (cache s f) as [[p tc]|] eqn:Ec; [|reflexivity].
  destruct (Nat.eqb t 0 || Nat.eqb tc t) eqn:E; [|reflexivity]. cbn. f_equal.
  apply orb_true_iff in E. destruct E as [E|E]; apply Nat.eqb_eq in E.
  - exfalso. eapply Ht; eauto.
  - eapply Hc; eauto.
Qed.

(* histories *)
Fixpoint run (s : state) (ops : list op) : state :=
  match ops with [] => s | o :: r => run (fst (step s o)) r end.
Fixpoint guarded (s : state) (ops : list op) : Prop :=
  match ops with [] => True | o :: r => guard s o /\ guarded (fst (step s o)) r end.

Definition init (fs : name -> option (content * mtime)) : state := {| files := fs; cache := fun _ => None |}.

Theorem cached_equals_fresh fs ops f :
  (forall g c t, fs g = Some (c, t) -> t <> 0) ->
  guarded (init fs) ops ->
  let s := run (init fs) ops in
  snd (render_cached s f) = render_fresh (files s) f.
Proof.
  intros Ht0 Hg. cbn zeta.
  assert (H : coherent (run (init fs) ops) /\ timed (run (init fs) ops)).
  { assert (Hi : coherent (init fs) /\ timed (init fs)).
    { split; [intros g p tc c t Hca; discriminate | exact Ht0]. }
    revert Hi Hg. generalize (init fs). induction ops as [|o r IH]; intros s Hi Hg; cbn in *; [exact Hi|].
    destruct Hi as [Hc Ht]. destruct Hg as [Hgo Hgr]. apply IH; [|assumption].
    apply step_inv; assumption. }
  destruct H. now apply render_agrees.
Qed.

(* a failed load leaves no entry *)
Theorem failed_load_leaves_no_entry s f : files s f = None -> cache (fst (render_cached s f)) = cache s.
Proof. intro H. unfold render_cached. now rewrite H. Qed.
End Cache.
Print Assumptions cached_equals_fresh.
