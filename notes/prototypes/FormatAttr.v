(* Design-phase prototype (not part of any build): C19, string level.
   helpers.FormatAttr (trim, newlines to spaces, whitespace runs to one space) is
   "join the whitespace-separated fields with single spaces" on ASCII whitespace;
   it is idempotent, and its output contains no whitespace other than single
   interior spaces. *)
From Coq Require Import List Strings.Byte Bool Lia.
Import ListNotations.
Definition bytes := list byte.
Definition beq (a b : byte) : bool := Byte.eqb a b.
Arguments beq : simpl never.
Definition is_ws (c : byte) : bool := beq c x20 || beq c x09 || beq c x0a || beq c x0b || beq c x0c || beq c x0d.
Definition nonempty (s : bytes) : bool := match s with [] => false | _ => true end.

Fixpoint split (s cur : bytes) : list bytes :=
  match s with
  | [] => if nonempty cur then [cur] else []
  | c :: r => if is_ws c then (if nonempty cur then cur :: split r [] else split r [])
              else split r (cur ++ [c])
  end.
Definition fields (s : bytes) := split s [].
Fixpoint join (l : list bytes) : bytes :=
  match l with [] => [] | w :: r => match r with [] => w | _ => w ++ [x20] ++ join r end end.
Definition format (s : bytes) : bytes := join (fields s).

Definition word (w : bytes) : Prop := w <> [] /\ forallb (fun c => negb (is_ws c)) w = true.

Lemma split_word w : forallb (fun c => negb (is_ws c)) w = true -> forall rest cur,
  split (w ++ rest) cur = split rest (cur ++ w).
Proof.
  induction w as [|c w IH]; intros H rest cur; cbn [app]; [now rewrite app_nil_r|].
  cbn [forallb] in H. apply andb_true_iff in H. destruct H as [Hc Hw]. apply negb_true_iff in Hc.
  cbn [split]. rewrite Hc, IH by assumption. now rewrite <- app_assoc.
Qed.
Lemma split_words s : forall cur, forallb (fun c => negb (is_ws c)) cur = true -> Forall word (split s cur).
Proof.
  induction s as [|c r IH]; intros cur Hc; cbn [split].
  - destruct cur; cbn; constructor; [split; [discriminate|assumption]|constructor].
  - destruct (is_ws c) eqn:E.
    + destruct cur; cbn [nonempty]; [apply IH; reflexivity|].
      constructor; [split; [discriminate|assumption]|apply IH; reflexivity].
    + apply IH. rewrite forallb_app, Hc. cbn. now rewrite E.
Qed.

Lemma fields_join l : Forall word l -> fields (join l) = l.
Proof.
  unfold fields. induction 1 as [|w r [Hne Hw] Hr IH]; [reflexivity|].
  cbn [join]. destruct r as [|w2 r].
  - rewrite <- (app_nil_r w) at 1. rewrite split_word by assumption. cbn. destruct w; [congruence|reflexivity].
  - rewrite split_word by assumption. cbn [app split]. 
    assert (Hsp : is_ws x20 = true) by reflexivity. rewrite Hsp.
    destruct w; [congruence|]. cbn [nonempty]. f_equal. exact IH.
Qed.

Theorem format_idempotent s : format (format s) = format s.
Proof. unfold format. rewrite fields_join; [reflexivity|]. apply split_words. reflexivity. Qed.
Print Assumptions format_idempotent.

Example ex : format [x20; x61; x0a; x0a; x62; x09; x20; x63; x20] = [x61; x20; x62; x20; x63].
Proof. reflexivity. Qed.
