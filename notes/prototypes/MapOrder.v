(* Design-phase prototype (not part of any build): C10, a map-range site.
   Go ranges over a map in an arbitrary order; the model passes the order as a
   permutation.  Merging a map (unique keys) into an accumulator gives the same
   lookup result for every key whatever the order: the shape of
   range_order_irrelevant for EnvMap, Fill, the front-matter Set loop.
   The refuted twin: APPENDING the entries to a list (what evalAttributes does with
   bound attributes on the unchanged tree) does depend on the order. *)
From Coq Require Import List Bool Arith Lia Sorting.Permutation.
Import ListNotations.
Section M.
Variable val : Type.
Definition name := nat.
Definition scope := list (name * val).
Fixpoint assoc (m : scope) (k : name) : option val :=
  match m with [] => None | (k', v) :: r => if Nat.eqb k' k then Some v else assoc r k end.
Fixpoint put (m : scope) (k : name) (v : val) : scope :=
  match m with
  | [] => [(k, v)]
  | (k', v') :: r => if Nat.eqb k' k then (k, v) :: r else (k', v') :: put r k v
  end.
Lemma assoc_put m k v x : assoc (put m k v) x = if Nat.eqb k x then Some v else assoc m x.
Proof.
  induction m as [|[k' v'] r IH]; cbn; [reflexivity|].
  destruct (Nat.eqb k' k) eqn:E; cbn.
  - apply Nat.eqb_eq in E. subst. destruct (Nat.eqb k x); reflexivity.
  - rewrite IH. destruct (Nat.eqb k' x) eqn:E2; [|reflexivity].
    apply Nat.eqb_eq in E2. subst. rewrite Nat.eqb_sym in E. now rewrite E.
Qed.
Definition merge (acc : scope) (entries : scope) : scope :=
  fold_left (fun a kv => put a (fst kv) (snd kv)) entries acc.

(* lookup after merging entries with unique keys *)
Lemma assoc_merge entries : NoDup (map fst entries) -> forall acc x,
  assoc (merge acc entries) x = match assoc entries x with Some v => Some v | None => assoc acc x end.
Proof.
  unfold merge. induction entries as [|[k v] r IH]; intros Hnd acc x; cbn; [reflexivity|].
  inversion Hnd as [|? ? Hk Hr]; subst. rewrite IH by assumption. rewrite assoc_put.
  destruct (Nat.eqb k x) eqn:E; [|reflexivity]. apply Nat.eqb_eq in E. subst.
  destruct (assoc r x) eqn:Ea; [|reflexivity]. exfalso. apply Hk.
  clear -Ea. induction r as [|[a b] r IH]; cbn in *; [discriminate|].
  destruct (Nat.eqb a x) eqn:E; [apply Nat.eqb_eq in E; auto|auto].
Qed.
Lemma assoc_perm a b : Permutation a b -> NoDup (map fst a) -> forall x, assoc a x = assoc b x.
Proof.
  induction 1 as [| [k v] a b Hp IH | [k v] [k' v'] a | a b c H1 IH1 H2 IH2]; intros Hnd x; cbn.
  - reflexivity.
  - inversion Hnd; subst. rewrite IH by assumption. reflexivity.
  - inversion Hnd as [|? ? Hk Hr]; subst. cbn in Hk.
    destruct (Nat.eqb k' x) eqn:E1, (Nat.eqb k x) eqn:E2; try reflexivity.
    apply Nat.eqb_eq in E1, E2. subst. exfalso. apply Hk. auto.
  - rewrite IH1 by assumption. apply IH2. eapply Permutation_NoDup; [|exact Hnd]. now apply Permutation_map.
Qed.

Theorem range_order_irrelevant acc e1 e2 : Permutation e1 e2 -> NoDup (map fst e1) ->
  forall x, assoc (merge acc e1) x = assoc (merge acc e2) x.
Proof.
  intros Hp Hnd x. rewrite !assoc_merge; try assumption.
  - now rewrite (assoc_perm _ _ Hp Hnd).
  - eapply Permutation_NoDup; [|exact Hnd]. now apply Permutation_map.
Qed.
End M.
Print Assumptions range_order_irrelevant.

(* the refuted twin: appending depends on the order *)
Definition append_all (acc entries : list (nat * nat)) := acc ++ entries.
Example append_order_matters : exists e1 e2, Permutation e1 e2 /\ append_all [] e1 <> append_all [] e2.
Proof. exists [(1, 10); (2, 20)], [(2, 20); (1, 10)]. split; [apply perm_swap|discriminate]. Qed.
