(* Design-phase prototype (not part of any build): C08 precedence of data sources.
   Maps are assoc lists read first-match; "overlay a over b" = a ++ b.  The model
   follows the code's merges: NewFS builds the config (data files over theme),
   Fill rebuilds the root scope (front-matter over passed data over config),
   Assign writes on top, Load copies the parent's environment and assigns the
   file's front-matter on top, and the render re-applies the cached front-matter
   over whatever it is handed.  Theorem: for every key the rendered value is the
   first defined among front-matter, Fill/Assign layer, data files (last file
   wins), theme - for every history of Assign calls after the Fill. *)
From Coq Require Import List Bool Arith Lia.
Import ListNotations.
Section Sources.
Variable val : Type.
Definition name := nat.
Definition scope := list (name * val).
Fixpoint assoc (m : scope) (k : name) : option val :=
  match m with [] => None | (k', v) :: r => if Nat.eqb k' k then Some v else assoc r k end.
Lemma assoc_app a b k : assoc (a ++ b) k = match assoc a k with Some v => Some v | None => assoc b k end.
Proof. induction a as [|[x y] r IH]; cbn; [reflexivity|]. destruct (Nat.eqb x k); auto. Qed.
Definition orelse (a b : option val) : option val := match a with Some v => Some v | None => b end.
Notation "a <|> b" := (orelse a b) (at level 60, right associativity).

(* engine construction: theme.yml first, then data/*.yml in directory order, later overriding *)
Definition config (theme : scope) (datafiles : list scope) : scope :=
  fold_left (fun acc f => f ++ acc) datafiles theme.
Fixpoint last_wins (datafiles : list scope) (k : name) : option val :=
  match datafiles with [] => None | f :: r => last_wins r k <|> assoc f k end.
Lemma assoc_config datafiles : forall theme k,
  assoc (config theme datafiles) k = last_wins datafiles k <|> assoc theme k.
Proof.
  unfold config. induction datafiles as [|f r IH]; intros theme k; cbn; [reflexivity|].
  rewrite IH, assoc_app. destruct (last_wins r k); cbn; [reflexivity|]. destruct (assoc f k); reflexivity.
Qed.

(* a loaded template: Load (front-matter fm), then Fill d, then some Assigns, then Render *)
Definition fill (cfg d fm : scope) : scope := fm ++ d ++ cfg.                  (* template.Fill *)
Definition assign (root : scope) (k : name) (v : val) : scope := (k, v) :: root.  (* template.Assign: top of the single scope *)
Definition render_env (fm root : scope) : scope := fm ++ root.                  (* Vue.Render: cached front-matter over the data it is handed *)

Definition assigns (root : scope) (ops : list (name * val)) : scope :=
  fold_left (fun r kv => assign r (fst kv) (snd kv)) ops root.
Lemma assoc_assigns ops : forall root k, assoc (assigns root ops) k = assoc (rev ops) k <|> assoc root k.
Proof.
  unfold assigns. induction ops as [|[a b] r IH]; intros root k; cbn; [reflexivity|].
  rewrite IH, assoc_app. cbn. destruct (assoc (rev r) k); cbn; [reflexivity|].
  destruct (Nat.eqb a k); reflexivity.
Qed.

Theorem visible_value theme datafiles d fm ops k :
  assoc (render_env fm (assigns (fill (config theme datafiles) d fm) ops)) k =
  assoc fm k <|> (assoc (rev ops) k <|> assoc d k) <|> last_wins datafiles k <|> assoc theme k.
Proof.
  unfold render_env, fill. rewrite assoc_app, assoc_assigns, !assoc_app, assoc_config.
  destruct (assoc fm k); cbn; [reflexivity|].
  destruct (assoc (rev ops) k); cbn; [reflexivity|]. destruct (assoc d k); reflexivity.
Qed.
(* Get reads the template's own stack, without the render's re-merge: an Assign made
   after Load shadows the front-matter there (row 31 of DESIGN section 7) *)
Theorem get_differs_from_render :
  forall (fm : scope) (k : name) (v w : val), assoc fm k = Some w ->
  assoc (assigns (fill [] [] fm) [(k, v)]) k = Some v /\
  assoc (render_env fm (assigns (fill [] [] fm) [(k, v)])) k = Some w.
Proof.
  intros fm k v w H. split.
  - cbn. now rewrite Nat.eqb_refl.
  - unfold render_env. rewrite assoc_app, H. reflexivity.
Qed.
End Sources.
Print Assumptions visible_value.
