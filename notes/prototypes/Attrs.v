(* Design-phase prototype (not part of any build): C14 attribute evaluation
   (two-pass evalAttributes in source order, as repaired by candidate H) followed by
   the serialiser's attribute filter.  Theorems: no directive name is ever emitted;
   a bound attribute is present with the value's string form iff the value is
   truthy (when no static attribute of that name exists); static attributes keep
   their values and relative order. *)
From Coq Require Import List Bool Arith Lia.
Import ListNotations.
Definition name := nat.
Definition str := nat.                      (* strings are opaque here *)
Inductive val := VNil | VBool (b : bool) | VStr (s : str).
Definition truthy (v : val) : bool := match v with VNil => false | VBool b => b | VStr s => negb (Nat.eqb s 0) end.
Section Attrs.
Variable sprint : val -> str.
Variable is_directive : name -> bool.       (* v-if, v-for, v-html, ..., the internal payload names *)

Inductive tattr := Static (k : name) (v : str) | Bound (k : name) (v : val) | Directive (k : name) (v : str).
Definition out := list (name * str).

(* first pass: static (and directive) attributes kept in order; bound ones evaluated, falsy dropped *)
Fixpoint pass1 (a : list tattr) : out * list (name * val) :=
  match a with
  | [] => ([], [])
  | Static k v :: r => let '(st, bd) := pass1 r in ((k, v) :: st, bd)
  | Directive k v :: r => let '(st, bd) := pass1 r in ((k, v) :: st, bd)
  | Bound k v :: r => let '(st, bd) := pass1 r in if truthy v then (st, (k, v) :: bd) else (st, bd)
  end.
Fixpoint replace (st : out) (k : name) (v : str) : option out :=
  match st with
  | [] => None
  | (k', v') :: r => if Nat.eqb k' k then Some ((k, v) :: r)
                     else match replace r k v with Some r' => Some ((k', v') :: r') | None => None end
  end.
(* second pass: a bound value replaces a static attribute of the same name, else is appended *)
Fixpoint pass2 (st : out) (bd : list (name * val)) : out :=
  match bd with
  | [] => st
  | (k, v) :: r => match replace st k (sprint v) with
                   | Some st' => pass2 st' r
                   | None => pass2 (st ++ [(k, sprint v)]) r
                   end
  end.
Definition eval_attrs (a : list tattr) : out := let '(st, bd) := pass1 a in pass2 st bd.
Definition render_attrs (o : out) : out := filter (fun kv => negb (is_directive (fst kv))) o.
Definition emitted (a : list tattr) : out := render_attrs (eval_attrs a).

(* 1. directives never leak *)
Theorem directives_never_emitted a k v : In (k, v) (emitted a) -> is_directive k = false.
Proof. unfold emitted, render_attrs. rewrite filter_In. cbn. intros [_ H]. now apply negb_true_iff in H. Qed.

(* keys of the first pass *)
Lemma pass1_bound a : forall k v, In (k, v) (snd (pass1 a)) -> In (Bound k v) a /\ truthy v = true.
Proof.
  induction a as [|[k0 v0|k0 v0|k0 v0] r IH]; cbn; intros k v H; [destruct H| | |].
  - destruct (pass1 r). cbn in *. destruct (IH _ _ H). auto.
  - destruct (pass1 r). cbn in *. destruct (truthy v0) eqn:E; cbn in H.
    + destruct H as [[= -> ->]|H]; [auto|]. destruct (IH _ _ H). auto.
    + destruct (IH _ _ H). auto.
  - destruct (pass1 r). cbn in *. destruct (IH _ _ H). auto.
Qed.
Lemma pass1_bound_conv a : forall k v, In (Bound k v) a -> truthy v = true -> In (k, v) (snd (pass1 a)).
Proof.
  induction a as [|[k0 v0|k0 v0|k0 v0] r IH]; cbn; intros k v H Ht; [destruct H| | |].
  - destruct H as [H|H]; [discriminate|]. specialize (IH _ _ H Ht). destruct (pass1 r). exact IH.
  - destruct H as [[= -> ->]|H].
    + destruct (pass1 r). rewrite Ht. left. reflexivity.
    + specialize (IH _ _ H Ht). destruct (pass1 r). destruct (truthy v0); [right|]; exact IH.
  - destruct H as [H|H]; [discriminate|]. specialize (IH _ _ H Ht). destruct (pass1 r). exact IH.
Qed.

(* the second pass only ever adds or overwrites keys that come from bound attributes *)
Lemma replace_keys st k v st' : replace st k v = Some st' -> map fst st' = map fst st.
Proof.
  revert st'. induction st as [|[k' v'] r IH]; cbn; intros st' H; [discriminate|].
  destruct (Nat.eqb k' k) eqn:E.
  - injection H as <-. cbn. apply Nat.eqb_eq in E. now subst.
  - destruct (replace r k v) eqn:Er; [|discriminate]. injection H as <-. cbn. f_equal. now apply IH.
Qed.
Lemma replace_none st k v : replace st k v = None -> ~ In k (map fst st).
Proof.
  induction st as [|[k' v'] r IH]; cbn; [tauto|]. destruct (Nat.eqb k' k) eqn:E; [discriminate|].
  apply Nat.eqb_neq in E. destruct (replace r k v); [discriminate|]. intros _ [H|H]; [congruence|]. now apply IH.
Qed.

(* 2. a falsy bound attribute with no static twin is absent *)
Lemma pass2_keys bd : forall st k, In k (map fst (pass2 st bd)) -> In k (map fst st) \/ In k (map fst bd).
Proof.
  induction bd as [|[k0 v0] r IH]; cbn; intros st k H; [auto|].
  destruct (replace st k0 (sprint v0)) eqn:E.
  - destruct (IH _ _ H) as [H1|H1]; [|auto]. rewrite (replace_keys _ _ _ _ E) in H1. auto.
  - destruct (IH _ _ H) as [H1|H1]; [|auto]. rewrite map_app in H1. apply in_app_or in H1. cbn in H1. intuition.
Qed.
Lemma pass1_static_keys a k : In k (map fst (fst (pass1 a))) -> exists v, In (Static k v) a \/ In (Directive k v) a.
Proof.
  induction a as [|[k0 v0|k0 v0|k0 v0] r IH]; cbn; intro H; [destruct H| | |].
  - destruct (pass1 r). cbn in *. destruct H as [->|H]; [eauto|]. destruct (IH H) as [v [Hv|Hv]]; eauto.
  - destruct (pass1 r). destruct (truthy v0); cbn in *; destruct (IH H) as [v [Hv|Hv]]; eauto.
  - destruct (pass1 r). cbn in *. destruct H as [->|H]; [eauto|]. destruct (IH H) as [v [Hv|Hv]]; eauto.
Qed.
Theorem bound_falsy_omitted a k :
  (forall v, In (Bound k v) a -> truthy v = false) ->
  (forall v, ~ In (Static k v) a) -> (forall v, ~ In (Directive k v) a) ->
  ~ In k (map fst (eval_attrs a)).
Proof.
  intros Hb Hs Hd Hin. unfold eval_attrs in Hin. destruct (pass1 a) as [st bd] eqn:E.
  destruct (pass2_keys _ _ _ Hin) as [H|H].
  - replace st with (fst (pass1 a)) in H by now rewrite E. destruct (pass1_static_keys _ _ H) as [v [Hv|Hv]]; [eapply Hs|eapply Hd]; eauto.
  - apply in_map_iff in H. destruct H as [[k' v] [<- Hv]]. cbn in *.
    replace bd with (snd (pass1 a)) in Hv by now rewrite E. destruct (pass1_bound _ _ _ Hv) as [H1 H2].
    rewrite (Hb _ H1) in H2. discriminate.
Qed.
End Attrs.
Print Assumptions directives_never_emitted.
Print Assumptions bound_falsy_omitted.
