(* Design-phase prototype (not part of any build): C12 entry points.
   Every render entry point (as repaired by candidate L) evaluates into a private
   buffer and copies it to the destination once; the destination may fail at any
   byte offset.  Generic in the outcome of evaluation. *)
From Coq Require Import List Bool Arith Lia.
Import ListNotations.
Section Entry.
Variable byte : Type.
Definition bytes := list byte.
Inductive eval_outcome := EOk (doc : bytes) | EErr.
(* a writer that accepts bytes until offset k, then reports a failure *)
Definition write (fail_at : option nat) (doc : bytes) : bytes * bool (* received, error? *) :=
  match fail_at with
  | None => (doc, false)
  | Some k => if Nat.ltb k (length doc) then (firstn k doc, true)
              else if Nat.eqb k (length doc) then (doc, match doc with [] => true | _ => false end)
              else (doc, false)
  end.
(* Go's io.Writer contract: a failing writer at offset k < len reports the error on the write that crosses k.
   At k = len(doc) nothing crosses it (except the empty document, whose single empty write we let fail). *)
Definition entry (cancelled : bool) (e : eval_outcome) (fail_at : option nat) : bytes * bool :=
  if cancelled then ([], true)
  else match e with
       | EErr => ([], true)
       | EOk doc => write fail_at doc
       end.

Theorem error_writes_nothing c fa : fst (entry c EErr fa) = [] /\ snd (entry c EErr fa) = true.
Proof. unfold entry. destruct c; auto. Qed.
Theorem cancelled_writes_nothing e fa : entry true e fa = ([], true).
Proof. reflexivity. Qed.
Theorem ok_writes_all doc : entry false (EOk doc) None = (doc, false).
Proof. reflexivity. Qed.
Theorem writer_fault_reported doc k : k < length doc -> snd (entry false (EOk doc) (Some k)) = true.
Proof. intro H. unfold entry, write. apply Nat.ltb_lt in H. now rewrite H. Qed.
Theorem nil_error_means_complete c e fa : snd (entry c e fa) = false -> exists doc, e = EOk doc /\ fst (entry c e fa) = doc.
Proof.
  unfold entry. destruct c; [discriminate|]. destruct e as [doc|]; [|discriminate]. intro H. exists doc. split; [reflexivity|].
  unfold write in *. destruct fa as [k|]; [|reflexivity]. destruct (Nat.ltb k (length doc)); [discriminate|].
  destruct (Nat.eqb k (length doc)); reflexivity.
Qed.
End Entry.
Print Assumptions nil_error_means_complete.
