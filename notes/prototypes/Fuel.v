(* Design-phase prototype (not part of any build): C11 bounded recursion.
   Components include components; the inclusion chain is limited to L links (as
   repaired by candidate K).  For EVERY file set - including self-inclusion and
   every cycle shape - evaluation with fuel  size(t) + (L - d) * (M + 1)  never
   runs out of fuel, where M bounds the size of a component: the logical content
   of "recursion through includes is bounded". *)
From Coq Require Import List Bool Arith Lia.
Import ListNotations.
Definition name := nat.
Inductive tnode := TLeaf | TElem (kids : list tnode) | TInclude (f : name).
Inductive res := Ok (n : nat) | ErrDepth | ErrMissing | OutOfFuel.

Fixpoint sz (t : tnode) : nat :=
  match t with TLeaf => 1 | TInclude _ => 1 | TElem kids => 1 + fold_right (fun k a => sz k + a) 0 kids end.
Definition szl (ts : list tnode) : nat := fold_right (fun k a => sz k + a) 0 ts.

Section Fuel.
Variable files : name -> option (list tnode).
Variable L M : nat.
Hypothesis files_small : forall f comp, files f = Some comp -> szl comp <= M.

Section With.
  Variable ev : tnode -> res.
  Fixpoint evals (ts : list tnode) : res :=
    match ts with
    | [] => Ok 0
    | t :: r => match ev t with
                | Ok a => match evals r with Ok b => Ok (a + b) | e => e end
                | e => e
                end
    end.
End With.

Fixpoint eval (fuel d : nat) (t : tnode) : res :=
  match fuel with O => OutOfFuel | S f =>
  match t with
  | TLeaf => Ok 1
  | TElem kids => evals (eval f d) kids
  | TInclude g =>
      if Nat.leb L d then ErrDepth
      else match files g with
           | None => ErrMissing
           | Some comp => evals (eval f (S d)) comp
           end
  end end.

Definition enough (fuel d n : nat) : Prop := n + (L - d) * (M + 1) <= fuel.

Lemma evals_fuel ev ts : (forall t, In t ts -> ev t <> OutOfFuel) -> evals ev ts <> OutOfFuel.
Proof.
  induction ts as [|t r IH]; intro H; cbn; [discriminate|].
  pose proof (H t (or_introl eq_refl)) as Ht. destruct (ev t); try congruence.
  assert (Hr : evals ev r <> OutOfFuel) by (apply IH; intros x Hx; apply H; right; assumption).
  destruct (evals ev r); congruence.
Qed.
Lemma sz_in t ts : In t ts -> sz t <= szl ts.
Proof.
  induction ts as [|x r IH]; [intros []|]. unfold szl. cbn [fold_right]. fold (szl r).
  intros [->|H]; [lia|]. specialize (IH H). lia.
Qed.
Lemma sz_pos t : 1 <= sz t.
Proof. destruct t; cbn; lia. Qed.

Theorem eval_fuel_bound : forall fuel d t, d <= L -> enough fuel d (sz t) -> eval fuel d t <> OutOfFuel.
Proof.
  induction fuel as [|f IH]; intros d t Hd He.
  - unfold enough in He. pose proof (sz_pos t). remember ((L - d) * (M + 1)) as z. lia.
  - destruct t as [|kids|g]; cbn [eval]; [discriminate| |].
    + apply evals_fuel. intros k Hk. apply IH; [assumption|].
      unfold enough in *. cbn [sz] in He. fold (szl kids) in He. pose proof (sz_in _ _ Hk).
      remember ((L - d) * (M + 1)) as z. lia.
    + destruct (Nat.leb L d) eqn:E; [discriminate|]. apply Nat.leb_gt in E.
      destruct (files g) as [comp|] eqn:Ef; [|discriminate].
      apply evals_fuel. intros k Hk. apply IH; [lia|].
      unfold enough in *. cbn [sz] in He. pose proof (sz_in _ _ Hk). pose proof (files_small _ _ Ef).
      replace (L - d) with (S (L - S d)) in He by lia. cbn [Nat.mul] in He.
      remember ((L - S d) * (M + 1)) as z. lia.
Qed.
End Fuel.
Print Assumptions eval_fuel_bound.

(* a component that includes itself: an error, not divergence *)
Example self_include :
  eval (fun _ => Some [TElem [TLeaf; TInclude 0]]) 3 20 0 (TInclude 0) = ErrDepth.
Proof. reflexivity. Qed.
