(* Design-phase prototype (not part of any build): C09 item 3, cache transparency.
   Threads share a cache of a pure function (parsed templates by file name,
   compiled programs by expression text, split paths by path text).  A lookup is
   two atomic steps - read under the read lock, then (on a miss) compute and store
   under the write lock - so fills by different threads interleave arbitrarily and
   may overwrite each other.  For EVERY schedule every lookup returns f(key): the
   result of a render does not depend on what other renders did to the caches. *)
From Coq Require Import List Bool Arith Lia.
Import ListNotations.
Section C.
Variable value : Type.
Variable f : nat -> value.                       (* parse / compile / split: pure *)
Definition cache := nat -> option value.
Definition upd (c : cache) (k : nat) (v : value) : cache := fun x => if Nat.eqb x k then Some v else c x.

(* a thread works through a list of keys; pc tells whether it is between the read and the fill *)
Inductive phase := Idle | Missed (k : nat).
Record tstate := { todo : list nat; ph : phase; results : list value }.
Record state := { shared : cache; threads : nat -> tstate }.
Definition updt (ts : nat -> tstate) (t : nat) (s : tstate) : nat -> tstate := fun u => if Nat.eqb u t then s else ts u.

Definition step (s : state) (t : nat) : state :=
  let th := threads s t in
  match ph th with
  | Missed k =>   (* compute and store under the write lock *)
      {| shared := upd (shared s) k (f k);
         threads := updt (threads s) t {| todo := todo th; ph := Idle; results := results th ++ [f k] |} |}
  | Idle =>
      match todo th with
      | [] => s
      | k :: r =>   (* read under the read lock *)
          match shared s k with
          | Some v => {| shared := shared s;
                         threads := updt (threads s) t {| todo := r; ph := Idle; results := results th ++ [v] |} |}
          | None => {| shared := shared s;
                       threads := updt (threads s) t {| todo := r; ph := Missed k; results := results th |} |}
          end
      end
  end.
Definition run (s : state) (schedule : list nat) : state := fold_left step schedule s.

Definition coherent (c : cache) : Prop := forall k v, c k = Some v -> v = f k.
(* what thread t has produced so far is f applied to the keys it has finished *)
Definition thread_ok (done_ : list nat) (th : tstate) : Prop :=
  exists fin, results th = map f fin /\
    done_ = fin ++ (match ph th with Missed k => [k] | Idle => [] end) ++ todo th.

Definition inv (work : nat -> list nat) (s : state) : Prop :=
  coherent (shared s) /\ forall t, thread_ok (work t) (threads s t).

Lemma step_inv work s t : inv work s -> inv work (step s t).
Proof.
  intros [Hc Ht]. unfold step. destruct (Ht t) as (fin & Hr & Hw).
  destruct (ph (threads s t)) as [|k] eqn:Ep.
  - destruct (todo (threads s t)) as [|k r] eqn:Et; [split; assumption|].
    destruct (shared s k) as [v|] eqn:Es.
    + split; [exact Hc|]. intro u. cbn. unfold updt. destruct (Nat.eqb u t) eqn:E; [|apply Ht].
      apply Nat.eqb_eq in E. subst u. exists (fin ++ [k]). cbn. split.
      * rewrite map_app, Hr. cbn. now rewrite (Hc _ _ Es).
      * rewrite Hw. cbn. now rewrite <- app_assoc.
    + split; [exact Hc|]. intro u. cbn. unfold updt. destruct (Nat.eqb u t) eqn:E; [|apply Ht].
      apply Nat.eqb_eq in E. subst u. exists fin. cbn. split; [exact Hr|]. rewrite Hw. reflexivity.
  - split.
    + intros x v. cbn. unfold upd. destruct (Nat.eqb x k) eqn:E; [|apply Hc].
      apply Nat.eqb_eq in E. subst. now intros [= <-].
    + intro u. cbn. unfold updt. destruct (Nat.eqb u t) eqn:E; [|apply Ht].
      apply Nat.eqb_eq in E. subst u. exists (fin ++ [k]). cbn. split.
      * now rewrite map_app, Hr.
      * rewrite Hw. cbn. now rewrite <- app_assoc.
Qed.

Definition init (c0 : cache) (work : nat -> list nat) : state :=
  {| shared := c0; threads := fun t => {| todo := work t; ph := Idle; results := [] |} |}.

Theorem cache_transparent c0 work schedule t :
  coherent c0 ->
  let s := run (init c0 work) schedule in
  ph (threads s t) = Idle -> todo (threads s t) = [] ->
  results (threads s t) = map f (work t).
Proof.
  intros Hc0. cbn zeta.
  assert (H : inv work (run (init c0 work) schedule)).
  { assert (Hi : inv work (init c0 work)).
    { split; [exact Hc0|]. intro u. exists []. cbn. auto. }
    revert Hi. unfold run. generalize (init c0 work). induction schedule as [|x r IH]; intros s Hi; cbn; [exact Hi|].
    apply IH. now apply step_inv. }
  destruct H as [_ Ht]. destruct (Ht t) as (fin & Hr & Hw). intros Hp Hd.
  rewrite Hp, Hd in Hw. cbn in Hw. rewrite app_nil_r in Hw. now rewrite Hr, Hw.
Qed.
End C.
Print Assumptions cache_transparent.
