(* Design-phase prototype (not part of any build): C17 scope stack.
   Functional model of Stack (scopes innermost first here; a root struct as a list
   of fields), with EnvMap as repaired by candidate F (scopes shadow root fields).
   Theorems: lookup is innermost-first with root fallback; Set touches only the
   top scope; any operation sequence that never pops below its starting depth
   leaves the scopes below untouched, so the matching Pop restores every binding;
   the merged environment agrees with lookup for every name. *)
From Coq Require Import List Bool Arith Lia.
Import ListNotations.

Section Stack.
Variable val : Type.
Definition name := nat.
Definition scope := list (name * val).
Record stack := { scopes : list scope; root : scope }.

Fixpoint assoc (m : scope) (k : name) : option val :=
  match m with [] => None | (k', v) :: r => if Nat.eqb k' k then Some v else assoc r k end.
Fixpoint put (m : scope) (k : name) (v : val) : scope :=
  match m with
  | [] => [(k, v)]
  | (k', v') :: r => if Nat.eqb k' k then (k, v) :: r else (k', v') :: put r k v
  end.
Fixpoint look (ss : list scope) (k : name) : option val :=
  match ss with [] => None | m :: r => match assoc m k with Some v => Some v | None => look r k end end.

Definition lookup (s : stack) (k : name) : option val :=
  match look (scopes s) k with Some v => Some v | None => assoc (root s) k end.
Definition push (s : stack) (m : scope) : stack := {| scopes := m :: scopes s; root := root s |}.
Definition pop (s : stack) : stack :=
  match scopes s with
  | [] => s
  | [_] => {| scopes := [[]]; root := root s |}                 (* popping the root leaves an empty root *)
  | _ :: r => {| scopes := r; root := root s |}
  end.
Definition set (s : stack) (k : name) (v : val) : stack :=
  match scopes s with
  | [] => {| scopes := [[(k, v)]]; root := root s |}
  | m :: r => {| scopes := put m k v :: r; root := root s |}
  end.

(* EnvMap: scopes bottom-to-top, later writes win; then root fields that are not yet bound *)
Definition overlay (base top : scope) : scope := fold_left (fun acc kv => put acc (fst kv) (snd kv)) top base.
Definition fill_unbound (m r : scope) : scope :=
  fold_left (fun acc kv => match assoc acc (fst kv) with Some _ => acc | None => put acc (fst kv) (snd kv) end) r m.
Definition envmap (s : stack) : scope :=
  fill_unbound (fold_right (fun m acc => overlay acc m) [] (scopes s)) (root s).

(* ---- assoc / put ---- *)
Lemma assoc_put_same m k v : assoc (put m k v) k = Some v.
Proof. induction m as [|[k' v'] r IH]; cbn; [now rewrite Nat.eqb_refl|].
  destruct (Nat.eqb k' k) eqn:E; cbn; [now rewrite Nat.eqb_refl|now rewrite E]. Qed.
Lemma assoc_put_other m k v x : x <> k -> assoc (put m k v) x = assoc m x.
Proof.
  intro H. induction m as [|[k' v'] r IH]; cbn.
  - apply Nat.eqb_neq in H. rewrite Nat.eqb_sym. now rewrite H.
  - destruct (Nat.eqb k' k) eqn:E; cbn.
    + apply Nat.eqb_eq in E. subst k'. apply Nat.eqb_neq in H. rewrite (Nat.eqb_sym k x), H. reflexivity.
    + destruct (Nat.eqb k' x); auto.
Qed.

(* ---- 1. innermost first ---- *)
Theorem lookup_innermost s m k :
  lookup (push s m) k = match assoc m k with Some v => Some v | None => lookup s k end.
Proof. unfold lookup, push. cbn. destruct (assoc m k); reflexivity. Qed.

(* ---- 2. Set touches only the top scope ---- *)
Theorem set_then_lookup s k v : lookup (set s k v) k = Some v.
Proof.
  unfold lookup, set. destruct (scopes s) as [|m r]; cbn.
  - now rewrite Nat.eqb_refl.
  - now rewrite assoc_put_same.
Qed.
Theorem set_other s k v x : x <> k -> lookup (set s k v) x = lookup s x.
Proof.
  intro H. unfold lookup, set. destruct (scopes s) as [|m r]; cbn.
  - apply Nat.eqb_neq in H. rewrite Nat.eqb_sym, H. reflexivity.
  - now rewrite assoc_put_other.
Qed.

(* ---- 3. pop restores ---- *)
Inductive op := Push (m : scope) | Pop | Set_ (k : name) (v : val).
Definition step (s : stack) (o : op) : stack :=
  match o with Push m => push s m | Pop => pop s | Set_ k v => set s k v end.
(* the sequence keeps at least d >= 1 scopes of its own on top at every point *)
Fixpoint above (d : nat) (ops : list op) : option nat :=
  match ops with
  | [] => Some d
  | Push _ :: r => above (S d) r
  | Pop :: r => match d with S (S d') => above (S d') r | _ => None end
  | Set_ _ _ :: r => match d with O => None | _ => above d r end
  end.

Lemma run_above ops : forall d d' s top base,
  above d ops = Some d' -> scopes s = top ++ base -> length top = d -> base <> [] ->
  exists top', scopes (fold_left step ops s) = top' ++ base /\ length top' = d' /\ root (fold_left step ops s) = root s.
Proof.
  induction ops as [|o r IH]; intros d d' s top base Ha Hs Hl Hb; cbn in *.
  - injection Ha as <-. exists top. auto.
  - destruct o as [m| |k v].
    + destruct (IH (S d) d' (push s m) (m :: top) base Ha) as (t' & H1 & H2 & H3); cbn; try congruence; eauto.
    + destruct d as [|[|d0]]; try discriminate.
      destruct top as [|m0 [|m1 top]]; try discriminate. cbn in Hl.
      assert (Hp : scopes (pop s) = (m1 :: top) ++ base /\ root (pop s) = root s).
      { unfold pop. rewrite Hs. cbn. destruct (top ++ base); auto. }
      destruct Hp as [Hp Hr].
      destruct (IH (S d0) d' (pop s) (m1 :: top) base Ha Hp) as (t' & H1 & H2 & H3); cbn; try lia; auto.
      exists t'. rewrite H3. auto.
    + destruct d as [|d0]; try discriminate. destruct top as [|m0 top]; try discriminate.
      assert (Hp : scopes (set s k v) = (put m0 k v :: top) ++ base /\ root (set s k v) = root s).
      { unfold set. rewrite Hs. cbn. auto. }
      destruct Hp as [Hp Hr].
      destruct (IH (S d0) d' (set s k v) (put m0 k v :: top) base Ha Hp) as (t' & H1 & H2 & H3); cbn; auto.
      exists t'. rewrite H3. auto.
Qed.

Theorem pop_restores s m ops : scopes s <> [] -> above 1 ops = Some 1 ->
  forall k, lookup (pop (fold_left step ops (push s m))) k = lookup s k.
Proof.
  intros Hne Ha k.
  destruct (run_above ops 1 1 (push s m) [m] (scopes s) Ha eq_refl eq_refl Hne) as (t' & H1 & H2 & H3).
  destruct t' as [|x [|y t']]; try discriminate. cbn in H1.
  unfold lookup, pop. rewrite H1. destruct (scopes s) as [|b bs] eqn:E; [congruence|].
  cbn [scopes root]. rewrite H3. reflexivity.
Qed.

(* ---- 4. the merged environment agrees with lookup ---- *)
Lemma assoc_overlay top : forall base k,
  assoc (overlay base top) k = match assoc (rev top) k with Some v => Some v | None => assoc base k end.
Proof.
  unfold overlay. induction top as [|[k' v'] r IH]; intros base k; cbn; [reflexivity|].
  rewrite IH. clear IH. induction (rev r) as [|[a b] l IHl]; cbn.
  - destruct (Nat.eqb k' k) eqn:E.
    + apply Nat.eqb_eq in E. subst. apply assoc_put_same.
    + apply assoc_put_other. apply Nat.eqb_neq in E. auto.
  - destruct (Nat.eqb a k); [reflexivity|]. exact IHl.
Qed.

Definition uniq (m : scope) : Prop := NoDup (map fst m).
Lemma assoc_none_notin m k : assoc m k = None <-> ~ In k (map fst m).
Proof.
  induction m as [|[a b] r IH]; cbn; [tauto|]. destruct (Nat.eqb a k) eqn:E.
  - apply Nat.eqb_eq in E. subst. split; [discriminate|]. intro H. exfalso. apply H. auto.
  - apply Nat.eqb_neq in E. rewrite IH. tauto.
Qed.
Lemma assoc_app a b k : assoc (a ++ b) k = match assoc a k with Some v => Some v | None => assoc b k end.
Proof. induction a as [|[x y] r IH]; cbn; [reflexivity|]. destruct (Nat.eqb x k); auto. Qed.
Lemma assoc_rev_uniq m k : uniq m -> assoc (rev m) k = assoc m k.
Proof.
  unfold uniq. induction m as [|[a b] r IH]; cbn; [reflexivity|]. intro H. inversion H as [|? ? Hn Hr]; subst.
  rewrite assoc_app, IH by assumption. cbn. destruct (Nat.eqb a k) eqn:E.
  - apply Nat.eqb_eq in E. subst. apply assoc_none_notin in Hn. now rewrite Hn.
  - destruct (assoc r k); reflexivity.
Qed.

Lemma assoc_scopes ss k : Forall uniq ss ->
  assoc (fold_right (fun m acc => overlay acc m) [] ss) k = look ss k.
Proof.
  induction 1 as [|m r Hm _ IH]; cbn; [reflexivity|].
  rewrite assoc_overlay, assoc_rev_uniq, IH by assumption. reflexivity.
Qed.
Lemma assoc_fill_unbound r : forall m k,
  assoc (fill_unbound m r) k = match assoc m k with Some v => Some v | None => assoc r k end.
Proof.
  unfold fill_unbound. induction r as [|[a b] r IH]; intros m k; cbn.
  - destruct (assoc m k); reflexivity.
  - rewrite IH. clear IH. destruct (assoc m a) eqn:Ea.
    + destruct (assoc m k) eqn:Ek; [reflexivity|]. destruct (Nat.eqb a k) eqn:E; [|reflexivity].
      apply Nat.eqb_eq in E. subst. congruence.
    + destruct (Nat.eqb a k) eqn:E.
      * apply Nat.eqb_eq in E. subst. rewrite assoc_put_same, Ea. reflexivity.
      * apply Nat.eqb_neq in E. rewrite assoc_put_other by auto. reflexivity.
Qed.

Theorem envmap_agrees s k : Forall uniq (scopes s) -> assoc (envmap s) k = lookup s k.
Proof.
  intro H. unfold envmap, lookup. now rewrite assoc_fill_unbound, assoc_scopes.
Qed.
End Stack.
Print Assumptions pop_restores.
Print Assumptions envmap_agrees.
