(* Design-phase prototype (not part of any build): html.EscapeString, its inverse on
   the five references it produces, and the round trip.  Checks in ~1.5 s.
   Style rule demonstrated: no `match` on byte constructors; `beq` tests only. *)
From Coq Require Import List Strings.Byte Strings.String Bool Lia NArith.
Import ListNotations.
Definition bytes := list byte.
Definition bs (s : string) : bytes := list_byte_of_string s.
Definition beq (a b : byte) : bool := Byte.eqb a b.
Lemma beq_spec a b : reflect (a = b) (beq a b).
Proof. unfold beq. destruct (Byte.eqb a b) eqn:E; constructor.
 - apply Byte.byte_dec_bl. exact E.
 - intro H. apply Byte.byte_dec_lb in H. congruence. Qed.
Arguments beq : simpl never.
Lemma beq_false a b : a <> b -> beq a b = false.
Proof. intro H. destruct (beq_spec a b); congruence. Qed.
Lemma beq_refl a : beq a a = true.
Proof. destruct (beq_spec a a); congruence. Qed.
Ltac bcase c b := destruct (beq_spec c b); [subst c|].

Definition r_amp := Eval cbv in bs "&amp;".
Definition r_39 := Eval cbv in bs "&#39;".
Definition r_lt := Eval cbv in bs "&lt;".
Definition r_gt := Eval cbv in bs "&gt;".
Definition r_34 := Eval cbv in bs "&#34;".
Definition esc1 (c : byte) : bytes :=
  if beq c x26 then r_amp else
  if beq c x27 then r_39 else
  if beq c x3c then r_lt else
  if beq c x3e then r_gt else
  if beq c x22 then r_34 else [c].
Definition escape (s : bytes) : bytes := flat_map esc1 s.

Lemma escape_cons c r : escape (c :: r) = esc1 c ++ escape r.
Proof. reflexivity. Qed.
Lemma escape_app a b : escape (a ++ b) = escape a ++ escape b.
Proof. unfold escape. apply flat_map_app. Qed.

Lemma esc1_no (b : byte) : (b = x3c \/ b = x22 \/ b = x27 \/ b = x3e) -> forall c, ~ In b (esc1 c).
Proof.
  intros Hb c. unfold esc1.
  bcase c x26; [cbn; intuition congruence|].
  bcase c x27; [cbn; intuition congruence|].
  bcase c x3c; [cbn; intuition congruence|].
  bcase c x3e; [cbn; intuition congruence|].
  bcase c x22; [cbn; intuition congruence|].
  cbn. intuition congruence.
Qed.
Lemma escape_no b : (b = x3c \/ b = x22 \/ b = x27 \/ b = x3e) -> forall s, ~ In b (escape s).
Proof. intros Hb s H. apply in_flat_map in H. destruct H as [c [_ H]]. eapply esc1_no; eauto. Qed.

Fixpoint strip (p s : bytes) : option bytes :=
  match p, s with
  | [], _ => Some s
  | a :: p', b :: s' => if beq a b then strip p' s' else None
  | _, [] => None
  end.
Lemma strip_app p r : strip p (p ++ r) = Some r.
Proof. induction p; cbn; auto. rewrite beq_refl. auto. Qed.
Lemma strip_head_ne p a c r : a <> c -> strip (a :: p) (c :: r) = None.
Proof. intro H. cbn. now rewrite beq_false. Qed.

Definition refs : list (bytes * byte) :=
  [(r_amp, x26); (r_39, x27); (r_lt, x3c); (r_gt, x3e); (r_34, x22)].
Fixpoint try_refs (l : list (bytes * byte)) (s : bytes) : option (byte * bytes) :=
  match l with
  | [] => None
  | (p, b) :: l' => match strip p s with Some r => Some (b, r) | None => try_refs l' s end
  end.
Fixpoint unescape (fuel : nat) (s : bytes) : bytes :=
  match fuel with O => s | S f =>
  match s with
  | [] => []
  | c :: r => match try_refs refs s with
              | Some (b, rest) => b :: unescape f rest
              | None => c :: unescape f r
              end
  end end.

Definition special (c : byte) : bool :=
  beq c x26 || beq c x27 || beq c x3c || beq c x3e || beq c x22.

Lemma try_refs_esc1 c r : special c = true -> try_refs refs (esc1 c ++ r) = Some (c, r).
Proof.
  unfold special, esc1.
  bcase c x26; [intros _; reflexivity|].
  bcase c x27; [intros _; reflexivity|].
  bcase c x3c; [intros _; reflexivity|].
  bcase c x3e; [intros _; reflexivity|].
  bcase c x22; [intros _; reflexivity|].
  cbn. discriminate.
Qed.
Lemma try_refs_plain c r : c <> x26 -> try_refs refs (c :: r) = None.
Proof.
  intro H. unfold refs, r_amp, r_39, r_lt, r_gt, r_34. cbn [try_refs].
  rewrite !strip_head_ne by congruence. reflexivity.
Qed.
Lemma esc1_plain c : special c = false -> esc1 c = [c] /\ c <> x26.
Proof.
  unfold special, esc1.
  bcase c x26; [discriminate|]. bcase c x27; [discriminate|]. bcase c x3c; [discriminate|].
  bcase c x3e; [discriminate|]. bcase c x22; [discriminate|]. auto.
Qed.
Lemma esc1_len c : 1 <= List.length (esc1 c).
Proof. unfold esc1. repeat match goal with |- context[beq c ?b] => destruct (beq c b) end; cbn; lia. Qed.

Theorem unescape_escape s : forall fuel, List.length (escape s) <= fuel -> unescape fuel (escape s) = s.
Proof.
  induction s as [|c r IH]; intros fuel Hf.
  - destruct fuel; reflexivity.
  - rewrite escape_cons in *. rewrite app_length in Hf. pose proof (esc1_len c).
    destruct fuel as [|f]; [lia|].
    destruct (special c) eqn:Hs.
    + cbn [unescape]. destruct (esc1 c ++ escape r) eqn:E.
      * destruct (esc1 c); [cbn in *; lia|discriminate].
      * rewrite <- E. rewrite try_refs_esc1 by assumption. f_equal. apply IH. lia.
    + destruct (esc1_plain c Hs) as [-> Hc]. cbn [app unescape].
      rewrite try_refs_plain by assumption. f_equal. apply IH. cbn in Hf. lia.
Qed.
Print Assumptions unescape_escape.
