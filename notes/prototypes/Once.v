(* Design-phase prototype (not part of any build): C16 v-once on the expanded
   instantiation tree.  Every element carries the id of its source element when it
   is marked v-once (loops and repeated includes duplicate subtrees, ids included).
   Evaluation order = pre-order; a marked element whose id was seen is dropped with
   its whole subtree. *)
From Coq Require Import List Bool Arith Lia.
Import ListNotations.
Definition id := nat.
Inductive tree := Node (mark : option id) (label : nat) (kids : list tree).
Definition mem (x : id) (l : list id) : bool := existsb (Nat.eqb x) l.
Lemma mem_spec x l : mem x l = true <-> In x l.
Proof. unfold mem. rewrite existsb_exists. split; [intros [y [H E]]; apply Nat.eqb_eq in E; now subst|intro H; exists x; split; [assumption|apply Nat.eqb_refl]]. Qed.

Section With.
  Variable ev : list id -> tree -> list id * list tree.
  Fixpoint go (seen : list id) (ts : list tree) : list id * list tree :=
    match ts with
    | [] => (seen, [])
    | t :: r => let '(s1, o1) := ev seen t in let '(s2, o2) := go s1 r in (s2, o1 ++ o2)
    end.
End With.
Fixpoint once (fuel : nat) (seen : list id) (t : tree) : list id * list tree :=
  match fuel with O => (seen, []) | S f =>
  match t with
  | Node m lab kids =>
      match m with
      | Some i => if mem i seen then (seen, [])
                  else let '(s', ks) := go (once f) (i :: seen) kids in (s', [Node m lab ks])
      | None => let '(s', ks) := go (once f) seen kids in (s', [Node m lab ks])
      end
  end end.

Fixpoint marks (t : tree) : list id :=
  match t with Node m _ kids => (match m with Some i => [i] | None => [] end) ++ flat_map marks kids end.
Definition fmarks (ts : list tree) := flat_map marks ts.

Lemma nodup_app {A} (a b : list A) : NoDup a -> NoDup b -> (forall x, In x a -> ~ In x b) -> NoDup (a ++ b).
Proof.
  induction 1 as [|x a Hx Ha IH]; intros Hb Hd; cbn; [assumption|]. constructor.
  - rewrite in_app_iff. intros [H|H]; [auto|]. eapply Hd; [left; reflexivity|exact H].
  - apply IH; [assumption|]. intros y Hy. apply Hd. right. assumption.
Qed.

(* the invariant of one evaluation step *)
Definition good (ev : list id -> tree -> list id * list tree) : Prop :=
  forall seen t s' out, ev seen t = (s', out) ->
    NoDup (fmarks out) /\
    (forall i, In i (fmarks out) -> ~ In i seen /\ In i s') /\
    (forall i, In i seen -> In i s').

Lemma go_good ev : good ev -> forall ts seen s' out, go ev seen ts = (s', out) ->
    NoDup (fmarks out) /\
    (forall i, In i (fmarks out) -> ~ In i seen /\ In i s') /\
    (forall i, In i seen -> In i s').
Proof.
  intros Hev ts. induction ts as [|t r IH]; intros seen s' out H; cbn in H.
  - injection H as <- <-. cbn. split; [constructor|]. split; [intros i []|auto].
  - destruct (ev seen t) as [sa oa] eqn:Ea. destruct (go ev sa r) as [sb ob] eqn:Eb.
    injection H as <- <-. destruct (Hev _ _ _ _ Ea) as (Na & Ia & Ma). destruct (IH _ _ _ Eb) as (Nb & Ib & Mb).
    unfold fmarks in *. rewrite flat_map_app. split; [|split].
    + apply nodup_app; [assumption|assumption|]. intros x Hx Hx'. destruct (Ia x Hx) as [_ Hin]. destruct (Ib x Hx') as [Hn _]. auto.
    + intros i Hi. apply in_app_or in Hi. destruct Hi as [Hi|Hi].
      * destruct (Ia i Hi). auto.
      * destruct (Ib i Hi) as [Hn Hs]. split; [|assumption]. intro Hc. apply Hn. auto.
    + auto.
Qed.

Theorem once_good : forall fuel, good (once fuel).
Proof.
  induction fuel as [|f IH]; intros seen t s' out H.
  - cbn in H. injection H as <- <-. cbn. split; [constructor|]. split; [intros i []|auto].
  - destruct t as [m lab kids]. cbn [once] in H. destruct m as [i|].
    + destruct (mem i seen) eqn:Em.
      * injection H as <- <-. cbn. split; [constructor|]. split; [intros x []|auto].
      * destruct (go (once f) (i :: seen) kids) as [s1 ks] eqn:Eg. injection H as <- <-.
        destruct (go_good _ IH _ _ _ _ Eg) as (N & I & M).
        assert (Hni : ~ In i seen) by (intro Hc; apply mem_spec in Hc; congruence).
        unfold fmarks in *. cbn. rewrite app_nil_r. split; [|split].
        -- constructor; [|assumption]. intro Hc. destruct (I i Hc) as [Hn _]. apply Hn. left. reflexivity.
        -- intros x [<-|Hx]; [split; [assumption|apply M; left; reflexivity]|].
           destruct (I x Hx) as [Hn Hs]. split; [|assumption]. intro Hc. apply Hn. right. assumption.
        -- intros x Hx. apply M. right. assumption.
    + destruct (go (once f) seen kids) as [s1 ks] eqn:Eg. injection H as <- <-.
      destruct (go_good _ IH _ _ _ _ Eg) as (N & I & M).
      unfold fmarks in *. cbn. rewrite app_nil_r. auto.
Qed.

(* C16: within one render (seen = []) every marked id is emitted at most once;
   and the first occurrence in pre-order of a top-level forest is kept *)
Corollary once_at_most_once fuel t s' out : once fuel [] t = (s', out) -> NoDup (fmarks out).
Proof. intro H. destruct (once_good fuel _ _ _ _ H) as [N _]. exact N. Qed.
Print Assumptions once_at_most_once.

Example loop_of_three :
  let item := Node None 0 [Node (Some 7) 1 []; Node None 2 []] in
  snd (once 5 [] (Node None 9 [item; item; item])) =
  [Node None 9 [Node None 0 [Node (Some 7) 1 []; Node None 2 []]; Node None 0 [Node None 2 []]; Node None 0 [Node None 2 []]]].
Proof. reflexivity. Qed.
