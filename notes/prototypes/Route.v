(* Design-phase prototype (not part of any build): C13 routing.
   helpers.IsComplexExpr decides by substring tests.  With the canonical printer
   (binary operators surrounded by single spaces) every documented binary
   expression is classified complex, and a plain dotted path never is - the two
   facts that make the positions route an expression to the same evaluator. *)
From Coq Require Import List Strings.Byte Strings.String Bool Lia.
Import ListNotations.
Definition bytes := list byte.
Definition bs (s : string) : bytes := list_byte_of_string s.
Definition beq (a b : byte) : bool := Byte.eqb a b.
Lemma beq_refl a : beq a a = true.
Proof. unfold beq. destruct (Byte.eqb a a) eqn:E; [reflexivity|]. exfalso.
  assert (a = a) by reflexivity. apply Byte.byte_dec_lb in H. congruence. Qed.
Lemma beq_true a b : beq a b = true -> a = b.
Proof. apply Byte.byte_dec_bl. Qed.
Arguments beq : simpl never.

Fixpoint prefix (p s : bytes) : bool :=
  match p, s with [], _ => true | a :: p', b :: s' => beq a b && prefix p' s' | _, [] => false end.
Fixpoint contains (p s : bytes) : bool :=
  prefix p s || match s with [] => false | _ :: r => contains p r end.
Lemma prefix_app p r : prefix p (p ++ r) = true.
Proof. induction p; cbn; [reflexivity|]. now rewrite beq_refl. Qed.
Lemma contains_app p a b : contains p (a ++ p ++ b) = true.
Proof.
  induction a as [|c a IH]; cbn [app].
  - destruct (p ++ b) eqn:E; cbn; rewrite <- E, prefix_app; reflexivity.
  - cbn [contains]. rewrite IH. apply orb_true_r.
Qed.
Lemma contains_in p s c : In c p -> contains p s = true -> In c s.
Proof.
  intros Hc. induction s as [|x s IH]; cbn [contains].
  - rewrite orb_false_r. destruct p; [destruct Hc|discriminate].
  - intro H. apply orb_true_iff in H. destruct H as [H|H]; [|right; auto].
    clear IH. revert x s H. induction p as [|a p IHp]; intros x s H; [destruct Hc|].
    cbn in H. apply andb_true_iff in H. destruct H as [Hab Hp]. apply beq_true in Hab. subst.
    destruct Hc as [->|Hc]; [left; reflexivity|]. destruct s as [|y s]; [destruct p; [destruct Hc|discriminate]|].
    right. eapply IHp; eauto.
Qed.

Definition ops_anywhere : list bytes := map bs ["=="; "==="; "!="; "!=="; "<="; ">="; "&&"; "||"]%string.
Definition ops_spaced : list bytes := map bs [" + "; " - "; " * "; " / "; " % "; " < "; " > "]%string.
Definition is_complex (s : bytes) : bool :=
  existsb (fun op => contains op s) ops_anywhere || existsb (fun op => contains op s) ops_spaced
  || (contains (bs "?") s && contains (bs ":") s).

(* the documented binary operators and the canonical printer *)
Inductive binop := Eq | Ne | Le | Ge | And | Or | Add | Sub | Mul | Div | Mod | Lt | Gt.
Definition opstr (o : binop) : bytes :=
  bs (match o with Eq => "==" | Ne => "!=" | Le => "<=" | Ge => ">=" | And => "&&" | Or => "||"
               | Add => "+" | Sub => "-" | Mul => "*" | Div => "/" | Mod => "%" | Lt => "<" | Gt => ">" end)%string.
Inductive expr := Path (p : bytes) | Bin (o : binop) (a b : expr) | Tern (c a b : expr).
Fixpoint print (e : expr) : bytes :=
  match e with
  | Path p => p
  | Bin o a b => print a ++ [x20] ++ opstr o ++ [x20] ++ print b
  | Tern c a b => print c ++ bs " ? " ++ print a ++ bs " : " ++ print b
  end.

Lemma complex_anywhere op s : In op ops_anywhere -> contains op s = true -> is_complex s = true.
Proof.
  intros Hi Hc. unfold is_complex. apply orb_true_iff. left. apply orb_true_iff. left.
  apply existsb_exists. eauto.
Qed.
Lemma complex_spaced op s : In op ops_spaced -> contains op s = true -> is_complex s = true.
Proof.
  intros Hi Hc. unfold is_complex. apply orb_true_iff. left. apply orb_true_iff. right.
  apply existsb_exists. eauto.
Qed.

Definition spaced (o : binop) : bytes := [x20] ++ opstr o ++ [x20].
Lemma print_bin o a b : print (Bin o a b) = print a ++ spaced o ++ print b.
Proof. cbn [print]. unfold spaced. now rewrite <- !app_assoc. Qed.
Lemma print_bin' o a b : print (Bin o a b) = (print a ++ [x20]) ++ opstr o ++ ([x20] ++ print b).
Proof. cbn [print]. now rewrite <- !app_assoc. Qed.

Theorem binary_is_complex o a b : is_complex (print (Bin o a b)) = true.
Proof.
  destruct o.
  1-6: rewrite print_bin'; eapply complex_anywhere; [|apply contains_app]; cbn; auto 10.
  all: rewrite print_bin; eapply complex_spaced; [|apply contains_app]; cbn; auto 10.
Qed.
Theorem ternary_is_complex c a b : is_complex (print (Tern c a b)) = true.
Proof.
  unfold is_complex. apply orb_true_iff. right. apply andb_true_iff. split; cbn [print].
  - change (bs " ? ") with ([x20] ++ bs "?" ++ [x20]).
    rewrite <- !app_assoc. rewrite (app_assoc (print c) [x20]). apply contains_app.
  - change (bs " : ") with ([x20] ++ bs ":" ++ [x20]).
    rewrite <- !app_assoc.
    rewrite (app_assoc (print c)). rewrite (app_assoc (print c ++ bs " ? ")).
    rewrite (app_assoc ((print c ++ bs " ? ") ++ print a)). apply contains_app.
Qed.

(* a plain dotted path is never classified complex *)
Definition pathch (c : byte) : bool :=
  negb (existsb (beq c) (bs "=!<>&|+-*/%?: ")).
Lemma not_contains op s : (exists c, In c op /\ existsb (beq c) (bs "=!<>&|+-*/%?: ") = true) ->
  forallb pathch s = true -> contains op s = false.
Proof.
  intros [c [Hc Hbad]] Hs. destruct (contains op s) eqn:E; [|reflexivity]. exfalso.
  pose proof (contains_in op s c Hc E) as Hin.
  rewrite forallb_forall in Hs. specialize (Hs c Hin). unfold pathch in Hs. rewrite Hbad in Hs. discriminate.
Qed.
Theorem path_not_complex p : forallb pathch p = true -> is_complex (print (Path p)) = false.
Proof.
  intro Hp. cbn [print]. unfold is_complex, ops_anywhere, ops_spaced. cbn [map existsb].
  repeat match goal with
  | |- context[contains ?op p] =>
      replace (contains op p) with false
        by (symmetry; apply not_contains; [eexists; split; [left; reflexivity|reflexivity]|assumption])
  end.
  reflexivity.
Qed.
Print Assumptions binary_is_complex.
Print Assumptions path_not_complex.
