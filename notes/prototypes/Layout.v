(* Design-phase prototype (not part of any build): C07 layout loop.
   Model of template.Render's dispatch and template.layout's loop, generic in the
   per-file renderer R.  The loop is total by construction (it recurses on the
   remaining budget maxd - depth); the theorems say what it computes: the page is
   rendered first, then each layout with the previous result as content, only the
   last result is returned; a chain that does not end within the budget, a missing
   file, or a failing link give an error and never output; the default layout is
   applied exactly when the page names none and the file exists. *)
From Coq Require Import List Bool Arith Lia.
Import ListNotations.

Section Layout.
Variables file bytes : Type.
Variable base : file.
Variable files : file -> option (option file).    (* None: missing; Some l: exists, front-matter layout l (already resolved) *)
Variable R : file -> option bytes -> option bytes. (* render one link given the previous content; None = error *)

Inductive outcome := Ok (b : bytes) | ErrDepth | ErrMissing | ErrRender.

(* n = remaining budget (maxDepth - depth); dl = a layout named by the caller's data, only seen by the first link *)
Fixpoint loop (n : nat) (f : file) (first : bool) (dl : option file) (content : option bytes) : outcome :=
  match n with
  | O => ErrDepth
  | S n' =>
      match files f with
      | None => ErrMissing
      | Some fml =>
          match R f content with
          | None => ErrRender
          | Some c =>
              match (match fml with Some l => Some l | None => dl end) with
              | Some l => loop n' l false None (Some c)
              | None => if first then loop n' base false None (Some c) else Ok c
              end
          end
      end
  end.

(* the files visited, and why the walk stops — no rendering involved *)
Inductive why := Done | Depth | Missing.
Fixpoint walk (n : nat) (f : file) (first : bool) (dl : option file) : list file * why :=
  match n with
  | O => ([], Depth)
  | S n' =>
      match files f with
      | None => ([], Missing)
      | Some fml =>
          match (match fml with Some l => Some l | None => dl end) with
          | Some l => let '(fs, w) := walk n' l false None in (f :: fs, w)
          | None => if first then let '(fs, w) := walk n' base false None in (f :: fs, w) else ([f], Done)
          end
      end
  end.
(* innermost first: fold the renderer along the visited files *)
Fixpoint renders (fs : list file) (content : option bytes) : option (option bytes) :=
  match fs with
  | [] => Some content
  | f :: r => match R f content with Some c => renders r (Some c) | None => None end
  end.

Theorem loop_spec n : forall f first dl content,
  loop n f first dl content =
  let '(fs, w) := walk n f first dl in
  match renders fs content with
  | None => ErrRender
  | Some last => match w with
                 | Done => match last with Some c => Ok c | None => ErrRender end
                 | Depth => ErrDepth
                 | Missing => ErrMissing
                 end
  end.
Proof.
  induction n as [|n IH]; intros f first dl content; cbn; [reflexivity|].
  destruct (files f) as [fml|]; [|reflexivity].
  destruct (match fml with Some l => Some l | None => dl end) as [l|].
  - specialize (IH l false None). destruct (walk n l false None) as [fs w]. cbn.
    destruct (R f content) as [c|]; [apply IH|reflexivity].
  - destruct first.
    + specialize (IH base false None). destruct (walk n base false None) as [fs w]. cbn.
      destruct (R f content) as [c|]; [apply IH|reflexivity].
    + cbn. destruct (R f content); reflexivity.
Qed.

(* output only when the chain ends within the budget and every link exists and renders *)
Corollary ok_only_if_done n f first dl c :
  loop n f first dl None = Ok c -> snd (walk n f first dl) = Done.
Proof.
  rewrite loop_spec. destruct (walk n f first dl) as [fs w]. cbn.
  destruct (renders fs None) as [last|]; [|discriminate]. destruct w; auto; discriminate.
Qed.
(* a chain with more links than the budget is an error, whatever the graph *)
Lemma walk_len n : forall f first dl, length (fst (walk n f first dl)) <= n.
Proof.
  induction n as [|n IH]; intros; cbn; [lia|]. destruct (files f) as [fml|]; cbn; [|lia].
  destruct (match fml with Some l => Some l | None => dl end) as [l|].
  - specialize (IH l false None). destruct (walk n l false None). cbn in *. lia.
  - destruct first; cbn; [|lia]. specialize (IH base false None). destruct (walk n base false None). cbn in *. lia.
Qed.
(* the default layout: the second visited file is base exactly when the page names no layout *)
Lemma walk_S n f first dl : walk (S n) f first dl =
  match files f with
  | None => ([], Missing)
  | Some fml =>
      match (match fml with Some l => Some l | None => dl end) with
      | Some l => let '(fs, w) := walk n l false None in (f :: fs, w)
      | None => if first then let '(fs, w) := walk n base false None in (f :: fs, w) else ([f], Done)
      end
  end.
Proof. reflexivity. Qed.
Theorem default_base n f dl : files f = Some None -> dl = None ->
  fst (walk (S n) f true dl) = f :: fst (walk n base false None).
Proof. intros Hf ->. rewrite walk_S, Hf. destruct (walk n base false None). reflexivity. Qed.
Theorem named_layout_skips_base n f l dl : files f = Some (Some l) ->
  fst (walk (S n) f true dl) = f :: fst (walk n l false None).
Proof. intros Hf. rewrite walk_S, Hf. destruct (walk n l false None). reflexivity. Qed.

(* Render's dispatch: the loop is entered when a layout is named or base exists *)
Definition render_entry (maxd : nat) (f : file) (dl : option file) : outcome :=
  match files f with
  | None => ErrMissing
  | Some fml =>
      match (match fml with Some l => Some l | None => dl end) with
      | Some _ => loop maxd f true dl None
      | None => match files base with
                | Some _ => loop maxd f true dl None
                | None => match R f None with Some c => Ok c | None => ErrRender end
                end
      end
  end.
Theorem base_applied_iff maxd f : files f = Some None -> 
  (files base = None -> render_entry maxd f None = match R f None with Some c => Ok c | None => ErrRender end).
Proof. intros Hf Hb. unfold render_entry. now rewrite Hf, Hb. Qed.
End Layout.
Print Assumptions loop_spec.
