package main

import (
	"fmt"
	"go/ast"
	"go/importer"
	"go/token"
	"go/types"
	"os"
	"path/filepath"
	"sort"
	"strings"
)

// C09 translator: the lock discipline of /repo as tables for Model/Conc.v.
//
//   paths          every control-flow path (loops unrolled 0/1 times) of every function that touches a
//                  mutex or a mutex-guarded field, as a sequence of Acq/Rel/Rd/Wr actions
//   shared_writes  every assignment in a function reachable from the concurrent API whose target is a
//                  package-level variable or lies behind a field of a type reachable from Vue
//   global_calls   every method call on a package-level variable in such a function, with the variable's type
//
// A field is "guarded" when it sits in a struct next to a sync.Mutex / sync.RWMutex and is written by some
// function reachable from the concurrent API; its guard is that mutex.

func init() { siteTables["C09"] = sitesC09 }

type c9pkg struct {
	dir   string
	fset  *token.FileSet
	files []*ast.File
	info  *types.Info
	pkg   *types.Package
}

func loadTypedFull(dir string) (*c9pkg, error) {
	fset, files, err := parseRepoPkg(dir)
	if err != nil {
		return nil, err
	}
	var fl []*ast.File
	for _, n := range sortedFileNames(files) {
		fl = append(fl, files[n])
	}
	info := &types.Info{Types: map[ast.Expr]types.TypeAndValue{}, Uses: map[*ast.Ident]types.Object{}, Defs: map[*ast.Ident]types.Object{},
		Selections: map[*ast.SelectorExpr]*types.Selection{}}
	oldwd, _ := os.Getwd()
	_ = os.Chdir(dir)
	defer func() { _ = os.Chdir(oldwd) }()
	conf := types.Config{Importer: importer.ForCompiler(fset, "source", nil), Error: func(error) {}}
	pkg, _ := conf.Check("pkg", fset, fl, info)
	return &c9pkg{dir: dir, fset: fset, files: fl, info: info, pkg: pkg}, nil
}

// the API the property (and docs/concurrency.md) declares usable from many goroutines at once
var c9Roots = map[string]bool{
	"vuego.Vue.Render": true, "vuego.Vue.RenderFragment": true, "vuego.Vue.RenderNodes": true,
	"vuego.template.Render": true, "vuego.template.RenderFile": true, "vuego.template.RenderString": true,
	"vuego.template.RenderByte": true, "vuego.template.RenderReader": true,
	"vuego.template.Load": true, "vuego.template.New": true, "vuego.template.Get": true, "vuego.template.Err": true,
	"vuego.template.Fill": true, "vuego.template.Assign": true,
}

func c9FuncKey(f *types.Func) string {
	pk := ""
	if f.Pkg() != nil {
		pk = f.Pkg().Name()
	}
	sig, _ := f.Type().(*types.Signature)
	if sig != nil && sig.Recv() != nil {
		t := sig.Recv().Type()
		if p, ok := t.(*types.Pointer); ok {
			t = p.Elem()
		}
		if n, ok := t.(*types.Named); ok {
			return pk + "." + n.Obj().Name() + "." + f.Name()
		}
		return pk + ".?." + f.Name()
	}
	return pk + "." + f.Name()
}

func c9IsMutex(t types.Type) bool {
	if p, ok := t.(*types.Pointer); ok {
		t = p.Elem()
	}
	n, ok := t.(*types.Named)
	if !ok || n.Obj().Pkg() == nil {
		return false
	}
	return n.Obj().Pkg().Path() == "sync" && (n.Obj().Name() == "Mutex" || n.Obj().Name() == "RWMutex")
}
func c9TypeName(t types.Type) string {
	if p, ok := t.(*types.Pointer); ok {
		return "*" + c9TypeName(p.Elem())
	}
	if n, ok := t.(*types.Named); ok {
		if n.Obj().Pkg() != nil {
			return n.Obj().Pkg().Name() + "." + n.Obj().Name()
		}
		return n.Obj().Name()
	}
	return t.String()
}

type c9fn struct {
	key, file, name string
	decl            *ast.FuncDecl
	p               *c9pkg
}

func sitesC09(_ *token.FileSet, _ map[string]*ast.File) (string, error) {
	var pkgs []*c9pkg
	for _, dir := range []string{repoDir, repoDir + "/internal/helpers", repoDir + "/internal/reflect", repoDir + "/internal/parser"} {
		p, err := loadTypedFull(dir)
		if err != nil {
			return "", err
		}
		pkgs = append(pkgs, p)
	}
	// ---- functions and the reference graph ----
	fns := map[string]*c9fn{}
	byMethod := map[string][]string{}
	for _, p := range pkgs {
		for _, f := range p.files {
			fname := filepath.Base(p.fset.Position(f.Pos()).Filename)
			for _, d := range f.Decls {
				fd, ok := d.(*ast.FuncDecl)
				if !ok || fd.Body == nil {
					continue
				}
				obj, _ := p.info.Defs[fd.Name].(*types.Func)
				if obj == nil {
					continue
				}
				k := c9FuncKey(obj)
				fns[k] = &c9fn{key: k, file: fname, name: fd.Name.Name, decl: fd, p: p}
				if fd.Recv != nil {
					byMethod[fd.Name.Name] = append(byMethod[fd.Name.Name], k)
				}
			}
		}
	}
	edges := map[string][]string{}
	for k, fn := range fns {
		ast.Inspect(fn.decl.Body, func(n ast.Node) bool {
			id, ok := n.(*ast.Ident)
			if !ok {
				return true
			}
			if f, ok := fn.p.info.Uses[id].(*types.Func); ok {
				sig, _ := f.Type().(*types.Signature)
				if sig != nil && sig.Recv() != nil {
					if _, isIface := sig.Recv().Type().Underlying().(*types.Interface); isIface {
						edges[k] = append(edges[k], byMethod[f.Name()]...) // every implementation
						return true
					}
				}
				edges[k] = append(edges[k], c9FuncKey(f))
			}
			return true
		})
	}
	reach := map[string]bool{}
	var work []string
	for r := range c9Roots {
		if _, ok := fns[r]; ok {
			reach[r] = true
			work = append(work, r)
		}
	}
	rootsFound := len(work)
	for len(work) > 0 {
		k := work[len(work)-1]
		work = work[:len(work)-1]
		for _, c := range edges[k] {
			if _, ok := fns[c]; ok && !reach[c] {
				reach[c] = true
				work = append(work, c)
			}
		}
	}

	// ---- shared types: everything reachable from Vue through fields ----
	root := pkgs[0]
	shared := map[string]bool{}
	var addT func(t types.Type)
	addT = func(t types.Type) {
		switch x := t.(type) {
		case *types.Pointer:
			addT(x.Elem())
		case *types.Slice:
			addT(x.Elem())
		case *types.Array:
			addT(x.Elem())
		case *types.Map:
			addT(x.Key())
			addT(x.Elem())
		case *types.Named:
			if x.Obj().Pkg() == nil || !(x.Obj().Pkg().Name() == "vuego" || x.Obj().Pkg().Name() == "helpers" || x.Obj().Pkg().Name() == "reflect" || x.Obj().Pkg().Name() == "parser") {
				return
			}
			name := x.Obj().Pkg().Name() + "." + x.Obj().Name()
			if shared[name] {
				return
			}
			if st, ok := x.Underlying().(*types.Struct); ok {
				shared[name] = true
				for i := 0; i < st.NumFields(); i++ {
					addT(st.Field(i).Type())
				}
			}
		}
	}
	if o := root.pkg.Scope().Lookup("Vue"); o != nil {
		addT(o.Type())
	}

	// ---- structs that hold a mutex: lock key and sibling fields ----
	type lockInfo struct {
		key    string
		fields map[*types.Var]string // sibling field -> display name
	}
	var lockStructs []*lockInfo
	fieldLock := map[*types.Var]*lockInfo{}
	mutexField := map[*types.Var]*lockInfo{}
	addStruct := func(name string, st *types.Struct) {
		var mu *types.Var
		for i := 0; i < st.NumFields(); i++ {
			if c9IsMutex(st.Field(i).Type()) {
				mu = st.Field(i)
			}
		}
		if mu == nil {
			return
		}
		key := name + "." + mu.Name()
		if mu.Embedded() {
			key = name
		}
		li := &lockInfo{key: key, fields: map[*types.Var]string{}}
		mutexField[mu] = li
		for i := 0; i < st.NumFields(); i++ {
			f := st.Field(i)
			if f != mu {
				li.fields[f] = name + "." + f.Name()
				fieldLock[f] = li
			}
		}
		lockStructs = append(lockStructs, li)
	}
	for _, p := range pkgs {
		sc := p.pkg.Scope()
		for _, n := range sc.Names() {
			o := sc.Lookup(n)
			switch o.(type) {
			case *types.TypeName:
				if st, ok := o.Type().Underlying().(*types.Struct); ok {
					addStruct(o.Name(), st)
				}
			case *types.Var:
				t := o.Type()
				if pt, ok := t.(*types.Pointer); ok {
					t = pt.Elem()
				}
				if st, ok := t.(*types.Struct); ok { // anonymous struct variable (pathCache)
					addStruct(o.Name(), st)
				}
			}
		}
	}

	// ---- writes ----
	type wrow struct{ file, fn, lhs, class string }
	var writes []wrow
	writtenGuarded := map[*types.Var]bool{}
	type gcall struct{ file, fn, v, typ, method string }
	var gcalls []gcall
	isPkgLevel := func(p *c9pkg, o types.Object) bool {
		v, ok := o.(*types.Var)
		return ok && !v.IsField() && v.Parent() == p.pkg.Scope()
	}
	var keys []string
	for k := range fns {
		keys = append(keys, k)
	}
	sort.Strings(keys)
	for _, k := range keys {
		fn := fns[k]
		if !reach[k] {
			continue
		}
		p := fn.p
		// local variables freshly allocated in this function
		fresh := map[types.Object]bool{}
		ast.Inspect(fn.decl.Body, func(n ast.Node) bool {
			switch x := n.(type) {
			case *ast.AssignStmt:
				if x.Tok == token.DEFINE && len(x.Lhs) == len(x.Rhs) {
					for i, l := range x.Lhs {
						id, ok := l.(*ast.Ident)
						if !ok {
							continue
						}
						r := x.Rhs[i]
						if u, ok := r.(*ast.UnaryExpr); ok && u.Op == token.AND {
							r = u.X
						}
						isNew := false
						if _, ok := r.(*ast.CompositeLit); ok {
							isNew = true
						}
						if c, ok := r.(*ast.CallExpr); ok {
							if f, ok := c.Fun.(*ast.Ident); ok && (f.Name == "new" || f.Name == "make") {
								isNew = true
							}
						}
						if isNew {
							fresh[p.info.Defs[id]] = true
						}
					}
				}
			case *ast.ValueSpec:
				if len(x.Values) == 0 {
					for _, id := range x.Names {
						fresh[p.info.Defs[id]] = true
					}
				}
			}
			return true
		})
		// sync.Once bodies
		var onceRanges [][2]token.Pos
		ast.Inspect(fn.decl.Body, func(n ast.Node) bool {
			if c, ok := n.(*ast.CallExpr); ok {
				if s, ok := c.Fun.(*ast.SelectorExpr); ok && s.Sel.Name == "Do" && len(c.Args) == 1 {
					if tv, ok := p.info.Types[s.X]; ok && c9TypeName(tv.Type) == "sync.Once" {
						onceRanges = append(onceRanges, [2]token.Pos{c.Args[0].Pos(), c.Args[0].End()})
					}
				}
			}
			return true
		})
		inOnce := func(pos token.Pos) bool {
			for _, r := range onceRanges {
				if pos >= r[0] && pos < r[1] {
					return true
				}
			}
			return false
		}
		target := func(lhs ast.Expr) {
			e := lhs
			viaShared, viaGuarded := "", (*types.Var)(nil)
			for {
				switch x := e.(type) {
				case *ast.ParenExpr:
					e = x.X
					continue
				case *ast.StarExpr:
					e = x.X
					continue
				case *ast.IndexExpr:
					e = x.X
					continue
				case *ast.SliceExpr:
					e = x.X
					continue
				case *ast.SelectorExpr:
					if sel, ok := p.info.Selections[x]; ok && sel.Kind() == types.FieldVal {
						fv, _ := sel.Obj().(*types.Var)
						if _, ok := fieldLock[fv]; ok && viaGuarded == nil {
							viaGuarded = fv
						}
						rt := sel.Recv()
						if pt, ok := rt.(*types.Pointer); ok {
							rt = pt.Elem()
						}
						if shared[c9TypeName(rt)] {
							viaShared = c9TypeName(rt) + "." + x.Sel.Name
						}
						e = x.X
						continue
					}
					// package-qualified identifier
					e = x.Sel
					continue
				}
				break
			}
			id, ok := e.(*ast.Ident)
			if !ok {
				return
			}
			obj := p.info.Uses[id]
			if obj == nil {
				obj = p.info.Defs[id]
			}
			pkgLevel := isPkgLevel(p, obj)
			if !pkgLevel && viaShared == "" {
				return
			}
			class := "WOther"
			switch {
			case fresh[obj] && !pkgLevel:
				class = "WFresh"
			case inOnce(lhs.Pos()):
				class = "WOnce"
			case viaGuarded != nil:
				class = "WGuarded"
				writtenGuarded[viaGuarded] = true
			}
			writes = append(writes, wrow{fn.file, fn.name, nodeStr(p.fset, lhs), class})
		}
		ast.Inspect(fn.decl.Body, func(n ast.Node) bool {
			switch x := n.(type) {
			case *ast.AssignStmt:
				if x.Tok == token.DEFINE {
					// a := ... defines locals; x.f := is impossible
					return true
				}
				for _, l := range x.Lhs {
					target(l)
				}
			case *ast.IncDecStmt:
				target(x.X)
			case *ast.CallExpr:
				if f, ok := x.Fun.(*ast.Ident); ok && (f.Name == "delete" || f.Name == "clear") && len(x.Args) >= 1 {
					target(x.Args[0])
				}
				if s, ok := x.Fun.(*ast.SelectorExpr); ok {
					if id, ok := s.X.(*ast.Ident); ok {
						if obj := p.info.Uses[id]; obj != nil && isPkgLevel(p, obj) {
							if _, isMethod := p.info.Selections[s]; isMethod {
								gcalls = append(gcalls, gcall{fn.file, fn.name, id.Name, c9TypeName(obj.Type()), s.Sel.Name})
							}
						}
					}
				}
			}
			return true
		})
	}

	// ---- lock and location numbering ----
	sort.Slice(lockStructs, func(i, j int) bool { return lockStructs[i].key < lockStructs[j].key })
	lockID := map[*lockInfo]int{}
	var lockRows, locRows []string
	locID := map[*types.Var]int{}
	for i, li := range lockStructs {
		lockID[li] = i
		lockRows = append(lockRows, fmt.Sprintf("(%d, %s)", i, coqBytes(li.key)))
		var fs []*types.Var
		for f := range li.fields {
			if writtenGuarded[f] {
				fs = append(fs, f)
			}
		}
		sort.Slice(fs, func(a, b int) bool { return li.fields[fs[a]] < li.fields[fs[b]] })
		for _, f := range fs {
			locID[f] = len(locID)
			locRows = append(locRows, fmt.Sprintf("(%d, %s, %d)", locID[f], coqBytes(li.fields[f]), i))
		}
	}

	// ---- paths ----
	var pathRows []string
	tooMany := 0
	for _, k := range keys {
		fn := fns[k]
		p := fn.p
		en := &c9enum{p: p, locID: locID, lockOf: func(call *ast.CallExpr) (int, string, bool) {
			s, ok := call.Fun.(*ast.SelectorExpr)
			if !ok {
				return 0, "", false
			}
			switch s.Sel.Name {
			case "Lock", "RLock", "Unlock", "RUnlock":
			default:
				return 0, "", false
			}
			// e.mu.Lock(): the receiver expression is a field selection of a mutex
			if xs, ok := s.X.(*ast.SelectorExpr); ok {
				if sel, ok := p.info.Selections[xs]; ok {
					if fv, ok := sel.Obj().(*types.Var); ok {
						if li, ok := mutexField[fv]; ok {
							return lockID[li], s.Sel.Name, true
						}
					}
				}
			}
			// pathCache.Lock(): promoted through an embedded mutex
			if sel, ok := p.info.Selections[s]; ok && len(sel.Index()) > 1 {
				rt := sel.Recv()
				if pt, ok := rt.(*types.Pointer); ok {
					rt = pt.Elem()
				}
				if st, ok := rt.Underlying().(*types.Struct); ok {
					if fv := st.Field(sel.Index()[0]); fv != nil {
						if li, ok := mutexField[fv]; ok {
							return lockID[li], s.Sel.Name, true
						}
					}
				}
			}
			// a mutex the tables do not know
			if tv, ok := p.info.Types[s.X]; ok && c9IsMutex(tv.Type) {
				return -1, s.Sel.Name, true
			}
			return 0, "", false
		}}
		paths, relevant := en.function(fn.decl)
		if !relevant {
			continue
		}
		if paths == nil {
			tooMany++
			pathRows = append(pathRows, fmt.Sprintf("(%s, %s, [Wr 999999])", coqBytes(fn.file), coqBytes(fn.name)))
			continue
		}
		for _, pa := range paths {
			pathRows = append(pathRows, fmt.Sprintf("(%s, %s, [%s])", coqBytes(fn.file), coqBytes(fn.name), strings.Join(pa, "; ")))
		}
	}

	var wr []string
	sort.Slice(writes, func(i, j int) bool {
		a, b := writes[i], writes[j]
		return a.file+a.fn+a.lhs < b.file+b.fn+b.lhs
	})
	for _, w := range writes {
		wr = append(wr, fmt.Sprintf("(%s, %s, %s, %s)", coqBytes(w.file), coqBytes(w.fn), coqBytes(w.lhs), w.class))
	}
	var gc []string
	seen := map[string]bool{}
	for _, g := range gcalls {
		row := fmt.Sprintf("(%s, %s, %s, %s)", coqBytes(g.file), coqBytes(g.fn), coqBytes(g.v+"."+g.method), coqBytes(g.typ))
		if !seen[row] {
			seen[row] = true
			gc = append(gc, row)
		}
	}
	sort.Strings(gc)
	var sh []string
	for s := range shared {
		sh = append(sh, s)
	}
	sort.Strings(sh)
	nreach := 0
	for range reach {
		nreach++
	}
	var b strings.Builder
	b.WriteString("From Coq Require Import List.\nImport ListNotations.\nFrom V Require Import Base.Bytes Model.Conc.\n")
	b.WriteString("Inductive wclass := WGuarded | WFresh | WOnce | WOther.\n")
	fmt.Fprintf(&b, "Definition roots_found : nat := %d.\nDefinition reachable_functions : nat := %d.\nDefinition functions_total : nat := %d.\n", rootsFound, nreach, len(fns))
	b.WriteString("Definition shared_types : list bytes := " + coqList(sh, coqBytes) + ".\n")
	b.WriteString("Definition lock_names : list (nat * bytes) := [\n  " + strings.Join(lockRows, ";\n  ") + "\n].\n")
	b.WriteString("Definition loc_table : list (nat * bytes * nat) := [\n  " + strings.Join(locRows, ";\n  ") + "\n].\n")
	b.WriteString("Definition paths : list (bytes * bytes * list action) := [\n  " + strings.Join(pathRows, ";\n  ") + "\n].\n")
	b.WriteString("Definition shared_writes : list (bytes * bytes * bytes * wclass) := [\n  " + strings.Join(wr, ";\n  ") + "\n].\n")
	b.WriteString("Definition global_calls : list (bytes * bytes * bytes * bytes) := [\n  " + strings.Join(gc, ";\n  ") + "\n].\n")
	return b.String(), nil
}

// ---- path enumeration ----
type c9state struct {
	acts   []string
	defers []string
	done   bool // returned
	brk    bool // left the innermost loop body (break / continue)
}

func (s c9state) key() string {
	return strings.Join(s.acts, ";") + "|" + strings.Join(s.defers, ";") + fmt.Sprint(s.done, s.brk)
}
func (s c9state) with(a ...string) c9state {
	n := c9state{acts: append(append([]string{}, s.acts...), a...), defers: s.defers, done: s.done, brk: s.brk}
	return n
}

type c9enum struct {
	p        *c9pkg
	locID    map[*types.Var]int
	lockOf   func(*ast.CallExpr) (int, string, bool)
	relevant bool
	overflow bool
}

func c9dedupe(in []c9state) []c9state {
	seen := map[string]bool{}
	var out []c9state
	for _, s := range in {
		k := s.key()
		if !seen[k] {
			seen[k] = true
			out = append(out, s)
		}
	}
	return out
}

func c9act(name string, id int, w bool) string {
	switch name {
	case "Lock":
		return fmt.Sprintf("Acq %d true", id)
	case "RLock":
		return fmt.Sprintf("Acq %d false", id)
	case "Unlock":
		return fmt.Sprintf("Rel %d true", id)
	default:
		return fmt.Sprintf("Rel %d false", id)
	}
}

// actions of evaluating an expression / simple statement, in source order; writes after the right-hand side
func (e *c9enum) exprActs(n ast.Node, writeTargets map[ast.Expr]bool) []string {
	var acts []string
	var late []string
	if n == nil {
		return nil
	}
	ast.Inspect(n, func(x ast.Node) bool {
		switch y := x.(type) {
		case *ast.CallExpr:
			if id, name, ok := e.lockOf(y); ok {
				e.relevant = true
				if id < 0 {
					acts = append(acts, "Wr 999998") // unknown mutex: makes the path undisciplined
				} else {
					acts = append(acts, c9act(name, id, false))
				}
				return false
			}
		case *ast.SelectorExpr:
			if sel, ok := e.p.info.Selections[y]; ok && sel.Kind() == types.FieldVal {
				if fv, ok := sel.Obj().(*types.Var); ok {
					if id, ok := e.locID[fv]; ok {
						e.relevant = true
						if writeTargets[y] {
							late = append(late, fmt.Sprintf("Wr %d", id))
						} else {
							acts = append(acts, fmt.Sprintf("Rd %d", id))
						}
					}
				}
			}
		}
		return true
	})
	return append(acts, late...)
}

// the guarded selector a write goes through (x.f = .., x.f[k] = .., delete(x.f, k))
func c9writeSel(lhs ast.Expr) ast.Expr {
	e := lhs
	for {
		switch x := e.(type) {
		case *ast.ParenExpr:
			e = x.X
		case *ast.IndexExpr:
			e = x.X
		case *ast.StarExpr:
			e = x.X
		case *ast.SelectorExpr:
			return x
		default:
			return nil
		}
	}
}

func (e *c9enum) simple(s ast.Stmt) []string {
	wt := map[ast.Expr]bool{}
	switch x := s.(type) {
	case *ast.AssignStmt:
		if x.Tok != token.DEFINE {
			for _, l := range x.Lhs {
				if w := c9writeSel(l); w != nil {
					wt[w] = true
				}
			}
		}
	case *ast.IncDecStmt:
		if w := c9writeSel(x.X); w != nil {
			wt[w] = true
		}
	case *ast.ExprStmt:
		if c, ok := x.X.(*ast.CallExpr); ok {
			if f, ok := c.Fun.(*ast.Ident); ok && (f.Name == "delete" || f.Name == "clear") && len(c.Args) >= 1 {
				if w := c9writeSel(c.Args[0]); w != nil {
					wt[w] = true
				}
			}
		}
	}
	return e.exprActs(s, wt)
}

func (e *c9enum) apply(in []c9state, acts []string) []c9state {
	if len(acts) == 0 {
		return in
	}
	out := make([]c9state, 0, len(in))
	for _, s := range in {
		if s.done || s.brk {
			out = append(out, s)
		} else {
			out = append(out, s.with(acts...))
		}
	}
	return out
}

func (e *c9enum) block(list []ast.Stmt, in []c9state) []c9state {
	for _, s := range list {
		in = e.stmt(s, in)
		if len(in) > 4096 {
			e.overflow = true
			return in[:1]
		}
	}
	return in
}

func (e *c9enum) stmt(s ast.Stmt, in []c9state) []c9state {
	switch x := s.(type) {
	case nil:
		return in
	case *ast.BlockStmt:
		return e.block(x.List, in)
	case *ast.LabeledStmt:
		return e.stmt(x.Stmt, in)
	case *ast.IfStmt:
		in = e.stmt(x.Init, in)
		in = e.apply(in, e.exprActs(x.Cond, nil))
		a := e.block(x.Body.List, in)
		b := in
		if x.Else != nil {
			b = e.stmt(x.Else, in)
		}
		return c9dedupe(append(append([]c9state{}, a...), b...))
	case *ast.ForStmt:
		in = e.stmt(x.Init, in)
		in = e.apply(in, e.exprActs(x.Cond, nil))
		body := e.block(x.Body.List, in)
		body = e.stmt(x.Post, body)
		return e.loopExit(in, body)
	case *ast.RangeStmt:
		in = e.apply(in, e.exprActs(x.X, nil))
		body := e.block(x.Body.List, in)
		return e.loopExit(in, body)
	case *ast.SwitchStmt:
		in = e.stmt(x.Init, in)
		in = e.apply(in, e.exprActs(x.Tag, nil))
		return e.clauses(x.Body, in)
	case *ast.TypeSwitchStmt:
		in = e.stmt(x.Init, in)
		in = e.stmt(x.Assign, in)
		return e.clauses(x.Body, in)
	case *ast.SelectStmt:
		return e.clauses(x.Body, in)
	case *ast.ReturnStmt:
		in = e.apply(in, e.exprActs(x, nil))
		out := make([]c9state, 0, len(in))
		for _, st := range in {
			if !st.done && !st.brk {
				st = st.with()
				for i := len(st.defers) - 1; i >= 0; i-- {
					st.acts = append(st.acts, st.defers[i])
				}
				st.done = true
			}
			out = append(out, st)
		}
		return out
	case *ast.BranchStmt:
		if x.Tok == token.BREAK || x.Tok == token.CONTINUE {
			out := make([]c9state, 0, len(in))
			for _, st := range in {
				if !st.done {
					st.brk = true
				}
				out = append(out, st)
			}
			return out
		}
		return in
	case *ast.DeferStmt:
		if id, name, ok := e.lockOf(x.Call); ok {
			e.relevant = true
			out := make([]c9state, 0, len(in))
			for _, st := range in {
				if !st.done && !st.brk {
					n := st.with()
					n.defers = append(append([]string{}, st.defers...), c9act(name, id, false))
					st = n
				}
				out = append(out, st)
			}
			return out
		}
		return e.apply(in, e.exprActs(x.Call, nil))
	case *ast.GoStmt:
		return e.apply(in, e.exprActs(x.Call, nil))
	default:
		return e.apply(in, e.simple(s))
	}
}

// after a loop: the states that skipped it and the states that ran its body once; break/continue end here
func (e *c9enum) loopExit(skip, body []c9state) []c9state {
	out := append([]c9state{}, skip...)
	for _, st := range body {
		st.brk = false
		out = append(out, st)
	}
	return c9dedupe(out)
}

func (e *c9enum) clauses(body *ast.BlockStmt, in []c9state) []c9state {
	var out []c9state
	hasDefault := false
	for _, c := range body.List {
		switch cc := c.(type) {
		case *ast.CaseClause:
			st := in
			if cc.List == nil {
				hasDefault = true
			}
			for _, ex := range cc.List {
				st = e.apply(st, e.exprActs(ex, nil))
			}
			out = append(out, e.block(cc.Body, st)...)
		case *ast.CommClause:
			st := in
			if cc.Comm == nil {
				hasDefault = true
			} else {
				st = e.stmt(cc.Comm, st)
			}
			out = append(out, e.block(cc.Body, st)...)
		}
	}
	if !hasDefault {
		out = append(out, in...)
	}
	for i := range out { // a break inside a switch leaves the switch only
		out[i].brk = false
	}
	return c9dedupe(out)
}

func (e *c9enum) function(fd *ast.FuncDecl) ([][]string, bool) {
	out := e.block(fd.Body.List, []c9state{{}})
	if !e.relevant {
		return nil, false
	}
	if e.overflow {
		return nil, true
	}
	var paths [][]string
	seen := map[string]bool{}
	for _, st := range out {
		acts := st.acts
		if !st.done {
			acts = append([]string{}, st.acts...)
			for i := len(st.defers) - 1; i >= 0; i-- {
				acts = append(acts, st.defers[i])
			}
		}
		k := strings.Join(acts, ";")
		if !seen[k] {
			seen[k] = true
			paths = append(paths, acts)
		}
	}
	return paths, true
}

// ---------------- C11: the include-depth guard, unchecked type assertions, reflective field reads ----------------
func init() { siteTables["C11"] = sitesC11 }

func sitesC11(_ *token.FileSet, _ map[string]*ast.File) (string, error) {
	var pkgs []*c9pkg
	for _, dir := range []string{repoDir, repoDir + "/internal/helpers", repoDir + "/internal/reflect", repoDir + "/internal/parser"} {
		p, err := loadTypedFull(dir)
		if err != nil {
			return "", err
		}
		pkgs = append(pkgs, p)
	}
	root := pkgs[0]
	limit := ""
	if c, ok := root.pkg.Scope().Lookup("maxIncludeDepth").(*types.Const); ok {
		limit = c.Val().ExactString()
	}
	guard := ""
	slotTest, slotCond, slotPush := "", "", ""
	var asserts, fields, recovers []string
	for _, p := range pkgs {
		for _, f := range p.files {
			fname := filepath.Base(p.fset.Position(f.Pos()).Filename)
			for _, d := range f.Decls {
				fd, ok := d.(*ast.FuncDecl)
				if !ok || fd.Body == nil {
					continue
				}
				// the first statement of evalInclude: if <cond> { return nil, error }
				if fd.Name.Name == "evalInclude" && len(fd.Body.List) > 0 {
					if is, ok := fd.Body.List[0].(*ast.IfStmt); ok && is.Init == nil && len(is.Body.List) == 1 {
						if _, ok := is.Body.List[0].(*ast.ReturnStmt); ok {
							guard = nodeStr(p.fset, is.Cond)
						}
					}
				}
				// evalSlot's bookkeeping of the inherited slots being expanded: the test over the whole chain, the
				// condition under which a supplied content is expanded, and the push of the slot's name
				if fd.Name.Name == "evalSlot" {
					ast.Inspect(fd.Body, func(n ast.Node) bool {
						switch x := n.(type) {
						case *ast.RangeStmt:
							if strings.HasSuffix(nodeStr(p.fset, x.X), "inheritedSlots") && len(x.Body.List) == 1 {
								slotTest = nodeStr(p.fset, x.Body.List[0])
							}
						case *ast.IfStmt:
							if strings.Contains(nodeStr(p.fset, x.Cond), "expanding") && len(x.Body.List) == 2 {
								slotCond = nodeStr(p.fset, x.Cond)
								slotPush = nodeStr(p.fset, x.Body.List[0])
							}
						}
						return true
					})
				}
				// type switches and comma-ok assertions are checked forms
				checked := map[*ast.TypeAssertExpr]bool{}
				guardsFields := false
				ast.Inspect(fd.Body, func(n ast.Node) bool {
					switch x := n.(type) {
					case *ast.TypeSwitchStmt:
						ast.Inspect(x.Assign, func(m ast.Node) bool {
							if ta, ok := m.(*ast.TypeAssertExpr); ok {
								checked[ta] = true
							}
							return true
						})
					case *ast.AssignStmt:
						if len(x.Lhs) == 2 && len(x.Rhs) == 1 {
							if ta, ok := x.Rhs[0].(*ast.TypeAssertExpr); ok {
								checked[ta] = true
							}
						}
					case *ast.ValueSpec:
						if len(x.Names) == 2 && len(x.Values) == 1 {
							if ta, ok := x.Values[0].(*ast.TypeAssertExpr); ok {
								checked[ta] = true
							}
						}
					case *ast.SelectorExpr:
						if x.Sel.Name == "IsExported" || x.Sel.Name == "CanInterface" || x.Sel.Name == "PkgPath" {
							guardsFields = true
						}
					case *ast.CallExpr:
						if id, ok := x.Fun.(*ast.Ident); ok && id.Name == "recover" {
							recovers = append(recovers, fmt.Sprintf("(%s, %s)", coqBytes(fname), coqBytes(fd.Name.Name)))
						}
					}
					return true
				})
				ast.Inspect(fd.Body, func(n ast.Node) bool {
					switch x := n.(type) {
					case *ast.TypeAssertExpr:
						if x.Type == nil || checked[x] {
							return true
						}
						class := "AOther"
						if c, ok := x.X.(*ast.CallExpr); ok {
							if s, ok := c.Fun.(*ast.SelectorExpr); ok && s.Sel.Name == "Get" {
								if tv, ok := p.info.Types[s.X]; ok && strings.HasSuffix(c9TypeName(tv.Type), "sync.Pool") {
									class = "APool"
								}
							}
						}
						// an interface of this package with exactly one implementation, asserted to that implementation
						if tv, ok := p.info.Types[x.X]; ok {
							if it, ok := tv.Type.Underlying().(*types.Interface); ok && it.NumMethods() > 0 {
								impls := 0
								var only types.Type
								sc := p.pkg.Scope()
								for _, nm := range sc.Names() {
									if tn, ok := sc.Lookup(nm).(*types.TypeName); ok {
										if _, isI := tn.Type().Underlying().(*types.Interface); isI {
											continue
										}
										if types.Implements(types.NewPointer(tn.Type()), it) || types.Implements(tn.Type(), it) {
											impls++
											only = tn.Type()
										}
									}
								}
								if tt, ok := p.info.Types[x.Type]; ok && impls == 1 {
									t := tt.Type
									if pt, ok := t.(*types.Pointer); ok {
										t = pt.Elem()
									}
									if types.Identical(t, only) {
										class = "ASoleImpl"
									}
								}
							}
						}
						asserts = append(asserts, fmt.Sprintf("(%s, %s, %s, %s)", coqBytes(fname), coqBytes(fd.Name.Name), coqBytes(nodeStr(p.fset, x)), class))
					case *ast.CallExpr:
						if s, ok := x.Fun.(*ast.SelectorExpr); ok && (s.Sel.Name == "Field" || s.Sel.Name == "FieldByName" || s.Sel.Name == "FieldByIndex" || s.Sel.Name == "FieldByNameFunc") {
							if tv, ok := p.info.Types[s.X]; ok && c9TypeName(tv.Type) == "reflect.Value" {
								fields = append(fields, fmt.Sprintf("(%s, %s, %s, %v)", coqBytes(fname), coqBytes(fd.Name.Name), coqBytes(nodeStr(p.fset, x)), guardsFields))
							}
						}
					}
					return true
				})
			}
		}
	}
	sort.Strings(asserts)
	sort.Strings(fields)
	sort.Strings(recovers)
	if limit == "" {
		limit = "0"
	}
	var b strings.Builder
	b.WriteString("From Coq Require Import List.\nImport ListNotations.\nFrom V Require Import Base.Bytes.\n")
	b.WriteString("Inductive aclass := APool | ASoleImpl | AOther.\n")
	fmt.Fprintf(&b, "Definition max_include_depth : nat := %s.\n", limit)
	b.WriteString("Definition include_guard : bytes := " + coqBytes(guard) + ".\n")
	b.WriteString("Definition slot_chain_test : bytes := " + coqBytes(slotTest) + ".\n")
	b.WriteString("Definition slot_chain_cond : bytes := " + coqBytes(slotCond) + ".\n")
	b.WriteString("Definition slot_chain_push : bytes := " + coqBytes(slotPush) + ".\n")
	b.WriteString("Definition unchecked_assertions : list (bytes * bytes * bytes * aclass) := [\n  " + strings.Join(asserts, ";\n  ") + "\n].\n")
	b.WriteString("Definition reflect_field_reads : list (bytes * bytes * bytes * bool) := [\n  " + strings.Join(fields, ";\n  ") + "\n].\n")
	b.WriteString("Definition recover_sites : list (bytes * bytes) := [\n  " + strings.Join(recovers, ";\n  ") + "\n].\n")
	return b.String(), nil
}

// ---------------- C19: the formatter's element classes ----------------
func init() { siteTables["C19"] = sitesC19 }

func sitesC19(_ *token.FileSet, _ map[string]*ast.File) (string, error) {
	fset, files, err := parseRepoPkg(repoDir + "/formatter")
	if err != nil {
		return "", err
	}
	lists := map[string][]string{}
	for _, f := range files {
		for _, d := range f.Decls {
			fd, ok := d.(*ast.FuncDecl)
			if !ok || fd.Body == nil {
				continue
			}
			switch fd.Name.Name {
			case "isVoidElement", "isInlineAtom", "isPhrasingContainer":
			default:
				continue
			}
			ast.Inspect(fd.Body, func(n ast.Node) bool {
				cl, ok := n.(*ast.CompositeLit)
				if !ok {
					return true
				}
				for _, e := range cl.Elts {
					if s, ok := e.(*ast.SelectorExpr); ok {
						if id, ok := s.X.(*ast.Ident); ok && id.Name == "atom" {
							lists[fd.Name.Name] = append(lists[fd.Name.Name], strings.ToLower(s.Sel.Name))
						}
					}
				}
				return false
			})
		}
	}
	_ = fset
	var b strings.Builder
	b.WriteString("From Coq Require Import List.\nImport ListNotations.\nFrom V Require Import Base.Bytes.\n")
	b.WriteString("Definition voids : list bytes := " + coqList(lists["isVoidElement"], coqBytes) + ".\n")
	b.WriteString("Definition inlines : list bytes := " + coqList(lists["isInlineAtom"], coqBytes) + ".\n")
	b.WriteString("Definition phrasings : list bytes := " + coqList(lists["isPhrasingContainer"], coqBytes) + ".\n")
	return b.String(), nil
}
