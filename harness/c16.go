package main

import (
	"bytes"
	"context"
	"fmt"
	"strings"
	"testing/fstest"

	"golang.org/x/net/html"
	"golang.org/x/net/html/atom"

	"github.com/titpetric/vuego"
)

// C16: v-once. The expanded instantiation forest is obtained metamorphically: the same program is
// rendered with v-once renamed to data-once="<file>#<element>"; the model filters that forest.

type c16El struct {
	id      int
	once    bool
	cond    bool   // the element also carries a (true) v-if: another branch of the evaluator
	loop    int    // >0: v-for over a list of that many items
	include string // non-empty: <template include=...> instead of an element (kids = supplied slot content)
	slot    bool   // <slot></slot>
	kids    []*c16El
}

type c16Gen struct {
	r     *Rng
	next  int
	slots bool // the file being generated is a component: it may contain <slot>
}

func (g *c16Gen) tree(depth int, comps []string) []*c16El {
	var out []*c16El
	n := 1 + g.r.Intn(3)
	for i := 0; i < n; i++ {
		if len(comps) > 0 && g.r.Intn(4) == 0 {
			inc := &c16El{include: Pick(g.r, comps)}
			if g.r.Intn(3) == 0 { // content for the component's default slot, written in this file
				inc.kids = g.tree(0, nil)
			}
			out = append(out, inc)
			continue
		}
		if g.slots && g.r.Intn(5) == 0 {
			out = append(out, &c16El{slot: true})
			continue
		}
		g.next++
		e := &c16El{id: g.next, once: g.r.Intn(3) == 0, cond: g.r.Intn(4) == 0}
		if g.r.Intn(4) == 0 {
			e.loop = 2 + g.r.Intn(2)
		}
		if depth > 0 && g.r.Intn(3) != 0 {
			e.kids = g.tree(depth-1, comps)
		}
		out = append(out, e)
	}
	return out
}

// a conditional include of a missing file at the very end of the page: with boom set the render fails
// after every v-once element of the page has been reached
const c16Trailer = `<template v-if="boom"><template include="missing.vuego"></template></template>`

func c16Src(file string, es []*c16El, real bool) string {
	if file == "page.vuego" {
		return c16SrcInner(file, es, real) + c16Trailer
	}
	return c16SrcInner(file, es, real)
}
func c16SrcInner(file string, es []*c16El, real bool) string {
	var sb strings.Builder
	for _, e := range es {
		if e.include != "" {
			fmt.Fprintf(&sb, `<template include="%s">%s</template>`, e.include, c16SrcInner(file, e.kids, real))
			continue
		}
		if e.slot {
			sb.WriteString("<slot></slot>")
			continue
		}
		attrs := fmt.Sprintf(` data-m="%d" :data-l="link"`, e.id)
		if e.once {
			if real {
				attrs += " v-once"
			} else {
				attrs += fmt.Sprintf(` data-once="%s#%d"`, file, e.id)
			}
		}
		if e.loop > 0 {
			attrs += fmt.Sprintf(` v-for="q in l%d"`, e.loop)
		}
		if e.cond {
			attrs += ` v-if="link"`
		}
		fmt.Fprintf(&sb, "<div%s>%s</div>", attrs, c16SrcInner(file, e.kids, real))
	}
	return sb.String()
}

type c16Node struct {
	mark  string
	label string
	kids  []*c16Node
}

func c16Forest(out string) ([]*c16Node, error) {
	ctx := &html.Node{Type: html.ElementNode, Data: "body", DataAtom: atom.Body}
	nodes, err := html.ParseFragment(strings.NewReader(out), ctx)
	if err != nil {
		return nil, err
	}
	var walk func(n *html.Node) []*c16Node
	walk = func(n *html.Node) []*c16Node {
		var res []*c16Node
		for c := n.FirstChild; c != nil; c = c.NextSibling {
			res = append(res, visit(c, walk)...)
		}
		return res
	}
	var res []*c16Node
	for _, n := range nodes {
		res = append(res, visit(n, walk)...)
	}
	return res, nil
}
func visit(n *html.Node, walk func(*html.Node) []*c16Node) []*c16Node {
	if n.Type != html.ElementNode {
		return nil
	}
	var m, l, o string
	has := false
	for _, a := range n.Attr {
		switch a.Key {
		case "data-m":
			m, has = a.Val, true
		case "data-l":
			l = a.Val
		case "data-once":
			o = a.Val
		}
	}
	kids := walk(n)
	if !has {
		return kids
	}
	node := &c16Node{label: m, kids: kids}
	if o != "" {
		node.mark = l + ":" + o
	}
	return []*c16Node{node}
}
func c16Coq(ns []*c16Node) string {
	if len(ns) == 0 {
		return "FNil"
	}
	n := ns[0]
	mark := "None"
	if n.mark != "" {
		mark = "(Some " + coqBytes(n.mark) + ")"
	}
	return fmt.Sprintf("(FNode %s %s %s %s)", mark, n.label, c16Coq(n.kids), c16Coq(ns[1:]))
}
func c16Obs(ns []*c16Node) []Obs {
	var out []Obs
	for _, n := range ns {
		out = append(out, L(append([]Obs{A(n.label)}, c16Obs(n.kids)...)...))
	}
	return out
}

type c16Prog struct {
	files  map[string][]*c16El
	layout bool
	wrap   map[string]int // how a component file is wrapped: 0 not at all, 1 <template v-if>, 2 <template v-for>, 3 v-if/v-else
	spell  map[string]int // how a file spells the directive: attribute names are case-insensitive in HTML
}

// spellings of the directive that the HTML parser reads as the attribute v-once
var c16Spellings = []string{" v-once", " V-ONCE", " v-Once", ` v-once=""`}

func (p c16Prog) fs(real bool) fstest.MapFS {
	m := fstest.MapFS{}
	for name, es := range p.files {
		src := c16Src(name, es, real)
		if real && p.spell[name] > 0 {
			src = strings.ReplaceAll(src, " v-once", c16Spellings[p.spell[name]%len(c16Spellings)])
		}
		if name == "page.vuego" && p.layout {
			src = "---\nlayout: lay\n---\n" + src
		}
		if name == "layouts/lay.vuego" {
			src = "---\nlink: L\n---\n" + src + `<main v-html="content"></main>`
		}
		// a component file may begin with a <template> that is a condition or a loop: its v-once elements are
		// elements of that file like any other
		switch p.wrap[name] {
		case 1:
			src = `<template v-if="link">` + src + `</template>`
		case 2:
			src = `<template v-for="w in l2">` + src + `</template>`
		case 3:
			src = `<template v-if="boom2">no</template><template v-else>` + src + `</template>`
		}
		m[name] = &fstest.MapFile{Data: []byte(src)}
	}
	return m
}

func c16Render(eng any, p c16Prog, entry string, real bool) (string, error) {
	return c16RenderB(eng, p, entry, real, false)
}
func c16RenderB(eng any, p c16Prog, entry string, real bool, boom bool) (string, error) {
	data := func() map[string]any {
		return map[string]any{"link": "P", "l2": []any{1, 2}, "l3": []any{1, 2, 3}, "boom": boom}
	}
	var buf bytes.Buffer
	var err error
	func() {
		defer func() {
			if x := recover(); x != nil {
				err = fmt.Errorf("PANIC %v", x)
			}
		}()
		switch entry {
		case "VueRender":
			err = eng.(*vuego.Vue).Render(&buf, "page.vuego", data())
		case "VueFragment":
			err = eng.(*vuego.Vue).RenderFragment(&buf, "page.vuego", data())
		case "LoadRender":
			err = eng.(vuego.Template).New().Fill(data()).Load("page.vuego").Render(context.Background(), &buf)
		case "RenderFile":
			err = eng.(vuego.Template).New().Fill(data()).RenderFile(context.Background(), &buf, "page.vuego")
		case "RenderString":
			err = eng.(vuego.Template).New().Fill(data()).RenderString(context.Background(), &buf, c16Src("page.vuego", p.files["page.vuego"], real))
		case "VueRenderNodes": // the caller parses the page itself and hands the nodes over
			var nodes []*html.Node
			nodes, err = html.ParseFragment(strings.NewReader(c16Src("page.vuego", p.files["page.vuego"], real)), &html.Node{Type: html.ElementNode, Data: "body", DataAtom: atom.Body})
			if err == nil {
				err = eng.(*vuego.Vue).RenderNodes(&buf, nodes, data())
			}
		}
	}()
	return buf.String(), err
}

// a component tag written in its shorthand form (<box-a>, registered by WithComponents) is the same include as its
// long form <template include="components/BoxA.vuego">: with v-once on the tag, with content, inside loops
func c16ShortLong(r *Run) {
	rr := r.Rng
	comps := map[string]string{
		"components/BoxA.vuego":     `<div data-c="a" :data-l="link"><i v-once>a-once</i><slot>fa</slot></div>`,
		"components/BoxB.vuego":     `<section data-c="b"><slot></slot><b v-once>b-once</b></section>`,
		"components/ui/BoxC.vuego": `<p data-c="c">{{ link }}<slot></slot></p>`,
	}
	tags := map[string]string{"components/BoxA.vuego": "box-a", "components/BoxB.vuego": "box-b", "components/ui/BoxC.vuego": "ui-box-c"}
	names := []string{"components/BoxA.vuego", "components/BoxB.vuego", "components/ui/BoxC.vuego"}
	n := 300
	if r.Thorough() {
		n = 6000
	}
	type inc struct {
		file, attrs, content string
		kids                 []inc
	}
	var gen func(depth int) []inc
	gen = func(depth int) []inc {
		var out []inc
		for i, k := 0, 1+rr.Intn(4); i < k; i++ {
			x := inc{file: Pick(rr, names)}
			if rr.Intn(2) == 0 {
				x.attrs += " v-once"
			}
			if rr.Intn(5) == 0 {
				x.attrs += ` v-for="q in l2"`
			}
			if rr.Intn(6) == 0 {
				x.attrs += ` v-if="link"`
			}
			if rr.Intn(4) == 0 {
				x.attrs += ` :title="link"`
			}
			if rr.Intn(3) == 0 {
				x.content = Pick(rr, []string{"text", "<u>u</u>", `<u v-once>once-in-content</u>`})
			}
			if depth > 0 && rr.Intn(3) == 0 {
				x.kids = gen(depth - 1)
			}
			out = append(out, x)
		}
		return out
	}
	var src func(xs []inc, short bool) string
	src = func(xs []inc, short bool) string {
		var sb strings.Builder
		for _, x := range xs {
			body := x.content + src(x.kids, short)
			if short {
				fmt.Fprintf(&sb, "<%s%s>%s</%s>", tags[x.file], x.attrs, body, tags[x.file])
			} else {
				fmt.Fprintf(&sb, `<template include="%s"%s>%s</template>`, x.file, x.attrs, body)
			}
		}
		return sb.String()
	}
	render := func(page string, entry string) (string, error) {
		m := fstest.MapFS{"page.vuego": &fstest.MapFile{Data: []byte(page)}}
		for k, v := range comps {
			m[k] = &fstest.MapFile{Data: []byte(v)}
		}
		data := map[string]any{"link": "P", "l2": []any{1, 2}}
		var buf bytes.Buffer
		var err error
		func() {
			defer func() {
				if x := recover(); x != nil {
					err = fmt.Errorf("PANIC %v", x)
				}
			}()
			if entry == "VueRegistered" || entry == "VueRegisteredFragment" { // the tags registered one by one on a Vue
				vue := vuego.NewVue(m)
				for file, tag := range tags {
					vue.RegisterComponent(tag, file)
				}
				if entry == "VueRegistered" {
					err = vue.Render(&buf, "page.vuego", data)
				} else {
					err = vue.RenderFragment(&buf, "page.vuego", data)
				}
				return
			}
			t := vuego.NewFS(m, vuego.WithComponents())
			switch entry {
			case "LoadRender":
				err = t.New().Fill(data).Load("page.vuego").Render(context.Background(), &buf)
			case "RenderFile":
				err = t.New().Fill(data).RenderFile(context.Background(), &buf, "page.vuego")
			default:
				err = t.New().Fill(data).RenderString(context.Background(), &buf, page)
			}
		}()
		return buf.String(), err
	}
	for c := 0; c < n; c++ {
		xs := gen(1)
		entry := Pick(rr, []string{"LoadRender", "RenderFile", "RenderString", "VueRegistered", "VueRegisteredFragment"})
		pre := Pick(rr, []string{"", `<h1 v-once>head</h1>`, `<h1>head</h1>`})
		long, short := pre+src(xs, false), pre+src(xs, true)
		lo, lerr := render(long, entry)
		so, serr := render(short, entry)
		onces := strings.Count(long, "v-once")
		r.Eval(fmt.Sprintf("shorthand:%d", c), onces >= 2, map[string]any{"includes": len(xs), "entry": entry})
		r.Count("shorthand-entry:" + entry)
		if fmt.Sprint(lerr) != fmt.Sprint(serr) || lo != so {
			r.Fail("a component written as a shorthand tag renders differently from the same include written in full", map[string]string{"oracle": "shorthand-vs-long", "entry": entry},
				map[string]any{"long_form": long, "short_form": short, "components": comps, "long_output": lo, "short_output": so, "long_error": fmt.Sprint(lerr), "short_error": fmt.Sprint(serr), "entry": entry})
		}
	}
}

// v-once beside another directive on the same element (v-pre, v-show, v-html, a bound attribute): the element is
// still one element, emitted at its first instantiation only - in a loop, in a component included from a loop
func c16WithOtherDirectives(r *Run) {
	comp := `<style v-once>.w{}</style><script v-once v-pre>var tpl = "{{ raw }}"; boot()</script><i>{{ n }}</i>`
	m := fstest.MapFS{"comp/widget.vuego": &fstest.MapFile{Data: []byte(comp)},
		"page.vuego": &fstest.MapFile{Data: []byte(`<div v-for="n in l3"><template include="comp/widget.vuego" :n="n"></template></div>` +
			`<section v-for="n in l3"><script v-once v-pre>init("{{ x }}")</script><em v-once v-show="yes">shown</em><u v-once :title="link">t</u><s v-once v-html="h"></s></section>`)}}
	want := map[string]int{"boot()": 1, ".w{}": 1, `init(`: 1, "<em": 1, "<u ": 1, "<s>": 1, "{{ raw }}": 1, "{{ x }}": 1}
	for _, entry := range []string{"render", "load", "string"} {
		for round := 1; round <= 2; round++ {
			out, err := miniRenderEntry(m, entry, "page.vuego", map[string]any{"l3": []any{1, 2, 3}, "yes": true, "link": "L", "h": "<b>x</b>"})
			r.Eval(fmt.Sprintf("once-with-directives:%s:%d", entry, round), true, nil)
			r.Count("stream:once-with-other-directives(oracle only)")
			for frag, n := range want {
				if got := strings.Count(out, frag); err != nil || got != n {
					r.Fail("a v-once element that carries another directive is not emitted exactly once", map[string]string{"oracle": "once-with-directives", "entry": entry, "fragment": frag},
						map[string]any{"entry": entry, "fragment": frag, "count": got, "expected": n, "output": out, "err": fmt.Sprint(err)})
					break
				}
			}
		}
	}
}

func init() { streams["C16"] = runC16 }

func runC16(r *Run) {
	r.Imports = []string{"Model.Once"}
	r.Rule("programs with v-once elements (the directive spelled v-once, V-ONCE, v-Once or v-once=\"\", one spelling per file) at top level, nested in one another, inside v-for over 2-3 items, inside components included 1..n times (also from loops and from other components), in two different components and in a layout; " +
		"every entry point (Vue.Render, Vue.RenderFragment, Vue.RenderNodes on nodes the caller parsed, Load().Render and RenderFile with and without a layout, RenderString); each program rendered twice on one engine, then once more after a render of the same page that fails at its very end; " +
		"the expanded forest comes from rendering the same program with v-once renamed to a marker attribute; (shorthand) pages of nested component includes with v-once, v-for, v-if, bound attributes and slot content on the include itself, written once as <template include> and once as registered shorthand tags: the two must render the same bytes; non-trivial: some marked element is instantiated >= 2 times or >= 2 marked elements exist")
	r.Assume("the keys written by the harness (file#element, prefixed by the layout link) identify source elements; the model is told nothing about the implementation's own id scheme")
	c16ShortLong(r)
	c16WithOtherDirectives(r)
	rr := r.Rng
	n := 500
	if r.Thorough() {
		n = 20000
	}
	entries := []string{"VueRender", "VueFragment", "LoadRender", "RenderFile", "RenderString", "VueRenderNodes"}
	for c := 0; c < n; c++ {
		g := &c16Gen{r: rr}
		p := c16Prog{files: map[string][]*c16El{}}
		g.slots = true
		p.files["a.vuego"] = g.tree(1, nil)
		p.files["b.vuego"] = g.tree(1, []string{"a.vuego"})
		p.wrap = map[string]int{"a.vuego": Pick(rr, []int{0, 0, 1, 2, 3}), "b.vuego": Pick(rr, []int{0, 0, 0, 1, 2})}
		p.spell = map[string]int{"a.vuego": Pick(rr, []int{0, 0, 1, 2, 3}), "b.vuego": Pick(rr, []int{0, 0, 1, 2, 3}), "page.vuego": Pick(rr, []int{0, 0, 0, 1, 3})}
		g.slots = false
		p.files["page.vuego"] = g.tree(2, []string{"a.vuego", "b.vuego", "a.vuego"})
		entry := Pick(rr, entries)
		if (entry == "LoadRender" || entry == "RenderFile") && rr.Bool() {
			p.layout = true
			p.files["layouts/lay.vuego"] = g.tree(1, []string{"a.vuego", "b.vuego"})
		}
		mk := func(real bool) any {
			if strings.HasPrefix(entry, "Vue") {
				return vuego.NewVue(p.fs(real))
			}
			return vuego.NewFS(p.fs(real))
		}
		expOut, err := c16Render(mk(false), p, entry, false)
		if err != nil {
			r.Count("expanded-render-error")
			if _, ok := r.extra["first_expanded_error"]; !ok {
				r.extra["first_expanded_error"] = err.Error()
			}
			continue
		}
		forest, err := c16Forest(expOut)
		if err != nil {
			panic(err)
		}
		// non-triviality: count instantiations per key
		inst := map[string]int{}
		var cnt func(ns []*c16Node)
		cnt = func(ns []*c16Node) {
			for _, x := range ns {
				if x.mark != "" {
					inst[x.mark]++
				}
				cnt(x.kids)
			}
		}
		cnt(forest)
		multi := false
		for _, k := range inst {
			if k >= 2 {
				multi = true
			}
		}
		eng := mk(true)
		files := map[string]string{}
		for name := range p.files {
			files[name] = string(p.fs(true)[name].Data)
		}
		for round := 1; round <= 3; round++ {
			if round == 3 {
				// a render of the same page that fails after every v-once element was reached; what it saw must not
				// be remembered by the next render (nor by the first render of the next program: ids repeat)
				if _, ferr := c16RenderB(eng, p, entry, true, true); ferr == nil {
					r.Count("failing-render-did-not-fail")
				} else {
					r.Count("failing-render-between-rounds")
				}
			}
			out, err := c16Render(eng, p, entry, true)
			var obs Obs
			if err != nil {
				obs = L(A("error:" + err.Error()))
			} else {
				f, _ := c16Forest(out)
				obs = L(c16Obs(f)...)
			}
			r.Count("entry:" + entry)
			r.Count(fmt.Sprintf("layout:%v", p.layout))
			r.Case("once", "{| c_expanded := "+c16Coq(forest)+" |}", obs, map[string]any{"entry": entry, "round": round, "files": files},
				map[string]string{"entry": entry, "round": fmt.Sprint(round), "layout": fmt.Sprint(p.layout)}, multi || len(inst) >= 2)
		}
	}
}
