package main

import (
	"bytes"
	"context"
	"fmt"
	"github.com/titpetric/vuego"
	"strings"
	"testing/fstest"

	"golang.org/x/net/html"
)

// C14: attribute binding on one probe element.

type c14Pair struct {
	key  string
	lit  *Val   // literal value (expr-lang literal) or
	path string // a path
}
type c14Attr struct {
	kind  string // static bound boundinterp obj
	key   string // as written in the source for static ("title", "[href]", "v-show"); bare name for bound forms
	vbind bool   // v-bind:k instead of :k
	val   string
	pairs []c14Pair
}

func (a c14Attr) Source() string {
	switch a.kind {
	case "static":
		return fmt.Sprintf(`%s="%s"`, a.key, a.val)
	case "bound", "boundinterp":
		p := ":"
		if a.vbind {
			p = "v-bind:"
		}
		return fmt.Sprintf(`%s%s="%s"`, p, a.key, a.val)
	}
	var items []string
	for _, p := range a.pairs {
		k := p.key
		if strings.Contains(k, "-") {
			k = "'" + k + "'"
		}
		v := p.path
		if p.lit != nil {
			switch p.lit.K {
			case "str":
				v = "'" + p.lit.S + "'"
				if strings.Contains(p.lit.S, "'") { // a literal holding an apostrophe is written in double quotes (&quot; inside the attribute)
					v = "&quot;" + p.lit.S + "&quot;"
				}
			case "bool":
				v = fmt.Sprint(p.lit.B)
			default:
				v = fmt.Sprint(p.lit.I)
			}
		}
		items = append(items, k+": "+v)
	}
	return fmt.Sprintf(`:%s="{%s}"`, a.key, strings.Join(items, ", "))
}
func (a c14Attr) Coq() string {
	switch a.kind {
	case "static":
		return fmt.Sprintf("AStatic %s %s", coqBytes(a.key), coqBytes(a.val))
	case "bound":
		return fmt.Sprintf("ABound %s %s", coqBytes(a.key), coqBytes(a.val))
	case "boundinterp":
		return fmt.Sprintf("ABoundInterp %s %s", coqBytes(a.key), coqBytes(a.val))
	}
	ps := coqList(a.pairs, func(p c14Pair) string {
		if p.lit != nil {
			return fmt.Sprintf("(%s, ELit %s)", coqBytes(p.key), p.lit.Coq())
		}
		return fmt.Sprintf("(%s, EPath %s)", coqBytes(p.key), coqBytes(p.path))
	})
	return fmt.Sprintf("AObj %s %s", coqBytes(a.key), ps)
}

func c14Probe(out string) (Obs, bool) {
	all := c14ProbeAll(out)
	if len(all) == 0 {
		return L(), false
	}
	return all[0], true
}

// the attribute lists of every probe element of the output, in document order
func c14ProbeAll(out string) []Obs {
	nodes, err := html.ParseFragment(strings.NewReader("<div>"+out+"</div>"), nil)
	if err != nil {
		return []Obs{A("parse-error")}
	}
	var res []Obs
	var walk func(n *html.Node)
	walk = func(n *html.Node) {
		if n.Type == html.ElementNode && n.Data == "p" {
			for _, a := range n.Attr {
				if a.Key == "data-m" {
					var xs []Obs
					for _, a := range n.Attr {
						xs = append(xs, L(A(a.Key), A(a.Val)))
					}
					res = append(res, L(xs...))
					break
				}
			}
		}
		for c := n.FirstChild; c != nil; c = c.NextSibling {
			walk(c)
		}
	}
	for _, n := range nodes {
		walk(n)
	}
	return res
}

// the attribute with every path it reads taken from the loop variable r
func (a c14Attr) under(prefix string) c14Attr {
	b := a
	re := func(s string) string { return strings.ReplaceAll(s, "{{ ", "{{ "+prefix) }
	switch a.kind {
	case "static":
		if a.key == "v-show" || a.key == "v-text" || a.key == "v-html" {
			b.val = prefix + a.val
		} else if !strings.HasPrefix(a.key, "[") {
			b.val = re(a.val)
		}
	case "bound":
		b.val = prefix + a.val
	case "boundinterp":
		b.val = re(a.val)
	case "obj":
		b.pairs = nil
		for _, p := range a.pairs {
			if p.lit == nil {
				p.path = prefix + p.path
			}
			b.pairs = append(b.pairs, p)
		}
	}
	return b
}

func init() { streams["C14"] = runC14 }

func runC14(r *Run) {
	c14TypedHistories(r)
	r.Imports = []string{"Base.Val", "Model.Attrs"}
	r.Rule("one probe element carrying up to 8 attributes over a vocabulary of static (plain / with mustaches), :name and v-bind:name bound, bound-with-mustache, object syntax on class / style / other names (path and literal values, quoted keys, camelCase style keys, hyphenated keys with capitals such as CSS custom properties), " +
		"bracketed [name], v-show and other directives, including several bound attributes, static/bound collisions on class, style and ordinary names; values of every kind and truthiness; " +
		"observable: the ordered attribute list of the element as an HTML parser reads it back; non-trivial: >= 2 attributes that interact (same name, class/style merge, v-show with style)")
	r.Assume("attribute values contain no quotes or angle brackets (escaping is C01/C02; ampersands and reference-looking text are generated); object-literal values are paths or simple literals; one attribute per written name")
	rr := r.Rng
	n := 4000
	if r.Thorough() {
		n = 100000
	}
	s1 := Val{K: "struct", T: "S1", M: []KV{{K: "Name", V: VStr("n")}, {K: "Age", V: VInt("int", 0)}, {K: "Plain", V: VStr("")}, {K: "hidden", V: VStr("")}, {K: "Skip", V: VInt("int", 0)}, {K: "sec", V: VInt("int", 0)}}}
	_ = s1
	data := VMap(
		KV{K: "s", V: VStr("str")}, KV{K: "e", V: VStr("")}, KV{K: "t", V: VBool(true)}, KV{K: "f", V: VBool(false)},
		KV{K: "n", V: VInt("int", 7)}, KV{K: "z", V: VInt("int", 0)}, KV{K: "z8", V: VInt("int8", 0)}, KV{K: "u", V: VInt("uint16", 3)},
		KV{K: "fl", V: Val{K: "float64", F: 1.5}}, KV{K: "nil", V: VNil()}, KV{K: "list", V: VList("", VStr("a"), VStr("b"))},
		KV{K: "cls", V: VStr("c1 c2")}, KV{K: "css", V: VStr("color: blue; padding:1px")}, KV{K: "fs", V: VStr("12px")}, KV{K: "m", V: VMap(KV{K: "k", V: VStr("mk")}, KV{K: "is-open", V: VBool(true)}, KV{K: "is-closed", V: VBool(false)}, KV{K: "a b", V: VStr("sp")})},
		KV{K: "lm", V: VList("", VMap(KV{K: "on", V: VBool(true)}), VMap(KV{K: "on", V: VBool(false)}))},
		KV{K: "not", V: VStr("kw")}, KV{K: "in", V: VInt("int", 0)}, KV{K: "let", V: VBool(true)},
		// text that reads like character references: the attribute must come back from a parser exactly as given
		KV{K: "amp", V: VStr("/s?q=1&copy=2&lt=3")}, KV{K: "ent", V: VStr("Tom &amp; &lt;b&gt; &#34;x&#34;")},
	).Normalize()
	// the rows of the loop variant: the same names with other values and other truthiness from row to row
	flip := func(pairs ...KV) Val {
		m := VMap(append([]KV{}, data.M...)...)
		for _, kv := range pairs {
			for i := range m.M {
				if m.M[i].K == kv.K {
					m.M[i].V = kv.V
				}
			}
		}
		return m.Normalize()
	}
	rows := []Val{
		data,
		flip(KV{K: "t", V: VBool(false)}, KV{K: "f", V: VBool(true)}, KV{K: "s", V: VStr("")}, KV{K: "e", V: VStr("full")}, KV{K: "n", V: VInt("int", 0)}, KV{K: "z", V: VInt("int", 5)}, KV{K: "cls", V: VStr("r2")}, KV{K: "css", V: VStr("margin:2px")}, KV{K: "fs", V: VStr("")}),
		data,
		flip(KV{K: "t", V: VBool(false)}, KV{K: "nil", V: VStr("set")}, KV{K: "list", V: VList("")}, KV{K: "cls", V: VStr("")}, KV{K: "css", V: VStr("")}, KV{K: "u", V: VInt("uint16", 0)}),
	}
	// plain paths, and paths only the path resolver can follow (a hyphenated key, a dotted numeric index, a name
	// that is a keyword of the expression language)
	paths := []string{"s", "e", "t", "f", "n", "z", "z8", "u", "fl", "nil", "list", "cls", "css", "fs", "m.k", "m.zz", "zz",
		"m.is-open", "m.is-closed", "lm.0.on", "lm.1.on", "list.0", "lm[0].on", "not", "in", "let",
		// ... and paths of each kind that lead nowhere
		"list.9", "m.is-none", "lm.7.on", "nope-x", "zz.0", "m.nokey.deeper", "amp", "ent"}
	names := []string{"title", "href", "class", "style", "data-x", "id", "disabled"}
	lits := []Val{VStr("red"), VStr(""), VBool(true), VBool(false), VInt("int", 12), VInt("int", 0),
		// string literals that hold the separators of the object syntax: a comma, a colon, a quote of the other kind, braces
		VStr("a, b"), VStr("it's, ok"), VStr("x: y"), VStr("O'Reilly Sans, serif"), VStr("{a}")}
	mkObj := func(key string) c14Attr {
		a := c14Attr{kind: "obj", key: key}
		keys := []string{"on", "off", "x-y", "big"}
		if key == "style" {
			keys = []string{"fontSize", "color", "margin-top", "display", "Width", "--accentColor", "--my-var", "x-Pad"}
		}
		used := map[string]bool{}
		for i, k := 0, 1+rr.Intn(3); i < k; i++ {
			pk := Pick(rr, keys)
			if used[pk] {
				continue
			}
			used[pk] = true
			p := c14Pair{key: pk}
			if rr.Intn(3) == 0 {
				l := Pick(rr, lits)
				p.lit = &l
			} else {
				p.path = Pick(rr, paths)
			}
			a.pairs = append(a.pairs, p)
		}
		return a
	}
	// every attribute count 1..10 around v-show, with and without a static style, content directive and bound
	// attribute, as the body of a loop whose rows alternate between shown and hidden
	for pads := 0; pads <= 7; pads++ {
		for _, dir := range []string{"", "v-text", "v-html"} {
			for _, style := range []string{"", "color: red", "display:block;margin:0"} {
				for _, bound := range []bool{false, true} {
					for _, cond := range []string{"r.t", "r.n", "r.s"} {
						attrs := []c14Attr{{kind: "static", key: "data-m", val: "1"}}
						if style != "" {
							attrs = append(attrs, c14Attr{kind: "static", key: "style", val: style})
						}
						attrs = append(attrs, c14Attr{kind: "static", key: "v-show", val: cond})
						if dir != "" {
							attrs = append(attrs, c14Attr{kind: "static", key: dir, val: "r.cls"})
						}
						if bound {
							attrs = append(attrs, c14Attr{kind: "bound", key: "title", val: "r.fs"})
						}
						for i := 0; i < pads; i++ {
							attrs = append(attrs, c14Attr{kind: "static", key: fmt.Sprintf("data-p%d", i), val: fmt.Sprint(i)})
						}
						var parts []string
						for _, a := range attrs {
							parts = append(parts, a.Source())
						}
						for _, shape := range []string{`<ul><li v-for="r in rows"><p %s>x</p></li></ul>`, `<p v-for="r in rows" %s>x</p>`} {
							src := fmt.Sprintf(shape, strings.Join(parts, " "))
							ld := data.Go().(map[string]any)
							var rowsGo []any
							for _, rw := range rows {
								rowsGo = append(rowsGo, rw.Go())
							}
							ld["rows"] = rowsGo
							out, err := c03RenderAny(src, ld)
							var got []Obs
							if err == nil {
								got = c14ProbeAll(out)
							}
							for i, rw := range rows {
								var o Obs
								switch {
								case err != nil:
									o = L(A("error"), A(err.Error()))
								case i < len(got):
									o = got[i]
								default:
									o = L()
								}
								coq := fmt.Sprintf("{| c_data := %s; c_attrs := %s |}", VMap(append(append([]KV{}, data.M...), KV{K: "r", V: rw})...).Normalize().Coq(), coqList(attrs, c14Attr.Coq))
								r.Case("attrs", coq, o, map[string]any{"template": src, "row": i, "output": out}, map[string]string{"shape": "loop-grid"}, true)
							}
						}
					}
				}
			}
		}
	}
	for c := 0; c < n; c++ {
		attrs := []c14Attr{{kind: "static", key: "data-m", val: "1"}}
		written := map[string]bool{"data-m": true}
		k := 1 + rr.Intn(7)
		for i := 0; i < k; i++ {
			var a c14Attr
			name := Pick(rr, names)
			if rr.Intn(5) == 0 {
				name = Pick(rr, []string{"lang", "dir", "role", "tabindex", "data-y", "data-z"}) // more names: longer attribute lists without collisions
			}
			switch rr.Intn(12) {
			case 0, 1:
				a = c14Attr{kind: "static", key: name, val: Pick(rr, []string{"lit", "a b", "color: red; margin:0", "x {{ s }} y", "{{ n }}", "", "width:1px;color:green"})}
				if name == "style" {
					a.val = Pick(rr, []string{"color: red; margin:0", "width:1px;color:green", "display:block", "", "--accentColor: red; color:red", "--accent-color:blue;x-Pad:1"})
				}
			case 2, 3, 4:
				a = c14Attr{kind: "bound", key: name, val: Pick(rr, paths), vbind: rr.Intn(4) == 0}
				if name == "style" {
					a.val = Pick(rr, []string{"css", "fs", "e", "zz", "n", "s"})
				}
			case 5:
				a = c14Attr{kind: "boundinterp", key: name, val: Pick(rr, []string{"p-{{ s }}", "{{ e }}", "{{ n }}-{{ s }}"})}
			case 6, 7:
				a = mkObj(Pick(rr, []string{"class", "style", "class", "style", "data-x"}))
			case 8:
				a = c14Attr{kind: "static", key: "[" + name + "]", val: Pick(rr, []string{"lit", "{{ s }}", "a}}b"})}
			case 9, 10:
				a = c14Attr{kind: "static", key: "v-show", val: Pick(rr, paths)}
				if rr.Intn(2) == 0 && !written["v-text"] && !written["v-html"] { // the element's content comes from a directive too
					t := c14Attr{kind: "static", key: Pick(rr, []string{"v-text", "v-html"}), val: Pick(rr, []string{"s", "cls", "n", "e", "zz"})}
					written[t.key] = true
					attrs = append(attrs, t)
				}
			default:
				a = c14Attr{kind: "static", key: Pick(rr, []string{"v-once", "v-keep", "v-pre-x"}), val: ""}
			}
			w := a.key
			if a.kind != "static" {
				w = ":" + a.key
			}
			if written[w] {
				continue
			}
			written[w] = true
			attrs = append(attrs, a)
		}
		var parts []string
		for _, a := range attrs {
			parts = append(parts, a.Source())
		}
		src := "<p " + strings.Join(parts, " ") + ">x</p>"
		if rr.Intn(4) == 0 {
			// an earlier render in this process failed in the middle of an attribute value and of a text, after part of
			// each had been produced: the attributes of this render carry their own values and nothing else
			_, _ = c03RenderAny(`<p title="Hello {{ v }}, {{ v | nosuchfilter }}" data-k="pre-{{ v }}-{{ v | nosuchfilter }}">Dear {{ v }}: {{ v | nosuchfilter }}</p>`, map[string]any{"v": "LEFTOVER"})
			r.Count("history:after-a-render-that-failed-mid-attribute")
		}
		out, err := c03RenderAny(src, data.Go())
		var obs Obs
		if err != nil {
			obs = L(A("error"), A(err.Error()))
		} else {
			obs, _ = c14Probe(out)
		}
		// direct oracles (no model)
		if err == nil {
			got := map[string]string{}
			all := map[string]bool{} // name=value pairs present (a name may be emitted twice)
			for _, kv := range obs.List {
				if len(kv.List) == 2 {
					got[*kv.List[0].Atom] = *kv.List[1].Atom
					all[*kv.List[0].Atom+"="+*kv.List[1].Atom] = true
				}
			}
			for k := range got {
				switch k {
				case "v-if", "v-else-if", "v-else", "v-for", "v-pre", "v-html", "v-text", "v-show", "v-once", "v-once-id", "v-keep", "data-v-html-content", "data-v-text-content":
					r.Fail("a directive attribute appears in the output", map[string]string{"oracle": "directive-emitted", "name": k}, map[string]any{"template": src, "output": out})
				}
			}
			for _, a := range attrs {
				if a.kind == "static" && strings.HasPrefix(a.key, "[") {
					name := strings.Trim(a.key, "[]")
					if v := got[name]; !all[name+"="+a.val] {
						class := "other"
						if strings.Contains(a.val, "{{") && strings.Contains(a.val, "}}") {
							class = "bracket-value-with-mustache"
						}
						if !(written[name] || written[":"+name]) { // a same-named attribute may legitimately interact
							r.Fail("a bracketed attribute does not appear literally with its value untouched", map[string]string{"oracle": "bracket-literal", "class": class},
								map[string]any{"template": src, "output": out, "attribute": a.key, "written": a.val, "emitted": v})
						}
					}
				}
			}
		}
		inter := 0
		seen := map[string]int{}
		for _, a := range attrs {
			seen[strings.Trim(a.key, "[]")]++
		}
		for _, v := range seen {
			if v >= 2 {
				inter++
			}
		}
		if written["v-show"] && (written["style"] || written[":style"]) {
			inter++
		}
		r.Count(fmt.Sprintf("attrs:%d", len(attrs)-1))
		coq := fmt.Sprintf("{| c_data := %s; c_attrs := %s |}", data.Coq(), coqList(attrs, c14Attr.Coq))
		r.Case("attrs", coq, obs, map[string]any{"template": src}, map[string]string{}, inter > 0)
		// the same element as the body of a loop: every row has values of its own, and what one row's evaluation does
		// to the element must not show on the next (each row: the model's answer over that row's values)
		if c%3 == 0 && err == nil {
			kw := false
			for _, a := range attrs {
				t := a.Source()
				kw = kw || strings.Contains(t, "v-once") || strings.Contains(t, "not") || strings.Contains(t, `"in"`) || strings.Contains(t, " in") || strings.Contains(t, "let")
			}
			if kw {
				continue
			}
			var lattrs []c14Attr
			var lparts []string
			for _, a := range attrs {
				la := a.under("r.")
				lattrs = append(lattrs, la)
				lparts = append(lparts, la.Source())
			}
			lsrc := Pick(rr, []string{`<div v-for="r in rows"><p %s>x</p></div>`, `<p v-for="r in rows" %s>x</p>`, `<template v-for="(i, r) in rows"><p %s>x</p></template>`, `<ul><li v-for="r in rows"><b>b</b><p %s>x</p></li></ul>`})
			lsrc = fmt.Sprintf(lsrc, strings.Join(lparts, " "))
			ld := data.Go().(map[string]any)
			var rowsGo []any
			for _, rw := range rows {
				rowsGo = append(rowsGo, rw.Go())
			}
			ld["rows"] = rowsGo
			lout, lerr := c03RenderAny(lsrc, ld)
			var got []Obs
			if lerr == nil {
				got = c14ProbeAll(lout)
			}
			for i, rw := range rows {
				var o Obs
				switch {
				case lerr != nil:
					o = L(A("error"), A(lerr.Error()))
				case i < len(got):
					o = got[i]
				default:
					o = L()
				}
				lcoq := fmt.Sprintf("{| c_data := %s; c_attrs := %s |}", VMap(append(append([]KV{}, data.M...), KV{K: "r", V: rw})...).Normalize().Coq(), coqList(lattrs, c14Attr.Coq))
				r.Case("attrs", lcoq, o, map[string]any{"template": lsrc, "row": i, "output": lout}, map[string]string{"shape": "loop"}, true)
			}
			r.Count("loop-rows")
		}
	}
}

// one engine, one template, request after request with the same names holding values of different Go types (int, then
// JSON's float64, int64, uint8; a string, then a named string type; one struct type, then another with the same field
// names): every bound attribute, :class / :style object, v-show is what a new engine gives for that request
type c14Name string
type c14UserA struct {
	Name  string
	Admin bool
	Level int
}
type c14UserB struct {
	Level float64
	Admin bool
	Name  string
}

func c14TypedHistories(r *Run) {
	tpl := `<p id="a" class="box" :class="{on: n == 1, off: n == 2, adm: u.Admin}" v-show="n == 1" :data-n="n" :data-eq="n == 1" :style="{opacity: n == 1 ? 1 : 0.5}" :title="s == 'x' ? 'is-x' : 'not-x'" :data-u="u.Name + '/' + u.Level">x</p>` +
		`<ul><li v-for="k in ks" :class="{one: k == 1}" v-show="k == 1" :data-k="k + 1">i</li></ul>`
	reqs := []map[string]any{
		{"n": 1, "s": "x", "u": c14UserA{"ann", true, 3}, "ks": []any{1, 2}},
		{"n": float64(1), "s": c14Name("x"), "u": c14UserB{2.5, false, "bob"}, "ks": []any{1, int64(1), uint8(1), 1.0}},
		{"n": int64(2), "s": "y", "u": map[string]any{"Name": "cy", "Admin": true, "Level": 1}, "ks": []any{uint8(1), 1}},
		{"n": uint8(1), "s": c14Name("y"), "u": &c14UserA{"dan", false, 0}, "ks": []any{1.0, 1}},
		{"n": 1, "s": "x", "u": c14UserA{"ann", true, 3}, "ks": []any{1, 2}},
	}
	m := fstest.MapFS{"page.vuego": &fstest.MapFile{Data: []byte(tpl)}}
	render := func(v *vuego.Vue, t vuego.Template, entry string, d map[string]any) string {
		var buf bytes.Buffer
		var err error
		func() {
			defer func() {
				if x := recover(); x != nil {
					err = fmt.Errorf("PANIC %v", x)
				}
			}()
			if entry == "Vue.Render" {
				err = v.Render(&buf, "page.vuego", d)
			} else {
				err = t.New().Fill(d).RenderString(context.Background(), &buf, tpl)
			}
		}()
		return buf.String() + "|err=" + fmt.Sprint(err)
	}
	for _, entry := range []string{"Vue.Render", "New.Fill.RenderString"} {
		for start := 0; start < len(reqs); start++ {
			vue, base := vuego.NewVue(m), vuego.NewFS(m)
			for k := 0; k < len(reqs); k++ {
				d := reqs[(start+k)%len(reqs)]
				got, want := render(vue, base, entry, d), render(vuego.NewVue(m), vuego.NewFS(m), entry, d)
				r.Eval(fmt.Sprintf("typed-history:%s:%d:%d", entry, start, k), k > 0, nil)
				r.Count("stream:typed-histories(oracle only)")
				if got != want {
					r.Fail("bound attributes of a request depend on the Go types an earlier request on the same engine gave the same names", map[string]string{"oracle": "typed-histories", "entry": entry},
						map[string]any{"template": tpl, "request": fmt.Sprintf("%#v", d), "position_in_history": k, "first_request": start, "used_engine": got, "new_engine": want})
					break
				}
			}
		}
	}
}
