package main

import (
	"bytes"
	"context"
	"fmt"
	"regexp"
	"sort"
	"strings"
	"testing/fstest"

	"github.com/titpetric/vuego"
)

// C07: layout chains. Every test file prints a record [file|a|b] of what it sees, then its content.

type c07File struct {
	name  string
	fm    [][2]string // ordered key/value pairs (keys unique)
	fails bool
}

// how the front-matter block is written: the same block with LF or CRLF line ends, or with blanks after the closing fence
var c07FenceStyle int

func (f c07File) Source() string {
	var sb strings.Builder
	if len(f.fm) > 0 {
		h := len(f.name) + len(f.fm)
		nl, closing := "\n", "---\n"
		switch (c07FenceStyle + h) % 5 {
		case 1:
			nl, closing = "\r\n", "---\r\n"
		case 2:
			closing = "--- \n"
		case 3:
			closing = "---\t\n"
		}
		if c07FenceStyle == 0 {
			nl, closing = "\n", "---\n"
		}
		sb.WriteString("---" + nl)
		for _, kv := range f.fm {
			if kv[1] == "" { // an empty value, written in each of the ways YAML has for it
				fmt.Fprintf(&sb, "%s:%s%s", kv[0], []string{` ""`, " ~", " null", "", " ''"}[(h+len(kv[0])+c07FenceStyle)%5], nl)
				continue
			}
			fmt.Fprintf(&sb, "%s: %q%s", kv[0], kv[1], nl)
		}
		sb.WriteString(closing)
	}
	fmt.Fprintf(&sb, "<div data-f=\"%s\" data-a=\"{{ a }}\" data-b=\"{{ b }}\"></div>", f.name)
	if f.fails {
		sb.WriteString("<p>{{ a | nosuchfilter }}</p>")
	}
	sb.WriteString("<section v-html=\"content\"></section>")
	return sb.String()
}
func coqEnv(kvs [][2]string) string {
	return coqList(kvs, func(kv [2]string) string { return "(" + coqBytes(kv[0]) + ", " + coqBytes(kv[1]) + ")" })
}
func (f c07File) Coq() string {
	return fmt.Sprintf("F %s %s %s", coqBytes(f.name), coqEnv(f.fm), coqBool(f.fails))
}

var c07Rec = regexp.MustCompile(`data-f="([^"]*)" data-a="([^"]*)" data-b="([^"]*)"`)

// the two orders in which a request builds its template: data first, or file first
var c07LoadFirst bool
var c07Ctor int
var c07Prev int

func c07Render(files []c07File, page string, data [][2]string) Obs {
	m := fstest.MapFS{}
	for _, f := range files {
		m[f.name] = &fstest.MapFile{Data: []byte(f.Source())}
	}
	// how the renderer came to be: NewFS over the files (0), the documented New(WithFS(...)) (1), a renderer
	// built BEFORE the layouts existed (2), a renderer built while a default layout existed that is gone by
	// the time of the render (3). A render sees the files as they are when it runs.
	mk := func() vuego.Template { return vuego.NewFS(m) }
	switch c07Ctor {
	case 1:
		mk = func() vuego.Template { return vuego.New(vuego.WithFS(m)) }
	case 2:
		early := fstest.MapFS{}
		for k, v := range m {
			if !strings.HasPrefix(k, "layouts/") {
				early[k] = v
			}
		}
		t := vuego.NewFS(early)
		for k, v := range m {
			early[k] = v
		}
		mk = func() vuego.Template { return t }
	case 3:
		if _, ok := m["layouts/base.vuego"]; !ok {
			m["layouts/base.vuego"] = &fstest.MapFile{Data: []byte(`<em data-f="ghost" data-a="" data-b=""></em><section v-html="content"></section>`)}
			t := vuego.NewFS(m)
			if c07Prev%2 == 1 {
				// ... and that has rendered a page through that default layout (so the engine has parsed it)
				m["ghostpage.vuego"] = &fstest.MapFile{Data: []byte(`<p>ghost page</p>`)}
				var sink bytes.Buffer
				_ = t.Load("ghostpage.vuego").Render(context.Background(), &sink)
				delete(m, "ghostpage.vuego")
			}
			delete(m, "layouts/base.vuego")
			mk = func() vuego.Template { return t }
		}
	case 5:
		// a renderer that rendered a page while there was NO default layout; the layout exists by the time of the render
		if b, ok := m["layouts/base.vuego"]; ok {
			delete(m, "layouts/base.vuego")
			t := vuego.NewFS(m)
			m["plainpage.vuego"] = &fstest.MapFile{Data: []byte(`<p>plain page</p>`)}
			var sink bytes.Buffer
			_ = t.Load("plainpage.vuego").Render(context.Background(), &sink)
			delete(m, "plainpage.vuego")
			m["layouts/base.vuego"] = b
			mk = func() vuego.Template { return t }
		}
	}
	d := map[string]any{}
	for _, kv := range data {
		d[kv[0]] = kv[1]
	}
	var buf bytes.Buffer
	var err error
	func() {
		defer func() {
			if x := recover(); x != nil {
				err = fmt.Errorf("PANIC %v", x)
			}
		}()
		base := mk()
		if c07Prev > 0 {
			// the renderer has served another page before (its own layout, its own front-matter values): nothing of that
			// page may be left behind for this one
			m["prev.vuego"] = &fstest.MapFile{Data: []byte("---\nlayout: " + []string{"a", "b", "base", "a"}[c07Prev%4] + "\na: prev-a\nb: prev-b\n---\n<p>prev</p>")}
			pt := base.Load("prev.vuego")
			if c07Prev%2 == 0 {
				var sink bytes.Buffer
				_ = pt.Render(context.Background(), &sink)
			}
			delete(m, "prev.vuego")
		}
		switch {
		case c07Ctor == 4:
			// one loaded Template value rendered twice (with no data: Fill(nil)): the second render follows the same chain
			var t vuego.Template
			if len(d) == 0 {
				t = base.Load(page).Fill(nil)
			} else {
				t = base.Load(page).Fill(d)
			}
			var sink bytes.Buffer
			_ = t.Render(context.Background(), &sink)
			err = t.Render(context.Background(), &buf)
		case len(d) == 0 && c07Prev%3 == 1:
			err = base.Load(page).Render(context.Background(), &buf) // no data: no Fill at all
		case c07LoadFirst:
			err = base.Load(page).Fill(d).Render(context.Background(), &buf)
		default:
			err = base.Fill(d).Load(page).Render(context.Background(), &buf)
		}
	}()
	if err != nil {
		s := err.Error()
		switch {
		case strings.Contains(s, "PANIC"):
			return L(A("panic"), A(s))
		case strings.Contains(s, "depth exceeded"):
			return L(A("depth"))
		case strings.Contains(s, "error reading") || strings.Contains(s, "does not exist"):
			return L(A("missing"))
		default:
			return L(A("render"))
		}
	}
	var sb strings.Builder
	for _, mm := range c07Rec.FindAllStringSubmatch(buf.String(), -1) {
		sb.WriteString("[" + mm[1] + "|" + mm[2] + "|" + mm[3] + "]")
	}
	return L(A("ok"), A(sb.String()))
}

// reference answer computed by following the graph directly (the oracle; independent of the Coq model)
func c07Oracle(files []c07File, page string, data [][2]string, maxDepth int) Obs {
	byName := map[string]c07File{}
	for _, f := range files {
		byName[f.name] = f
	}
	exists := func(n string) bool { _, ok := byName[n]; return ok }
	dir := func(n string) string {
		if i := strings.LastIndex(n, "/"); i >= 0 {
			return n[:i]
		}
		return "."
	}
	join := func(d, x string) string {
		if d == "." {
			return x
		}
		return d + "/" + x
	}
	env := map[string]string{}
	for _, kv := range data {
		env[kv[0]] = kv[1]
	}
	pf, ok := byName[page]
	if !ok {
		return L(A("missing"))
	}
	for _, kv := range pf.fm {
		env[kv[0]] = kv[1]
	}
	if env["layout"] == "" && !exists("layouts/base.vuego") {
		if pf.fails {
			return L(A("render"))
		}
		return L(A("ok"), A("["+page+"|"+env["a"]+"|"+env["b"]+"]"))
	}
	cur, first, content := page, true, ""
	for depth := 0; ; depth++ {
		if depth >= maxDepth {
			return L(A("depth"))
		}
		f, ok := byName[cur]
		if !ok {
			return L(A("missing"))
		}
		e := map[string]string{}
		for k, v := range env {
			e[k] = v
		}
		for _, kv := range f.fm {
			e[kv[0]] = kv[1]
		}
		if f.fails {
			return L(A("render"))
		}
		content = "[" + cur + "|" + e["a"] + "|" + e["b"] + "]" + content
		env["content"] = content
		delete(env, "layout")
		next := e["layout"]
		if next == "" {
			if first {
				cur, first = "layouts/base.vuego", false
				continue
			}
			return L(A("ok"), A(content))
		}
		first = false
		d := dir(cur)
		switch {
		case strings.HasSuffix(next, ".vuego") && exists(join(d, next)):
			cur = join(d, next)
		case exists(join(d, next+".vuego")):
			cur = join(d, next+".vuego")
		default:
			cur = "layouts/" + next + ".vuego"
		}
	}
}

func init() { streams["C07"] = runC07 }

func runC07(r *Run) {
	r.Imports = []string{"Model.Layout"}
	r.Rule("layout graphs over {page.vuego, sub/page.vuego, a.vuego, sub/a.vuego, layouts/a.vuego, layouts/b.vuego, layouts/base.vuego}: every assignment of layout key in {none,a,b,base,a.vuego,zz(missing),self} to page, layouts/a, layouts/b, base " +
		"x base present/absent x a relative a.vuego present/absent x colliding keys a,b across Fill data, page and layout front-matter x a layout named by Fill data x a failing link; " +
		"plus explicit chains of 99/100/101/150 links, cycles of every length 1..4 and self-reference; non-trivial: chain length >= 2, a cycle, a missing target, or the default-base decision")
	r.Assume("layout names contain no '.'/'..' path segments; front-matter values are strings or empty (written as an empty quoted string, ~, null or nothing)")
	type cfg struct {
		files []c07File
		page  string
		data  [][2]string
		tags  map[string]string
	}
	emit := func(c cfg) {
		c07LoadFirst = r.Rng.Intn(3) == 0 // Load(page).Fill(data): the page's front-matter still wins over the filled data
		r.Count(fmt.Sprintf("order:load-first=%v", c07LoadFirst))
		c07Ctor = r.Rng.Intn(6) // 0: NewFS; 4: NewFS, and the loaded template is rendered twice (the second render is the one compared); 5: rendered a page while no default layout existed, which exists now; 3 with an odd c07Prev: has rendered a page through a default layout that is gone now; 1: New(WithFS); 2: built before the layouts existed; 3: built while a default layout existed
		r.Count(fmt.Sprintf("constructor:%d", c07Ctor))
		c07FenceStyle = 0
		if r.Rng.Intn(3) == 0 {
			c07FenceStyle = 1 + r.Rng.Intn(5)
		}
		r.Count(fmt.Sprintf("front-matter-line-ends-varied:%v", c07FenceStyle > 0))
		c07Prev = 0
		if r.Rng.Intn(3) == 0 {
			c07Prev = 1 + r.Rng.Intn(12)
		}
		r.Count(fmt.Sprintf("served-another-page-before:%v", c07Prev > 0))
		impl := c07Render(c.files, c.page, c.data)
		want := c07Oracle(c.files, c.page, c.data, 100)
		desc := map[string]any{"page": c.page, "data": c.data, "files": func() map[string]string {
			m := map[string]string{}
			for _, f := range c.files {
				m[f.name] = f.Source()
			}
			return m
		}()}
		if impl.Show() != want.Show() {
			r.Fail("rendered nesting differs from the chain followed by hand", map[string]string{"oracle": "chain"}, map[string]any{"case": desc, "implementation": impl.Show(), "expected": want.Show()})
		}
		nontrivial := strings.Count(want.Show(), "[") >= 2 || want.List[0].Show() != "'ok'"
		sort.Slice(c.files, func(i, j int) bool { return c.files[i].name < c.files[j].name })
		coq := fmt.Sprintf("{| c_files := %s; c_page := %s; c_data := %s |}", coqList(c.files, c07File.Coq), coqBytes(c.page), coqEnv(c.data))
		r.Count("outcome:" + *want.List[0].Atom)
		r.Case("layouts", coq, impl, desc, c.tags, nontrivial)
	}
	layoutChoices := []string{"", "a", "b", "base", "a.vuego", "zz", "SELF", "EMPTY"}
	fmOf := func(self, choice string, extra ...[2]string) [][2]string {
		var fm [][2]string
		if choice == "SELF" {
			choice = strings.TrimSuffix(strings.TrimPrefix(self, "layouts/"), ".vuego")
		}
		if choice == "EMPTY" {
			fm = append(fm, [2]string{"layout", ""})
		} else if choice != "" {
			fm = append(fm, [2]string{"layout", choice})
		}
		return append(fm, extra...)
	}
	rr := r.Rng
	n := 0
	for _, lp := range layoutChoices {
		for _, la := range layoutChoices {
			for _, lb := range layoutChoices {
				for _, lbase := range []string{"", "a", "b", "SELF", "zz"} {
					for variant := 0; variant < 4; variant++ {
						basePresent := variant&1 == 1
						relA := variant&2 == 2
						if !r.Thorough() && rr.Intn(100) >= 32 {
							continue
						}
						page := "page.vuego"
						if rr.Intn(4) == 0 {
							page = "sub/page.vuego"
						}
						files := []c07File{
							{name: page, fm: fmOf(page, lp, [2]string{"a", "page-a"})},
							{name: "layouts/a.vuego", fm: fmOf("layouts/a.vuego", la, [2]string{"a", "la-a"}, [2]string{"b", "la-b"}), fails: rr.Intn(25) == 0},
							{name: "layouts/b.vuego", fm: fmOf("layouts/b.vuego", lb, [2]string{"b", "lb-b"})},
						}
						if basePresent {
							files = append(files, c07File{name: "layouts/base.vuego", fm: fmOf("layouts/base.vuego", lbase)})
						}
						if rr.Intn(3) == 0 { // a base.vuego beside the page must not capture the default layout
							files = append(files, c07File{name: "base.vuego", fm: [][2]string{{"a", "relbase-a"}}}, c07File{name: "sub/base.vuego", fm: [][2]string{{"b", "subrelbase-b"}}})
						}
						if relA {
							files = append(files, c07File{name: "a.vuego", fm: fmOf("a.vuego", Pick(rr, []string{"", "b", "base"}), [2]string{"a", "rel-a"})})
							files = append(files, c07File{name: "sub/a.vuego", fm: [][2]string{{"b", "subrel-b"}}})
						}
						var data [][2]string
						if rr.Bool() {
							data = append(data, [2]string{"a", "fill-a"})
						}
						if rr.Bool() {
							data = append(data, [2]string{"b", "fill-b"})
						}
						if rr.Intn(6) == 0 {
							data = append(data, [2]string{"layout", Pick(rr, []string{"a", "b"})})
						}
						emit(cfg{files: files, page: page, data: data})
						n++
					}
				}
			}
		}
	}
	// explicit long chains and cycles
	chain := func(length int, last string) []c07File {
		fs := []c07File{}
		for i := 0; i < length; i++ {
			name := fmt.Sprintf("layouts/c%d.vuego", i)
			if i == 0 {
				name = "page.vuego"
			}
			next := fmt.Sprintf("c%d", i+1)
			if i == length-1 {
				next = last
			}
			fm := [][2]string{}
			if next != "" {
				fm = append(fm, [2]string{"layout", next})
			}
			if i%7 == 0 {
				fm = append(fm, [2]string{"a", fmt.Sprintf("a%d", i)})
			}
			fs = append(fs, c07File{name: name, fm: fm})
		}
		return fs
	}
	for _, ln := range []int{2, 3, 5, 98, 99, 100, 101, 102, 103, 150} {
		emit(cfg{files: chain(ln, ""), page: "page.vuego", data: [][2]string{{"b", "fill-b"}}, tags: map[string]string{"chain": fmt.Sprint(ln)}})
	}
	// the same lengths entered through the default layout: the page names none, layouts/base.vuego begins the chain
	for _, ln := range []int{3, 4, 98, 99, 100, 101, 102, 103} {
		fs := chain(ln, "")
		for i := range fs {
			switch fs[i].name {
			case "page.vuego":
				fs[i].fm = [][2]string{{"a", "page-a"}}
			case "layouts/c1.vuego":
				fs[i].name = "layouts/base.vuego"
			}
		}
		emit(cfg{files: fs, page: "page.vuego", data: [][2]string{{"b", "fill-b"}}, tags: map[string]string{"chain-through-base": fmt.Sprint(ln)}})
		// ... and named by the data instead of the page
		emit(cfg{files: fs, page: "page.vuego", data: [][2]string{{"layout", "base"}}, tags: map[string]string{"chain-through-base": fmt.Sprint(ln)}})
	}
	// a layout file rendered as the page itself (a theme preview renders every file): layouts/base.vuego names no layout,
	// so the default layout - itself - is applied once; a layout that names base; a layout that names itself (a cycle)
	for _, pg := range []string{"layouts/base.vuego", "layouts/a.vuego", "layouts/b.vuego"} {
		for _, la := range []string{"", "base", "b"} {
			files := []c07File{
				{name: "page.vuego", fm: [][2]string{{"layout", "a"}, {"a", "page-a"}}},
				{name: "layouts/a.vuego", fm: fmOf("layouts/a.vuego", la, [2]string{"a", "la-a"})},
				{name: "layouts/b.vuego", fm: fmOf("layouts/b.vuego", "", [2]string{"b", "lb-b"})},
				{name: "layouts/base.vuego", fm: fmOf("layouts/base.vuego", "")},
			}
			emit(cfg{files: files, page: pg, data: [][2]string{{"b", "fill-b"}}, tags: map[string]string{"layout-as-page": pg}})
		}
	}
	for cyc := 1; cyc <= 4; cyc++ { // the last link points back to c1 / itself
		for _, ln := range []int{2, 3, 4, 5} {
			back := fmt.Sprintf("c%d", ln-cyc)
			if ln-cyc < 1 {
				continue
			}
			emit(cfg{files: chain(ln, back), page: "page.vuego", tags: map[string]string{"cycle": fmt.Sprint(cyc)}})
		}
	}
	r.extra["graphs"] = n
}
