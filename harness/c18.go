package main

import (
	"errors"
	"fmt"
	"io"
	"io/fs"
	"os"
	"path/filepath"
	"strings"
	"testing/fstest"
	"time"

	"github.com/titpetric/vuego"
)

// C18: overlay filesystem. Layers are fstest.MapFS; the model receives, per layer,
// the table of what that layer itself answers on the queried universe.

type c18Shape struct{ a, x, d, e, b int }

var c18Opens = []string{"a", "x", "d", "d/x", "d/y", "d/y/w", "d-", "d-/x", ".", "zz", "big", "big/n03", "big/n04", "big/n15"}
var c18Dirs = []string{".", "a", "d", "d-", "d/y", "zz", "big", "big/n04"}
var c18Globs = []string{"*", "d/*", "*/*", "*/x", "a", "?", "[", "d-/x", "d*/x*", "*/*/*", "big/*", "big/n0?",
	// patterns without * or ?: character classes, ranges, negation, escapes
	"[ax]", "d/[xy]", "[d]/x", `\a`, "[a-d]", "[^a]", "d/[xy]/w", "d[-]/x", `d\-/x`, "[x", "zz", "d/y", "big/n0[34]"}

func c18Layer(idx int, sh c18Shape) fstest.MapFS {
	m := fstest.MapFS{}
	mt := time.Unix(int64(1000+idx*100), 0)
	file := func(p string) {
		m[p] = &fstest.MapFile{Data: []byte(fmt.Sprintf("L%d:%s", idx, p)), Mode: fs.FileMode(0o600 + idx), ModTime: mt}
	}
	dir := func(p string) { m[p] = &fstest.MapFile{Mode: fs.ModeDir | fs.FileMode(0o700+idx), ModTime: mt} }
	switch sh.a {
	case 1:
		file("a")
	case 2:
		dir("a")
	}
	switch sh.d {
	case 1:
		file("d")
	case 2:
		dir("d")
	case 3:
		file("d/x")
	case 4:
		file("d/x")
		file("d/y")
	case 5:
		file("d/y/w")
	}
	if sh.x == 1 {
		file("x")
	}
	if sh.e == 1 {
		file("d-/x")
	}
	// a directory with many entries (listings long enough for any sorting strategy), the same names being files in
	// one shape and partly directories in the other
	switch sh.b {
	case 1:
		for i := 0; i < 14; i++ {
			file(fmt.Sprintf("big/n%02d", i))
		}
	case 2:
		for i := 0; i < 17; i++ {
			if i%2 == 0 {
				dir(fmt.Sprintf("big/n%02d", i))
			} else {
				file(fmt.Sprintf("big/n%02d", i))
			}
		}
	}
	return m
}

// the same layer materialised on disk and served by os.DirFS: a real file system answers "not a directory"
// (not fs.ErrNotExist) for a path below a regular file, and reports its own sizes and modes for directories
// a file system with no method but Open
type c18OpenOnly struct{ inner fs.FS }

func (o c18OpenOnly) Open(name string) (fs.File, error) { return o.inner.Open(name) }

func c18Disk(root string, idx int, m fstest.MapFS) fs.FS {
	_ = os.MkdirAll(root, 0o755)
	mt := time.Unix(int64(1000+idx*100), 0)
	for p, f := range m {
		full := filepath.Join(root, filepath.FromSlash(p))
		if f.Mode.IsDir() {
			_ = os.MkdirAll(full, 0o755)
			continue
		}
		_ = os.MkdirAll(filepath.Dir(full), 0o755)
		_ = os.WriteFile(full, f.Data, 0o644)
	}
	_ = filepath.Walk(root, func(p string, info os.FileInfo, err error) error {
		if err == nil {
			_ = os.Chtimes(p, mt, mt)
		}
		return nil
	})
	return os.DirFS(root)
}

func c18Info(f fs.FS, p string) (string, bool, bool) { // data, isDir, ok
	fh, err := f.Open(p)
	if err != nil {
		return errClass(err), false, false
	}
	defer fh.Close()
	st, err := fh.Stat()
	if err != nil {
		return "staterr", false, false
	}
	content := ""
	if !st.IsDir() {
		b, _ := io.ReadAll(fh)
		content = string(b)
	}
	return fmt.Sprintf("%s|%s|%d|%v|%d", content, st.Name(), st.Size(), st.Mode(), st.ModTime().Unix()), st.IsDir(), true
}
func errClass(err error) string {
	if errors.Is(err, fs.ErrNotExist) {
		return "notexist"
	}
	return "err"
}

func c18LayerCoq(f fs.FS) string {
	var o, rd, g []string
	for _, p := range c18Opens {
		if data, isDir, ok := c18Info(f, p); ok {
			o = append(o, fmt.Sprintf("(%s, (%s, %s))", coqBytes(p), coqBool(isDir), coqBytes(data)))
		}
	}
	for _, d := range c18Dirs {
		es, err := fs.ReadDir(f, d)
		if err == nil {
			var xs []string
			for _, e := range es {
				xs = append(xs, fmt.Sprintf("(%s, %s)", coqBytes(e.Name()), coqBool(e.IsDir())))
			}
			rd = append(rd, fmt.Sprintf("(%s, [%s])", coqBytes(d), strings.Join(xs, "; ")))
		}
	}
	for _, pat := range c18Globs {
		ms, _ := fs.Glob(f, pat)
		var xs []string
		for _, m := range ms {
			xs = append(xs, coqBytes(m))
		}
		g = append(g, fmt.Sprintf("(%s, [%s])", coqBytes(pat), strings.Join(xs, "; ")))
	}
	return fmt.Sprintf("(L [%s] [%s] [%s])", strings.Join(o, "; "), strings.Join(rd, "; "), strings.Join(g, "; "))
}

type c18Q struct{ kind, arg string }

func (q c18Q) Coq() string {
	switch q.kind {
	case "open":
		return "QOpen " + coqBytes(q.arg)
	case "readdir":
		return "QReadDir " + coqBytes(q.arg)
	}
	return "QGlob " + coqBytes(q.arg)
}
func c18Observe(ov fs.FS, qs []c18Q) Obs {
	var out []Obs
	for _, q := range qs {
		switch q.kind {
		case "open":
			data, isDir, ok := c18Info(ov, q.arg)
			// the helpers of io/fs must tell the same story as Open (a file system may implement ReadFile / Stat itself)
			b, rerr := fs.ReadFile(ov, q.arg)
			st, serr := fs.Stat(ov, q.arg)
			switch {
			case ok && !isDir && (rerr != nil || !strings.HasPrefix(data, string(b)+"|")):
				out = append(out, L(A("fs.ReadFile disagrees with Open"), A(fmt.Sprint(rerr)), A(string(b)), A(data)))
				continue
			case (!ok || isDir) && rerr == nil:
				out = append(out, L(A("fs.ReadFile succeeds where Open fails or opens a directory"), A(string(b)), A(data)))
				continue
			case ok != (serr == nil) || (ok && st.IsDir() != isDir):
				out = append(out, L(A("fs.Stat disagrees with Open"), A(fmt.Sprint(serr)), A(data)))
				continue
			}
			if ok {
				out = append(out, L(A("ok"), B(isDir), A(data)))
			} else {
				out = append(out, L(A(data)))
			}
		case "readdir":
			es, err := fs.ReadDir(ov, q.arg)
			if err != nil {
				out = append(out, L(A("err")))
				continue
			}
			xs := []Obs{A("ok")}
			for _, e := range es {
				xs = append(xs, L(A(e.Name()), B(e.IsDir())))
			}
			out = append(out, L(xs...))
			// what ReadDir returned is the caller's: a caller that reorders or truncates it changes nothing for the next call
			for i, j := 0, len(es)-1; i < j; i, j = i+1, j-1 {
				es[i], es[j] = es[j], es[i]
			}
			if len(es) > 1 {
				es = append(es[:0], es[1])
			}
		default:
			ms, err := fs.Glob(ov, q.arg)
			if err != nil {
				out = append(out, L(A("err")))
				continue
			}
			xs := []Obs{}
			for _, m := range ms {
				xs = append(xs, A(m))
			}
			out = append(out, L(xs...))
		}
	}
	return L(out...)
}

func init() { streams["C18"] = runC18 }

func runC18(r *Run) {
	r.Rule("stacks of 1..3 layers (nil layers included) over 80 layer shapes (72 small ones, 8 with a directory of 14-17 entries whose names are files in one and partly directories in the other): a∈{absent,file,emptydir} × x∈{absent,file} × d∈{absent,file,emptydir,{x},{x,y},{y/w}} × d-∈{absent,{x}}; " +
		"every stack is one overlay instance queried with a random permutation (plus repeats) of 10 Open/Stat/ReadFile names, 6 ReadDir names and 25 glob patterns (wildcards, character classes, ranges, negation, escapes, malformed), so order- and history-dependence show; " +
		"a case is non-trivial when some path is present in ≥2 layers or a nil layer is present")
	var shapes []c18Shape
	for a := 0; a < 3; a++ {
		for x := 0; x < 2; x++ {
			for d := 0; d < 6; d++ {
				for e := 0; e < 2; e++ {
					shapes = append(shapes, c18Shape{a, x, d, e, 0})
				}
			}
		}
	}
	for _, b := range []int{1, 2} {
		for _, d := range []int{0, 3} {
			shapes = append(shapes, c18Shape{0, 0, d, 0, b}, c18Shape{1, 1, d, 1, b})
		}
	}
	nShapes := len(shapes) // index nShapes = nil layer
	var pre strings.Builder
	layerFS := make([][]fstest.MapFS, 3)
	diskFS := make([][]fs.FS, 3)
	tmp, terr := os.MkdirTemp("", "verif-c18-")
	if terr != nil {
		panic(terr)
	}
	defer os.RemoveAll(tmp)
	for pos := 0; pos < 3; pos++ {
		layerFS[pos] = make([]fstest.MapFS, nShapes)
		diskFS[pos] = make([]fs.FS, nShapes)
		for i, sh := range shapes {
			layerFS[pos][i] = c18Layer(pos, sh)
			pre.WriteString(fmt.Sprintf("Definition l%d_%d := %s.\n", pos, i, c18LayerCoq(layerFS[pos][i])))
			diskFS[pos][i] = c18Disk(filepath.Join(tmp, fmt.Sprintf("l%d_%d", pos, i)), pos, layerFS[pos][i])
			pre.WriteString(fmt.Sprintf("Definition k%d_%d := %s.\n", pos, i, c18LayerCoq(diskFS[pos][i])))
		}
	}
	r.Prelude = pre.String()
	var allQ []c18Q
	for _, p := range c18Opens {
		allQ = append(allQ, c18Q{"open", p})
	}
	for _, p := range c18Dirs {
		allQ = append(allQ, c18Q{"readdir", p})
	}
	for _, p := range c18Globs {
		allQ = append(allQ, c18Q{"glob", p})
	}

	nestedWith := -1
	emit := func(stack []int) {
		var fss []fs.FS
		var names []string
		present := map[string]int{}
		hasNil := false
		desc := []any{}
		for pos, si := range stack {
			if si == nShapes {
				fss = append(fss, nil)
				names = append(names, "None")
				hasNil = true
				desc = append(desc, nil)
				continue
			}
			if r.Rng.Intn(4) == 0 { // this layer offers Open and nothing else (an embed.FS, an fs.Sub result, a wrapper): it answers the same
				fss = append(fss, c18OpenOnly{layerFS[pos][si]})
				names = append(names, fmt.Sprintf("l%d_%d", pos, si))
				r.Count("layer:open-only")
			} else if r.Rng.Intn(3) == 0 { // this layer is a directory on disk
				fss = append(fss, diskFS[pos][si])
				names = append(names, fmt.Sprintf("k%d_%d", pos, si))
				r.Count("layer:os.DirFS")
			} else {
				fss = append(fss, layerFS[pos][si])
				names = append(names, fmt.Sprintf("l%d_%d", pos, si))
				r.Count("layer:fstest.MapFS")
			}
			for _, p := range c18Opens {
				if _, _, ok := c18Info(layerFS[pos][si], p); ok && p != "." {
					present[p]++
				}
			}
			keys := []string{}
			for k, v := range layerFS[pos][si] {
				if v.Mode.IsDir() {
					k += "/"
				}
				keys = append(keys, k)
			}
			desc = append(desc, keys)
		}
		nontrivial := hasNil
		for _, n := range present {
			if n >= 2 {
				nontrivial = true
			}
		}
		fileOverDir := false
		var seenFile bool
		for pos, si := range stack {
			if si == nShapes {
				continue
			}
			_, isDir, ok := c18Info(layerFS[pos][si], "d")
			if ok && !isDir {
				seenFile = true
			}
			if ok && isDir && seenFile {
				fileOverDir = true
			}
		}
		if fileOverDir {
			r.Count("file_over_directory")
		}
		r.Count(fmt.Sprintf("layers:%d", len(stack)))
		if hasNil {
			r.Count("has_nil_layer")
		}
		var ov fs.FS
		if len(fss) == 1 {
			ov = vuego.NewOverlayFS(fss[0])
		} else {
			ov = vuego.NewOverlayFS(fss[0], fss[1:]...)
		}
		if nestedWith >= 0 {
			// an overlay is a file system too: the stack so far becomes the upper layer of two further overlays, each with
			// one more layer below; the first of them is queried after the second was built, and is the overlay of the
			// stack followed by ITS layer
			base := ov
			a, b := nestedWith, (nestedWith+1+r.Rng.Intn(nShapes-1))%nShapes
			pos := len(stack)
			if pos > 2 {
				pos = 2
			}
			ovA := vuego.NewOverlayFS(base, layerFS[pos][a])
			_ = vuego.NewOverlayFS(base, layerFS[pos][b])
			ov = ovA
			names = append(names, fmt.Sprintf("l%d_%d", pos, a))
			desc = append(desc, "nested: the layers above form one overlay; a sibling overlay over it was built afterwards")
			hasNil = false
			for _, f := range fss {
				if f == nil {
					hasNil = true
				}
			}
			fss = append(fss, layerFS[pos][a])
			r.Count("nested-overlay-shared-by-two")
		}
		// random order + a few repeats: one overlay instance answers the whole sequence
		qs := append([]c18Q{}, allQ...)
		for i := len(qs) - 1; i > 0; i-- {
			j := r.Rng.Intn(i + 1)
			qs[i], qs[j] = qs[j], qs[i]
		}
		for k := 0; k < 6; k++ {
			qs = append(qs, allQ[r.Rng.Intn(len(allQ))])
		}
		allNil := true
		for _, f := range fss {
			if f != nil {
				allNil = false
			}
		}
		qdesc := func(qs []c18Q) []string {
			out := []string{}
			for _, q := range qs {
				out = append(out, q.kind+" "+q.arg)
			}
			return out
		}
		if allNil {
			// no live layer: ReadDir is observed in a stream of its own (known finding C18-K1)
			var rd, nord []c18Q
			for _, q := range qs {
				if q.kind == "readdir" {
					rd = append(rd, q)
				} else {
					nord = append(nord, q)
				}
			}
			r.Case("overlay", fmt.Sprintf("{| c_layers := [%s]; c_queries := %s |}", strings.Join(names, "; "), coqList(nord, c18Q.Coq)),
				c18Observe(ov, nord), map[string]any{"layers_upper_first": desc, "queries": qdesc(nord)}, nil, nontrivial)
			r.Case("overlay-readdir-no-live-layer", fmt.Sprintf("{| c_layers := [%s]; c_queries := %s |}", strings.Join(names, "; "), coqList(rd, c18Q.Coq)),
				c18Observe(ov, rd), map[string]any{"layers_upper_first": desc, "queries": qdesc(rd)}, map[string]string{"live_layers": "0"}, nontrivial)
			return
		}
		r.Case("overlay", fmt.Sprintf("{| c_layers := [%s]; c_queries := %s |}", strings.Join(names, "; "), coqList(qs, c18Q.Coq)),
			c18Observe(ov, qs), map[string]any{"layers_upper_first": desc, "queries": qdesc(qs)}, nil, nontrivial)
	}
	for i := 0; i <= nShapes; i++ {
		emit([]int{i})
	}
	if r.Thorough() {
		for i := 0; i <= nShapes; i++ {
			for j := 0; j <= nShapes; j++ {
				emit([]int{i, j})
			}
		}
		for n := 0; n < 20000; n++ {
			emit([]int{r.Rng.Intn(nShapes + 1), r.Rng.Intn(nShapes + 1), r.Rng.Intn(nShapes + 1)})
		}
		for n := 0; n < 5000; n++ {
			nestedWith = r.Rng.Intn(nShapes)
			switch n % 3 {
			case 0:
				emit([]int{r.Rng.Intn(nShapes + 1), r.Rng.Intn(nShapes + 1)})
			case 1:
				emit([]int{r.Rng.Intn(nShapes)})
			default:
				emit([]int{r.Rng.Intn(nShapes + 1), r.Rng.Intn(nShapes), r.Rng.Intn(nShapes + 1)})
			}
			nestedWith = -1
		}
		r.extra["exhaustive_up_to_layers"] = 2
	} else {
		for n := 0; n < 1500; n++ {
			emit([]int{r.Rng.Intn(nShapes + 1), r.Rng.Intn(nShapes + 1)})
		}
		for n := 0; n < 300; n++ { // nested overlays: a stack of 1 or 2 layers shared as the upper layer of two overlays
			nestedWith = r.Rng.Intn(nShapes)
			switch n % 3 {
			case 0:
				emit([]int{r.Rng.Intn(nShapes + 1), r.Rng.Intn(nShapes + 1)})
			case 1:
				emit([]int{r.Rng.Intn(nShapes)})
			default:
				emit([]int{r.Rng.Intn(nShapes + 1), r.Rng.Intn(nShapes), r.Rng.Intn(nShapes + 1)})
			}
			nestedWith = -1
		}
		for n := 0; n < 700; n++ {
			emit([]int{r.Rng.Intn(nShapes + 1), r.Rng.Intn(nShapes + 1), r.Rng.Intn(nShapes + 1)})
		}
		emit([]int{nShapes, nShapes})
		for n := 0; n < 120; n++ { // stacks in which the long directory is present in two or three layers
			big := func() int { return nShapes - 8 + r.Rng.Intn(8) }
			if n%2 == 0 {
				emit([]int{big(), big()})
			} else {
				emit([]int{big(), r.Rng.Intn(nShapes + 1), big()})
			}
		}
	}
	r.Assume("each layer is an fstest.MapFS or the same tree on disk served by os.DirFS; the model takes each layer's own answers on the queried universe as given")
}
