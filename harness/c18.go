package main

import (
	"errors"
	"fmt"
	"io"
	"io/fs"
	"strings"
	"testing/fstest"
	"time"

	"github.com/titpetric/vuego"
)

// C18: overlay filesystem. Layers are fstest.MapFS; the model receives, per layer,
// the table of what that layer itself answers on the queried universe.

type c18Shape struct{ a, d, e int }

var c18Opens = []string{"a", "d", "d/x", "d/y", "d/y/w", "e", "e/z", ".", "zz"}
var c18Dirs = []string{".", "a", "d", "e", "d/y", "zz"}
var c18Globs = []string{"*", "d/*", "*/*", "a", "?", "[", "e/z", "d/x*", "*/*/*"}

func c18Layer(idx int, sh c18Shape) fstest.MapFS {
	m := fstest.MapFS{}
	mt := time.Unix(int64(1000+idx*100), 0)
	file := func(p string) {
		m[p] = &fstest.MapFile{Data: []byte(fmt.Sprintf("L%d:%s", idx, p)), Mode: fs.FileMode(0o600 + idx), ModTime: mt}
	}
	dir := func(p string) { m[p] = &fstest.MapFile{Mode: fs.ModeDir | fs.FileMode(0o700+idx), ModTime: mt} }
	switch sh.a {
	case 1:
		file("a")
	case 2:
		dir("a")
	}
	switch sh.d {
	case 1:
		file("d")
	case 2:
		dir("d")
	case 3:
		file("d/x")
	case 4:
		file("d/x")
		file("d/y")
	case 5:
		file("d/y/w")
	}
	if sh.e == 1 {
		file("e/z")
	}
	return m
}

func c18Info(f fs.FS, p string) (string, bool, bool) { // data, isDir, ok
	fh, err := f.Open(p)
	if err != nil {
		return errClass(err), false, false
	}
	defer fh.Close()
	st, err := fh.Stat()
	if err != nil {
		return "staterr", false, false
	}
	content := ""
	if !st.IsDir() {
		b, _ := io.ReadAll(fh)
		content = string(b)
	}
	return fmt.Sprintf("%s|%s|%d|%v|%d", content, st.Name(), st.Size(), st.Mode(), st.ModTime().Unix()), st.IsDir(), true
}
func errClass(err error) string {
	if errors.Is(err, fs.ErrNotExist) {
		return "notexist"
	}
	return "err"
}

func c18LayerCoq(f fs.FS) string {
	var o, rd, g []string
	for _, p := range c18Opens {
		if data, isDir, ok := c18Info(f, p); ok {
			o = append(o, fmt.Sprintf("(%s, (%s, %s))", coqBytes(p), coqBool(isDir), coqBytes(data)))
		}
	}
	for _, d := range c18Dirs {
		es, err := fs.ReadDir(f, d)
		if err == nil {
			var xs []string
			for _, e := range es {
				xs = append(xs, fmt.Sprintf("(%s, %s)", coqBytes(e.Name()), coqBool(e.IsDir())))
			}
			rd = append(rd, fmt.Sprintf("(%s, [%s])", coqBytes(d), strings.Join(xs, "; ")))
		}
	}
	for _, pat := range c18Globs {
		ms, _ := fs.Glob(f, pat)
		var xs []string
		for _, m := range ms {
			xs = append(xs, coqBytes(m))
		}
		g = append(g, fmt.Sprintf("(%s, [%s])", coqBytes(pat), strings.Join(xs, "; ")))
	}
	return fmt.Sprintf("(L [%s] [%s] [%s])", strings.Join(o, "; "), strings.Join(rd, "; "), strings.Join(g, "; "))
}

func c18Observe(ov fs.FS, opens, dirs, globs []string) Obs {
	var out []Obs
	for _, p := range opens {
		data, isDir, ok := c18Info(ov, p)
		if ok {
			out = append(out, L(A("ok"), B(isDir), A(data)))
		} else {
			out = append(out, L(A(data)))
		}
	}
	for _, d := range dirs {
		es, err := fs.ReadDir(ov, d)
		if err != nil {
			out = append(out, L(A("err")))
			continue
		}
		xs := []Obs{A("ok")}
		for _, e := range es {
			xs = append(xs, L(A(e.Name()), B(e.IsDir())))
		}
		out = append(out, L(xs...))
	}
	for _, pat := range globs {
		ms, err := fs.Glob(ov, pat)
		if err != nil {
			out = append(out, L(A("err")))
			continue
		}
		xs := []Obs{}
		for _, m := range ms {
			xs = append(xs, A(m))
		}
		out = append(out, L(xs...))
	}
	return L(out...)
}

func init() { streams["C18"] = runC18 }

func runC18(r *Run) {
	r.Rule("stacks of 1..3 layers (nil layers included) over shapes a∈{absent,file,emptydir} × d∈{absent,file,emptydir,{x},{x,y},{y/w}} × e∈{absent,{z}}; " +
		"every stack is queried with 9 Open/Stat/ReadFile names, 6 ReadDir names and 9 glob patterns; a case is non-trivial when some path is present in ≥2 layers or a nil layer is present")
	var shapes []c18Shape
	for a := 0; a < 3; a++ {
		for d := 0; d < 6; d++ {
			for e := 0; e < 2; e++ {
				shapes = append(shapes, c18Shape{a, d, e})
			}
		}
	}
	nShapes := len(shapes) // index nShapes = nil layer
	// prelude: queries and one definition per (position, shape)
	var pre strings.Builder
	qs := []string{}
	for _, p := range c18Opens {
		qs = append(qs, "QOpen "+coqBytes(p))
	}
	for _, p := range c18Dirs {
		qs = append(qs, "QReadDir "+coqBytes(p))
	}
	for _, p := range c18Globs {
		qs = append(qs, "QGlob "+coqBytes(p))
	}
	pre.WriteString("Definition qs := [" + strings.Join(qs, "; ") + "].\n")
	no := len(c18Opens)
	nd := len(c18Dirs)
	pre.WriteString("Definition qs_rd := [" + strings.Join(qs[no:no+nd], "; ") + "].\n")
	pre.WriteString("Definition qs_nord := [" + strings.Join(append(append([]string{}, qs[:no]...), qs[no+nd:]...), "; ") + "].\n")
	layerFS := make([][]fstest.MapFS, 3)
	for pos := 0; pos < 3; pos++ {
		layerFS[pos] = make([]fstest.MapFS, nShapes)
		for i, sh := range shapes {
			layerFS[pos][i] = c18Layer(pos, sh)
			pre.WriteString(fmt.Sprintf("Definition l%d_%d := %s.\n", pos, i, c18LayerCoq(layerFS[pos][i])))
		}
	}
	r.Prelude = pre.String()

	emit := func(stack []int) {
		var fss []fs.FS
		var names []string
		present := map[string]int{}
		hasNil := false
		desc := []any{}
		for pos, si := range stack {
			if si == nShapes {
				fss = append(fss, nil)
				names = append(names, "None")
				hasNil = true
				desc = append(desc, nil)
				continue
			}
			fss = append(fss, layerFS[pos][si])
			names = append(names, fmt.Sprintf("l%d_%d", pos, si))
			for _, p := range c18Opens {
				if _, _, ok := c18Info(layerFS[pos][si], p); ok && p != "." {
					present[p]++
				}
			}
			keys := []string{}
			for k, v := range layerFS[pos][si] {
				if v.Mode.IsDir() {
					k += "/"
				}
				keys = append(keys, k)
			}
			desc = append(desc, keys)
		}
		nontrivial := hasNil
		fileOverDir := false
		for _, n := range present {
			if n >= 2 {
				nontrivial = true
			}
		}
		// file-over-directory configurations are counted separately (DESIGN C18)
		var seenFile bool
		for pos, si := range stack {
			if si == nShapes {
				continue
			}
			_, isDir, ok := c18Info(layerFS[pos][si], "d")
			if ok && !isDir {
				seenFile = true
			}
			if ok && isDir && seenFile {
				fileOverDir = true
			}
		}
		if fileOverDir {
			r.Count("file_over_directory")
		}
		r.Count(fmt.Sprintf("layers:%d", len(stack)))
		if hasNil {
			r.Count("has_nil_layer")
		}
		var ov fs.FS
		if len(fss) == 1 {
			ov = vuego.NewOverlayFS(fss[0])
		} else {
			ov = vuego.NewOverlayFS(fss[0], fss[1:]...)
		}
		allNil := true
		for _, f := range fss {
			if f != nil {
				allNil = false
			}
		}
		if allNil {
			// no live layer: ReadDir is observed in a stream of its own (known finding C18-K1)
			r.Case("overlay", fmt.Sprintf("{| c_layers := [%s]; c_queries := qs_nord |}", strings.Join(names, "; ")),
				c18Observe(ov, c18Opens, nil, c18Globs), map[string]any{"layers_upper_first": desc,
					"queries": map[string]any{"open": c18Opens, "glob": c18Globs}}, nil, nontrivial)
			r.Case("overlay-readdir-no-live-layer", fmt.Sprintf("{| c_layers := [%s]; c_queries := qs_rd |}", strings.Join(names, "; ")),
				c18Observe(ov, nil, c18Dirs, nil), map[string]any{"layers_upper_first": desc,
					"queries": map[string]any{"readdir": c18Dirs}}, map[string]string{"live_layers": "0"}, nontrivial)
			return
		}
		impl := c18Observe(ov, c18Opens, c18Dirs, c18Globs)
		coq := fmt.Sprintf("{| c_layers := [%s]; c_queries := qs |}", strings.Join(names, "; "))
		r.Case("overlay", coq, impl, map[string]any{"layers_upper_first": desc,
			"queries": map[string]any{"open": c18Opens, "readdir": c18Dirs, "glob": c18Globs}}, nil, nontrivial)
	}
	for i := 0; i <= nShapes; i++ {
		emit([]int{i})
	}
	for i := 0; i <= nShapes; i++ {
		for j := 0; j <= nShapes; j++ {
			emit([]int{i, j})
		}
	}
	n3 := 600
	if r.Thorough() {
		for i := 0; i <= nShapes; i++ {
			for j := 0; j <= nShapes; j++ {
				for k := 0; k <= nShapes; k++ {
					emit([]int{i, j, k})
				}
			}
		}
		r.extra["exhaustive"] = true
	} else {
		for n := 0; n < n3; n++ {
			emit([]int{r.Rng.Intn(nShapes + 1), r.Rng.Intn(nShapes + 1), r.Rng.Intn(nShapes + 1)})
		}
	}
	r.Assume("each layer is an fstest.MapFS; the model takes each layer's own answers on the queried universe as given")
}
