package main

import (
	"bytes"
	"context"
	"errors"
	"fmt"
	stdhtml "html"
	"regexp"
	"strings"
	"testing/fstest"

	"github.com/titpetric/vuego"
)

// C13: an expression means the same everywhere.

type c13E struct {
	op      string // lit path bin not neg tern
	typ     string // int bool str
	lit     any
	path    string
	a, b, c *c13E
}

func (e *c13E) print(spaced bool) string {
	sp := " "
	if !spaced {
		sp = ""
	}
	wrap := func(x *c13E) string {
		if x.op == "bin" || x.op == "tern" {
			return "(" + x.print(spaced) + ")"
		}
		return x.print(spaced)
	}
	switch e.op {
	case "lit":
		switch v := e.lit.(type) {
		case string:
			return "'" + v + "'"
		default:
			return fmt.Sprint(v)
		}
	case "path", "call":
		return e.path
	case "not":
		return "!" + wrap(e.a)
	case "neg":
		return "-" + wrap(e.a)
	case "bin":
		return wrap(e.a) + sp + e.path + sp + wrap(e.b)
	}
	return wrap(e.a) + " ? " + wrap(e.b) + " : " + wrap(e.c)
}
func (e *c13E) eval(env map[string]any) any {
	switch e.op {
	case "lit":
		return e.lit
	case "path":
		var cur any = env
		for _, p := range strings.Split(e.path, ".") {
			m, ok := cur.(map[string]any)
			if !ok {
				return nil
			}
			cur = m[p]
		}
		return cur
	case "call":
		if e.path == "len(xs)" {
			return len(env["xs"].([]any))
		}
		return len(env["s"].(string))
	case "not":
		return !e.a.eval(env).(bool)
	case "neg":
		return -e.a.eval(env).(int)
	case "tern":
		if e.a.eval(env).(bool) {
			return e.b.eval(env)
		}
		return e.c.eval(env)
	}
	x, y := e.a.eval(env), e.b.eval(env)
	switch e.path {
	case "&&":
		return x.(bool) && y.(bool)
	case "||":
		return x.(bool) || y.(bool)
	case "==", "===":
		return x == y
	case "!=", "!==":
		return x != y
	}
	i, j := x.(int), y.(int)
	switch e.path {
	case "+":
		return i + j
	case "-":
		return i - j
	case "*":
		return i * j
	case "%":
		return i % j
	case "<":
		return i < j
	case "<=":
		return i <= j
	case ">":
		return i > j
	}
	return i >= j
}
func c13Gen(r *Rng, typ string, depth int) *c13E {
	if depth <= 0 || r.Intn(4) == 0 {
		switch typ {
		case "int":
			if r.Bool() {
				return &c13E{op: "lit", typ: typ, lit: r.Intn(9)}
			}
			if r.Intn(4) == 0 {
				return &c13E{op: "call", typ: typ, path: Pick(r, []string{"len(xs)", "len(s)"})}
			}
			return &c13E{op: "path", typ: typ, path: Pick(r, []string{"a", "b", "n0", "m.n"})}
		case "str":
			if r.Bool() {
				return &c13E{op: "lit", typ: typ, lit: Pick(r, []string{"str", "x", ""})}
			}
			return &c13E{op: "path", typ: typ, path: Pick(r, []string{"s", "e", "m.k"})}
		}
		if r.Bool() {
			return &c13E{op: "lit", typ: typ, lit: r.Bool()}
		}
		return &c13E{op: "path", typ: typ, path: Pick(r, []string{"t", "f"})}
	}
	switch typ {
	case "int":
		if r.Intn(6) == 0 {
			return &c13E{op: "tern", typ: typ, a: c13Gen(r, "bool", depth-1), b: c13Gen(r, "int", depth-1), c: c13Gen(r, "int", depth-1)}
		}
		op := Pick(r, []string{"+", "-", "*", "%"})
		e := &c13E{op: "bin", typ: typ, path: op, a: c13Gen(r, "int", depth-1), b: c13Gen(r, "int", depth-1)}
		if op == "%" {
			e.b = &c13E{op: "lit", typ: "int", lit: 2 + r.Intn(5)}
		}
		return e
	case "str":
		return &c13E{op: "tern", typ: typ, a: c13Gen(r, "bool", depth-1), b: c13Gen(r, "str", 0), c: c13Gen(r, "str", 0)}
	}
	switch r.Intn(4) {
	case 0:
		return &c13E{op: "bin", typ: typ, path: Pick(r, []string{"&&", "||"}), a: c13Gen(r, "bool", depth-1), b: c13Gen(r, "bool", depth-1)}
	case 1:
		return &c13E{op: "bin", typ: typ, path: Pick(r, []string{"==", "!=", "==="}), a: c13Gen(r, "str", 0), b: c13Gen(r, "str", 0)}
	}
	return &c13E{op: "bin", typ: typ, path: Pick(r, []string{"==", "!=", "<", "<=", ">", ">=", "!=="}), a: c13Gen(r, "int", depth-1), b: c13Gen(r, "int", depth-1)}
}

func c13Env() map[string]any {
	return map[string]any{"a": 3, "b": 5, "n0": 0, "s": "str", "e": "", "t": true, "f": false, "m": map[string]any{"k": "mk", "n": 7}, "xs": []any{1, 2, 3}}
}

var c13Txt = regexp.MustCompile(`<i data-m="1"([^>]*)>([^<]*)</i>`)
var c13Att = regexp.MustCompile(`data-v="([^"]*)"`)

type c13Pos struct {
	name, coq, tpl string
}

var c13Positions = []c13Pos{
	{"interp", "PInterp", `<i data-m="1">{{ %s }}</i>`},
	{"bound", "PBound", `<i data-m="1" :data-v="%s">x</i>`},
	{"v-if", "PIf", `<i data-m="1" v-if="%s">x</i>`},
	{"v-else-if", "PIf", `<b v-if="f">n</b><i data-m="1" v-else-if="%s">x</i>`},
	{"v-show", "PShow", `<i data-m="1" v-show="%s">x</i>`},
}

func goTruthy(v any) bool {
	switch x := v.(type) {
	case nil:
		return false
	case bool:
		return x
	case int:
		return x != 0
	case string:
		return x != ""
	}
	return true
}

// floating-point values: the same expression must print the same text in every printing position
// ({{ }}, interpolated and bound attribute, v-text, v-html), namely fmt.Sprint of its value
func c13Floats(r *Run) {
	env := map[string]any{"big": 1234567.5, "small": 0.00001, "huge": 1e21, "half": 0.5, "two": 2.0, "neg": -2500000.25, "n": 3, "t": true, "f32": float32(1.5e7)}
	type fe struct {
		text string
		want any
	}
	big, small, huge, half, two, neg := 1234567.5, 0.00001, 1e21, 0.5, 2.0, -2500000.25
	exprs := []fe{
		{"big", big}, {"small", small}, {"huge", huge}, {"half", half}, {"two", two}, {"neg", neg}, {"f32", float32(1.5e7)},
		{"big * 2", big * 2}, {"small / 2", small / 2}, {"big + half", big + half}, {"neg - big", neg - big}, {"half * two", half * two},
		{"big * n", big * 3}, {"t ? big : small", big}, {"!t ? big : small", small}, {"huge / two", huge / two}, {"small * small", small * small},
	}
	positions := []struct{ name, tpl string }{
		{"interp", `<i data-m="1">{{ %s }}</i>`},
		{"attr-interp", `<i data-m="1" title="{{ %s }}">x</i>`},
		{"bound", `<i data-m="1" :title="%s">x</i>`},
		{"v-text", `<i data-m="1" v-text="%s">x</i>`},
		{"v-html", `<i data-m="1" v-html="%s">x</i>`},
	}
	for _, e := range exprs {
		want := fmt.Sprint(e.want)
		for _, p := range positions {
			out, err := c03Render(fmt.Sprintf(p.tpl, e.text), env)
			r.Eval("float:"+p.name+":"+e.text, true, nil)
			r.Count("stream:floats(oracle only)")
			got := "?"
			if err != nil {
				got = "error: " + err.Error()
			} else if _, sink, found := c01Parse(out, "1", map[string]string{"attr-interp": "title", "bound": "title"}[p.name]); found {
				got = strings.TrimSpace(sink)
			}
			if got != want {
				r.Fail("a floating-point value prints differently at this position than fmt.Sprint of the expression's value", map[string]string{"oracle": "float-print", "position": p.name},
					map[string]any{"expression": e.text, "position": p.name, "observed": got, "expected": want})
			}
		}
	}
}

// one engine, the same expression texts, values of different Go types from one evaluation to the next
// (a loop over mixed numbers, a second render with JSON-decoded data, a variable that disappears): what an
// expression means may not depend on what the engine evaluated before
func c13Mixed(r *Run) {
	fsys := fstest.MapFS{"p.vuego": &fstest.MapFile{Data: []byte(
		`<template v-for="x in xs"><i v-if="x == 1">one</i><i v-else>other</i></template>` +
			`<p :title="n == 1 ? 'y' : 'n'" v-show="n == 1">{{ n == 1 ? 'yes' : 'no' }}|{{ n + 1 }}</p>` +
			`<b>{{ role == "admin" ? 'A' : 'U' }}</b><u v-if="role == 'admin'">adm</u>`)}}
	datas := []struct {
		name string
		d    map[string]any
		want string
	}{
		{"ints", map[string]any{"xs": []any{1, int64(1), 1.0, 2}, "n": 1, "role": "admin"}, `<i>one</i><i>one</i><i>one</i><i>other</i><ptitle="y">yes|2</p><b>A</b><u>adm</u>`},
		{"floats", map[string]any{"xs": []any{1.0, 2.0, uint8(1)}, "n": 1.0, "role": "user"}, `<i>one</i><i>other</i><i>one</i><ptitle="y">yes|2</p><b>U</b>`},
		{"absent", map[string]any{"xs": []any{int32(1)}, "n": int64(1)}, `<i>one</i><ptitle="y">yes|2</p><b>U</b>`},
		{"strings", map[string]any{"xs": []any{"1", 1}, "n": 2, "role": "admin"}, `<i>other</i><i>one</i><ptitle="n"style="display:none;">no|3</p><b>A</b><u>adm</u>`},
	}
	render := func(v *vuego.Vue, d map[string]any) string {
		var buf bytes.Buffer
		if err := v.Render(&buf, "p.vuego", d); err != nil {
			return "error: " + err.Error()
		}
		return strings.Join(strings.Fields(buf.String()), "")
	}
	for i := range datas {
		for j := range datas {
			shared := vuego.NewVue(fsys)
			_ = render(shared, datas[i].d)
			got := render(shared, datas[j].d)
			fresh := render(vuego.NewVue(fsys), datas[j].d)
			r.Eval("mixed:"+datas[i].name+">"+datas[j].name, true, nil)
			r.Count("stream:mixed-types(oracle only)")
			if got != fresh || (got != datas[j].want && !strings.Contains(datas[j].want, "style=")) {
				r.Fail("the same expression text gives another result after the engine evaluated it with values of another type", map[string]string{"oracle": "type-history", "second": datas[j].name},
					map[string]any{"first_data": datas[i].name, "second_data": datas[j].name, "after_first": got, "fresh_engine": fresh, "expected": datas[j].want})
			}
		}
	}
}

// a name bound to nil in an inner scope (a nil list item) while
// an outer scope binds the same name: every position sees the inner nil - the positions that go to the expression
// language and the ones that go to the path resolver alike
func c13NilShadow(r *Run) {
	fsys := fstest.MapFS{
		"loop.vuego": &fstest.MapFile{Data: []byte(`<div v-for="label in labels"><b v-if="label">if</b><b v-else-if="label == nil">elseif-nil</b><b v-else>else</b>` +
			`<i v-show="label">s</i><u :title="label">u</u><em>[{{ label }}]</em><s>[{{ label != nil ? label : 'none' }}]</s><q>[{{ label | default("dflt") }}]</q><a :href="label == nil ? 'nil' : 'set'">a</a></div>`)},
		"inc.vuego": &fstest.MapFile{Data: []byte(`<template include="c.vuego" :label="missing.path"></template>`)},
		"c.vuego":   &fstest.MapFile{Data: []byte(`<div><b v-if="label">if</b><b v-else>else</b><em>[{{ label }}]</em><s>[{{ label != nil ? label : 'none' }}]</s><a :href="label == nil ? 'nil' : 'set'">a</a></div>`)},
	}
	norm := func(s string) string { return strings.Join(strings.Fields(s), "") }
	for _, c := range []struct{ name, page, want string }{
		{"loop-item", "loop.vuego", norm(`<div><b>if</b><i>s</i><u title="first">u</u><em>[first]</em><s>[first]</s><q>[first]</q><a href="set">a</a></div>` +
			`<div><b>elseif-nil</b><i style="display:none;">s</i><u>u</u><em>[]</em><s>[none]</s><q>[dflt]</q><a href="nil">a</a></div>`)},
	} {
		var buf bytes.Buffer
		err := vuego.NewVue(fsys).Render(&buf, c.page, map[string]any{"label": "fallback", "labels": []any{"first", nil}})
		got := norm(buf.String())
		r.Eval("nil-shadow:"+c.name, true, nil)
		r.Count("stream:nil-shadow(oracle only)")
		if err != nil || got != c.want {
			r.Fail("a name bound to nil in an inner scope does not shadow the outer binding in every position", map[string]string{"oracle": "nil-shadow", "case": c.name},
				map[string]any{"page": string(fsys[c.page].Data), "output": got, "expected": c.want, "err": fmt.Sprint(err)})
		}
	}
}

// an operator expression that begins with a negation: the ! belongs to its operand, not to the whole text, at every
// position (t is true, f false, a is 3, n0 is 0)
func c13LeadingNot(r *Run) {
	for _, c := range []struct {
		text string
		want bool
	}{
		{"!t && f", false}, {"!f && t", true}, {"!t && t", false}, {"!f && f", false}, {"!t || t", true}, {"!t || f", false}, {"!f || f", true},
		{"!t == f", true}, {"!f == f", false}, {"!f && t && f", false}, {"!t || f || t", true}, {"!(t && f)", true}, {"!(t || f)", false},
		{"!t ? 'y' : ''", false}, {"!f ? 'y' : ''", true}, {"!f && a > 2", true}, {"!t && a > 2", false}, {"!f && n0 == 0", true}, {"!t != t", true},
	} {
		for _, p := range c13Positions {
			src := fmt.Sprintf(p.tpl, c.text)
			out, err := c03Render(src, c13Env())
			m := c13Txt.FindStringSubmatch(out)
			var got bool
			switch p.name {
			case "interp":
				got = m != nil && (strings.TrimSpace(m[2]) == "true" || strings.TrimSpace(m[2]) == "y")
			case "bound":
				got = m != nil && c13Att.MatchString(m[1])
			case "v-show":
				got = m != nil && !strings.Contains(strings.ReplaceAll(m[1], " ", ""), "display:none")
			default:
				got = m != nil
			}
			r.Eval("leading-not:"+p.name+":"+c.text, true, nil)
			r.Count("stream:leading-not(oracle only)")
			if err != nil || got != c.want {
				r.Fail("the value at this position differs from the conventional evaluation of the expression", map[string]string{"oracle": "denote", "class": "leading-not", "position": p.name},
					map[string]any{"expression": c.text, "position": p.name, "template": src, "observed": got, "expected": c.want, "output": out, "err": fmt.Sprint(err)})
			}
		}
	}
}

func init() { streams["C13"] = runC13 }

func runC13(r *Run) {
	r.Imports = []string{"Base.Val", "Model.Route"}
	r.Rule("(classify) every string up to length 3 (thorough 4) over {a 1 ( ) | space = ! < + ? : . , '} and printed expressions / pipes / calls: IsFunctionCall, IsComplexExpr, NormalizeComparisonOperators, parsePipeExpr; " +
		"(positions) typed expression trees to depth 3 (paths, literals, comparison, logical, arithmetic, ternary, strict operators) printed canonically and in variants (unspaced operators, bare literals, unary ! and -, a pipe in a condition) x {{ }}, bound attribute, v-if, v-else-if, v-show, " +
		"the model being given expr-lang's own answers; each value is also compared with a conventional evaluation computed in Go; (pipes) filter chains up to length 3 over built-in and registered functions of every parameter type with left-to-right application computed in Go, unknown functions, wrong argument counts, impossible conversions and failing functions; " +
		"non-trivial: depth >= 2, a pipe, or a conversion")
	rr := r.Rng
	// ---------- classify ----------
	alphabet := []string{"a", "1", "(", ")", "|", " ", "=", "!", "<", "+", "?", ":", ".", ",", "'"}
	maxLen := 3
	if r.Thorough() {
		maxLen = 4
	}
	classify := func(e string, nontrivial bool) {
		init, segs := vuego.VerifParsePipe(e)
		var so []Obs
		for _, s := range segs {
			var xs []Obs
			for _, x := range s {
				xs = append(xs, A(x))
			}
			so = append(so, L(xs...))
		}
		obs := L(B(vuego.VerifIsFunctionCall(e)), B(vuego.VerifIsComplexExpr(e)), A(vuego.VerifNormalizeCmp(e)), A(init), L(so...))
		r.Case("classify", "CClassify "+coqBytes(e), obs, map[string]any{"expression": e}, nil, nontrivial)
	}
	var rec func(p string)
	rec = func(p string) {
		if p != "" {
			classify(p, strings.ContainsAny(p, "|(=<+?"))
		}
		if len(p) == maxLen {
			return
		}
		for _, c := range alphabet {
			rec(p + c)
		}
	}
	rec("")
	for _, e := range []string{"item | double | . > 5", `name | upper | default("x", 2)`, "len(items)", "fn()", "a.b | f(1, 'x,y', z) | g", " x | y ", "a === b", "a !== b", "a====b", "x | f(a | b)", "f(a)(b)", "9fn(x)", "_f(x) | g()", "a - b", "a-b", "a ? b : c", "a?b", "price | . > 100 ? 'hi' : 'lo'", "x || y", "f(')')", "f(a, b))", "len(a) + len(b)", "len(a) == len(b)", "f(x) > g(y)", "f(a) && g(b)", "f(a) ? g(b) : h(c)", "f(a) - 1", "f(g(x))", "f(a)+g(b)", "f(a) | g(b)", "len(xs) + 2"} {
		classify(e, true)
	}
	// argument lists: every string up to length 3 (thorough 5) over quotes of both kinds, commas, blanks, parentheses and
	// a pipe, as the arguments of a filter and of a direct call - a quote of the other kind, a comma or a parenthesis
	// inside a string literal belongs to the literal
	argAlphabet := []string{"a", "'", "\"", ",", " ", "(", ")", "|"}
	argMax := 3
	if r.Thorough() {
		argMax = 5
	}
	var recArgs func(p string)
	recArgs = func(p string) {
		if p != "" {
			classify("x | f("+p+")", true)
			classify("f("+p+")", true)
			classify("f("+p+") | g", true) // the call at the head of a pipe
		}
		if len(p) == argMax {
			return
		}
		for _, c := range argAlphabet {
			recArgs(p + c)
		}
	}
	recArgs("")
	for _, e := range []string{`x | default("hasn't")`, `default('say "hi"')`, `x | join2("a'b", 'c"d')`, `f("a, b", 'c, d')`, `x | f("it's", "a|b") | g('"')`, `f('(', ")")`, `x | f(" a ", ' b')`, `f("'", '"', "','")`, `x | f("a\"b")`, `f('')`, `x | f("", '')`} {
		classify(e, true)
	}
	for _, e := range []string{"f() | g", "f(a) | ", "f(a)| g | h(1)", "9f(x) | g", "a.b(x) | g", "f(x) y | g", "(x) | g", "f(x)) | g", " f( x ) | g ", "f(a | b) | c", "f(a) | g(b) | h('c')", "f(x)(y) | g", "f(x | g", "f x) | g", "if(x) | g", "f(a) || g(b)", "-f(a) | g", "f(a).b | g", "f('a|b') | g", "len(xs) | double | double"} {
		classify(e, true)
	}
	c13Floats(r)
	c13Mixed(r)
	c13NilShadow(r)
	c13ShadowedPromotion(r)
	c13LeadingNot(r)
	// ---------- positions ----------
	n := 900
	if r.Thorough() {
		n = 9000
	}
	ev := vuego.NewExprEvaluator()
	xOf := func(text string) string {
		v, err := ev.Eval(text, c13Env())
		if err != nil {
			return fmt.Sprintf("(%s, None)", coqBytes(text))
		}
		return fmt.Sprintf("(%s, Some %s)", coqBytes(text), FromGo(v).Coq())
	}
	data := FromGo(c13Env())
	for c := 0; c < n; c++ {
		typ := Pick(rr, []string{"int", "bool", "bool", "str"})
		e := c13Gen(rr, typ, 1+rr.Intn(3))
		class := "canonical"
		text := e.print(true)
		switch rr.Intn(8) {
		case 0:
			if e.op == "bin" {
				class, text = "unspaced", e.print(false)
			}
		case 1:
			if e.op == "lit" || rr.Bool() {
				l := c13Gen(rr, typ, 0)
				if l.op == "lit" {
					e, class, text = l, "bare-literal", l.print(true)
				}
			}
		case 2:
			if typ == "bool" {
				e = &c13E{op: "not", typ: "bool", a: e}
				class, text = "unary", e.print(true)
			} else if typ == "int" {
				e = &c13E{op: "neg", typ: "int", a: e}
				class, text = "unary", e.print(true)
			}
		}
		if e.op == "path" {
			class = "path"
		}
		if e.op == "call" {
			class = "call"
		}
		if e.op == "lit" && class == "canonical" {
			class = "bare-literal"
		}
		want := e.eval(c13Env())
		for _, p := range c13Positions {
			if p.name == "interp" && strings.Contains(text, "<") && !strings.Contains(text, " < ") && !strings.Contains(text, " <= ") {
				continue // "<x" would open a tag in a text node
			}
			src := fmt.Sprintf(p.tpl, text)
			out, err := c03Render(src, c13Env())
			var obs Obs
			var got any
			m := c13Txt.FindStringSubmatch(out)
			switch {
			case err != nil:
				obs, got = L(A("error")), "error"
			case p.name == "interp":
				txt := ""
				if m != nil {
					txt = strings.TrimSpace(m[2])
				}
				obs, got = L(A("val"), A(txt)), txt
			case p.name == "bound":
				v := "-"
				if m != nil {
					if am := c13Att.FindStringSubmatch(m[1]); am != nil {
						v = "=" + am[1]
					}
				}
				obs, got = L(A("attr"), A(v)), v
			case p.name == "v-show":
				vis := m != nil && !strings.Contains(strings.ReplaceAll(m[1], " ", ""), "display:none")
				obs, got = B(vis), vis
			default:
				obs, got = B(m != nil), m != nil
			}
			// conventional evaluation (oracle)
			var exp any
			switch p.name {
			case "interp":
				exp = fmt.Sprint(want)
			case "bound":
				exp = "-"
				if goTruthy(want) {
					exp = "=" + fmt.Sprint(want)
				}
			default:
				exp = goTruthy(want)
			}
			r.Count("class:" + class)
			if got != exp {
				r.Fail("the value at this position differs from the conventional evaluation of the expression", map[string]string{"oracle": "denote", "class": class, "position": p.name},
					map[string]any{"expression": text, "position": p.name, "template": src, "observed": got, "expected": exp})
			}
			trimmed := strings.TrimSpace(text)
			tab := []string{xOf(text), xOf(trimmed), xOf(vuego.VerifNormalizeCmp(trimmed))}
			if strings.HasPrefix(trimmed, "!") {
				tab = append(tab, xOf(strings.TrimSpace(trimmed[1:])))
			}
			if class == "call" || (class == "unspaced" && strings.Contains(text, "len(")) {
				// a bare call - and an unspaced operator expression that begins with a call, which the engine also reads
				// as a bare call with the rest of the text as its argument (finding class "unspaced") - goes to the
				// function map, which the model stream is not given: oracle only
				r.Eval("call:"+p.name+":"+text, true, nil)
				continue
			}
			coq := fmt.Sprintf("CPosition %s %s %s [%s]", p.coq, coqBytes(text), data.Coq(), strings.Join(tab, "; "))
			r.Case("positions", coq, obs, map[string]any{"expression": text, "position": p.name, "class": class}, map[string]string{"class": class, "position": p.name}, e.op == "bin" || e.op == "tern")
		}
	}
	// ---------- documented forms outside the canonical class (oracle only) ----------
	probes := []struct{ class, tpl, want string }{
		{"pipe-in-condition", `<i data-m="1" v-if="s | upper">x</i>`, "shown"},
		{"pipe-in-condition", `<i data-m="1" v-show="xs | len">x</i>`, "shown"},
		{"function-in-condition", `<i data-m="1" v-if="isPos(a)">x</i>`, "shown"},
		{"function-in-operator-expression", `<i data-m="1">{{ double(a) > 5 }}</i>`, "true"},
		{"dot-segment-with-ternary", `<i data-m="1">{{ a | . > 2 ? 'hi' : 'lo' }}</i>`, "hi"},
		{"dot-segment", `<i data-m="1">{{ a | . > 2 }}</i>`, "true"},
		{"function-call", `<i data-m="1">{{ double(a) }}</i>`, "6"},
		{"function-call", `<i data-m="1" :data-v="double(a)">x</i>`, "=6"},
	}
	pf := vuego.FuncMap{"double": func(n int) int { return 2 * n }, "isPos": func(n int) bool { return n > 0 }}
	for _, pb := range probes {
		out, err := c10RenderFuncs(pb.tpl, c13Env(), pf)
		got := "hidden"
		if m := c13Txt.FindStringSubmatch(out); err == nil && m != nil {
			switch {
			case strings.Contains(pb.tpl, "{{"):
				got = strings.TrimSpace(m[2])
			case strings.Contains(pb.tpl, ":data-v"):
				got = "-"
				if am := c13Att.FindStringSubmatch(m[1]); am != nil {
					got = "=" + am[1]
				}
			case !strings.Contains(strings.ReplaceAll(m[1], " ", ""), "display:none"):
				got = "shown"
			}
		} else if err != nil {
			got = "error: " + err.Error()
		}
		r.Eval("probe:"+pb.tpl, true, nil)
		r.Count("class:" + pb.class)
		if got != pb.want {
			r.Fail("a documented expression form does not yield its conventional value at this position", map[string]string{"oracle": "denote", "class": pb.class},
				map[string]any{"template": pb.tpl, "expected": pb.want, "observed": got})
		}
	}
	// ---------- pipes (oracle only) ----------
	c13Pipes(r)
}

var errBoom = errors.New("boom")

func stdhtmlUnescape(s string) string { return stdhtml.UnescapeString(s) }

// error results declared with a concrete type or with an interface that embeds error
type c13Err struct{ msg string }

func (e *c13Err) Error() string { return e.msg }

type c13Coded interface {
	error
	Code() int
}
type c13CodeErr struct{ code int }

func (e c13CodeErr) Error() string { return fmt.Sprint("code ", e.code) }
func (e c13CodeErr) Code() int     { return e.code }

func c13Pipes(r *Run) {
	funcs := vuego.FuncMap{
		"double":     func(n int) int { return 2 * n },
		"inc8":       func(n int8) int8 { return n + 1 },
		"join2":      func(a, b string) string { return a + "+" + b },
		"addf":       func(a, b float64) float64 { return a + b },
		"isPos":      func(n int) bool { return n > 0 },
		"fails":      func(s string) (string, error) { return "", errBoom },
		"ustr":       func(u uint) string { return fmt.Sprint("u", u) },
		"fhalf":      func(f float64) float64 { return f / 2 },
		"notb":       func(b bool) bool { return !b },
		"u8":         func(u uint8) uint8 { return u + 1 },
		"argt":       func(v any, a any) string { return fmt.Sprintf("%T=%v", a, a) },
		"upad":       func(s string, n uint) string { return fmt.Sprint(s, "#", n) },
		"pick":       func(s string, f float64, b bool, n int) string { return fmt.Sprint(s, "/", f, "/", b, "/", n) },
		"failsPtr":   func(s string) (string, *c13Err) { return "kept", &c13Err{"ptr boom"} },
		"okPtr":      func(s string) (string, *c13Err) { return s + "!", nil },
		"failsCoded": func(s string) (string, c13Coded) { return "kept", c13CodeErr{7} },
		"okCoded":    func(s string) (string, c13Coded) { return s + "?", nil },
		"tag": func(ctx *vuego.VueContext, v any, opts ...string) string { // context-injected and variadic
			return fmt.Sprintf("%T:%v:%s", v, v, strings.Join(opts, ","))
		},
	}
	type step struct {
		src  string
		name string
		fn   func(any) (any, bool) // reference application; false = must fail naming the function
	}
	_ = fmt.Sprint
	builtin := vuego.NewVue(nil).DefaultFuncMap()
	bi := func(name string) func(any) (any, bool) { // the registered built-in itself is the reference
		f, _ := builtin[name].(func(any) any)
		return func(v any) (any, bool) {
			if f == nil {
				return nil, false
			}
			return f(v), true
		}
	}
	steps := []step{
		{"upper", "upper", bi("upper")},
		{"lower", "lower", bi("lower")},
		{"trim", "trim", bi("trim")},
		{"double", "double", func(v any) (any, bool) {
			if i, ok := asInt(v); ok {
				return 2 * i, true
			}
			return nil, false
		}},
		{`join2("z")`, "join2", func(v any) (any, bool) {
			if sv, ok := asStr(v); ok {
				return sv + "+z", true
			}
			return nil, false
		}},
		{"join2(s)", "join2", func(v any) (any, bool) {
			if sv, ok := asStr(v); ok {
				return sv + "+str", true
			}
			return nil, false
		}},
		{`tag("p", "q")`, "tag", func(v any) (any, bool) { return fmt.Sprintf("%T:%v:p,q", v, v), true }},
		{"tag", "tag", func(v any) (any, bool) { return fmt.Sprintf("%T:%v:", v, v), true }},
		// arguments of every literal kind: single- and double-quoted strings, floats, booleans, integers
		{"pick(1.5, true, 7)", "pick", func(v any) (any, bool) {
			if sv, ok := asStr(v); ok {
				return sv + "/1.5/true/7", true
			}
			return nil, false
		}},
		// numeric literals in every spelling, handed to a parameter that shows what the argument became
		{"argt(.5)", "argt", func(v any) (any, bool) { return "float64=0.5", true }},
		{"argt(+3)", "argt", func(v any) (any, bool) { return "int=3", true }},
		{"argt(-2)", "argt", func(v any) (any, bool) { return "int=-2", true }},
		{"argt(1e3)", "argt", func(v any) (any, bool) { return "float64=1000", true }},
		{"argt(007)", "argt", func(v any) (any, bool) { return "int=7", true }},
		{"argt(-.25)", "argt", func(v any) (any, bool) { return "float64=-0.25", true }},
		{"argt(true)", "argt", func(v any) (any, bool) { return "bool=true", true }},
		{"argt('7')", "argt", func(v any) (any, bool) { return "string=7", true }},
		{"argt('true')", "argt", func(v any) (any, bool) { return "string=true", true }},
		{"argt(\"1.5\")", "argt", func(v any) (any, bool) { return "string=1.5", true }},
		{"argt(' padded ')", "argt", func(v any) (any, bool) { return "string= padded ", true }},
		{"argt('s')", "argt", func(v any) (any, bool) { return "string=s", true }},
		{"argt('a')", "argt", func(v any) (any, bool) { return "string=a", true }},
		{"argt('')", "argt", func(v any) (any, bool) { return "string=", true }},
		{"upad(+3)", "upad", func(v any) (any, bool) {
			if sv, ok := asStr(v); ok {
				return sv + "#3", true
			}
			return nil, false
		}},
		{`join2('single quoted')`, "join2", func(v any) (any, bool) {
			if sv, ok := asStr(v); ok {
				return sv + "+single quoted", true
			}
			return nil, false
		}},
		// conversions of the piped value to the parameter type: numeric strings to float / unsigned, "true" to bool
		{"fhalf", "fhalf", func(v any) (any, bool) {
			switch x := v.(type) {
			case int:
				return float64(x) / 2, true
			case int8:
				return float64(x) / 2, true
			case int64:
				return float64(x) / 2, true
			case uint8:
				return float64(x) / 2, true
			case uint16:
				return float64(x) / 2, true
			case uint64:
				return float64(x) / 2, true
			case float64:
				return x / 2, true
			case string:
				var f float64
				if _, err := fmt.Sscan(x, &f); err == nil && fmt.Sprint(f) == x {
					return f / 2, true
				}
			}
			return nil, false
		}},
		{"notb", "notb", func(v any) (any, bool) {
			switch x := v.(type) {
			case bool:
				return !x, true
			case string:
				if x == "true" || x == "false" {
					return x != "true", true
				}
			}
			return nil, false
		}},
		// built-ins (themselves the reference)
		{"type", "type", bi("type")}, {"int", "int", bi("int")}, {"escape", "escape", bi("escape")}, {"string", "string", bi("string")}, {"title", "title", bi("title")}, {"len", "len", bi("len")},
		{"nosuch", "nosuch", func(v any) (any, bool) { return nil, false }},
		{"failsPtr", "failsPtr", func(v any) (any, bool) { return nil, false }},
		{"failsCoded", "failsCoded", func(v any) (any, bool) { return nil, false }},
		{"okPtr", "okPtr", func(v any) (any, bool) {
			if sv, ok := asStr(v); ok {
				return sv + "!", true
			}
			return nil, false
		}},
		{"okCoded", "okCoded", func(v any) (any, bool) {
			if sv, ok := asStr(v); ok {
				return sv + "?", true
			}
			return nil, false
		}},
		{"fails", "fails", func(v any) (any, bool) { return nil, false }},
		{"join2", "join2", func(v any) (any, bool) { return nil, false }},         // wrong argument count
		{"double(1, 2)", "double", func(v any) (any, bool) { return nil, false }}, // wrong argument count
		{"isPos", "isPos", func(v any) (any, bool) {
			if i, ok := asInt(v); ok {
				return i > 0, true
			}
			return nil, false
		}},
		{"u8", "u8", func(v any) (any, bool) { // an unsigned parameter: negative numbers, fractions below zero and numbers above 255 do not fit
			if f, ok := v.(float64); ok {
				if f != f || f <= -1 || f >= 256 {
					return nil, false
				}
				return uint8(f) + 1, true
			}
			if i, ok := asInt(v); ok && i >= 0 && i <= 255 {
				return uint8(i) + 1, true
			}
			return nil, false
		}},
		{"inc8", "inc8", func(v any) (any, bool) { // a number that does not fit the int8 parameter is an impossible conversion
			if i, ok := asInt(v); ok && i >= -128 && i <= 127 {
				return int8(i) + 1, true
			}
			return nil, false
		}},
	}
	initials := []struct {
		path string
		val  any
	}{{"a", 3}, {"s", "str"}, {"num", "12"}, {"xs", []any{1, 2, 3}}, {"t", true}, {"big", 300},
		// a call at the head of the pipe: called with its own arguments, its result piped on
		{"u", uint8(7)}, {"ubig", uint64(300)}, {"u16", uint16(65535)}, {"i64", int64(-2)}, {"fl", 2.5}, {"sneg", "-1"},
		{"double(3)", 6}, {"len(xs)", 3}, {"double(a)", 6}, {"upper('ab')", "AB"}, {"len(s)", 3}}
	env := c13Env()
	env["num"] = "12"
	env["big"] = 300
	env["u"], env["ubig"], env["u16"], env["i64"], env["fl"], env["sneg"] = uint8(7), uint64(300), uint16(65535), int64(-2), 2.5, "-1"
	maxLen := 2
	if r.Thorough() {
		maxLen = 3
	}
	var rec func(chain []step)
	rec = func(chain []step) {
		if len(chain) > 0 {
			for _, in := range initials {
				parts := []string{in.path}
				var cur any = in.val
				okAll, failing := true, ""
				for _, s := range chain {
					parts = append(parts, s.src)
					if okAll {
						nv, ok := s.fn(cur)
						if !ok {
							okAll, failing = false, s.name
						}
						cur = nv
					}
				}
				// literal text and an earlier expression stand before the pipe: when the pipe fails, what was already
				// written for this text node must not show up in any later value
				pipe := strings.Join(parts, " | ")
				src := fmt.Sprintf(`<i data-m="1" title="T:{{ s }}:{{ %s }}">P:{{ s }}={{ %s }}</i>`, strings.ReplaceAll(pipe, `"`, "&quot;"), pipe)
				out, err := c10RenderFuncs(src, env, funcs)
				r.Eval("pipe:"+src, true, nil)
				r.Count("stream:pipes(oracle only)")
				desc := map[string]any{"template": src}
				if okAll {
					m := c13Txt.FindStringSubmatch(out)
					wantTxt := "P:str=" + fmt.Sprint(cur)
					if err != nil || m == nil || strings.TrimSpace(m[2]) != strings.TrimSpace(wantTxt) || !strings.Contains(stdhtmlUnescape(m[1]), `title="T:str:`+fmt.Sprint(cur)+`"`) {
						r.Fail("a pipe does not equal applying the functions left to right", map[string]string{"oracle": "pipe-left-to-right"}, map[string]any{"case": desc, "expected": fmt.Sprint(cur), "output": out, "err": fmt.Sprint(err)})
					}
				} else if err == nil {
					r.Fail("a failing function call did not fail the render", map[string]string{"oracle": "call-error", "function": failing}, map[string]any{"case": desc, "output": out})
				} else if !strings.Contains(err.Error(), failing) {
					r.Fail("the error of a failing function call does not name the function", map[string]string{"oracle": "call-error-named", "function": failing}, map[string]any{"case": desc, "err": err.Error()})
				}
			}
		}
		if len(chain) == maxLen {
			return
		}
		for _, s := range steps {
			rec(append(append([]step{}, chain...), s))
		}
	}
	rec(nil)
}

// documented argument conversions: numbers of any width, and strings that parse as the number
func asInt(v any) (int, bool) {
	switch x := v.(type) {
	case int:
		return x, true
	case int8:
		return int(x), true
	case int64:
		return int(x), true
	case uint8:
		return int(x), true
	case uint16:
		return int(x), true
	case uint64:
		if x > 1<<62 {
			return 0, false
		}
		return int(x), true
	case float64: // Go's conversion: the fraction is dropped; a value outside the parameter's range is an error (checked by the caller)
		if x != x || x < -1e18 || x > 1e18 {
			return 0, false
		}
		return int(x), true
	case string:
		var i int
		if _, err := fmt.Sscan(x, &i); err == nil && fmt.Sprint(i) == x {
			return i, true
		}
	}
	return 0, false
}
func asStr(v any) (string, bool) {
	switch x := v.(type) {
	case string:
		return x, true
	case int, int8, int64, uint8, uint16, uint64, bool, float64:
		return fmt.Sprint(x), true
	}
	return "", false
}

// root structs that embed structs two levels deep, with a field name declared at more than one level (Go promotes the
// shallowest): a bare path, a pipe and every operator expression over the name mean the same field
type C13Base struct {
	Label string
	Deep  string
	N     int
}
type C13Mid struct {
	C13Base
	Label string
	N     int
}
type C13MidAfter struct {
	Label string
	C13Base
}
type c13Page struct{ C13Mid }
type c13PageAfter struct{ C13MidAfter }
type c13PagePtr struct{ *C13Mid }

func c13ShadowedPromotion(r *Run) {
	tpl := `<p data-a="{{ Label }}" :data-b="Label + ''" :data-c="Label">{{ Label }}|{{ Label + "" }}|{{ Label | upper | lower }}|{{ Label == 'mid' ? 'yes' : 'no' }}|{{ Deep }}|{{ Deep + "" }}</p>` +
		`<b v-if="Label == 'mid'">if-mid</b><b v-else-if="Label == 'base'">if-base</b><b v-else>neither</b><i v-show="Label == 'mid'">s</i>`
	want := `<pdata-a="mid"data-b="mid"data-c="mid">mid|mid|mid|yes|deep|deep</p><b>if-mid</b><i>s</i>`
	roots := map[string]any{
		"shadow-declared-after-embedding":  c13Page{C13Mid{C13Base: C13Base{Label: "base", Deep: "deep", N: 1}, Label: "mid", N: 2}},
		"shadow-declared-before-embedding": c13PageAfter{C13MidAfter{Label: "mid", C13Base: C13Base{Label: "base", Deep: "deep"}}},
		"through-embedded-pointer":         c13PagePtr{&C13Mid{C13Base: C13Base{Label: "base", Deep: "deep", N: 1}, Label: "mid", N: 2}},
		"pointer-to-root":                  &c13Page{C13Mid{C13Base: C13Base{Label: "base", Deep: "deep", N: 1}, Label: "mid", N: 2}},
	}
	for name, root := range roots {
		var buf bytes.Buffer
		var err error
		func() {
			defer func() {
				if x := recover(); x != nil {
					err = fmt.Errorf("PANIC %v", x)
				}
			}()
			err = vuego.New().Fill(root).RenderString(context.Background(), &buf, tpl)
		}()
		got := strings.Join(strings.Fields(buf.String()), "")
		r.Eval("shadowed-promotion:"+name, true, nil)
		r.Count("stream:shadowed-promotion(oracle only)")
		if err != nil || got != want {
			r.Fail("a field name declared at two levels of embedding means one field as a path and another in an expression", map[string]string{"oracle": "shadowed-promotion", "root": name},
				map[string]any{"template": tpl, "root": fmt.Sprintf("%+v", root), "output": buf.String(), "expected_without_whitespace": want, "err": fmt.Sprint(err)})
		}
	}
}
