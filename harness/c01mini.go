package main

import (
	"bytes"
	"context"
	"fmt"
	"sort"
	"strings"
	"testing/fstest"
	"time"

	"github.com/titpetric/vuego"

	"golang.org/x/net/html"
	"golang.org/x/net/html/atom"
)

// C01, stream "mini": templates of the miniature evaluator of Model/Hole.v (text interpolation, static and
// bound attributes, v-text, v-if / v-else on a variable, v-if comparing with a literal, v-for over a list)
// rendered by the engine on concrete data; the canonical print of the parsed output must equal the model's.

type miniProp struct {
	key   int
	bound bool
	x     int
	segs  []miniSeg
}
type miniT struct {
	kind  string // text elem vtext show if chain eq for for2 include slot
	iv    int        // for2: index variable
	props []miniProp
	f     int        // include: component file
	br    []miniBr   // chain: v-if / v-else-if branches
	segs  []miniSeg
	tag   string
	attrs []miniAttr
	kids  []*miniT
	x     int
	lit   string
	el    []*miniT
	v     int
}
type miniBr struct {
	x    int
	kids []*miniT
}
type miniSeg struct {
	lit string
	x   int // -1: literal
}
type miniAttr struct {
	key   string
	bound bool
	x     int
	segs  []miniSeg
}

var miniStrs = []string{"word", "", "false", "<b>", "a&b", `"q"`, "it's", "{{secret}}", "</div>", "x<y>z", "&lt;", "{{x0}}", "true", "0", `["a","b"]`, `{"k":"v"}`, "[1]", `</template><slot></slot>`}

// generator context: which component files may be included from here (indices > minInc), whether a <slot> may appear
type miniCtx struct {
	incFrom int  // components with index >= incFrom may be included (c0 may include c1; nothing includes itself)
	nComp   int
	slot    bool // inside a component body (or inside content that is itself inside one)
}

func miniSegs(r *Rng, strVars []int) []miniSeg {
	var out []miniSeg
	for i, k := 0, 1+r.Intn(3); i < k; i++ {
		if r.Bool() || len(strVars) == 0 {
			out = append(out, miniSeg{lit: Pick(r, []string{"L", "a", ":", "-", "z9"}), x: -1})
		} else {
			out = append(out, miniSeg{x: Pick(r, strVars)})
		}
	}
	return out
}

// strVars: variables holding a string or bool (or nothing); listVars: variables holding lists
func miniGen(r *Rng, depth int, strVars, listVars []int, next *int, cx miniCtx) []*miniT {
	var out []*miniT
	for i, k := 0, 1+r.Intn(3); i < k; i++ {
		switch x := r.Intn(15); {
		case x == 10 && len(strVars) > 0 && depth > 0:
			out = append(out, &miniT{kind: "show", tag: Pick(r, []string{"div", "span"}), x: Pick(r, strVars), kids: miniGen(r, depth-1, strVars, listVars, next, cx)})
		case x == 11 && len(strVars) > 0 && depth > 0:
			t := &miniT{kind: "chain"}
			for j, m := 0, 2+r.Intn(2); j < m; j++ {
				t.br = append(t.br, miniBr{x: Pick(r, strVars), kids: miniGen(r, depth-1, strVars, listVars, next, cx)})
			}
			if r.Bool() {
				t.el = miniGen(r, depth-1, strVars, listVars, next, cx)
			}
			out = append(out, t)
		case (x == 12 || x == 13) && cx.incFrom < cx.nComp && depth > 0:
			t := &miniT{kind: "include", f: cx.incFrom + r.Intn(cx.nComp-cx.incFrom)}
			used := map[int]bool{}
			for j, m := 0, r.Intn(4); j < m; j++ {
				key := Pick(r, []int{7, 8, 0, 1})
				if used[key] {
					continue
				}
				used[key] = true
				if r.Bool() && len(strVars) > 0 {
					t.props = append(t.props, miniProp{key: key, bound: true, x: Pick(r, append(append([]int{}, strVars...), listVars...))})
				} else {
					t.props = append(t.props, miniProp{key: key, segs: miniSegs(r, strVars)})
				}
			}
			if r.Intn(3) != 0 {
				t.kids = miniGen(r, depth-1, strVars, listVars, next, cx) // supplied slot content (may forward the includer's own slot)
			}
			out = append(out, t)
		case x == 14 && cx.slot:
			t := &miniT{kind: "slot"}
			if r.Bool() {
				t.kids = miniGen(r, depth-1, strVars, listVars, next, cx)
			}
			out = append(out, t)
		case x >= 10:
			out = append(out, &miniT{kind: "text", segs: miniSegs(r, strVars)})
		case x < 3 || depth <= 0:
			out = append(out, &miniT{kind: "text", segs: miniSegs(r, strVars)})
		case x < 6:
			t := &miniT{kind: "elem", tag: Pick(r, []string{"div", "span", "section", "b"})}
			used := map[string]bool{}
			for j, m := 0, r.Intn(3); j < m; j++ {
				if r.Bool() && len(strVars) > 0 {
					key := Pick(r, []string{"data-b", "id", "lang"})
					if !used[key] {
						used[key] = true
						t.attrs = append(t.attrs, miniAttr{key: key, bound: true, x: Pick(r, strVars)})
					}
				} else {
					key := Pick(r, []string{"data-a", "title"})
					if !used[key] {
						used[key] = true
						t.attrs = append(t.attrs, miniAttr{key: key, segs: miniSegs(r, strVars)})
					}
				}
			}
			// the engine writes interpolated attributes first and bound ones after them (C14 / C10 own the
			// order); the template is written that way so that source order and output order coincide
			sort.SliceStable(t.attrs, func(i, j int) bool { return !t.attrs[i].bound && t.attrs[j].bound })
			t.kids = miniGen(r, depth-1, strVars, listVars, next, cx)
			out = append(out, t)
		case x < 7 && len(strVars) > 0:
			out = append(out, &miniT{kind: "vtext", tag: Pick(r, []string{"i", "em"}), x: Pick(r, strVars)})
		case x < 8 && len(strVars) > 0:
			out = append(out, &miniT{kind: "if", x: Pick(r, strVars), kids: miniGen(r, depth-1, strVars, listVars, next, cx), el: miniGen(r, depth-1, strVars, listVars, next, cx)})
		case x < 9 && len(strVars) > 0:
			out = append(out, &miniT{kind: "eq", x: Pick(r, strVars), lit: Pick(r, []string{"word", "false", "zz"}), kids: miniGen(r, depth-1, strVars, listVars, next, cx)})
		default:
			if len(listVars) == 0 {
				out = append(out, &miniT{kind: "text", segs: miniSegs(r, strVars)})
				continue
			}
			v := *next
			*next++
			if r.Intn(3) == 0 { // (index, item)
				iv := *next
				*next++
				out = append(out, &miniT{kind: "for2", v: v, iv: iv, x: Pick(r, listVars), kids: miniGen(r, depth-1, append(append([]int{}, strVars...), v, iv), listVars, next, cx)})
				continue
			}
			out = append(out, &miniT{kind: "for", v: v, x: Pick(r, listVars), kids: miniGen(r, depth-1, append(append([]int{}, strVars...), v), listVars, next, cx)})
		}
	}
	return out
}

func miniSegSrc(segs []miniSeg) string {
	var sb strings.Builder
	for _, g := range segs {
		if g.x < 0 {
			sb.WriteString(g.lit)
		} else {
			fmt.Fprintf(&sb, "{{ x%d }}", g.x)
		}
	}
	return sb.String()
}
func miniSegCoq(segs []miniSeg) string {
	var xs []string
	for _, g := range segs {
		if g.x < 0 {
			xs = append(xs, "Lit "+coqBytes(g.lit))
		} else {
			xs = append(xs, fmt.Sprintf("Var %d", g.x))
		}
	}
	return "[" + strings.Join(xs, "; ") + "]"
}
func miniSrc(ts []*miniT) string {
	var sb strings.Builder
	for _, t := range ts {
		switch t.kind {
		case "text":
			sb.WriteString(miniSegSrc(t.segs))
		case "elem":
			sb.WriteString("<" + t.tag)
			for _, a := range t.attrs {
				if a.bound {
					fmt.Fprintf(&sb, ` :%s="x%d"`, a.key, a.x)
				} else {
					fmt.Fprintf(&sb, ` %s="%s"`, a.key, miniSegSrc(a.segs))
				}
			}
			sb.WriteString(">" + miniSrc(t.kids) + "</" + t.tag + ">")
		case "vtext":
			fmt.Fprintf(&sb, `<%s v-text="x%d"></%s>`, t.tag, t.x, t.tag)
		case "if":
			fmt.Fprintf(&sb, `<template v-if="x%d">%s</template><template v-else>%s</template>`, t.x, miniSrc(t.kids), miniSrc(t.el))
		case "eq":
			fmt.Fprintf(&sb, `<template v-if="x%d == '%s'">%s</template>`, t.x, t.lit, miniSrc(t.kids))
		case "for":
			fmt.Fprintf(&sb, `<template v-for="x%d in x%d">%s</template>`, t.v, t.x, miniSrc(t.kids))
		case "for2":
			fmt.Fprintf(&sb, `<template v-for="(x%d, x%d) in x%d">%s</template>`, t.iv, t.v, t.x, miniSrc(t.kids))
		case "show":
			fmt.Fprintf(&sb, `<%s v-show="x%d">%s</%s>`, t.tag, t.x, miniSrc(t.kids), t.tag)
		case "chain":
			for i, b := range t.br {
				d := "v-else-if"
				if i == 0 {
					d = "v-if"
				}
				fmt.Fprintf(&sb, `<template %s="x%d">%s</template>`, d, b.x, miniSrc(b.kids))
			}
			if t.el != nil {
				fmt.Fprintf(&sb, `<template v-else>%s</template>`, miniSrc(t.el))
			}
		case "include":
			fmt.Fprintf(&sb, `<template include="c%d.vuego"`, t.f)
			for _, p := range t.props {
				if p.bound {
					fmt.Fprintf(&sb, ` :x%d="x%d"`, p.key, p.x)
				} else {
					fmt.Fprintf(&sb, ` x%d="%s"`, p.key, miniSegSrc(p.segs))
				}
			}
			sb.WriteString(">" + miniSrc(t.kids) + "</template>")
		case "slot":
			sb.WriteString("<slot>" + miniSrc(t.kids) + "</slot>")
		}
	}
	return sb.String()
}
func miniCoq(ts []*miniT) string {
	var xs []string
	for _, t := range ts {
		switch t.kind {
		case "text":
			xs = append(xs, "Hole.TText "+miniSegCoq(t.segs))
		case "elem":
			var as []string
			for _, a := range t.attrs {
				if a.bound {
					as = append(as, fmt.Sprintf("ABound %s %d", coqBytes(a.key), a.x))
				} else {
					as = append(as, fmt.Sprintf("AStatic %s %s", coqBytes(a.key), miniSegCoq(a.segs)))
				}
			}
			xs = append(xs, fmt.Sprintf("TElem %s [%s] %s", coqBytes(t.tag), strings.Join(as, "; "), miniCoq(t.kids)))
		case "vtext":
			xs = append(xs, fmt.Sprintf("TVText %s %d", coqBytes(t.tag), t.x))
		case "if":
			xs = append(xs, fmt.Sprintf("TIf %d %s %s", t.x, miniCoq(t.kids), miniCoq(t.el)))
		case "eq":
			xs = append(xs, fmt.Sprintf("TEq %d %s %s", t.x, coqBytes(t.lit), miniCoq(t.kids)))
		case "for":
			xs = append(xs, fmt.Sprintf("TFor %d %d %s", t.v, t.x, miniCoq(t.kids)))
		case "for2":
			xs = append(xs, fmt.Sprintf("TFor2 %d %d %d %s", t.iv, t.v, t.x, miniCoq(t.kids)))
		case "show":
			xs = append(xs, fmt.Sprintf("TShow %s %d %s", coqBytes(t.tag), t.x, miniCoq(t.kids)))
		case "chain":
			var bs []string
			for _, b := range t.br {
				bs = append(bs, fmt.Sprintf("(%d, %s)", b.x, miniCoq(b.kids)))
			}
			xs = append(xs, fmt.Sprintf("TChain [%s] %s", strings.Join(bs, "; "), miniCoq(t.el)))
		case "include":
			var ps []string
			for _, p := range t.props {
				if p.bound {
					ps = append(ps, fmt.Sprintf("PBound %d %d", p.key, p.x))
				} else {
					ps = append(ps, fmt.Sprintf("PStatic %d %s", p.key, miniSegCoq(p.segs)))
				}
			}
			xs = append(xs, fmt.Sprintf("TInclude %d [%s] %s", t.f, strings.Join(ps, "; "), miniCoq(t.kids)))
		case "slot":
			xs = append(xs, fmt.Sprintf("TSlot %s", miniCoq(t.kids)))
		}
	}
	return "[" + strings.Join(xs, "; ") + "]"
}

// canonical print of the parsed output, mirroring Run/RunC01.v show_item
func miniCanon(out string) string {
	nodes, err := html.ParseFragment(strings.NewReader(out), &html.Node{Type: html.ElementNode, Data: "body", DataAtom: atom.Body})
	if err != nil {
		return "PARSE-ERROR"
	}
	var show func(ns []*html.Node) string
	show = func(ns []*html.Node) string {
		var sb strings.Builder
		var txt strings.Builder
		flush := func() {
			if txt.Len() > 0 {
				sb.WriteString("[" + txt.String() + "]")
				txt.Reset()
			}
		}
		for _, n := range ns {
			switch n.Type {
			case html.TextNode:
				for _, c := range []byte(n.Data) {
					if c != ' ' && c != '\t' && c != '\n' && c != '\f' && c != '\r' {
						txt.WriteByte(c)
					}
				}
			case html.ElementNode:
				flush()
				sb.WriteString("<" + n.Data)
				for _, a := range n.Attr {
					sb.WriteString(" " + a.Key + "=" + a.Val)
				}
				sb.WriteString(">")
				var kids []*html.Node
				for c := n.FirstChild; c != nil; c = c.NextSibling {
					kids = append(kids, c)
				}
				sb.WriteString(show(kids))
				sb.WriteString("</" + n.Data + ">")
			}
		}
		flush()
		return sb.String()
	}
	return show(nodes)
}

func miniRender(files fstest.MapFS, src string, data map[string]any) (string, error) {
	var buf bytes.Buffer
	var err error
	done := make(chan struct{})
	go func() {
		defer close(done)
		defer func() {
			if x := recover(); x != nil {
				err = fmt.Errorf("PANIC %v", x)
			}
		}()
		err = vuego.NewFS(files).Fill(data).RenderString(context.Background(), &buf, src)
	}()
	select {
	case <-done:
	case <-time.After(4 * time.Second):
		return "", fmt.Errorf("TIMEOUT")
	}
	return buf.String(), err
}

func c01Mini(r *Run) {
	rr := r.Rng
	n := 600
	if r.Thorough() {
		n = 30000
	}
	for i := 0; i < n; i++ {
		// environment: x0..x2 strings / bools / absent, x3..x4 lists
		data := map[string]any{"secret": "CANARY"}
		var envCoq []string
		var strVars, listVars []int
		for v := 0; v < 3; v++ {
			strVars = append(strVars, v)
			switch rr.Intn(6) {
			case 0: // absent
			case 1:
				b := rr.Bool()
				data[fmt.Sprintf("x%d", v)] = b
				envCoq = append(envCoq, fmt.Sprintf("(%d, VBool %v)", v, b))
			default:
				s := Pick(rr, miniStrs)
				data[fmt.Sprintf("x%d", v)] = s
				envCoq = append(envCoq, fmt.Sprintf("(%d, VStr %s)", v, coqBytes(s)))
			}
		}
		for v := 3; v < 5; v++ {
			if rr.Intn(4) == 0 {
				continue
			}
			listVars = append(listVars, v)
			var items []any
			var ic []string
			for j, m := 0, rr.Intn(4); j < m; j++ {
				s := Pick(rr, miniStrs)
				items = append(items, s)
				ic = append(ic, "VStr "+coqBytes(s))
			}
			data[fmt.Sprintf("x%d", v)] = items
			envCoq = append(envCoq, fmt.Sprintf("(%d, VList [%s])", v, strings.Join(ic, "; ")))
		}
		sort.Strings(envCoq)
		next := 10
		// two component files: c1 is a leaf, c0 may include c1; their bodies read the props x7, x8 and whatever
		// the includer's scope holds (x0..x4), and place <slot>s
		compVars := append(append([]int{}, strVars...), 7, 8)
		nComp := 2
		comps := make([][]*miniT, nComp)
		fms, fmc := make([]string, nComp), make([]string, nComp)
		files := fstest.MapFS{}
		var compCoq []string
		for ci := nComp - 1; ci >= 0; ci-- {
			comps[ci] = miniGen(rr, 2, compVars, listVars, &next, miniCtx{incFrom: ci + 1, nComp: nComp, slot: true})
			// front-matter: authoritative over the include's props and the includer's variables
			fmSrc, fmCoq := "", ""
			if rr.Intn(3) == 0 {
				var ys, cs []string
				used := map[int]bool{}
				for j, m := 0, 1+rr.Intn(2); j < m; j++ {
					k := Pick(rr, []int{7, 8, 0, 2})
					if used[k] {
						continue
					}
					used[k] = true
					switch rr.Intn(4) {
					case 0:
						n := rr.Intn(3)
						ys = append(ys, fmt.Sprintf("x%d: %d", k, n))
						cs = append(cs, fmt.Sprintf("(%d, VNum %d)", k, n))
					case 1:
						b := rr.Bool()
						ys = append(ys, fmt.Sprintf("x%d: %v", k, b))
						cs = append(cs, fmt.Sprintf("(%d, VBool %v)", k, b))
					default:
						w := Pick(rr, []string{"fm", "", "false", "f m"})
						ys = append(ys, fmt.Sprintf("x%d: %q", k, w))
						cs = append(cs, fmt.Sprintf("(%d, VStr %s)", k, coqBytes(w)))
					}
				}
				fmSrc = "---\n" + strings.Join(ys, "\n") + "\n---\n"
				fmCoq = strings.Join(cs, "; ")
			}
			fms[ci], fmc[ci] = fmSrc, fmCoq
			files[fmt.Sprintf("c%d.vuego", ci)] = &fstest.MapFile{Data: []byte(fmSrc + miniSrc(comps[ci]))}
		}
		for ci := 0; ci < nComp; ci++ {
			compCoq = append(compCoq, fmt.Sprintf("([%s], %s)", fmc[ci], miniCoq(comps[ci])))
		}
		tpl := miniGen(rr, 3, strVars, listVars, &next, miniCtx{incFrom: 0, nComp: nComp})
		src := miniSrc(tpl)
		out, err := miniRender(files, src, data)
		var impl Obs
		if err != nil {
			impl = L(A("error"))
		} else {
			impl = A(miniCanon(out))
		}
		r.Case("mini", fmt.Sprintf("CMini [%s] [%s] %s", strings.Join(compCoq, "; "), strings.Join(envCoq, "; "), miniCoq(tpl)), impl,
			map[string]any{"template": src, "c0.vuego": fms[0] + miniSrc(comps[0]), "c1.vuego": fms[1] + miniSrc(comps[1]), "data": fmt.Sprint(data), "output": out, "err": fmt.Sprint(err)}, nil, strings.ContainsAny(fmt.Sprint(data), "<&\"{"))
	}
}
