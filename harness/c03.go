package main

import (
	"testing/fstest"
	"bytes"
	"context"
	"fmt"
	"regexp"
	"strings"
	"time"

	"github.com/titpetric/vuego"
)

// C03: conditional chains and uniform truthiness.

type c03Level int
type c03Price float64
type c03Small uint8
type c03Big int64
type c03Flag bool
type c03Name string

type c03Node struct {
	kind string // if elseif else plain ws comment for0 for2
	c    bool
	id   int
	tag  string // p | template
	deco string // "" | for1 | show
}

func (n c03Node) Coq() string {
	switch n.kind {
	case "if":
		return fmt.Sprintf("NIf %s %d", coqBool(n.c), n.id)
	case "elseif":
		return fmt.Sprintf("NElseIf %s %d", coqBool(n.c), n.id)
	case "else":
		return fmt.Sprintf("NElse %d", n.id)
	case "plain":
		return fmt.Sprintf("NPlain %d", n.id)
	case "for0":
		return fmt.Sprintf("NFor 0 %d", n.id)
	case "for2":
		return fmt.Sprintf("NFor 2 %d", n.id)
	}
	return fmt.Sprintf("NOther %d", n.id)
}
func (n c03Node) Source() string {
	dir := ""
	switch n.kind {
	case "if":
		dir = fmt.Sprintf(` v-if="c%d"`, n.id)
	case "elseif":
		dir = fmt.Sprintf(` v-else-if="c%d"`, n.id)
	case "else":
		dir = " v-else"
	case "ws":
		return "\n  "
	case "comment":
		return "<!-- note -->"
	case "txt":
		return fmt.Sprintf(" ~%d~ ", n.id)
	case "for0":
		dir = ` v-for="q in none"`
	case "for2":
		dir = ` v-for="q in two"`
	}
	switch n.deco {
	case "for1":
		dir += ` v-for="q in one"`
	case "show":
		dir += ` v-show="yes"`
	}
	if n.tag == "template" {
		return fmt.Sprintf(`<template%s><p data-m="%d">x</p></template>`, dir, n.id)
	}
	if n.tag == "include" {
		return fmt.Sprintf(`<template include="mk.vuego" m="%d"%s><i>supplied</i></template>`, n.id, dir)
	}
	return fmt.Sprintf(`<p data-m="%d"%s>x</p>`, n.id, dir)
}

var c03Mark = regexp.MustCompile(`data-m="(\d+)"`)
var c03MarkT = regexp.MustCompile(`data-m="(\d+)"|~(\d+)~`)

func c03Render(src string, data map[string]any) (string, error) {
	var buf bytes.Buffer
	var err error
	func() {
		defer func() {
			if x := recover(); x != nil {
				err = fmt.Errorf("PANIC %v", x)
			}
		}()
		err = vuego.New().Fill(data).RenderString(context.Background(), &buf, src)
	}()
	return buf.String(), err
}

// a name assigned inside one iteration of a loop (a plain <template name="value"> in a branch) is undefined, hence
// falsy, in the next iteration: the chain and v-show of every item decide by that item's own assignment
func c03LoopAssign(r *Run) {
	tpl := `<ul><li v-for="item in items"><span v-if="item.hot"><template badge="yes"></template>h</span><b v-if="badge">HOT</b><i v-else>plain</i><u v-show="badge">u</u></li></ul>`
	for mask := 0; mask < 32; mask++ {
		var items []any
		want := "<ul>"
		for i := 0; i < 5; i++ {
			hot := mask>>i&1 == 1
			items = append(items, map[string]any{"hot": hot})
			if hot {
				want += `<li><span>h</span><b>HOT</b><u>u</u></li>`
			} else {
				want += `<li><i>plain</i><ustyle="display:none;">u</u></li>`
			}
		}
		want += "</ul>"
		out, err := c03RenderAny(tpl, map[string]any{"items": items})
		got := strings.Join(strings.Fields(out), "")
		r.Eval(fmt.Sprintf("loop-assign:%d", mask), true, nil)
		r.Count("stream:loop-assign(oracle only)")
		if err != nil || got != want {
			r.Fail("a chain inside a loop is decided by a name another iteration assigned", map[string]string{"oracle": "loop-assign", "kind": "oracle"},
				map[string]any{"template": tpl, "hot_items": fmt.Sprintf("%05b", mask), "output": got, "expected": want, "err": fmt.Sprint(err)})
		}
	}
}

// one condition text decides alike wherever it stands - as v-if, v-else-if, v-show and as the value of a :class object
// key - also when it is an operator expression that begins and ends with a quoted literal
func c03QuotedExpressions(r *Run) {
	for _, mode := range []string{"a", "b", "z", ""} {
		for _, c := range []struct {
			text string
			want func(m string) bool
		}{
			{`'a' == mode || mode == 'b'`, func(m string) bool { return m == "a" || m == "b" }},
			{`'z' != mode && mode != ''`, func(m string) bool { return m != "z" && m != "" }},
			{`mode == 'a'`, func(m string) bool { return m == "a" }},
			{`'a' == mode`, func(m string) bool { return m == "a" }},
			{`'' == mode || 'z' == mode`, func(m string) bool { return m == "" || m == "z" }},
			{`"a" == mode || mode == "b"`, func(m string) bool { return m == "a" || m == "b" }},
		} {
			text := strings.ReplaceAll(c.text, `"`, "&quot;")
			tpl := `<p v-if="` + text + `" data-p="if">x</p><p v-else data-p="else">x</p>` +
				`<p v-if="no" data-p="n">x</p><p v-else-if="` + text + `" data-p="elseif">x</p>` +
				`<i v-show="` + text + `" data-p="show">x</i><b :class="{on: ` + text + `}" data-p="class">x</b>`
			out, err := c03RenderAny(tpl, map[string]any{"mode": mode, "no": false})
			want := c.want(mode)
			got := map[string]bool{
				"v-if":         strings.Contains(out, `data-p="if"`),
				"v-else-if":    strings.Contains(out, `data-p="elseif"`),
				"v-show":       !regexp.MustCompile(`<i[^>]*display:\s*none[^>]*data-p="show"|<i[^>]*data-p="show"[^>]*display:\s*none`).MatchString(out),
				"class-object": regexp.MustCompile(`<b[^>]*class="on"`).MatchString(out),
			}
			r.Eval("quoted-expression:"+mode+":"+c.text, true, nil)
			r.Count("stream:quoted-expressions(oracle only)")
			for pos, g := range got {
				if err != nil || g != want {
					r.Fail("a condition decides differently at one position than the others", map[string]string{"oracle": "quoted-expression", "position": pos},
						map[string]any{"expression": c.text, "mode": mode, "expected": want, "positions": fmt.Sprint(got), "output": out, "err": fmt.Sprint(err)})
					break
				}
			}
		}
	}
}

func init() { streams["C03"] = runC03 }

// One engine, one chain whose conditions compare the loop variable with literals, over items of mixed Go
// types: the same condition text meets int, int64, float64, uint8, string and nil values in one render and in
// consecutive renders. Each item must get exactly the first branch whose comparison holds.
func c03TypedChains(r *Run) {
	rr := r.Rng
	pool := []any{1, 2, 3, int64(1), int64(2), float64(1), float64(2), 2.5, uint8(1), uint8(2), int32(2), "1", "x", nil, true}
	numOf := func(v any) (float64, bool) {
		switch x := v.(type) {
		case int:
			return float64(x), true
		case int64:
			return float64(x), true
		case int32:
			return float64(x), true
		case uint8:
			return float64(x), true
		case float64:
			return x, true
		}
		return 0, false
	}
	tpl := `<div v-for="n in items"><p v-if="n == 1" data-m="1">one</p><p v-else-if="n == 2" data-m="2">two</p><p v-else data-m="3">other</p></div>` +
		`<b v-if="status != 'active'" data-m="4">inactive</b><b v-else data-m="5">active</b>`
	n := 60
	if r.Thorough() {
		n = 1500
	}
	for c := 0; c < n; c++ {
		eng := vuego.New()
		for round := 0; round < 3; round++ {
			var items []any
			var want []string
			for i, k := 0, 1+rr.Intn(5); i < k; i++ {
				v := Pick(rr, pool)
				items = append(items, v)
				f, isNum := numOf(v)
				switch {
				case isNum && f == 1:
					want = append(want, "1")
				case isNum && f == 2:
					want = append(want, "2")
				default:
					want = append(want, "3")
				}
			}
			data := map[string]any{"items": items}
			switch rr.Intn(4) {
			case 0:
				data["status"] = "active"
				want = append(want, "5")
			case 1:
				data["status"] = "off"
				want = append(want, "4")
			case 2:
				data["status"] = nil
				want = append(want, "4")
			default:
				want = append(want, "4") // missing
			}
			var buf bytes.Buffer
			err := eng.New().Fill(data).RenderString(context.Background(), &buf, tpl)
			var got []string
			for _, m := range c03Mark.FindAllStringSubmatch(buf.String(), -1) {
				got = append(got, m[1])
			}
			r.Eval(fmt.Sprintf("typed-chain:%d:%d", c, round), true, nil)
			r.Count("stream:typed-chain(oracle only)")
			if err != nil || strings.Join(got, ",") != strings.Join(want, ",") {
				r.Fail("a chain comparing a loop variable of mixed types does not render the first branch whose comparison holds", map[string]string{"oracle": "typed-chain"},
					map[string]any{"template": tpl, "items": fmt.Sprintf("%#v", items), "status": fmt.Sprintf("%#v", data["status"]), "round_on_same_engine": round, "expected_markers": want, "observed_markers": got, "err": fmt.Sprint(err)})
			}
		}
	}
}

// White space inside a string literal of a condition is part of the literal - in the head of a chain, in a later
// member, under v-show and in a class object alike.
func c03LiteralWhitespace(r *Run) {
	lits := []string{"Hello  World", "Hello World", "a\tb", "a b", " lead", "trail ", "x   y", "tab\t\tx"}
	for _, held := range lits {
		for _, lit := range lits {
			same := held == lit
			q := "'" + lit + "'"
			tpl := `<p v-if="title == ` + q + `" data-m="1">head</p><p v-else data-m="2">else</p>` +
				`<p v-if="no" data-m="3">n</p><p v-else-if="title == ` + q + `" data-m="4">member</p><p v-else data-m="5">else</p>` +
				`<i v-show="title == ` + q + `" data-m="6">s</i><b :class="{on: title == ` + q + `}" data-m="7">c</b>` +
				`<template v-if="title != ` + q + `"><u data-m="8">ne</u></template>`
			out, err := c03RenderAny(tpl, map[string]any{"title": held, "no": false})
			r.Eval("literal-ws:"+held+":"+lit, true, nil)
			r.Count("stream:literal-whitespace(oracle only)")
			var got []string
			for _, m := range c03Mark.FindAllStringSubmatch(out, -1) {
				got = append(got, m[1])
			}
			want := []string{"2", "5", "6", "7", "8"}
			if same {
				want = []string{"1", "4", "6", "7"}
			}
			shown := !strings.Contains(strings.ReplaceAll(out, " ", ""), "display:none")
			classOn := regexp.MustCompile(`class="[^"]*\bon\b`).MatchString(out)
			if err != nil || strings.Join(got, ",") != strings.Join(want, ",") || shown != same || classOn != same {
				r.Fail("a comparison with a string literal that holds white space differs between positions or from plain equality", map[string]string{"oracle": "literal-whitespace"},
					map[string]any{"template": tpl, "title": held, "literal": lit, "equal": same, "markers": got, "expected_markers": want, "v-show_visible": shown, "class_on": classOn, "output": out, "err": fmt.Sprint(err)})
			}
		}
	}
}

func runC03(r *Run) {
	c03LoopAssign(r)
	c03QuotedExpressions(r)
	c03LiteralWhitespace(r)
	c03TypedChains(r)
	r.Imports = []string{"Base.Val", "Model.Chain", "Model.Truthy"}
	r.Rule("(chain) every sibling list up to length 4 (thorough 6) over {v-if, v-else-if, v-else, plain element, whitespace text, comment, element with v-for over no item, element with v-for over two items} x every truth assignment, each placed at top level, nested, inside v-for over 1 and 2 items or on <template v-for>, as the whole content of an included component file (also included from a loop) and as supplied slot content, " +
		"members on <p> or <template>, optionally carrying v-for over one item or a truthy v-show; observable: marker ids in document order. " +
		"(truthy-fn) IsTruthy on one value of every kind and width, zero and non-zero. (positions) value kind x {v-if, !v in v-if, v-else-if, v-show, bound attribute, :class object, v-show on a v-if element}; " +
		"non-trivial: chain with >= 2 members, or a numeric zero of a kind other than int, or a non-bool value")
	rr := r.Rng
	// ---------- chain shapes ----------
	kinds := []string{"if", "elseif", "else", "plain", "ws", "comment", "for0", "for2", "txt"}
	maxLen := 4
	if r.Thorough() {
		maxLen = 6
	}
	shapes := 0
	var rec func(prefix []string)
	emitShape := func(shape []string) {
		loops := 0
		for _, k := range shape {
			if k == "for0" || k == "for2" {
				loops++
			}
		}
		// shapes with loop siblings: all up to length 3, one in three of length 4, one in twelve beyond
		if loops > 0 && ((len(shape) == 4 && rr.Intn(3) != 0) || (len(shape) > 4 && rr.Intn(12) != 0)) {
			return
		}
		// enumerate truth assignments of the conditional members
		var condIdx []int
		for i, k := range shape {
			if k == "if" || k == "elseif" {
				condIdx = append(condIdx, i)
			}
		}
		for mask := 0; mask < 1<<len(condIdx); mask++ {
			if len(shape) >= 5 && !r.Thorough() {
				break
			}
			if len(shape) == 6 && rr.Intn(4) != 0 { // thorough: sample length 6
				continue
			}
			nodes := make([]c03Node, len(shape))
			data := map[string]any{"one": []any{"i"}, "two": []any{"i", "j"}, "yes": true, "none": []any{}}
			members := 0
			for i, k := range shape {
				nodes[i] = c03Node{kind: k, id: i + 1, tag: "p"}
				if k == "if" || k == "elseif" || k == "else" {
					members++
					if rr.Intn(4) == 0 {
						nodes[i].tag = "template"
					} else if rr.Intn(6) == 0 {
						nodes[i].tag = "include" // the member is an include of a component that prints the mark
					}
					switch rr.Intn(6) {
					case 0:
						// only on else-members: v-for on the v-if head itself is evaluated before the v-if
						// (per-item condition), where "the chain" is not what the property describes
						if nodes[i].tag == "p" && k != "if" {
							nodes[i].deco = "for1"
						}
					case 1:
						if nodes[i].tag == "p" {
							nodes[i].deco = "show"
						}
					}
				}
			}
			for bi, i := range condIdx {
				nodes[i].c = mask>>bi&1 == 1
				data[fmt.Sprintf("c%d", nodes[i].id)] = nodes[i].c
			}
			var sb strings.Builder
			for _, n := range nodes {
				sb.WriteString(n.Source())
			}
			body := sb.String()
			placement := Pick(rr, []string{"top", "top", "nested", "for1", "for2", "tplfor2", "component", "slotcontent", "component-for2"})
			repeat := 1
			src := body
			var files fstest.MapFS
			switch placement {
			case "component": // the siblings are the whole content of an included component file
				files = fstest.MapFS{"comp.vuego": &fstest.MapFile{Data: []byte(body)}}
				src = `<template include="comp.vuego"></template>`
			case "component-for2":
				files = fstest.MapFS{"comp.vuego": &fstest.MapFile{Data: []byte(body)}}
				src = `<div v-for="r in two"><template include="comp.vuego"></template></div>`
				repeat = 2
			case "slotcontent": // ... or the content supplied for a component's slot
				files = fstest.MapFS{"box.vuego": &fstest.MapFile{Data: []byte(`<section><slot></slot></section>`)}}
				src = `<template include="box.vuego">` + body + `</template>`
			case "nested":
				src = "<div><section>" + body + "</section></div>"
			case "for1":
				src = `<div v-for="r in one">` + body + "</div>"
			case "for2":
				src = `<div v-for="r in two">` + body + "</div>"
				repeat = 2
			case "tplfor2":
				src = `<template v-for="r in two">` + body + "</template>"
				repeat = 2
			}
			for _, n := range nodes {
				if n.tag == "include" {
					if files == nil {
						files = fstest.MapFS{}
					}
					files["mk.vuego"] = &fstest.MapFile{Data: []byte(`<p :data-m="m">x<slot></slot></p>`)}
				}
			}
			var out string
			var err error
			if files != nil {
				out, err = miniRender(files, src, data)
			} else {
				out, err = c03Render(src, data)
			}
			var ids []Obs
			if err != nil {
				ids = append(ids, A("error:"+err.Error()))
			}
			var vis []string
			for _, n := range nodes {
				if n.kind == "txt" {
					vis = append(vis, fmt.Sprint(n.id))
				}
			}
			for _, m := range c03MarkT.FindAllStringSubmatch(out, -1) {
				if m[1] != "" {
					ids = append(ids, A(m[1]))
				} else {
					ids = append(ids, L(A("t"), A(m[2])))
				}
			}
			deco := "plain"
			for _, n := range nodes {
				if n.deco != "" || n.tag == "template" {
					deco = "decorated"
				}
			}
			r.Count("placement:" + placement)
			r.Count("members:" + deco)
			coq := fmt.Sprintf("CChainT %d [%s] %s", repeat, strings.Join(vis, "; "), coqList(nodes, c03Node.Coq))
			desc := map[string]any{"template": src, "data": fmt.Sprint(data)}
			for name, f := range files {
				desc[name] = string(f.Data)
			}
			r.Case("chain", coq, L(ids...), desc, map[string]string{"placement": placement, "deco": deco}, members >= 2)
		}
	}
	rec = func(prefix []string) {
		if len(prefix) > 0 {
			shapes++
			emitShape(prefix)
		}
		if len(prefix) == maxLen {
			return
		}
		for _, k := range kinds {
			rec(append(append([]string{}, prefix...), k))
		}
	}
	rec(nil)
	r.extra["chain_shapes"] = shapes

	// ---------- truthiness ----------
	s1 := Val{K: "struct", T: "S1", M: []KV{{K: "Name", V: VStr("")}, {K: "Age", V: VInt("int", 0)}, {K: "Plain", V: VStr("")}, {K: "hidden", V: VStr("")}, {K: "Skip", V: VInt("int", 0)}, {K: "sec", V: VInt("int", 0)}}}
	vals := []Val{VNil(), VBool(true), VBool(false),
		VStr(""), VStr("false"), VStr("0"), VStr("x"), VStr("False"), VStr(" "), VStr("true"),
		{K: "float64", F: 0}, {K: "float64", F: 0.5}, {K: "float64", F: -2}, {K: "float32", F: 0}, {K: "float32", F: 1.5},
		VList(""), VList("", VInt("int", 0)), VList("int"), {K: "arr", T: "str", L: []Val{VStr("")}},
		VMap(), VMap(KV{K: "k", V: VNil()}), {K: "maps"}, {K: "mapi"},
		s1.Normalize(), {K: "ptr", T: "S1"}, {K: "ptr", T: "S1", P: &s1}}
	for _, k := range []string{"int", "int8", "int16", "int32", "int64", "uint", "uint8", "uint16", "uint32", "uint64"} {
		vals = append(vals, VInt(k, 0), VInt(k, 1), VInt(k, 7))
		if !strings.HasPrefix(k, "u") {
			vals = append(vals, VInt(k, -1))
		}
	}
	classOf := func(v Val) string {
		switch {
		case v.K == "str" && v.S == "false":
			return "string-false"
		case isIntKind(v.K) && v.I == 0 && v.K != "int" && v.K != "int64":
			return "zero-of-narrow-or-unsigned-int"
		case v.K == "float32" && v.F == 0:
			return "zero-float32"
		}
		return v.K
	}
	documentedTruthy := func(v *Val) bool { // the property's table
		if v == nil {
			return false
		}
		switch {
		case v.K == "nil":
			return false
		case v.K == "bool":
			return v.B
		case isIntKind(v.K):
			return v.I != 0
		case v.K == "float32" || v.K == "float64":
			return v.F != 0
		case v.K == "str":
			return v.S != ""
		}
		return true
	}
	for _, v := range vals {
		v = v.Normalize()
		got := vuego.VerifIsTruthy(v.Go())
		r.Count("truthy-kind:" + v.K)
		if got != documentedTruthy(&v) {
			r.Fail("IsTruthy differs from the documented table", map[string]string{"oracle": "truthy-table", "class": classOf(v)}, map[string]any{"value": v.Desc(), "IsTruthy": got})
		}
		nontrivial := v.K != "bool" && !(v.K == "int")
		r.Case("truthy-fn", "CTruthyFn "+v.Coq(), B(got), map[string]any{"value": v.Desc()}, map[string]string{"class": classOf(v)}, nontrivial)
	}
	// named types: the table is about kinds, so a zero of a named numeric type is falsy like its plain kind
	for _, nv := range []struct {
		desc string
		v    any
		want bool
	}{
		{"time.Duration(0)", time.Duration(0), false}, {"time.Duration(5)", time.Duration(5), true},
		{"c03Level(0) [named int]", c03Level(0), false}, {"c03Level(3)", c03Level(3), true},
		{"c03Price(0) [named float64]", c03Price(0), false}, {"c03Price(1.5)", c03Price(1.5), true},
		{"c03Small(0) [named uint8]", c03Small(0), false}, {"c03Small(2)", c03Small(2), true},
		{"c03Big(0) [named int64]", c03Big(0), false}, {"c03Big(-1)", c03Big(-1), true},
		{"c03Flag(false) [named bool]", c03Flag(false), false}, {"c03Flag(true)", c03Flag(true), true},
		{"c03Name(\"\") [named string]", c03Name(""), false}, {"c03Name(\"x\")", c03Name("x"), true},
	} {
		got := vuego.VerifIsTruthy(nv.v)
		r.Eval("truthy-named:"+nv.desc, true, nil)
		r.Count("truthy-kind:named")
		if got != nv.want {
			r.Fail("IsTruthy differs from the documented table", map[string]string{"oracle": "truthy-table", "class": "named-type"}, map[string]any{"value": nv.desc, "IsTruthy": got})
		}
		// and in a chain: the value decides the branch like its plain kind does
		out, err := c03RenderAny(`<p v-if="v">IF</p><p v-else>ELSE</p><i v-show="v">s</i>`, map[string]any{"v": nv.v})
		wantBranch := map[bool]string{true: "IF", false: "ELSE"}[nv.want]
		if err != nil || !strings.Contains(out, ">"+wantBranch+"<") {
			r.Fail("a value of a named type takes another branch than its plain kind", map[string]string{"oracle": "truthy-table", "class": "named-type-chain"}, map[string]any{"value": nv.desc, "output": out, "err": fmt.Sprint(err)})
		}
	}
	// positions
	type pos struct {
		name, coq, tpl string
		observe        func(out string) bool
	}
	has := func(s string) func(string) bool { return func(out string) bool { return strings.Contains(out, s) } }
	visible := func(out string) bool {
		return strings.Contains(out, `data-m="1"`) && !strings.Contains(strings.ReplaceAll(out, " ", ""), "display:none")
	}
	positions := []pos{
		{"v-if", "PIf", `<p data-m="1" v-if="v">x</p>`, has(`data-m="1"`)},
		{"v-if-not", "PNotIf", `<p data-m="1" v-if="!v">x</p>`, has(`data-m="1"`)},
		{"v-if-not-paren", "PNotIf", `<p data-m="1" v-if="!(v)">x</p>`, has(`data-m="1"`)},
		{"v-else-if-not-paren", "PNotIf", `<p v-if="no">a</p><p data-m="1" v-else-if="!(v)">x</p>`, has(`data-m="1"`)},
		{"v-else-if", "PElseIf", `<p v-if="no">a</p><p data-m="1" v-else-if="v">x</p>`, has(`data-m="1"`)},
		{"v-show", "PShow", `<p data-m="1" v-show="v">x</p>`, visible},
		{"bound-attr", "PBoundAttr", `<p data-m="1" :data-on="v">x</p>`, has(`data-on=`)},
		{"class-object", "PClassObject", `<p data-m="1" :class="{on: v}">x</p>`, func(out string) bool { return regexp.MustCompile(`class="[^"]*\bon\b`).MatchString(out) }},
		{"v-show-on-branch", "PShowOnBranch", `<p data-m="1" v-if="yes" v-show="v">x</p>`, visible},
	}
	all := append([]*Val{nil}, func() []*Val {
		var ps []*Val
		for i := range vals {
			x := vals[i].Normalize()
			ps = append(ps, &x)
		}
		return ps
	}()...)
	{
		var ps []struct {
			name, coq, tpl string
			observe        func(out string) bool
		}
		for _, p := range positions {
			ps = append(ps, struct {
				name, coq, tpl string
				observe        func(out string) bool
			}{p.name, p.coq, p.tpl, p.observe})
		}
		c03Routes(r, ps)
		c03Shadowing(r, ps)
	}
	for _, p := range positions {
		for _, v := range all {
			data := map[string]any{"no": false, "yes": true}
			coqv, desc, class := "None", any("(undefined)"), "undefined"
			if v != nil {
				data["v"] = v.Go()
				coqv, desc, class = "(Some "+v.Coq()+")", v.Desc(), classOf(*v)
			}
			out, err := c03Render(p.tpl, data)
			var obs Obs
			if err != nil {
				obs = A("error:" + err.Error())
			} else {
				obs = B(p.observe(out))
				want := documentedTruthy(v)
				if p.coq == "PNotIf" {
					want = !want
				}
				if p.observe(out) != want {
					r.Fail("truthiness at a position differs from the documented table", map[string]string{"oracle": "position-truthy", "position": p.name, "class": class},
						map[string]any{"position": p.name, "template": p.tpl, "value": desc, "output": out})
				}
			}
			r.Count("position:" + p.name)
			r.Case("positions", fmt.Sprintf("CPosition %s %s", p.coq, coqv), obs, map[string]any{"position": p.name, "template": p.tpl, "value": desc}, map[string]string{"position": p.name, "class": class}, class != "bool")
		}
	}
}

// One value reached by different routes - a variable, a map entry, a struct field spelled by its Go name
// and by its JSON tag, a slice element, a field behind a pointer - must be truthy or falsy alike in every
// position: the routes differ in who answers (the expression evaluator or the path resolver), the table does not.
type c03Task struct {
	Done  *bool   `json:"done"`
	Count *int    `json:"count"`
	Name  *string `json:"name"`
	Flag  bool    `json:"flag"`
	N     int     `json:"n"`
	S     string  `json:"s"`
	U     *uint8  `json:"u"`
	NilP  *int    `json:"nilp"`
}

// root data that is a struct embedding another struct (by value, by pointer): the promoted fields are names of the root
type c03Root struct {
	c03Task
	Own bool
}
type C03Emb struct {
	Flag bool
	N    int
	S    string
}
type c03RootE struct {
	C03Emb
	Own bool
}
type c03RootP struct {
	*C03Emb
	Own bool
}

func c03Routes(r *Run, positions []struct {
	name, coq, tpl string
	observe        func(out string) bool
}) {
	mk := func(b bool, n int, s string, u uint8) any {
		return map[string]any{"t": c03Task{Done: &b, Count: &n, Name: &s, Flag: b, N: n, S: s, U: &u}, "tp": &c03Task{Done: &b, Count: &n, Name: &s, Flag: b, N: n, S: s, U: &u},
			"m": map[string]any{"done": &b, "n": n, "s": s, "flag": b}, "xs": []any{b, n, s, &b}, "no": false, "yes": true}
	}
	type route struct{ a, b string } // two spellings that reach the same value
	routes := []route{{"t.Done", "t.done"}, {"t.Count", "t.count"}, {"t.Name", "t.name"}, {"t.Flag", "t.flag"}, {"t.N", "t.n"}, {"t.S", "t.s"}, {"t.U", "t.u"}, {"t.NilP", "t.nilp"},
		{"tp.Done", "tp.done"}, {"tp.N", "tp.n"}, {"tp.Flag", "tp.flag"}, {"m.done", "xs[3]"}, {"m.flag", "xs[0]"}, {"m.n", "xs[1]"}, {"m.s", "xs[2]"}, {"m.n", "t.n"}, {"m.s", "t.S"}}
	for _, d := range []struct {
		b bool
		n int
		s string
		u uint8
	}{{false, 0, "", 0}, {true, 5, "x", 2}, {false, 3, "false", 0}, {true, 0, "", 9}} {
		data := mk(d.b, d.n, d.s, d.u)
		for _, rt := range routes {
			verdict := map[string]string{}
			for _, sp := range []string{rt.a, rt.b} {
				for _, p := range positions {
					if p.coq == "PNotIf" {
						continue // what ! does to a pointer or to a field the expression evaluator cannot see is the evaluator's business (C13)
					}
					tpl := strings.NewReplacer(`"v"`, `"`+sp+`"`, `"!v"`, `"!`+sp+`"`, `!(v)`, `!(`+sp+`)`, `{on: v}`, `{on: `+sp+`}`).Replace(p.tpl)
					out, err := c03RenderAny(tpl, data)
					r.Eval("route:"+sp+":"+p.name+fmt.Sprint(d), true, nil)
					r.Count("stream:routes(oracle only)")
					if err != nil {
						verdict[sp+" @ "+p.name] = "error"
						continue
					}
					t := p.observe(out)
					if p.coq == "PNotIf" {
						t = !t
					}
					verdict[sp+" @ "+p.name] = fmt.Sprint(t)
				}
			}
			seen := map[string]bool{}
			for _, v := range verdict {
				seen[v] = true
			}
			if len(seen) > 1 {
				r.Fail("one value is truthy by one route or position and falsy by another", map[string]string{"oracle": "routes-uniform", "route": rt.a + "~" + rt.b},
					map[string]any{"data": fmt.Sprintf("Done=&%v Count=&%d Name=&%q Flag=%v N=%d S=%q U=&%d", d.b, d.n, d.s, d.b, d.n, d.s, d.u), "verdicts": verdict})
			}
		}
		// the same values as fields promoted from an embedded struct of the root data, next to a field of the root's own
		for name, root := range map[string]any{"embedded": c03RootE{C03Emb: C03Emb{Flag: d.b, N: d.n, S: d.s}, Own: d.b}, "embedded-pointer": c03RootP{C03Emb: &C03Emb{Flag: d.b, N: d.n, S: d.s}, Own: d.b},
			"pointer-to-root": &c03RootE{C03Emb: C03Emb{Flag: d.b, N: d.n, S: d.s}, Own: d.b}} {
			for _, rt := range []route{{"Flag", "Own"}, {"N", "N"}, {"S", "S"}} {
				verdict := map[string]string{}
				for _, sp := range []string{rt.a, rt.b} {
					for _, p := range positions {
						if p.coq == "PNotIf" || strings.Contains(p.tpl, `"yes"`) {
							continue // (the second: a position whose template reads a helper name this root does not have)
						}
						tpl := strings.NewReplacer(`"v"`, `"`+sp+`"`, `"!v"`, `"!`+sp+`"`, `!(v)`, `!(`+sp+`)`, `{on: v}`, `{on: `+sp+`}`).Replace(p.tpl)
						out, err := c03RenderAny(tpl, root)
						r.Eval("route-root:"+name+":"+sp+":"+p.name+fmt.Sprint(d), true, nil)
						r.Count("stream:routes(oracle only)")
						if err != nil {
							verdict[sp+" @ "+p.name] = "error"
							continue
						}
						verdict[sp+" @ "+p.name] = fmt.Sprint(p.observe(out))
					}
				}
				seen := map[string]bool{}
				for _, v := range verdict {
					seen[v] = true
				}
				if len(seen) > 1 {
					r.Fail("one value is truthy by one route or position and falsy by another", map[string]string{"oracle": "routes-uniform", "route": name + ":" + rt.a + "~" + rt.b},
						map[string]any{"root_data": name, "data": fmt.Sprintf("Flag=%v N=%d S=%q Own=%v", d.b, d.n, d.s, d.b), "verdicts": verdict})
				}
			}
		}
	}
}

func c03RenderAny(src string, data any) (string, error) {
	var buf bytes.Buffer
	var err error
	func() {
		defer func() {
			if x := recover(); x != nil {
				err = fmt.Errorf("PANIC %v", x)
			}
		}()
		err = vuego.New().Fill(data).RenderString(context.Background(), &buf, src)
	}()
	return buf.String(), err
}

// a name bound in an inner scope decides by ITS value at every position, whatever the same name holds further
// out: a loop item that is nil / false / 0 / "" over a truthy outer variable or root field is falsy everywhere,
// a truthy item over a falsy outer one is truthy everywhere; likewise for a name a <template :v="..."> assigned
func c03Shadowing(r *Run, positions []struct {
	name, coq, tpl string
	observe        func(out string) bool
}) {
	type pair struct {
		inner, outer any
		want         bool
	}
	pairs := []pair{{nil, "featured", false}, {false, "featured", false}, {0, 7, false}, {"", true, false}, {nil, true, false}, {nil, 1, false},
		{"x", nil, true}, {1, false, true}, {true, "", true}, {"x", 0, true}, {nil, nil, false}, {"x", "y", true}}
	roots := map[string]func(outer any) any{
		"map":    func(outer any) any { return map[string]any{"v": outer, "yes": true, "no": false} },
		"struct": func(outer any) any { return c03ShadowRoot{V: outer, Yes: true} },
	}
	for _, pr := range pairs {
		for rootName, mkRoot := range roots {
			for _, wrap := range []string{"loop", "loop-index", "assign"} {
				verdict := map[string]string{}
				bad := false
				for _, p := range positions {
					if p.coq == "PNotIf" {
						continue
					}
					var tpl string
					var data any
					switch wrap {
					case "loop":
						tpl = `<div v-for="v in vs">` + p.tpl + `</div>`
					case "loop-index":
						tpl = `<div v-for="(i, v) in vs">` + p.tpl + `</div>`
					default:
						// the assignment form binds the value of a path: the inner value is reached as in.x
						tpl = `<div v-for="in in ins"><template :v="in.x"></template>` + p.tpl + `</div>`
					}
					root := mkRoot(pr.outer)
					switch m := root.(type) {
					case map[string]any:
						m["vs"] = []any{pr.inner}
						m["ins"] = []any{map[string]any{"x": pr.inner}}
						data = m
					case c03ShadowRoot:
						m.Vs = []any{pr.inner}
						m.Ins = []any{map[string]any{"x": pr.inner}}
						data = m
					}
					if wrap == "assign" && pr.inner == nil {
						continue // assigning nil: whether a nil assignment binds at all is C08's business
					}
					out, err := c03RenderAny(tpl, data)
					r.Eval(fmt.Sprintf("shadow:%s:%s:%v/%v:%s", rootName, wrap, pr.inner, pr.outer, p.name), true, nil)
					r.Count("stream:shadowing(oracle only)")
					if err != nil {
						verdict[p.name] = "error " + err.Error()
						bad = true
						continue
					}
					got := p.observe(out)
					verdict[p.name] = fmt.Sprint(got)
					if got != pr.want {
						bad = true
					}
				}
				if bad {
					r.Fail("a name bound in an inner scope is decided by what the same name holds further out", map[string]string{"oracle": "shadowing", "wrap": wrap, "root": rootName},
						map[string]any{"inner": fmt.Sprintf("%#v", pr.inner), "outer": fmt.Sprintf("%#v", pr.outer), "bound_by": wrap, "root": rootName, "expected_truthy": pr.want, "verdicts": verdict})
				}
			}
		}
	}
}

type c03ShadowRoot struct {
	V   any   `json:"v"`
	Yes bool  `json:"yes"`
	No  bool  `json:"no"`
	Vs  []any `json:"vs"`
	Ins []any `json:"ins"`
}
