package main

import (
	"bytes"
	"context"
	"errors"
	"fmt"
	stdhtml "html"
	"strings"
	"testing/fstest"

	"golang.org/x/net/html"
	"golang.org/x/net/html/atom"

	"github.com/titpetric/vuego"
)

// C01: data values are inert.

func c01RenderText(s string) string {
	p := &html.Node{Type: html.ElementNode, Data: "p"}
	p.AppendChild(&html.Node{Type: html.TextNode, Data: s})
	var buf bytes.Buffer
	_ = vuego.NewRenderer().Render(context.Background(), &buf, []*html.Node{p})
	out := strings.TrimSuffix(buf.String(), "\n")
	if strings.HasPrefix(out, "<p>") && strings.HasSuffix(out, "</p>") {
		return out[3 : len(out)-4]
	}
	return "?" + out
}

// tokens of the real tokenizer, in the model's shape
func c01Tokens(s string) (complete bool, toks []Obs) {
	z := html.NewTokenizer(strings.NewReader(s))
	var text strings.Builder
	flush := func() {
		if text.Len() > 0 {
			toks = append(toks, L(A("text"), A(text.String())))
			text.Reset()
		}
	}
	consumed := 0
	for {
		tt := z.Next()
		raw := string(z.Raw())
		consumed += len(raw)
		switch tt {
		case html.ErrorToken:
			flush()
			return consumed == len(s), toks
		case html.TextToken:
			text.WriteString(raw)
		case html.StartTagToken, html.SelfClosingTagToken:
			flush()
			name, hasAttr := z.TagName()
			xs := []Obs{A("start"), A(string(name))}
			for hasAttr {
				var k []byte
				k, _, hasAttr = z.TagAttr()
				xs = append(xs, A(string(k)))
			}
			toks = append(toks, L(xs...))
		case html.EndTagToken:
			flush()
			name, _ := z.TagName()
			toks = append(toks, L(A("end"), A(string(name))))
		default: // comments, doctypes, "</>": no token in the model either; text on both sides is merged there too
		}
	}
}

type c01Sink struct {
	name  string
	files map[string]string // extra files
	tpl   func(pre, post string) string
	attr  string // "" = text sink; else the attribute whose value is observed
	probe string // data-m of the probe element ("" = "1")
	last  bool   // observe the LAST element carrying the probe mark (constructs that instantiate the sink twice)
	page  bool   // render files["page.vuego"] through Load (layouts apply) instead of the template string
}

func c01Sinks() []c01Sink {
	comp := map[string]string{
		"comp.vuego":  `<p data-m="1">[{{ u }}]</p><p data-m="2" :title="u" data-t="x{{ u }}y">t</p>`,
		"slotc.vuego": `<div><slot :item="val">fb</slot></div>`,
		// component files as editors leave them: front matter, a blank line, then the root wrapper; a leading line break; a comment first
		"wrapfm.vuego":    "---\nk: v\n---\n\n<template :required=\"u\"><p data-m=\"1\" :title=\"u\">[{{ u }}]</p></template>\n",
		"wrapnl.vuego":    "\n  <template :required=\"u\"><p data-m=\"1\">[{{ u }}]</p></template>\n",
		"wrapcm.vuego":    "<!-- card --><template :required=\"u\"><p data-m=\"1\">[{{ u }}]</p></template>",
		"layouts/l.vuego": `<html><body><p data-m="1">[{{ v }}]</p><main v-html="content"></main></body></html>`,
	}
	comp2 := map[string]string{
		"card.vuego":      `<div><header><slot></slot></header><footer><slot></slot></footer></div>`,
		"list.vuego":      `<ul><li v-for="i in two"><slot></slot></li></ul>`,
		"outer.vuego":     `<section><template include="comp.vuego" :u="w"></template></section>`,
		"page.vuego":      "---\nlayout: l\n---\n<p data-m=\"3\">[{{ v }}]</p>",
		"layouts/l.vuego": `<html><body><p data-m="1">[{{ v }}]</p><main v-html="content"></main></body></html>`,
	}
	for k, v := range comp {
		if _, ok := comp2[k]; !ok {
			comp2[k] = v
		}
	}
	return []c01Sink{
		{name: "text", tpl: func(a, b string) string { return `<p data-m="1">` + a + `{{ v }}` + b + `</p>` }},
		{name: "v-text", tpl: func(a, b string) string { return `<p data-m="1" v-text="v">old</p>` }},
		{name: "attr-interp", attr: "title", tpl: func(a, b string) string { return `<p data-m="1" title="` + a + `{{ v }}` + b + `">t</p>` }},
		{name: "attr-bound", attr: "title", tpl: func(a, b string) string { return `<p data-m="1" :title="v" class="` + a + `">t</p>` }},
		{name: "attr-bound-class-merge", attr: "class", tpl: func(a, b string) string { return `<p data-m="1" class="k" :class="v">t</p>` }},
		// the static class has a mustache of its own: the bound value joins it after that was filled in, and is not read again
		{name: "attr-bound-class-merge-interp", attr: "class", tpl: func(a, b string) string { return `<p data-m="1" class="k {{ kind }}" :class="v">t</p><p>after</p>` }},
		{name: "attr-bound-class-merge-interp-loop", attr: "class", tpl: func(a, b string) string {
			return `<div v-for="x in vs"><p data-m="1" class="{{ kind }} k" v-bind:class="x">t</p></div><p>after</p>`
		}},
		{name: "if-branch", tpl: func(a, b string) string {
			return `<div v-if="yes"><p data-m="1">` + a + `{{ v }}` + b + `</p></div><div v-else>no</div>`
		}},
		{name: "for-root", attr: "title", tpl: func(a, b string) string {
			return `<p data-m="1" v-for="x in vs" :title="x" data-t="{{ x }}">` + a + `{{ x }}` + b + `</p>`
		}},
		{name: "for-root-text", tpl: func(a, b string) string {
			return `<p data-m="1" v-for="x in vs" title="{{ x }}">` + a + `{{ x }}` + b + `</p>`
		}},
		{name: "for-child", tpl: func(a, b string) string {
			return `<ul><li v-for="x in vs"><p data-m="1">` + a + `{{ x }}` + b + `</p></li></ul>`
		}},
		{name: "for-child-attr", attr: "title", tpl: func(a, b string) string { return `<ul><li v-for="x in vs"><p data-m="1" :title="x">t</p></li></ul>` }},
		{name: "include-static-prop", files: comp, tpl: func(a, b string) string { return `<template include="comp.vuego" u="{{ v }}"></template>` }},
		{name: "include-bound-prop", files: comp, tpl: func(a, b string) string { return `<template include="comp.vuego" :u="v"></template>` }},
		{name: "include-bound-prop-attr", files: comp, attr: "title", probe: "2", tpl: func(a, b string) string { return `<template include="comp.vuego" :u="v"></template>` }},
		{name: "slot-prop", files: comp, tpl: func(a, b string) string {
			return `<template include="slotc.vuego" :val="v"><template v-slot="sp"><p data-m="1">` + a + `{{ sp.item }}` + b + `</p></template></template>`
		}},
		{name: "slot-content", files: comp, tpl: func(a, b string) string {
			return `<template include="slotc.vuego"><p data-m="1">` + a + `{{ v }}` + b + `</p></template>`
		}},
		{name: "slot-twice-text", files: comp2, last: true, tpl: func(a, b string) string {
			return `<template include="card.vuego"><p data-m="1">` + a + `{{ v }}` + b + `</p></template>`
		}},
		{name: "slot-twice-include-prop", files: comp2, last: true, tpl: func(a, b string) string {
			return `<template include="card.vuego"><template include="comp.vuego" :u="v"></template></template>`
		}},
		{name: "slot-twice-include-prop-attr", files: comp2, last: true, attr: "title", probe: "2", tpl: func(a, b string) string {
			return `<template include="card.vuego"><template include="comp.vuego" :u="v"></template></template>`
		}},
		{name: "slot-in-loop-include-prop", files: comp2, last: true, tpl: func(a, b string) string {
			return `<template include="list.vuego"><template include="comp.vuego" u="{{ v }}"></template></template>`
		}},
		{name: "include-in-loop", files: comp2, last: true, tpl: func(a, b string) string {
			return `<div v-for="i in two"><template include="comp.vuego" :u="v"></template></div>`
		}},
		{name: "include-nested-prop", files: comp2, tpl: func(a, b string) string {
			return `<template include="outer.vuego" :w="v"></template>`
		}},
		{name: "layout-variable", files: comp2, page: true, tpl: func(a, b string) string { return `` }},
		// elements whose content an HTML parser takes as raw text or RCDATA: a value must still not be able to end them
		{name: "rawtext-xmp", tpl: func(a, b string) string { return `<xmp data-m="1">` + a + `{{ v }}` + b + `</xmp><p>after</p>` }},
		{name: "rawtext-iframe", tpl: func(a, b string) string { return `<iframe data-m="1">` + a + `{{ v }}` + b + `</iframe><p>after</p>` }},
		{name: "rawtext-noembed", tpl: func(a, b string) string { return `<noembed data-m="1">` + a + `{{ v }}` + b + `</noembed><p>after</p>` }},
		{name: "rawtext-noframes", tpl: func(a, b string) string {
			return `<div v-for="x in vs"><noframes data-m="1">` + a + `{{ x }}` + b + `</noframes></div><p>after</p>`
		}},
		{name: "rawtext-noscript", tpl: func(a, b string) string {
			return `<div v-if="yes"><noscript data-m="1">` + a + `{{ v }}` + b + `</noscript></div><p>after</p>`
		}},
		{name: "rcdata-textarea", tpl: func(a, b string) string {
			return `<textarea data-m="1">` + a + `{{ v }}` + b + `</textarea><p>after</p>`
		}},
		// whitespace-preserving elements are written by a separate serialiser path
		{name: "pre-text", tpl: func(a, b string) string {
			return `<pre><code data-m="1">` + a + `{{ v }}` + b + `</code></pre><p>after</p>`
		}},
		// the value as the argument of a function or filter: it is data there too, never a path to look up
		{name: "fn-arg-filter", tpl: func(a, b string) string {
			return `<p data-m="1">` + a + `{{ nothing | default(v) }}` + b + `</p><p>after</p>`
		}},
		{name: "fn-arg-call", tpl: func(a, b string) string { return `<p data-m="1">` + a + `{{ string(v) }}` + b + `</p><p>after</p>` }},
		{name: "fn-arg-attr", attr: "title", tpl: func(a, b string) string { return `<p data-m="1" :title="string(v)">t</p><p>after</p>` }},
		{name: "fn-arg-v-text", tpl: func(a, b string) string {
			return `<div v-for="x in vs"><p data-m="1" v-text="string(x)">old</p></div><p>after</p>`
		}},
		{name: "fn-arg-piped", tpl: func(a, b string) string {
			return `<p data-m="1">` + a + `{{ v | string | default(v) }}` + b + `</p><p>after</p>`
		}},
		// a bound attribute written with a mustache: the interpolated text is the value, not a path to resolve once more
		{name: "attr-bound-mustache", attr: "title", tpl: func(a, b string) string { return `<p data-m="1" :title="{{ v }}">t</p><p>after</p>` }},
		{name: "attr-bound-mustache-mixed", attr: "title", tpl: func(a, b string) string { return `<p data-m="1" v-bind:title="{{ v }}">t</p><p>after</p>` }},
		{name: "include-bound-mustache-prop", files: comp2, last: true, tpl: func(a, b string) string {
			return `<template include="comp.vuego" :u="{{ v }}"></template>`
		}},
		{name: "pre-direct", tpl: func(a, b string) string { return `<pre data-m="1">` + a + `{{ v }}` + b + `</pre><p>after</p>` }},
		{name: "pre-direct-loop", tpl: func(a, b string) string {
			return `<div v-for="x in vs"><pre data-m="1">` + a + `{{ x }}` + b + `</pre></div><p>after</p>`
		}},
		{name: "textarea-in-branch", tpl: func(a, b string) string {
			return `<form v-if="yes"><textarea data-m="1" name="bio">` + a + `{{ v }}` + b + `</textarea></form><p>after</p>`
		}},
		{name: "pre-v-text", tpl: func(a, b string) string { return `<pre><code data-m="1" v-text="v">old</code></pre><p>after</p>` }},
		{name: "pre-v-text-loop", tpl: func(a, b string) string {
			return `<pre><code data-m="1" v-for="x in vs" v-text="x">old</code></pre><p>after</p>`
		}},
		{name: "pre-attr-bound", attr: "title", tpl: func(a, b string) string {
			return `<pre><code data-m="1" :title="v" title2="{{ v }}">t</code></pre><p>after</p>`
		}},
		{name: "textarea-v-text", tpl: func(a, b string) string { return `<textarea data-m="1" v-text="v">old</textarea><p>after</p>` }},
		{name: "rawtext-include-prop", files: map[string]string{"raw.vuego": `<xmp data-m="1">[{{ u }}]</xmp><p>after</p>`}, tpl: func(a, b string) string { return `<template include="raw.vuego" :u="v"></template>` }},
		// <template v-keep>: the tag itself is written to the output, with the attributes it was given
		{name: "keep-include-bound-prop-attr", files: comp, attr: "u", probe: "3", tpl: func(a, b string) string {
			return `<template include="comp.vuego" v-keep data-m="3" :u="v"></template><p>after</p>`
		}},
		{name: "keep-include-interp-prop-attr", files: comp, attr: "u", probe: "3", tpl: func(a, b string) string {
			return `<template include="comp.vuego" v-keep data-m="3" u="{{ v }}"></template><p>after</p>`
		}},
		{name: "keep-include-bound-prop", files: comp, tpl: func(a, b string) string {
			return `<template include="comp.vuego" v-keep :u="v"></template><p>after</p>`
		}},
		{name: "include-wrapper-after-front-matter", files: comp, tpl: func(a, b string) string { return `<template include="wrapfm.vuego" :u="v"></template><p>after</p>` }},
		{name: "include-wrapper-after-front-matter-attr", files: comp, attr: "title", tpl: func(a, b string) string {
			return `<template include="wrapfm.vuego" u="{{ v }}"></template><p>after</p>`
		}},
		{name: "include-wrapper-after-line-break", files: comp, tpl: func(a, b string) string { return `<template include="wrapnl.vuego" :u="v"></template><p>after</p>` }},
		{name: "include-wrapper-after-comment", files: comp, tpl: func(a, b string) string {
			return `<div v-for="x in vs"><template include="wrapcm.vuego" :u="x"></template></div><p>after</p>`
		}},
		{name: "chain-branch-v-text", tpl: func(a, b string) string { return `<p v-if="no">n</p><p data-m="1" v-else v-text="v">old</p>` }},
	}
}

func c01Render(files map[string]string, tpl string, v string) (string, error) {
	return c01RenderAny(files, tpl, v, false)
}

// value types other than string that can carry a hostile string to a sink
type c01Slug string
type c01Str struct{ s string }

func (x c01Str) String() string { return x.s }

var c01Wrappers = []struct {
	name string
	wrap func(s string) any
}{
	{"[]any", func(s string) any { return []any{s} }},
	{"[]string", func(s string) any { return []string{s, "z"} }},
	{"map", func(s string) any { return map[string]any{"k": s} }},
	{"named-string", func(s string) any { return c01Slug(s) }},
	{"error", func(s string) any { return errors.New(s) }},
	{"stringer", func(s string) any { return c01Str{s} }},
	{"*string", func(s string) any { return &s }},
	{"struct", func(s string) any { return struct{ Name string }{s} }},
}

func c01RenderAny(files map[string]string, tpl string, v any, page bool) (string, error) {
	m := fstest.MapFS{}
	for k, s := range files {
		m[k] = &fstest.MapFile{Data: []byte(s)}
	}
	var buf bytes.Buffer
	var err error
	func() {
		defer func() {
			if x := recover(); x != nil {
				err = fmt.Errorf("PANIC %v", x)
			}
		}()
		data := map[string]any{"v": v, "vs": []any{v}, "yes": true, "no": false, "secret": "CANARY", "two": []any{1, 2}, "kind": "note"}
		if page {
			err = vuego.NewFS(m).Load("page.vuego").Fill(data).Render(context.Background(), &limitWriter{w: &buf, max: 1 << 20})
		} else {
			err = vuego.NewFS(m).Fill(data).RenderString(context.Background(), &limitWriter{w: &buf, max: 1 << 20}, tpl)
		}
	}()
	return buf.String(), err
}

// skeleton (element and attribute names in document order) and the probe's observed sink content
func c01Parse(out string, probe string, attr string) (skel string, sink string, found bool) {
	return c01ParseX(out, probe, attr, false)
}
func c01ParseX(out string, probe string, attr string, last bool) (skel string, sink string, found bool) {
	nodes, err := html.ParseFragment(strings.NewReader(out), &html.Node{Type: html.ElementNode, Data: "body", DataAtom: atom.Body})
	if err != nil {
		nodes, err = html.ParseFragment(strings.NewReader(out), nil)
	}
	if err != nil {
		return "parse-error", "", false
	}
	var sb strings.Builder
	var walk func(n *html.Node)
	textOf := func(n *html.Node) string {
		var tb strings.Builder
		var rec func(x *html.Node)
		rec = func(x *html.Node) {
			if x.Type == html.TextNode {
				tb.WriteString(x.Data)
			}
			for c := x.FirstChild; c != nil; c = c.NextSibling {
				rec(c)
			}
		}
		rec(n)
		return tb.String()
	}
	walk = func(n *html.Node) {
		if n.Type == html.ElementNode {
			sb.WriteString("<" + n.Data)
			isProbe := false
			for _, a := range n.Attr {
				sb.WriteString(" " + a.Key)
				if a.Key == "data-m" && a.Val == probe {
					isProbe = true
				}
			}
			sb.WriteString(">")
			if isProbe && (!found || last) {
				found = true
				if attr == "" {
					sink = textOf(n)
				} else {
					for _, a := range n.Attr {
						if a.Key == attr {
							sink = a.Val
						}
					}
				}
			}
		}
		for c := n.FirstChild; c != nil; c = c.NextSibling {
			walk(c)
		}
		if n.Type == html.ElementNode {
			sb.WriteString("</" + n.Data + ">")
		}
	}
	for _, n := range nodes {
		walk(n)
	}
	return sb.String(), sink, found
}

func init() { streams["C01"] = runC01 }

func runC01(r *Run) {
	r.Imports = []string{"Model.Escape", "Model.Tok", "Model.Hole"}
	r.Rule("(esc-fn) every string up to length 3 (thorough 4) over {< > & \" ' ; # { } / = space a 3} plus entity words: html.EscapeString, escapeAttrValue and a serialised text node against the model's escape; " +
		"(tok) the model's tokenizer fragment against x/net/html's tokenizer on every string up to length 4 (thorough 5) over {< > / = \" ' space a p 1 ! &} and on serialiser-shaped strings with hostile content; " +
		"(sink) 16 sink positions (text, v-text, interpolated and bound attributes, class merge, v-if branch, v-for root and child, include props static and bound, slot prop, slot content, chain branch) x static neighbourhoods (plain, entity, quote, angle bracket, mustache-looking) x hostile values (exhaustive up to length 2, words, compositions): " +
		"the output is parsed with x/net/html; elements and attribute names must equal those of the render with a harmless word, the sink must hold neighbours ++ value, a canary variable named inside the value must not be evaluated; non-trivial: the value holds a hostile byte")
	sigma := []string{"<", ">", "&", `"`, "'", ";", "#", "{", "}", "/", "=", " ", "a", "3"}
	words := []string{"&amp;", "&lt;", "&#34;", "&#x27;", "&quot;", "{{", "}}", "</script>", "{{ secret }}", "&amp", "<!--", "-->", "</p>", "<b>", "\" x=\"", "' onx='"}
	// ---------- esc-fn ----------
	maxLen := 3
	if r.Thorough() {
		maxLen = 4
	}
	var all []string
	var rec func(p string)
	rec = func(p string) {
		if p != "" {
			all = append(all, p)
		}
		if len(p) == maxLen {
			return
		}
		for _, c := range sigma {
			rec(p + c)
		}
	}
	rec("")
	for _, w := range words {
		all = append(all, w, "a"+w+"3", w+w)
	}
	for _, s := range all {
		txt := c01RenderText(s)
		if strings.TrimSpace(s) == "" { // whitespace-only text is dropped by the serialiser (C02)
			txt = stdhtml.EscapeString(s)
		}
		r.Case("esc-fn", "CEscape "+coqBytes(s), L(A(stdhtml.EscapeString(s)), A(vuego.VerifEscapeAttrValue(s)), A(txt)), map[string]any{"value": s}, map[string]string{}, strings.ContainsAny(s, `<>&"'`))
	}
	// ---------- tok ----------
	talpha := []string{"<", ">", "/", "=", `"`, "'", " ", "a", "p", "1", "!", "&"}
	tmax := 4
	if r.Thorough() {
		tmax = 5
	}
	var trec func(p string)
	tok := func(s string) {
		complete, toks := c01Tokens(s)
		r.Case("tok", "CTok "+coqBytes(s), L(B(complete), L(toks...)), map[string]any{"string": s}, map[string]string{}, strings.ContainsAny(s, "<&\"'"))
	}
	trec = func(p string) {
		if p != "" && !strings.Contains(p, "<!") && !strings.Contains(p, "<?") {
			// the suffix closes any open quote and tag from every state (before a value the first quote OPENS one,
			// hence both quotes twice): behaviour at end of input inside a tag is not compared
			tok(p + "\"'\"'>")
		}
		if len(p) == tmax {
			return
		}
		for _, c := range talpha {
			trec(p + c)
		}
	}
	trec("")
	for i := 0; i < 300; i++ { // serialiser-shaped strings with escaped hostile content
		v := Pick(r.Rng, all)
		w := Pick(r.Rng, all)
		tok(`<a title="` + stdhtml.EscapeString(v) + `" x="` + stdhtml.EscapeString(w) + `">` + stdhtml.EscapeString(w) + `<b>` + stdhtml.EscapeString(v) + `</b></a>`)
		tok(`<p k='` + strings.ReplaceAll(v, "'", "") + `' j=` + strings.Map(func(c rune) rune {
			if strings.ContainsRune(" >\"'<=&", c) {
				return -1
			}
			return c
		}, w) + `>x</p >`)
	}
	// ---------- rcdata: the content of <textarea> / <title> as x/net/html's tokenizer reads it ----------
	{
		rc := func(tag, content string) {
			z := html.NewTokenizerFragment(strings.NewReader(content), tag)
			text := ""
			tt := z.Next()
			if tt == html.TextToken {
				text = string(z.Raw())
			}
			// the character data ends before the end of the content exactly when an end tag of the element was found
			// (what follows it - an end tag token, or an unfinished tag at the end of input - is not compared)
			closed := len(text) < len(content)
			r.Case("rcdata", "CRc "+coqBytes(tag)+" "+coqBytes(content), L(A(text), B(closed)), map[string]any{"tag": tag, "content": content}, map[string]string{},
				strings.Contains(content, "<"))
		}
		pieces := []string{"</textarea", "</TEXTAREA", "</TextArea", "</title", "</textare", "</", "<", "/", ">", " ", "x", "&lt;", "\n", "</textarea>", "a"}
		depth := 3
		var rec func(p string, d int)
		rec = func(p string, d int) {
			if p != "" {
				rc("textarea", p)
				if d%2 == 1 {
					rc("title", p)
				}
			}
			if d == depth {
				return
			}
			for _, x := range pieces {
				rec(p+x, d+1)
			}
		}
		rec("", 0)
		if r.Thorough() {
			// one piece more over the pieces that make or nearly make an end tag
			pieces, depth = []string{"</textarea", "</TEXTAREA", "</textare", "</", "<", "/", ">", " ", "x"}, 4
			rec("", 0)
		}
		// what the serialiser writes for hostile values: never closed before its own end tag
		for i := 0; i < 200; i++ {
			v := Pick(r.Rng, all) + Pick(r.Rng, []string{"</textarea>", "</TEXTAREA >", "</title>", "<!--", "</textarea/", ""}) + Pick(r.Rng, all)
			tag := Pick(r.Rng, []string{"textarea", "title"})
			rc(tag, stdhtml.EscapeString(v)+"</"+tag+">")
			rc(tag, v+"</"+tag+">")
		}
	}
	// ---------- the miniature evaluator of Model/Hole.v ----------
	c01Mini(r)

	// ---------- sink (oracle) ----------
	var values []string
	for _, s := range all {
		if len(s) <= 2 {
			values = append(values, s)
		}
	}
	for _, w := range words {
		values = append(values, w, "x"+w+"y")
	}
	// the end tag of every element whose content a parser reads as raw text or RCDATA, followed by markup
	for _, t := range []string{"xmp", "iframe", "noembed", "noframes", "noscript", "textarea", "title", "script", "style", "plaintext"} {
		values = append(values, "</"+t+"><img src=x onerror=alert(1)>", "a</"+t+" ><b>x")
	}
	for i := 0; i < 60; i++ {
		var sb strings.Builder
		for j, k := 0, 3+r.Rng.Intn(12); j < k; j++ {
			if r.Rng.Bool() {
				sb.WriteString(Pick(r.Rng, words))
			} else {
				sb.WriteString(Pick(r.Rng, sigma))
			}
		}
		values = append(values, sb.String())
	}
	neigh := [][2]string{{"", ""}, {"pre ", " post"}, {"A &amp; B ", " &lt;c&gt;"}, {"q&quot; ", " 'x'"}, {"{ {x} ", " }"}, {"\n", "\n"}, {"\n\n", ""}}
	// values that begin with a line break (a parser drops one line feed after <pre> and <textarea>; the
	// serialiser compensates for it, and must still escape what follows)
	// values that spell the name or path of another variable in scope
	values = append(values, "secret", "vs", "yes", "two[0]", "vs.0", "v", "nothing", "secret | upper")
	for _, t := range []string{"textarea", "pre", "xmp", "title"} {
		values = append(values, "\n</"+t+"><img src=x onerror=alert(1)>", "\n\n<b>x</b></"+t+">", "\r\n</"+t+"><i>")
	}
	for _, sk := range c01Sinks() {
		for ni, nb := range neigh {
			if ni > 0 && !strings.Contains(sk.tpl("@", "@"), "@") {
				continue // the sink has no static neighbourhood
			}
			tpl := sk.tpl(nb[0], nb[1])
			wordOut, wordErr := c01RenderAny(sk.files, tpl, "word", sk.page)
			probe := sk.probe
			if probe == "" {
				probe = "1"
			}
			wordSkel, _, wordFound := c01ParseX(wordOut, probe, sk.attr, sk.last)
			if wordErr != nil || !wordFound {
				r.Count("sink-template-unusable:" + sk.name)
				continue
			}
			for _, v := range values {
				if !r.Thorough() && ni > 0 && len(v) == 2 && r.Rng.Intn(3) != 0 {
					continue
				}
				out, err := c01RenderAny(sk.files, tpl, v, sk.page)
				r.Eval("sink:"+sk.name+":"+fmt.Sprint(ni)+":"+v, strings.ContainsAny(v, `<>&"'{}`), map[string]any{"sink": sk.name, "template": tpl, "value": v})
				r.Count("sink:" + sk.name)
				desc := map[string]any{"sink": sk.name, "template": tpl, "files": sk.files, "value": v, "output": out}
				sig := map[string]string{"oracle": "inert", "sink": sk.name}
				if err != nil {
					r.Fail("rendering a hostile value failed where a harmless word renders", sig, map[string]any{"case": desc, "err": err.Error()})
					continue
				}
				skel, sink, found := c01ParseX(out, probe, sk.attr, sk.last)
				if skel != wordSkel {
					sig["what"] = "skeleton"
					r.Fail("a data value changed the elements or attribute names an HTML parser finds", sig, map[string]any{"case": desc, "skeleton": skel, "skeleton_with_word": wordSkel})
					continue
				}
				dec := func(s string) string { return stdhtml.UnescapeString(s) }
				want := dec(nb[0]) + v + dec(nb[1])
				switch sk.name {
				case "fn-arg-attr", "fn-arg-v-text", "attr-bound-mustache", "attr-bound-mustache-mixed":
					want = v
				case "keep-include-bound-prop-attr", "keep-include-interp-prop-attr":
					want = v
				case "keep-include-bound-prop", "include-wrapper-after-front-matter", "include-wrapper-after-line-break", "include-wrapper-after-comment":
					want = "[" + v + "]"
				case "include-wrapper-after-front-matter-attr":
					want = v
				case "v-text", "attr-bound", "for-child-attr", "include-bound-prop-attr", "chain-branch-v-text", "slot-twice-include-prop-attr", "pre-v-text", "pre-v-text-loop", "pre-attr-bound", "textarea-v-text":
					want = v
				case "attr-bound-class-merge":
					want = "k " + v
				case "attr-bound-class-merge-interp":
					want = "k note " + v
				case "attr-bound-class-merge-interp-loop":
					want = "note k " + v
				case "include-bound-mustache-prop":
					want = "[" + v + "]"
				case "include-static-prop", "include-bound-prop", "slot-twice-include-prop", "slot-in-loop-include-prop", "include-in-loop", "include-nested-prop", "layout-variable":
					want = "[" + v + "]"
				case "for-root":
					want = v
				}
				if strings.HasPrefix(sk.name, "rawtext-") {
					want = sink // a parser does not decode references in raw text: the escaped value is seen as written
				}
				if sk.name == "rawtext-include-prop" && strings.TrimSpace(v) == "" {
					want = sink
				}
				if sk.attr != "" && strings.TrimSpace(v) == "" && (sk.name == "attr-bound" || sk.name == "attr-bound-mustache" || sk.name == "attr-bound-mustache-mixed" || sk.name == "fn-arg-attr" || sk.name == "pre-attr-bound" || sk.name == "for-child-attr" || sk.name == "for-root" || sk.name == "include-bound-prop-attr") {
					want = sink // a falsy bound value omits the attribute (C14)
				}
				if sk.name == "include-bound-mustache-prop" || sk.name == "include-bound-prop" || sk.name == "include-bound-prop-attr" || sk.name == "slot-prop" || sk.name == "slot-twice-include-prop" || sk.name == "slot-twice-include-prop-attr" || sk.name == "include-in-loop" || sk.name == "include-nested-prop" {
					if strings.TrimSpace(v) == "" {
						want = sink // falsy props are not passed
					}
				}
				norm := func(s string) string { return strings.Join(strings.Fields(s), " ") }
				if !found || norm(sink) != norm(want) {
					sig["what"] = "content"
					r.Fail("the sink does not hold the static neighbours concatenated with the value", sig, map[string]any{"case": desc, "sink_content": sink, "expected": want})
				}
				if strings.Contains(out, "CANARY") {
					sig["what"] = "evaluated"
					r.Fail("mustache syntax inside a data value was evaluated against the scope", sig, map[string]any{"case": desc})
				}
			}
		}
	}

	// ---------- values that are not strings (the printed form of a slice, map, named string, error, Stringer ...) ----------
	hostile := []string{"<img src=x onerror=alert(1)>", "</p><script>x</script>", `"><b a="`, "{{ secret }}", "a&lt;b", "<!--", "' onmouseover='x"}
	for _, sk := range c01Sinks() {
		tpl := sk.tpl("pre ", " post")
		probe := sk.probe
		if probe == "" {
			probe = "1"
		}
		for _, w := range c01Wrappers {
			wordOut, wordErr := c01RenderAny(sk.files, tpl, w.wrap("word"), sk.page)
			wordSkel, _, wordFound := c01ParseX(wordOut, probe, sk.attr, sk.last)
			if wordErr != nil || !wordFound {
				r.Count("typed-sink-unusable:" + sk.name + ":" + w.name)
				continue
			}
			for _, h := range hostile {
				out, err := c01RenderAny(sk.files, tpl, w.wrap(h), sk.page)
				r.Eval("typed:"+sk.name+":"+w.name+":"+h, true, map[string]any{"sink": sk.name, "value_type": w.name, "value": h})
				r.Count("typed:" + w.name)
				desc := map[string]any{"sink": sk.name, "template": tpl, "files": sk.files, "value_type": w.name, "value": h, "output": out}
				sig := map[string]string{"oracle": "inert", "sink": sk.name, "value_type": w.name}
				if err != nil {
					continue // a type a sink rejects is rejected for the harmless word too or is an error, not markup
				}
				skel, _, _ := c01ParseX(out, probe, sk.attr, sk.last)
				if skel != wordSkel {
					sig["what"] = "skeleton"
					r.Fail("a data value changed the elements or attribute names an HTML parser finds", sig, map[string]any{"case": desc, "skeleton": skel, "skeleton_with_word": wordSkel})
					continue
				}
				if strings.Contains(out, "CANARY") {
					sig["what"] = "evaluated"
					r.Fail("mustache syntax inside a data value was evaluated against the scope", sig, map[string]any{"case": desc})
				}
			}
		}
	}

}
