package main

import (
	"bytes"
	"fmt"
	stdhtml "html"
	"os"
	"path/filepath"
	"regexp"
	"sort"
	"strings"

	"golang.org/x/net/html"
	"golang.org/x/net/html/atom"

	"github.com/titpetric/vuego/formatter"
)

// C19: formatting is idempotent and preserves what the template means.

// every source is formatted by one long-lived Formatter (a tool formats many files with one) and by a fresh one: a
// Formatter keeps nothing from one call to the next
var c19Shared = formatter.NewFormatter()
var c19ReuseDiffs []map[string]any

func c19Format(src string) (out string, err error) {
	defer func() {
		if x := recover(); x != nil {
			err = fmt.Errorf("PANIC %v", x)
		}
	}()
	out, err = formatter.FormatString(src)
	out2, err2 := c19Shared.Format(src)
	if (out != out2 || fmt.Sprint(err) != fmt.Sprint(err2)) && len(c19ReuseDiffs) < 50 {
		c19ReuseDiffs = append(c19ReuseDiffs, map[string]any{"source": src, "fresh": out, "reused": out2, "fresh_error": fmt.Sprint(err), "reused_error": fmt.Sprint(err2)})
	}
	return out, err
}

// front-matter block: a first line starting with "---" up to and including the next line starting with
// "---" (whatever else that line holds: a carriage return, blanks, more dashes, a comment)
func c19Split(src string) (fm, body string) {
	if !strings.HasPrefix(src, "---") {
		return "", src
	}
	nl := strings.Index(src, "\n")
	if nl < 0 {
		return "", src
	}
	pos := nl + 1
	for pos <= len(src) {
		end := strings.Index(src[pos:], "\n")
		line := src[pos:]
		next := len(src)
		if end >= 0 {
			line = src[pos : pos+end]
			next = pos + end + 1
		}
		if strings.HasPrefix(line, "---") {
			return src[:next], src[next:]
		}
		if end < 0 {
			break
		}
		pos = next
	}
	return "", src
}

var c19DoctypeRe = regexp.MustCompile(`(?i)^\s*(<!doctype[^>]*>)`)

func c19Parse(body string) ([]*html.Node, bool) {
	t := strings.TrimSpace(body)
	full := strings.HasPrefix(t, "<!DOCTYPE") || strings.HasPrefix(t, "<!doctype") || strings.HasPrefix(t, "<html")
	if full {
		d, err := html.Parse(strings.NewReader(body))
		if err != nil {
			return nil, full
		}
		return []*html.Node{d}, full
	}
	ns, err := html.ParseFragment(strings.NewReader(body), c19Context(body))
	if err != nil {
		return nil, full
	}
	return ns, full
}

// the context a fragment is read in: a fragment that begins with a table-scoped element is the inside
// of that element's HTML5 parent (a row of a table body, a cell of a row, ...); anything else is body
// content. Decided from the first token the HTML tokenizer produces, not by string matching.
func c19Context(body string) *html.Node {
	z := html.NewTokenizer(strings.NewReader(body))
	for {
		tt := z.Next()
		if tt == html.TextToken && strings.TrimSpace(string(z.Text())) == "" {
			continue
		}
		if tt == html.StartTagToken || tt == html.SelfClosingTagToken {
			name, _ := z.TagName()
			switch string(name) {
			case "td", "th":
				return &html.Node{Type: html.ElementNode, Data: "tr", DataAtom: atom.Tr}
			case "tr":
				return &html.Node{Type: html.ElementNode, Data: "tbody", DataAtom: atom.Tbody}
			case "thead", "tbody", "tfoot", "caption", "colgroup":
				return &html.Node{Type: html.ElementNode, Data: "table", DataAtom: atom.Table}
			case "col":
				return &html.Node{Type: html.ElementNode, Data: "colgroup", DataAtom: atom.Colgroup}
			}
		}
		break
	}
	return &html.Node{Type: html.ElementNode, Data: "body", DataAtom: atom.Body}
}

var c19MustacheRe = regexp.MustCompile(`\{\{.*?\}\}`)

// what formatting must keep: elements, attribute names, attribute values up to whitespace collapse,
// non-whitespace text, mustache expressions, pre content, raw-text content up to surrounding blank space
func c19Meaning(nodes []*html.Node) string {
	var sb strings.Builder
	var walk func(n *html.Node, mode string)
	walk = func(n *html.Node, mode string) {
		switch n.Type {
		case html.TextNode:
			switch mode {
			case "pre":
				sb.WriteString("[pre:" + n.Data + "]")
			case "raw":
				if t := strings.TrimSpace(n.Data); t != "" {
					sb.WriteString("[raw:" + t + "]")
				}
			default:
				t := strings.Join(strings.Fields(n.Data), "")
				if t != "" {
					sb.WriteString("[" + t + "]")
					for _, m := range c19MustacheRe.FindAllString(n.Data, -1) {
						sb.WriteString("{m:" + strings.Join(strings.Fields(m), " ") + "}")
					}
				}
			}
		case html.ElementNode:
			sb.WriteString("<" + n.Data)
			for _, a := range n.Attr {
				sb.WriteString(" " + a.Key + "=" + fmt.Sprintf("%q", strings.Join(strings.Fields(a.Val), " ")))
			}
			sb.WriteString(">")
			m := mode
			if n.Data == "pre" || n.Data == "textarea" {
				m = "pre"
			}
			if n.Data == "script" || n.Data == "style" {
				m = "raw"
			}
			for c := n.FirstChild; c != nil; c = c.NextSibling {
				walk(c, m)
			}
			sb.WriteString("</" + n.Data + ">")
		case html.DoctypeNode:
			sb.WriteString("<!doctype " + n.Data + ">")
		default:
			for c := n.FirstChild; c != nil; c = c.NextSibling {
				walk(c, mode)
			}
		}
	}
	for _, n := range nodes {
		walk(n, "")
	}
	// adjacent text runs may be split differently by the two parses: merge
	return strings.ReplaceAll(sb.String(), "][", "")
}

// a source is parser-stable when writing its parsed DOM back with the reference serialiser and
// parsing again gives the same DOM (no foster parenting, no implied end tags changing the tree)
func c19Stable(body string) bool {
	n1, full := c19Parse(body)
	if n1 == nil {
		return false
	}
	var buf bytes.Buffer
	for _, n := range n1 {
		if err := html.Render(&buf, n); err != nil {
			return false
		}
	}
	var n2 []*html.Node
	if full {
		d, err := html.Parse(bytes.NewReader(buf.Bytes()))
		if err != nil {
			return false
		}
		n2 = []*html.Node{d}
	} else {
		var err error
		n2, err = html.ParseFragment(bytes.NewReader(buf.Bytes()), c19Context(body))
		if err != nil {
			return false
		}
	}
	return c02Canon(n1) == c02Canon(n2)
}

// ---------- sources ----------
func c19Corpus() map[string]string {
	out := map[string]string{}
	_ = filepath.Walk(repoDir, func(p string, info os.FileInfo, err error) error {
		if err != nil {
			return nil
		}
		if info.IsDir() {
			if info.Name() == ".git" || info.Name() == "node_modules" {
				return filepath.SkipDir
			}
			return nil
		}
		rel, _ := filepath.Rel(repoDir, p)
		switch {
		case strings.HasSuffix(p, ".vuego"):
			if b, err := os.ReadFile(p); err == nil && len(b) < 200000 {
				out[rel] = string(b)
			}
		case strings.HasSuffix(p, ".md") && (strings.HasPrefix(rel, "docs/") || rel == "README.md"):
			b, err := os.ReadFile(p)
			if err != nil {
				return nil
			}
			re := regexp.MustCompile("(?s)```(?:html|vue|vuego)\n(.*?)```")
			for i, m := range re.FindAllStringSubmatch(string(b), -1) {
				out[fmt.Sprintf("%s#%d", rel, i)] = m[1]
			}
		}
		return nil
	})
	return out
}

var c19AttrVals = []string{
	`a > b`, `a &amp;&amp; b`, `x &lt; 1 ? 'y' : 'n'`, `say &quot;hi&quot;`, `it's`, `{ on: a > 1, off: !b }`, "multi\n    line   value", `  padded  `,
	"Voilà déjà vu", "Ångström Å", "dagger † sign", "nb sp inside", "日本語 テキスト", "smile 🙂 ok", "Größe: 10 µm", "à", "Å  †",
	`{{ v }} and &amp; more`, `a&amp;b=c`, `&copy; 2026`, `x >= 1 &amp;&amp; y <= 2`, `[1, 2, 3]`, `fn('a', &quot;b&quot;)`, `100%`, `#/path?a=1&amp;b=2`,
}
var c19Mustaches = []string{`{{ a < b }}`, `{{ a > b && c }}`, `{{ x | upper }}`, `{{ a ? "<" : '&' }}`, `{{ items[0].name }}`, `{{  spaced   out  }}`, `{{ a }}{{ b }}`, `{{ "&lt;" }}`, `{{ a &lt;b }}`, `{{ x &lt;/y }}`, `{{ "&amp;lt;" }}`, `{{ a &amp;&amp; b }}`, `{{ n >= 10 ? "10+" : n }}`,
	// an ampersand followed by a reference name that parsers decode WITHOUT a semicolon, no semicolon anywhere in the expression
	`{{ base + "?a=1&amp;copy=2" }}`, `{{ a &amp;lt b }}`, `{{ q + "&amp;not" }}`, `{{ "&amp;#60" + x }}`, `{{ u + "&amp;amp" }}`}

func c19Text(r *Rng) string {
	var ws []string
	for i, k := 0, 1+r.Intn(4); i < k; i++ {
		switch r.Intn(5) {
		case 0:
			ws = append(ws, Pick(r, c19Mustaches))
		case 1:
			ws = append(ws, Pick(r, []string{"&amp;", "&lt;", "&gt;", "&quot;", "&nbsp;", "&copy;", "&amp;lt;", "&lt;b&gt;"}))
		default:
			ws = append(ws, c02Word(r))
		}
	}
	sep := Pick(r, []string{" ", " ", "  ", "\n  "})
	return strings.NewReplacer("5 > 3", "5 &gt; 3", "a & b", "a &amp; b").Replace(strings.Join(ws, sep))
}

func c19Attrs(r *Rng) string {
	var sb strings.Builder
	used := map[string]bool{}
	for i, k := 0, r.Intn(4); i < k; i++ {
		n := Pick(r, []string{"class", "id", "title", "data-x", "v-if", ":class", "@click", "v-for", ":style", "disabled", "v-bind:href"})
		if used[n] {
			continue
		}
		used[n] = true
		if n == "disabled" {
			sb.WriteString(" disabled")
			continue
		}
		v := Pick(r, c19AttrVals)
		if r.Intn(3) == 0 {
			v = c02Word(r)
		}
		q := `"`
		if r.Intn(6) == 0 && !strings.Contains(v, "'") {
			q = "'"
			v = strings.ReplaceAll(v, "&quot;", `"`)
		}
		sb.WriteString(" " + n + "=" + q + v + q)
	}
	return sb.String()
}

func c19Inline(r *Rng, depth int) string {
	var sb strings.Builder
	for i, k := 0, 1+r.Intn(4); i < k; i++ {
		switch x := r.Intn(9); {
		case x < 4 || depth <= 0:
			sb.WriteString(c19Text(r))
		case x < 7:
			t := Pick(r, []string{"span", "b", "i", "em", "code", "a", "strong", "small"})
			sb.WriteString("<" + t + c19Attrs(r) + ">" + c19Inline(r, depth-1) + "</" + t + ">")
		case x < 8:
			sb.WriteString("<" + Pick(r, []string{"br", "img", "input", "hr", "wbr"}) + c19Attrs(r) + ">")
		default:
			sb.WriteString("<!-- note " + c02Word(r) + " -->")
		}
		if r.Intn(3) == 0 {
			sb.WriteString(Pick(r, []string{" ", "\n", "  "}))
		}
	}
	return sb.String()
}

func c19Block(r *Rng, depth int) string {
	var sb strings.Builder
	for i, k := 0, 1+r.Intn(3); i < k; i++ {
		sep := Pick(r, []string{"", "\n", "\n\n", "  "})
		switch x := r.Intn(12); {
		case x < 3 || depth <= 0:
			t := Pick(r, []string{"p", "h1", "h2", "li", "label", "button", "td"})
			if t == "li" {
				sb.WriteString("<ul><li" + c19Attrs(r) + ">" + c19Inline(r, depth) + "</li></ul>")
			} else if t == "td" {
				sb.WriteString("<table><tbody><tr><td" + c19Attrs(r) + ">" + c19Inline(r, depth) + "</td></tr></tbody></table>")
			} else {
				sb.WriteString("<" + t + c19Attrs(r) + ">" + c19Inline(r, depth) + "</" + t + ">")
			}
		case x < 7:
			t := Pick(r, []string{"div", "section", "nav", "template", "main", "article"})
			sb.WriteString("<" + t + c19Attrs(r) + ">" + sep + c19Block(r, depth-1) + sep + "</" + t + ">")
		case x < 8:
			sb.WriteString("<div" + c19Attrs(r) + ">" + c19Text(r) + "<p>" + c19Inline(r, 0) + "</p>" + c19Text(r) + "</div>")
		case x < 9:
			if r.Intn(3) == 0 { // an inline or phrasing parent whose later child is a block, pre or raw-text element
				par := Pick(r, []string{"td", "a", "label", "span", "button", "summary", "dd"})
				late := Pick(r, []string{"<div>blk " + c02Word(r) + "</div>", "<pre>  first\n    second &lt; x</pre>", "<script>if (a < b && c) { go(); }</script>", "<ul><li>i</li></ul>", "<p>para</p>"})
				inner := "<strong>" + c02Word(r) + ":</strong>" + Pick(r, []string{"", " "}) + late
				if par == "td" {
					sb.WriteString("<table><tbody><tr><td>" + inner + "</td></tr></tbody></table>")
				} else if par == "summary" {
					sb.WriteString("<details><summary>" + inner + "</summary></details>")
				} else if par == "dd" {
					sb.WriteString("<dl><dd>" + inner + "</dd></dl>")
				} else {
					sb.WriteString("<" + par + ">" + inner + "</" + par + ">")
				}
				break
			}
			if r.Intn(5) == 0 { // a raw-text element inside pre: its text is written as it is (no character references are read there)
				k := Pick(r, []string{"script", "style", "xmp"})
				sb.WriteString("<pre" + c19Attrs(r) + ">" + Pick(r, []string{"", "intro\n"}) + "<" + k + ">if (a < b && c > d) { x = \"" + c02Word(r) + "\"; } /* &amp; &lt; */</" + k + ">" + Pick(r, []string{"", "\ntail"}) + "</pre>")
				break
			}
			if r.Intn(3) == 0 { // elements nested in pre whose own text begins or ends with line breaks
				k := Pick(r, []string{"code", "span", "b", "samp"})
				sb.WriteString("<pre" + c19Attrs(r) + ">" + Pick(r, []string{"", "\n", "intro "}) + "<" + k + ">" + Pick(r, []string{"\n", "\n\n", "", " \n"}) + "first " + c02Word(r) + "\n  second &lt; x" + Pick(r, []string{"", "\n"}) + "</" + k + ">" + Pick(r, []string{"", "\n", "<i>\n\tz</i>"}) + "</pre>")
				break
			}
			sb.WriteString("<pre" + c19Attrs(r) + ">" + Pick(r, []string{"", "", "\n", "\n\n"}) + "line1\n  indented " + c19Text(r) + "\n\n<b>bold</b>\tend </pre>")
		case x < 10:
			sb.WriteString("<script>\n  if (a < b && c > d) { x = \"" + c02Word(r) + "\"; }\n</script>")
		case x < 11:
			sb.WriteString("<style>\n  p > a { color: red; }\n  .x::before { content: \"&\"; }\n</style>")
		default:
			if r.Intn(3) == 0 {
				sb.WriteString(`<svg viewBox="0 0 10 10"><use xlink:href="#i" xml:lang="en"></use><circle cx="5" cy="5" r="4"></circle></svg>`)
			} else {
				sb.WriteString("<!-- " + c02Word(r) + " -->")
			}
		}
		sb.WriteString(sep)
	}
	return sb.String()
}

func init() { streams["C19"] = runC19 }

func runC19(r *Run) {
	r.Rule("sources: every .vuego file of the repository and every fenced html/vue snippet of its documentation; generated fragments and full documents over block, inline, phrasing, void, table, pre, script/style elements and comments, attribute values with quotes, entities, comparison operators, object literals, newlines and padding (double- and single-quoted), valueless attributes, mustache expressions containing < > & and quotes, text with references that decode to reference-looking text, front-matter blocks. " +
		"Oracles: Format(Format x) = Format x byte for byte; one long-lived Formatter fed every source in turn answers like a fresh one; parse(Format x) has the same elements, attribute names, attribute values up to whitespace collapse, non-whitespace text, mustache expressions, pre content and raw-text content as parse(x); the front-matter block and the doctype are kept byte for byte. Sources whose parsed DOM cannot be written back as HTML at all (foster parenting, implied end tags) are counted, not judged")
	rr := r.Rng
	type src struct{ name, text, origin string }
	var srcs []src
	corpus := c19Corpus()
	var names []string
	for k := range corpus {
		names = append(names, k)
	}
	sort.Strings(names)
	for _, k := range names {
		srcs = append(srcs, src{k, corpus[k], "corpus"})
	}
	n := 1500
	if r.Thorough() {
		n = 60000
	}
	for i := 0; i < n; i++ {
		body := c19Block(rr, 1+rr.Intn(3))
		switch rr.Intn(10) {
		case 0:
			body = "<!DOCTYPE html>\n<html" + Pick(rr, []string{"", ` lang="en"`}) + "><head><title>" + c19Text(rr) + "</title><meta charset=\"utf-8\"></head><body" + c19Attrs(rr) + ">" + body + "</body></html>\n"
		case 3:
			body = Pick(rr, []string{"<!doctype html>", "<!DOCTYPE html>", "<!DocType HTML>"}) + "\n<html><head><title>t</title>" + Pick(rr, []string{"", "<noscript><link rel=\"stylesheet\" href=\"a.css?x=1&amp;y=2\"></noscript>"}) + "</head><body>" + body + "</body></html>\n"
		case 6:
			// front matter, then a full document (a page that names its layout data and is a whole page itself)
			doc := Pick(rr, []string{"<!DOCTYPE html>\n", "<!doctype html>", ""}) + "<html" + Pick(rr, []string{"", ` lang="en"`}) + "><head><title>t</title></head><body" + c19Attrs(rr) + ">" + body + "</body></html>\n"
			body = Pick(rr, []string{"---\ntitle: x\n---\n", "---\ntitle: x\nlayout: none\n---\n\n", "---\r\ntitle: x\r\n---\r\n"}) + doc
		case 4:
			fence := Pick(rr, []string{"---\r", "--- ", "----", "--- # end", "---"})
			nlc := "\n"
			if fence == "---\r" {
				body = "---\r\ntitle: x\r\n" + fence + "\n" + body
			} else {
				body = "---" + nlc + "title: x" + nlc + fence + nlc + body
			}
		case 1:
			body = "---\ntitle: " + c02Word(rr) + "\nlayout: base\nitems:\n  - a\n  - \"b: c\"\n---\n" + body
		case 2:
			body = "---\n# comment --- inside\nx: 1\n---\n\n" + body + "\n"
		case 5:
			// a fragment whose first element is table-scoped (a row, a cell, a section, a column), written with
			// every kind of white space after the tag name (one attribute per line is common Vue style)
			ws := Pick(rr, []string{" ", "\n  ", "\t", "\n", " \n", "\r\n  "})
			at := strings.TrimPrefix(c19Attrs(rr), " ")
			open := func(t string) string {
				if at == "" {
					return "<" + Pick(rr, []string{t, strings.ToUpper(t)}) + Pick(rr, []string{"", ws}) + ">"
				}
				return "<" + Pick(rr, []string{t, strings.ToUpper(t)}) + ws + at + Pick(rr, []string{"", "\n"}) + ">"
			}
			cell := "<td>" + c19Inline(rr, 1) + "</td>"
			switch rr.Intn(6) {
			case 0:
				body = open("tr") + cell + cell + "</tr>"
			case 1:
				body = open("td") + c19Inline(rr, 1) + "</td><td>x</td>"
			case 2:
				body = open("th") + c19Inline(rr, 0) + "</th>"
			case 3:
				body = open(Pick(rr, []string{"tbody", "thead", "tfoot"})) + "<tr>" + cell + "</tr>" + "</tbody>"
				body = strings.Replace(body, "</tbody>", "</"+strings.ToLower(body[1:6])+">", 1)
			case 4:
				body = open("caption") + c19Inline(rr, 0) + "</caption><tbody><tr>" + cell + "</tr></tbody>"
			default:
				body = open("colgroup") + "<col span=\"2\"><col></colgroup><tbody><tr>" + cell + "</tr></tbody>"
			}
			if rr.Intn(3) == 0 {
				body = Pick(rr, []string{"\n", "  ", "\n\n"}) + body
			}
		}
		srcs = append(srcs, src{fmt.Sprintf("gen%d", i), body, "generated"})
	}
	// ---- the layout model, byte for byte (fragments inside the model's vocabulary) ----
	r.Imports = []string{"Model.Tok", "Model.Fmt"}
	nm := 2500
	if r.Thorough() {
		nm = 60000
	}
	for i := 0; i < nm; i++ {
		body := c19Block(rr, 1+rr.Intn(3))
		if strings.Contains(body, "<!--") || strings.Contains(body, "<pre") || strings.Contains(body, "<script") || strings.Contains(body, "<style") || strings.Contains(body, "&nbsp;") || strings.Contains(body, "<template") || strings.Contains(body, "<svg") {
			continue
		}
		out, err := c19Format(body)
		if err != nil {
			continue
		}
		nodes, _ := c19Parse(strings.TrimLeft(body, "\n"))
		// an expression that holds a decodable character reference is written re-encoded; the model copies
		// expressions byte for byte and does not carry the table of named references
		decodable := false
		var walk func(n *html.Node)
		walk = func(n *html.Node) {
			if n.Type == html.TextNode {
				for _, m := range c19MustacheRe.FindAllString(n.Data, -1) {
					if stdhtml.UnescapeString(m) != m {
						decodable = true
					}
				}
			}
			for c := n.FirstChild; c != nil; c = c.NextSibling {
				walk(c)
			}
		}
		for _, n := range nodes {
			walk(n)
		}
		if decodable {
			r.Count("model-skip:expression-with-reference")
			continue
		}
		forest, ok := c02CoqForestX(nodes, false)
		if !ok || !c19Stable(body) {
			continue
		}
		r.Case("layout", fmt.Sprintf("{| c_kind := 0; c_out := []; c_dom := %s |}", forest), A(out), map[string]any{"template": body, "formatted": out}, nil, strings.ContainsAny(body, `&"{`))
		r.Case("relayout", fmt.Sprintf("{| c_kind := 1; c_out := %s; c_dom := [] |}", coqBytes(out)), A(out), map[string]any{"template": body, "formatted": out}, nil, strings.ContainsAny(body, `&"{`))
	}
	for _, s := range srcs {
		fm, body := c19Split(s.text)
		desc := map[string]any{"source": s.name, "template": s.text}
		r.Count("origin:" + s.origin)
		if !c19Stable(body) {
			r.Count("unstable-source:" + s.origin)
			continue
		}
		f1, err := c19Format(s.text)
		r.Eval("fmt:"+s.text, strings.ContainsAny(s.text, `&"'{`), nil)
		sig := func(o, class string) map[string]string {
			return map[string]string{"oracle": o, "class": class, "origin": s.origin}
		}
		if err != nil {
			r.Fail("formatting fails", sig("format-error", "error"), map[string]any{"case": desc, "err": err.Error()})
			continue
		}
		f2, err := c19Format(f1)
		if err != nil || f2 != f1 {
			r.Fail("formatting formatted output changes it", sig("idempotent", c19Class(s.text, f1)), map[string]any{"case": desc, "once": f1, "twice": f2})
		}
		fm1, body1 := c19Split(f1)
		if fm != fm1 {
			r.Fail("the front-matter block is not kept byte for byte", sig("front-matter", "front-matter"), map[string]any{"case": desc, "once": f1})
			continue
		}
		if m := c19DoctypeRe.FindStringSubmatch(body); m != nil {
			if m1 := c19DoctypeRe.FindStringSubmatch(body1); m1 == nil || m1[1] != m[1] {
				r.Fail("the doctype is not kept byte for byte", sig("doctype", "doctype"), map[string]any{"case": desc, "once": f1})
			}
		}
		p0, _ := c19Parse(body)
		p1, _ := c19Parse(body1)
		m0, m1 := c19Meaning(p0), c19Meaning(p1)
		if m0 != m1 {
			r.Fail("the formatted text parses to a different template", sig("meaning", c19Class(s.text, f1)), map[string]any{"case": desc, "once": f1, "meaning_source": m0, "meaning_formatted": m1})
		}
	}
	for _, d := range c19ReuseDiffs {
		r.Fail("a Formatter that has formatted other sources before formats this one differently from a fresh Formatter", map[string]string{"oracle": "reused-formatter", "kind": "oracle"}, d)
	}
}

// a coarse class for grouping failures
func c19Class(src, out string) string {
	switch {
	case regexp.MustCompile(`="[^"]*(&quot;|&amp;|&lt;|&#)[^"]*"`).MatchString(src) || regexp.MustCompile(`='[^']*"[^']*'`).MatchString(src):
		return "attr-quote-or-entity"
	case strings.Contains(src, "<pre"):
		return "pre"
	case strings.Contains(src, "<!--"):
		return "comment"
	case strings.Contains(src, "{{"):
		return "mustache"
	}
	return "other"
}
