package main

import (
	"bytes"
	"context"
	"encoding/json"
	"fmt"
	"golang.org/x/net/html"
	"golang.org/x/net/html/atom"
	"reflect"
	"sort"
	"strings"
	"testing/fstest"
	"time"

	"github.com/titpetric/vuego"
)

// C10: the bytes of a render are a function of the files and the data of that call alone.
// Implementation-against-implementation: every program on a fresh engine is the reference.

type c10Prog struct {
	name  string
	entry string // VueRender VueFragment LoadRender RenderString
	page  string // file name, or template text for RenderString
	data  func() any
}

func c10FS() fstest.MapFS {
	f := func(s string) *fstest.MapFile { return &fstest.MapFile{Data: []byte(s)} }
	return fstest.MapFS{
		"attrs.vuego":   f(`<p :title="t" :data-a="a" :data-b="b" :data-c="c" class="k" :class="{on: t, off: z, hot: a}" style="color:red;margin:0" :style="{fontSize: fs, color: 'blue', paddingTop: pt}" v-show="z">x</p><a :href="a" :id="b" :rel="c" :lang="t">l</a>`),
		"maploop.vuego": f(`<ul><li v-for="v in m">{{ v }}</li></ul><ol><li v-for="(i, v) in m2" :data-i="i">{{ v.n }}</li></ol><dl><dt v-for="v in ms">{{ v }}</dt></dl><em v-for="v in mi">{{ v }}</em><u v-for="(k, v) in ma">{{ k }}={{ v }}</u><s v-for="v in mf">{{ v }}</s>`),
		// the same expressions meet values of different Go types from one render to the next
		"typed.vuego":        f(`<p v-if="n == 1">one</p><p v-else>other</p><i :data-t="n + 1">{{ n * 2 }}</i><b v-if="role == 'admin'">adm</b><u>{{ total > 10 ? 'big' : 'small' }}</u><em v-for="x in mixed" v-if="x == 1">{{ x }}</em><s>{{ n }}{{ role }}</s>`),
		"comp/card.vuego":    f("---\nkind: card\n---\n<template :required=\"title\"><div class=\"card\" :data-kind=\"kind\"><h2>{{ title }}</h2><slot>fallback {{ kind }}</slot><slot name=\"foot\" :n=\"title\"></slot></div></template>"),
		"comp/once.vuego":    f(`<style v-once>.c{}</style><i>{{ who }}</i>`),
		"include.vuego":      f(`<template include="comp/card.vuego" title="T1" :extra="m"><b>{{ who }}</b><template #foot="{ n }"><u>{{ n }}-{{ who }}</u></template></template><template include="comp/card.vuego" :title="a"></template><div v-for="x in xs"><template include="comp/once.vuego"></template></div>`),
		"layouts/base.vuego": f("---\nsite: S\n---\n<html><body data-site=\"{{ site }}\"><main v-html=\"content\"></main><slot name=\"side\">no side</slot></body></html>"),
		"layouts/post.vuego": f("---\nlayout: base\nkind: post\n---\n<article :data-kind=\"kind\" v-html=\"content\"></article>"),
		"layout.vuego":       f("---\nlayout: post\ntitle: FM-title\n---\n<h1>{{ title }}</h1><p>{{ who }}</p><template #side><em>{{ title }}</em></template>"),
		"layout2.vuego":      f("---\nlayout: post\ntitle: FM2\n---\n<h1>{{ title }}</h1><template v-slot:side><em>long {{ title }} {{ who }}</em></template><template v-slot:nosuch>x</template>"),
		"jsonprops.vuego":    f(`<template include="comp/tags.vuego" tags='["a","b"]' cfg='{"k":"v","n":[1,2]}' plain="{oops" :bound="jsonish" interp="{{ jsonish }}"></template>`),
		"comp/tags.vuego":    f(`<i v-for="t in tags">{{ t }}</i><b>{{ cfg.k }}{{ cfg.n[1] }}</b><u>{{ plain }}|{{ bound }}|{{ interp }}</u><s v-for="x in bound">no</s>`),
		"filters.vuego":      f(`<p>{{ who | upper }}|{{ a | default("d") }}|{{ xs | len }}|{{ m | json }}|{{ who | title | lower }}</p><p v-text="who"></p><p v-html="htmlv"></p>`),
		"chain.vuego":        f(`<p v-if="z">z</p><p v-else-if="t" v-for="x in xs">{{ x }}</p><p v-else>e</p><template v-for="(i, x) in xs"><span v-if="i">{{ i }}:{{ x }}</span></template><div v-once v-for="x in xs">{{ x }}</div>`),
		"fm.vuego":           f("---\nwho: front\nadded: yes\n---\n<p>{{ who }} {{ added }} {{ a }}</p>"),
		"bad-filter.vuego":   f(`<p>{{ who }}</p><p>{{ who | nosuchfilter }}</p>`),
		"bad-late.vuego":     f(`<p title="t={{ who }} {{ a | nosuch2 }}">x</p><p>token={{ who }} / {{ who | nosuchfilter }}</p>`),
		"assign.vuego": f(`<template :hits="z + 1" section="admin"></template><p>{{ hits }} {{ section }} {{ who }}</p><template v-for="x in xs" :last="x"></template><i>{{ last }}</i>` +
			// the long spelling, values the path resolver answers, JSON written literally in an attribute, assignments on chain members and loops
			`<template v-bind:h2="z + 2" v-bind:w2="who" v-bind:nope="zz.q" list='[1, "two", {"k": 3}]' obj='{"a": {"b": "deep"}}' bad='{oops'></template><p>{{ h2 }}|{{ w2 }}|{{ nope }}|{{ list[1] }}|{{ obj.a.b }}|{{ bad }}</p><i v-for="e in list">{{ e }}</i>` +
			`<template v-if="t" :c1="who" v-bind:c2="z"></template><template v-else :c1="'no'"></template><p>{{ c1 }}{{ c2 }}</p><template v-for="(i, x) in xs" v-bind:lasti="i" :lastx="x"></template><p>{{ lasti }}{{ lastx }}</p>`),
		"bad-include.vuego":  f(`<p>{{ who }}</p><template include="comp/none.vuego"></template>`),
		"bad-required.vuego": f(`<p>a</p><template include="comp/card.vuego"></template>`),
		"bad-layout.vuego":   f("---\nlayout: nolayout\n---\n<p>x</p>"),
		// elements whose evaluation writes attributes, driven by a condition that differs between programs
		"toggle.vuego": f(toggleElems("on", "who", "htmlv", "xs") + `<template include="comp/tcard.vuego" :label="who"></template><template include="comp/tcard.vuego" label="L-{{ who }}"><b>{{ who }}</b></template>`),
		// a component that forwards values to a nested component, outside any loop
		"comp/tcard.vuego": f(`<section :data-l="label"><template include="comp/tlabel.vuego" :title="who" cls="c-{{ label }}"><slot>none</slot></template><template include="comp/tlabel.vuego" :title="label" v-if="on"></template></section>`),
		// a slot that hands values to its content, and a page whose first loop reads the same names from outside the loop
		"comp/sp.vuego":     f(`<div><slot :who="'slot-who'" :a="'slot-a'" :b="'slot-b'" :n="7" :q="'slot-q'" :v="'slot-v'" :t="false"></slot><slot name="foot" :who="'foot-who'" :z="9"></slot></div>`),
		"slotprops.vuego":   f(`<template include="comp/sp.vuego"><template #default="{ n, q }"><u>{{ n }}{{ q }}</u></template><template v-slot:foot="p"><s>{{ p.z }}</s></template></template><template include="comp/sp.vuego"><i>plain content</i></template>`),
		"loopread.vuego":    f(`<ol><li v-for="x in xs">{{ who }}|{{ a }}|{{ b }}|{{ n }}|{{ q }}|{{ v }}|{{ z }}|{{ t }}|{{ x }}</li></ol><template include="comp/card.vuego" title="LR"><b>{{ who }}|{{ n }}|{{ z }}</b></template>`),
		"comp/tlabel.vuego": f(`<span :class="cls" :title="title">{{ title }}<slot></slot></span>`),
	}
}

type c10S struct {
	Who string         `json:"who"`
	A   string         `json:"a"`
	Xs  []string       `json:"xs"`
	M   map[string]any `json:"m"`
	T   bool           `json:"t"`
	Z   int            `json:"z"`
}

func c10Data() any {
	return map[string]any{"who": "W", "a": "A", "b": "B", "c": "C", "t": true, "z": 0, "fs": "12px", "pt": "3px",
		"jsonish": `["x","y"]`, "xs": []any{"x1", "x2", "x3"}, "m": map[string]any{"k1": "v1", "k2": "v2", "k3": "v3", "k4": "v4", "k5": "v5"},
		"m2": map[string]any{"p": map[string]any{"n": "np"}, "q": map[string]any{"n": "nq"}, "r": map[string]any{"n": "nr"}},
		"ms": map[string]string{"s1": "t1", "s2": "t2", "s3": "t3"}, "htmlv": "<b>raw</b>",
		// maps whose keys are not strings
		"mi": map[int]string{1: "i1", 2: "i2", 3: "i3", 4: "i4", 5: "i5", 6: "i6", 7: "i7", 8: "i8", 9: "i9", 10: "i10", 11: "i11", 12: "i12"},
		"ma": map[any]any{1: "a1", "two": "a2", 3.5: "a3", true: "a4", 5: "a5", "six": "a6", 7: "a7", 8: "a8"},
		"mf": map[float64]int{1.5: 1, 2.5: 2, 3.5: 3, 4.5: 4, 5.5: 5, 6.5: 6}}
}
func c10Struct() any {
	return c10S{Who: "SW", A: "SA", Xs: []string{"s1", "s2"}, M: map[string]any{"k1": "v1", "k2": "v2", "k3": "v3"}, T: true}
}

func c10Catalogue() []c10Prog {
	var ps []c10Prog
	files := []string{"attrs.vuego", "maploop.vuego", "include.vuego", "layout.vuego", "layout2.vuego", "jsonprops.vuego", "filters.vuego", "chain.vuego", "fm.vuego", "assign.vuego", "loopread.vuego", "slotprops.vuego", "bad-late.vuego", "bad-filter.vuego", "bad-include.vuego", "bad-required.vuego", "bad-layout.vuego"}
	for _, f := range files {
		ps = append(ps, c10Prog{name: "load:" + f, entry: "LoadRender", page: f, data: c10Data})
		if f != "layout.vuego" && f != "layout2.vuego" && f != "bad-layout.vuego" {
			ps = append(ps, c10Prog{name: "vue:" + f, entry: "VueRender", page: f, data: c10Data})
		}
	}
	ps = append(ps, c10Prog{name: "frag:fm.vuego", entry: "VueFragment", page: "fm.vuego", data: c10Data})
	ps = append(ps, c10Prog{name: "struct:attrs", entry: "LoadRender", page: "attrs.vuego", data: c10Struct})
	ps = append(ps, c10Prog{name: "struct:vue-maploop", entry: "VueRender", page: "include.vuego", data: c10Struct})
	ps = append(ps, c10Prog{name: "nodes:mixed", entry: "VueRenderNodes", data: c10Data,
		page: toggleElems("t", "who", "htmlv", "xs") + `<p :data-a="a" :title="t" style="color:red" v-show="z">{{ who }}</p><template include="comp/once.vuego"></template><i v-for="v in m" v-once>{{ v }}</i><template :hits="z + 1"></template><u>{{ hits }}</u>`})
	ps = append(ps, c10Prog{name: "string:mixed", entry: "RenderString", data: c10Data,
		page: `<p :data-a="a" :data-b="b" :title="t">{{ who }}</p><template include="comp/once.vuego"></template><template include="comp/once.vuego"></template><i v-for="v in m">{{ v }}</i>`})
	for name, d := range map[string]map[string]any{
		"typed:ints":    {"n": 1, "total": 12, "role": "admin", "mixed": []any{1, int64(1), 1.0, 2}},
		"typed:floats":  {"n": 1.0, "total": 12.5, "role": "user", "mixed": []any{1.0, 2.0}},
		"typed:int64s":  {"n": int64(1), "total": int64(3), "mixed": []any{int64(1), uint8(1)}},
		"typed:strings": {"n": "1", "total": "12", "role": 7, "mixed": []any{"1", 1}},
		"typed:absent":  {"mixed": []any{}},
	} {
		d := d
		ps = append(ps, c10Prog{name: name, entry: "VueRender", page: "typed.vuego", data: func() any { return d }})
		ps = append(ps, c10Prog{name: name + ":load", entry: "LoadRender", page: "typed.vuego", data: func() any { return d }})
	}
	for name, d := range map[string]map[string]any{
		"toggle:off": {"on": false, "who": "W-off", "htmlv": "<u>off</u>", "xs": []any{1, 2}},
		"toggle:on":  {"on": true, "who": "W-on", "htmlv": "<b>on</b>", "xs": []any{1}},
	} {
		d := d
		ps = append(ps, c10Prog{name: name, entry: "VueRender", page: "toggle.vuego", data: func() any { return d }})
		ps = append(ps, c10Prog{name: name + ":load", entry: "LoadRender", page: "toggle.vuego", data: func() any { return d }})
	}
	sort.Slice(ps, func(i, j int) bool { return ps[i].name < ps[j].name })
	ps = append(ps, c10Prog{name: "string:bad", entry: "RenderString", data: c10Data, page: `<p>{{ who | nosuch }}</p>`})
	return ps
}

type c10Engine struct {
	vue      *vuego.Vue
	tpl      vuego.Template
	nodes    map[string][]*html.Node
	nodesSrc map[string]string
}

func c10NewEngine() *c10Engine {
	return c10EngineOver(c10FS())
}

// engines carry a node processor with per-render state (it numbers list items and headings)
func c10EngineOver(fs fstest.MapFS) *c10Engine {
	return &c10Engine{vue: vuego.NewVue(fs).RegisterNodeProcessor(&c09Numberer{}), tpl: vuego.NewFS(fs, vuego.WithProcessor(&c09Numberer{})), nodes: map[string][]*html.Node{}, nodesSrc: map[string]string{}}
}

// State that outlives an engine (process-wide memos of parsed paths or compiled expressions) must not let one
// render decide what a later render of a look-alike template means: templates that differ only in white space
// inside a key, rendered in either order on fresh engines, each print their own values. Runs first in the process.
func c10LookAlike(r *Run) {
	data := func() map[string]any {
		return map[string]any{
			"person": map[string]any{"first name": "Ada", "firstname": "Bob"}, "place": map[string]any{"home town": "Linz", "hometown": "Graz"},
			"n": map[string]any{"a b": 1, "ab": 2}, "who": "W"}
	}
	type step struct{ tpl, want string }
	seq := []step{
		{`<p>{{ person['first name'] }}|{{ place['hometown'] }}</p>`, "<p>Ada|Graz</p>"},
		{`<p>{{ person['firstname'] }}|{{ place['home town'] }}</p>`, "<p>Bob|Linz</p>"},
		{`<p :title="n['a b']" v-if="n['ab'] == 2">{{ n['ab'] }}</p>`, `<p title="1">2</p>`},
		{`<p :title="n['ab']" v-if="n['a b'] == 1">{{ n['a b'] }}</p>`, `<p title="2">1</p>`},
		{`<p>{{ person['first name'] }}|{{ person['firstname'] }}|{{ place['home town'] }}|{{ place['hometown'] }}</p>`, "<p>Ada|Bob|Linz|Graz</p>"},
	}
	for round := 0; round < 2; round++ {
		for _, st := range seq {
			out, err := c10RenderFuncs(st.tpl, data(), nil)
			r.Eval(fmt.Sprintf("lookalike:%d:%s", round, st.tpl), true, nil)
			r.Count("stream:look-alike-templates(oracle only)")
			if err != nil || strings.TrimSpace(out) != st.want {
				r.Fail("a template prints the value of a look-alike path rendered earlier in the process", map[string]string{"oracle": "look-alike"},
					map[string]any{"template": st.tpl, "output": out, "expected": st.want, "err": fmt.Sprint(err), "round": round})
			}
		}
	}
}

// The template files are inputs of a call too: after a file was replaced - by a newer or by an OLDER version
// (a roll-back, a restored backup, an override removed from an upper layer) - a long-lived engine renders
// what a fresh engine renders.
func c10FileEdits(r *Run) {
	t1 := time.Date(2026, 3, 1, 12, 0, 0, 0, time.UTC)
	type edit struct{ file, from, to string }
	edits := []edit{
		{"fm.vuego", "<p>{{ who }}", "<p>v2 {{ who }}"},
		{"layout.vuego", "<h1>{{ title }}</h1>", "<h1>v2 {{ title }}</h1>"},
		{"layouts/post.vuego", "<article ", "<article data-v2 "},
		{"layouts/base.vuego", "<main ", "<main data-v2 "},
		{"comp/card.vuego", "<h2>{{ title }}</h2>", "<h2>v2 {{ title }}</h2>"},
		{"include.vuego", "<b>{{ who }}</b>", "<b>v2 {{ who }}</b>"},
	}
	progs := []c10Prog{
		{name: "vue:fm.vuego", entry: "VueRender", page: "fm.vuego", data: c10Data},
		{name: "load:fm.vuego", entry: "LoadRender", page: "fm.vuego", data: c10Data},
		{name: "load:layout.vuego", entry: "LoadRender", page: "layout.vuego", data: c10Data},
		{name: "vue:include.vuego", entry: "VueRender", page: "include.vuego", data: c10Data},
		{name: "load:include.vuego", entry: "LoadRender", page: "include.vuego", data: c10Data},
	}
	for _, p := range progs {
		for _, e := range edits {
			for _, dir := range []string{"newer", "older", "much-older", "newer-then-back"} {
				fs := c10FS()
				for _, f := range fs {
					f.ModTime = t1
				}
				if !strings.Contains(string(fs[e.file].Data), e.from) {
					panic("c10FileEdits: " + e.file + " does not contain " + e.from)
				}
				eng := c10EngineOver(fs)
				o0, e0, _ := eng.run(p)
				o0b, _, _ := eng.run(p) // warm
				steps := []time.Time{t1.Add(time.Hour)}
				switch dir {
				case "older":
					steps = []time.Time{t1.Add(-time.Hour)}
				case "much-older":
					steps = []time.Time{t1.Add(-400 * 24 * time.Hour)}
				case "newer-then-back":
					steps = []time.Time{t1.Add(time.Hour), t1.Add(-time.Minute)}
				}
				orig := string(fs[e.file].Data)
				for si, mt := range steps {
					content := strings.Replace(orig, e.from, e.to, 1)
					if si == 1 {
						content = strings.Replace(orig, e.from, strings.Replace(e.to, "v2", "v3", 1), 1)
					}
					fs[e.file] = &fstest.MapFile{Data: []byte(content), ModTime: mt}
					got, gerr, _ := eng.run(p)
					want, werr, _ := c10EngineOver(fs).run(p)
					r.Eval(fmt.Sprintf("edit:%s:%s:%s:%d", p.name, e.file, dir, si), true, nil)
					r.Count("stream:file-edits(oracle only)")
					if got != want || gerr != werr {
						r.Fail("after a template file was replaced, a long-lived engine renders differently from a fresh engine", map[string]string{"oracle": "edit-vs-fresh", "direction": dir, "file": e.file},
							map[string]any{"prog": p.name, "edited_file": e.file, "mtime_direction": dir, "step": si, "long_lived": got, "long_lived_err": gerr, "fresh": want, "fresh_err": werr, "before_edit": o0, "before_edit_err": e0, "warm_equals_cold": o0 == o0b})
					}
				}
			}
		}
	}
}
func deepCopy(v any) any {
	b, _ := json.Marshal(v)
	switch v.(type) {
	case map[string]any:
		var m map[string]any
		_ = json.Unmarshal(b, &m)
		return m
	}
	return v
}
func (e *c10Engine) run(p c10Prog) (out string, errs string, dataChanged string) {
	return e.runWith(p, p.data())
}

// runWith renders p with the given (possibly caller-retained) data value.
func (e *c10Engine) runWith(p c10Prog, data any) (out string, errs string, dataChanged string) {
	before := fmt.Sprintf("%#v", data)
	snapshot := reflect.ValueOf(data)
	_ = snapshot
	var buf bytes.Buffer
	var err error
	func() {
		defer func() {
			if x := recover(); x != nil {
				err = fmt.Errorf("PANIC %v", x)
			}
		}()
		switch p.entry {
		case "VueRender":
			err = e.vue.Render(&buf, p.page, data)
		case "VueFragment":
			err = e.vue.RenderFragment(&buf, p.page, data)
		case "LoadRender":
			err = e.tpl.New().Fill(data).Load(p.page).Render(context.Background(), &buf)
		case "RenderString":
			err = e.tpl.New().Fill(data).RenderString(context.Background(), &buf, p.page)
		case "VueRenderNodes": // nodes the caller parsed once and renders again and again: they stay the caller's
			if e.nodes[p.name] == nil {
				e.nodes[p.name], err = html.ParseFragment(strings.NewReader(p.page), &html.Node{Type: html.ElementNode, Data: "body", DataAtom: atom.Body})
				var sb strings.Builder
				for _, n := range e.nodes[p.name] {
					_ = html.Render(&sb, n)
				}
				e.nodesSrc[p.name] = sb.String()
			}
			if err == nil {
				err = e.vue.RenderNodes(&buf, e.nodes[p.name], data)
			}
			var sb strings.Builder
			for _, n := range e.nodes[p.name] {
				_ = html.Render(&sb, n)
			}
			if err == nil && sb.String() != e.nodesSrc[p.name] {
				err = fmt.Errorf("RenderNodes modified the nodes it was given: before %q after %q", e.nodesSrc[p.name], sb.String())
			}
		}
	}()
	after := fmt.Sprintf("%#v", data)
	if m, ok := data.(map[string]any); ok { // map printing is sorted by fmt: a faithful deep comparison
		_ = m
	}
	if before != after {
		dataChanged = "before: " + before + "\nafter:  " + after
	}
	if err != nil {
		errs = err.Error()
	}
	return buf.String(), errs, dataChanged
}

// one long-lived template made by vuego.New() - no file system, nothing filled in - serving requests through New():
// what one request assigns, and what a template assigns at its root scope while it renders, belongs to that request
func c10BareEngine(r *Run) {
	rr := r.Rng
	progs := []string{
		`<p>hello {{ user }} {{ who }}</p>`,
		`<template :n="n + 1"></template><p>{{ n }}</p>`,
		`<template user="tpl-user" :k="who"></template><i>{{ user }}|{{ k }}</i>`,
		`<ul><li v-for="x in xs">{{ x }}{{ user }}</li></ul><b v-if="user">u</b><b v-else>none</b>`,
		`<template v-if="who" :seen="1"></template><u>{{ seen }}{{ n }}</u>`,
	}
	render := func(t vuego.Template, src string) string {
		var buf bytes.Buffer
		var err error
		func() {
			defer func() {
				if x := recover(); x != nil {
					err = fmt.Errorf("PANIC %v", x)
				}
			}()
			err = t.RenderString(context.Background(), &buf, src)
		}()
		return buf.String() + "|err=" + fmt.Sprint(err)
	}
	type step struct {
		assign map[string]any
		direct bool // assign and render on the long-lived template itself (twice), not on a New() of it
		src    string
	}
	n := 150
	if r.Thorough() {
		n = 3000
	}
	for c := 0; c < n; c++ {
		base := vuego.New()
		var hist []string
		carried := map[string]any{} // what was assigned on the base itself stays there: that is the caller's doing
		for i, k := 0, 2+rr.Intn(5); i < k; i++ {
			st := step{assign: map[string]any{}, src: Pick(rr, progs), direct: rr.Intn(4) == 0}
			for _, key := range []string{"user", "who", "n", "xs"} {
				if rr.Intn(3) == 0 {
					st.assign[key] = map[string]any{"user": fmt.Sprintf("u%d", i), "who": fmt.Sprintf("w%d", i), "n": i, "xs": []any{i, i + 1}}[key]
				}
			}
			hist = append(hist, fmt.Sprintf("%v assign=%v %s", map[bool]string{true: "on the template itself", false: "on New()"}[st.direct], st.assign, st.src))
			fresh := vuego.New()
			for k, v := range carried {
				fresh.Assign(k, v)
			}
			var got, want []string
			if st.direct {
				for k, v := range st.assign {
					base.Assign(k, v)
					fresh.Assign(k, v)
					carried[k] = v
				}
				got = []string{render(base, st.src), render(base, st.src)}
				want = []string{render(fresh, st.src), render(fresh, st.src)}
				if want[0] != want[1] {
					want[1] = want[0] // a second render of the same program prints the same bytes
				}
			} else {
				a, b := base.New(), fresh.New()
				for k, v := range st.assign {
					a.Assign(k, v)
					b.Assign(k, v)
				}
				got, want = []string{render(a, st.src)}, []string{render(b, st.src)}
			}
			r.Eval(fmt.Sprintf("bare:%d:%d", c, i), i > 0, nil)
			r.Count("stream:bare-engine(oracle only)")
			if strings.Join(got, "\n") != strings.Join(want, "\n") {
				r.Fail("a long-lived engine made by New() renders differently from a fresh one", map[string]string{"oracle": "bare-engine", "kind": "oracle"},
					map[string]any{"history": append([]string{}, hist...), "long_lived": got, "fresh": want})
				break
			}
		}
	}
}

func init() { streams["C10"] = runC10 }

func runC10(r *Run) {
	r.Rule("a catalogue of programs covering every directive, bound attributes and style merging, v-for over maps, includes with props and slots, layouts with inherited slots, filters, v-once, front-matter, struct data and failing templates, through Vue.Render, RenderFragment, Load().Render and RenderString; " +
		"every program on a fresh engine is the reference; each is rendered 20 times (thorough 60) on one long-lived engine, after every other program (all ordered pairs) and inside random sequences of length <= 8, failing programs included; " +
		"caller data is printed before and after every call; the template cache is dumped after the first and after the last render; non-trivial: the program has >= 2 map entries / bound attributes / front-matter, or follows a different program")
	r.Assume("this stream compares the implementation with itself (bytes); the Coq model contributes the order-independence and pool theorems and the regenerated table of map-iteration sites")
	c10LookAlike(r)
	c10FileEdits(r)
	c10BareEngine(r)
	progs := c10Catalogue()
	ref := map[string][2]string{}
	for _, p := range progs {
		var first [2]string
		for i := 0; i < 3; i++ { // the reference itself must be reproducible across fresh engines
			o, e, ch := c10NewEngine().run(p)
			r.Eval(fmt.Sprintf("fresh:%s:%d", p.name, i), true, nil)
			if ch != "" {
				r.Fail("a render modified the caller's data", map[string]string{"oracle": "caller-data", "prog": p.name}, map[string]any{"prog": p.name, "change": ch})
			}
			if i == 0 {
				first = [2]string{o, e}
			} else if first != [2]string{o, e} {
				r.Fail("two fresh engines render the same inputs differently", map[string]string{"oracle": "fresh-vs-fresh", "prog": p.name}, map[string]any{"prog": p.name, "first": first, "other": [2]string{o, e}})
			}
		}
		ref[p.name] = first
		r.Count("outcome:" + map[bool]string{true: "error", false: "ok"}[first[1] != ""])
	}
	check := func(e *c10Engine, p c10Prog, ctx string, seq []string) {
		o, er, ch := e.run(p)
		r.Eval(ctx, true, map[string]any{"context": ctx, "program": p.name, "bytes": len(o)})
		if ch != "" {
			r.Fail("a render modified the caller's data", map[string]string{"oracle": "caller-data", "prog": p.name}, map[string]any{"prog": p.name, "change": ch, "sequence": seq})
		}
		if want := ref[p.name]; want != [2]string{o, er} {
			r.Fail("a long-lived engine renders differently from a fresh engine", map[string]string{"oracle": "used-vs-fresh", "prog": p.name},
				map[string]any{"prog": p.name, "sequence": seq, "fresh": want, "long_lived": [2]string{o, er}})
		}
	}
	reps := 20
	if r.Thorough() {
		reps = 200
	}
	// (a) repeated renders on one engine + cache snapshot
	for _, p := range progs {
		e := c10NewEngine()
		var dump0 string
		for i := 0; i < reps; i++ {
			check(e, p, fmt.Sprintf("repeat:%s:%d", p.name, i), []string{p.name})
			if i == 0 {
				dump0 = vuego.VerifCacheDump(e.vue) + vuego.VerifCacheDump(vuego.VerifTemplateVue(e.tpl))
			}
		}
		if d := vuego.VerifCacheDump(e.vue) + vuego.VerifCacheDump(vuego.VerifTemplateVue(e.tpl)); d != dump0 {
			r.Fail("rendering modified a cached template", map[string]string{"oracle": "cache-unchanged", "prog": p.name}, map[string]any{"prog": p.name, "after_first": dump0, "after_last": d})
		}
	}
	// (b) all ordered pairs
	for _, p := range progs {
		for _, q := range progs {
			e := c10NewEngine()
			check(e, p, "pair:"+p.name+">"+q.name+":1", []string{p.name})
			check(e, q, "pair:"+p.name+">"+q.name+":2", []string{p.name, q.name})
		}
	}
	// (b2) one caller-owned data map kept across consecutive renders of different programs
	for _, p := range progs {
		for _, q := range progs {
			if fmt.Sprintf("%T", p.data()) != "map[string]interface {}" || fmt.Sprintf("%T", q.data()) != "map[string]interface {}" {
				continue
			}
			if strings.HasPrefix(p.name, "typed:") || strings.HasPrefix(q.name, "typed:") || strings.HasPrefix(p.name, "toggle:") || strings.HasPrefix(q.name, "toggle:") {
				continue // these programs have data of their own: the shared map of this stream is the catalogue's
			}
			e := c10NewEngine()
			shared := c10Data()
			for step, x := range []c10Prog{p, q, p} {
				o, er, ch := e.runWith(x, shared)
				r.Eval(fmt.Sprintf("shared:%s>%s:%d", p.name, q.name, step), true, nil)
				if ch != "" {
					r.Fail("a render modified the caller's data", map[string]string{"oracle": "caller-data", "prog": x.name}, map[string]any{"prog": x.name, "change": ch, "sequence": []string{p.name, q.name, p.name}})
					break
				}
				if want := ref[x.name]; want != [2]string{o, er} {
					r.Fail("a render with data the caller used before differs from a fresh engine with fresh data", map[string]string{"oracle": "used-vs-fresh", "prog": x.name},
						map[string]any{"prog": x.name, "sequence": []string{p.name, q.name, p.name}, "fresh": want, "observed": [2]string{o, er}})
				}
			}
		}
	}
	// (c) random sequences
	nseq := 150
	if r.Thorough() {
		nseq = 8000
	}
	for s := 0; s < nseq; s++ {
		e := c10NewEngine()
		var seq []string
		for i, k := 0, 2+r.Rng.Intn(7); i < k; i++ {
			p := Pick(r.Rng, progs)
			seq = append(seq, p.name)
			check(e, p, fmt.Sprintf("seq:%d:%d", s, i), append([]string{}, seq...))
		}
	}
	r.extra["programs"] = len(progs)
	_ = strings.Join
	c10PoolHistories(r)
}

// c10PoolHistories runs histories of Push(nil) / Push(caller's map) / Set / Pop / Lookup on the real Stack,
// whose Push(nil) draws from the process-wide sync.Pool that every earlier render and history of this
// process has been feeding, and hands them to the pool model (Run/RunC10.v): what each lookup sees and
// what each caller-owned map holds when it comes back.
func c10PoolHistories(r *Run) {
	r.Imports = []string{"Model.MapOrder"}
	keys := []string{"a", "b", "c", "d", "e", "f", "g", "h", "i", "j", "k", "l"} // scopes of any size: 0 to 12 names
	vals := []string{"1", "2", "x", "", "old"}
	n := 400
	if r.Thorough() {
		n = 6000
	}
	for i := 0; i < n; i++ {
		st := vuego.NewStack(nil)
		type own struct {
			id int
			m  map[string]any
		}
		var onStack []*own // nil entries: scopes that are not caller-owned
		onStack = append(onStack, nil)
		var released []*own
		var ops []string
		var desc []string
		res := []Obs{}
		nextID := 0
		pushes, reuse := 0, false
		for j, k := 0, 4+r.Rng.Intn(28); j < k; j++ {
			switch x := r.Rng.Intn(12); {
			case x < 3:
				st.Push(nil)
				onStack = append(onStack, nil)
				ops = append(ops, "CO (PPush bytes)")
				desc = append(desc, "push")
				pushes++
			case x < 4:
				m := map[string]any{}
				var lit []string
				for _, kk := range keys {
					if r.Rng.Intn(3) == 0 {
						v := Pick(r.Rng, vals)
						m[kk] = v
						lit = append(lit, "("+coqBytes(kk)+", "+coqBytes(v)+")")
					}
				}
				o := &own{id: nextID, m: m}
				nextID++
				st.Push(m)
				onStack = append(onStack, o)
				ops = append(ops, fmt.Sprintf("CO (PPushOwn bytes %d [%s])", o.id, strings.Join(lit, "; ")))
				desc = append(desc, fmt.Sprintf("push-own#%d%v", o.id, m))
			case x < 7:
				burst := 1
				if r.Rng.Intn(4) == 0 { // many names in one scope (a <template a=.. b=.. ...> in a loop body does that)
					burst = 6 + r.Rng.Intn(7)
				}
				for b := 0; b < burst; b++ {
					kk, v := Pick(r.Rng, keys), Pick(r.Rng, vals)
					if burst > 1 {
						kk = keys[(b+j)%len(keys)]
					}
					st.Set(kk, v)
					ops = append(ops, "CO (PSet bytes "+coqBytes(kk)+" "+coqBytes(v)+")")
					desc = append(desc, "set "+kk+"="+v)
				}
			case x < 9:
				st.Pop()
				if len(onStack) > 0 {
					if o := onStack[len(onStack)-1]; o != nil {
						released = append(released, o)
					}
					onStack = onStack[:len(onStack)-1]
				}
				if len(onStack) == 0 {
					onStack = append(onStack, nil)
				}
				if pushes > 0 {
					reuse = true
				}
				ops = append(ops, "CO (PPop bytes)")
				desc = append(desc, "pop")
			default:
				kk := Pick(r.Rng, keys)
				v, ok := st.Lookup(kk)
				if ok {
					res = append(res, L(A("some"), A(fmt.Sprint(v))))
				} else {
					res = append(res, L(A("none")))
				}
				ops = append(ops, "CLook "+coqBytes(kk))
				desc = append(desc, "lookup "+kk)
			}
		}
		rel := []Obs{}
		for _, o := range released {
			sc := []Obs{}
			for _, kk := range keys {
				if v, ok := o.m[kk]; ok {
					sc = append(sc, L(A("some"), A(fmt.Sprint(v))))
				} else {
					sc = append(sc, L(A("none")))
				}
			}
			rel = append(rel, L(A(fmt.Sprint(o.id)), L(sc...)))
		}
		res = append(res, L(rel...))
		// leave the scopes of this history in the pool for the next one, as a finished render does
		for len(onStack) > 1 {
			st.Pop()
			onStack = onStack[:len(onStack)-1]
		}
		r.Case("pool-history", "{| c_ops := ["+strings.Join(ops, "; ")+"] |}", L(res...), desc, map[string]string{"stream": "pool-history"}, reuse)
	}
}

func c10RenderFuncs(src string, data map[string]any, funcs vuego.FuncMap) (string, error) {
	var buf bytes.Buffer
	var err error
	func() {
		defer func() {
			if x := recover(); x != nil {
				err = fmt.Errorf("PANIC %v", x)
			}
		}()
		err = vuego.New(vuego.WithFuncs(funcs)).Fill(data).RenderString(context.Background(), &buf, src)
	}()
	return buf.String(), err
}
