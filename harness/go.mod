module verifharness

go 1.25.5

require (
	github.com/titpetric/vuego v0.0.0
	github.com/yuin/goldmark v1.7.16
	golang.org/x/net v0.51.0
)

require (
	github.com/davecgh/go-spew v1.1.2-0.20180830191138-d8f796af33cc // indirect
	github.com/expr-lang/expr v1.17.8 // indirect
	github.com/oklog/ulid/v2 v2.1.1 // indirect
	github.com/pmezard/go-difflib v1.0.1-0.20181226105442-5d4384ee4fb2 // indirect
	github.com/stretchr/testify v1.11.1 // indirect
	github.com/titpetric/lessgo v0.1.0 // indirect
	github.com/titpetric/platform v0.2.3 // indirect
	gopkg.in/yaml.v3 v3.0.1 // indirect
)

replace github.com/titpetric/vuego => /repo
