package main

import "fmt"

func runSites(prop, out string) error {
	return fmt.Errorf("no site table for %s", prop)
}
