package main

import (
	"fmt"
	"go/ast"
	"go/importer"
	"go/types"
	"go/parser"
	"go/printer"
	"go/token"
	"os"
	"path/filepath"
	"sort"
	"strings"
)

// Translator for the finite syntactic inventories (DESIGN §4.2): parses /repo with
// go/parser and emits Coq tables under coq/Gen/.

var repoDir = func() string {
	if d := os.Getenv("VERIF_REPO"); d != "" {
		return d
	}
	return "/repo"
}()

var siteTables = map[string]func(fset *token.FileSet, files map[string]*ast.File) (string, error){}

func parseRepoPkg(dir string) (*token.FileSet, map[string]*ast.File, error) {
	fset := token.NewFileSet()
	files := map[string]*ast.File{}
	ents, err := os.ReadDir(dir)
	if err != nil {
		return nil, nil, err
	}
	for _, e := range ents {
		n := e.Name()
		if e.IsDir() || !strings.HasSuffix(n, ".go") || strings.HasSuffix(n, "_test.go") || n == "verif_export.go" {
			continue
		}
		f, err := parser.ParseFile(fset, filepath.Join(dir, n), nil, parser.ParseComments)
		if err != nil {
			return nil, nil, err
		}
		files[n] = f
	}
	return fset, files, nil
}

func runSites(prop, out string) error {
	gen, ok := siteTables[prop]
	if !ok {
		return fmt.Errorf("no site table for %s", prop)
	}
	fset, files, err := parseRepoPkg(repoDir)
	if err != nil {
		return err
	}
	body, err := gen(fset, files)
	if err != nil {
		return err
	}
	hdr := "(* GENERATED from /repo by `vharness sites " + prop + "` on every run — do not edit *)\n"
	return os.WriteFile(out, []byte(hdr+body), 0o644)
}

func nodeStr(fset *token.FileSet, n ast.Node) string {
	var sb strings.Builder
	_ = printer.Fprint(&sb, fset, n)
	s := strings.Join(strings.Fields(sb.String()), " ")
	if len(s) > 80 {
		s = s[:80]
	}
	return s
}

func sortedFileNames(files map[string]*ast.File) []string {
	var ns []string
	for n := range files {
		ns = append(ns, n)
	}
	sort.Strings(ns)
	return ns
}

func recvTypeName(fd *ast.FuncDecl) string {
	if fd.Recv == nil || len(fd.Recv.List) == 0 {
		return ""
	}
	t := fd.Recv.List[0].Type
	if st, ok := t.(*ast.StarExpr); ok {
		t = st.X
	}
	if id, ok := t.(*ast.Ident); ok {
		return id.Name
	}
	return ""
}

// ---------------- C12: uses of the destination writer in the methods of *template ----------------
func init() { siteTables["C12"] = sitesC12 }

func writerParam(fd *ast.FuncDecl) string {
	for _, p := range fd.Type.Params.List {
		if se, ok := p.Type.(*ast.SelectorExpr); ok {
			if x, ok := se.X.(*ast.Ident); ok && x.Name == "io" && se.Sel.Name == "Writer" && len(p.Names) == 1 {
				return p.Names[0].Name
			}
		}
	}
	return ""
}

func sitesC12(fset *token.FileSet, files map[string]*ast.File) (string, error) {
	type meth struct {
		name string
		fd   *ast.FuncDecl
		w    string
	}
	var ms []meth
	names := map[string]bool{}
	for _, fn := range sortedFileNames(files) {
		for _, d := range files[fn].Decls {
			fd, ok := d.(*ast.FuncDecl)
			if !ok || fd.Body == nil || recvTypeName(fd) != "template" {
				continue
			}
			if w := writerParam(fd); w != "" {
				ms = append(ms, meth{fd.Name.Name, fd, w})
				names[fd.Name.Name] = true
			}
		}
	}
	var rows []string
	for _, m := range ms {
		var uses []string
		// parent map to know the statement context of each call
		var stack []ast.Node
		handled := map[*ast.Ident]bool{}
		errKept := func() bool { // is the innermost enclosing statement one that keeps the call's error?
			for i := len(stack) - 1; i >= 0; i-- {
				switch s := stack[i].(type) {
				case *ast.ReturnStmt:
					return true
				case *ast.AssignStmt:
					for _, l := range s.Lhs {
						if id, ok := l.(*ast.Ident); ok && id.Name == "err" {
							return true
						}
					}
					return false
				case *ast.ExprStmt:
					return false
				}
			}
			return false
		}
		ast.Inspect(m.fd.Body, func(n ast.Node) bool {
			if n == nil {
				stack = stack[:len(stack)-1]
				return true
			}
			stack = append(stack, n)
			call, ok := n.(*ast.CallExpr)
			if !ok {
				return true
			}
			for ai, a := range call.Args {
				id, ok := a.(*ast.Ident)
				if !ok || id.Name != m.w {
					continue
				}
				handled[id] = true
				sel, _ := call.Fun.(*ast.SelectorExpr)
				callee := ""
				if sel != nil {
					callee = sel.Sel.Name
				}
				recv := ""
				if sel != nil {
					recv = nodeStr(fset, sel.X)
				}
				switch {
				case callee == "WriteTo" && len(call.Args) == 1 && errKept():
					uses = append(uses, "UCopyReturned")
				case callee == "Copy" && recv == "io" && ai == 0 && errKept():
					uses = append(uses, "UCopyReturned")
				case names[callee] && !strings.Contains(recv, "vue") && errKept():
					uses = append(uses, "UDelegate "+coqBytes(callee))
				default:
					uses = append(uses, "UOther "+coqBytes(nodeStr(fset, call)))
				}
			}
			return true
		})
		// any other mention of the writer parameter
		ast.Inspect(m.fd.Body, func(n ast.Node) bool {
			if id, ok := n.(*ast.Ident); ok && id.Name == m.w && !handled[id] {
				uses = append(uses, "UOther "+coqBytes("mention of "+m.w+" outside a call argument"))
			}
			return true
		})
		rows = append(rows, fmt.Sprintf("  (%s, %s, [%s])", coqBytes(m.name), coqBool(ast.IsExported(m.name)), strings.Join(uses, "; ")))
	}
	return "From V Require Import Base.Bytes Model.Entry.\nDefinition sites : list site := [\n" + strings.Join(rows, ";\n") + "\n].\n", nil
}

// ---------------- C07: the layout depth budget literal ----------------
func init() { siteTables["C07"] = sitesC07 }

func sitesC07(fset *token.FileSet, files map[string]*ast.File) (string, error) {
	val := ""
	n := 0
	for _, fn := range sortedFileNames(files) {
		for _, d := range files[fn].Decls {
			fd, ok := d.(*ast.FuncDecl)
			if !ok || fd.Body == nil || recvTypeName(fd) != "template" || fd.Name.Name != "layout" {
				continue
			}
			ast.Inspect(fd.Body, func(x ast.Node) bool {
				as, ok := x.(*ast.AssignStmt)
				if !ok || len(as.Lhs) != 1 || len(as.Rhs) != 1 {
					return true
				}
				if id, ok := as.Lhs[0].(*ast.Ident); ok && id.Name == "maxDepth" {
					if lit, ok := as.Rhs[0].(*ast.BasicLit); ok && lit.Kind == token.INT {
						val = lit.Value
						n++
					} else {
						n += 100 // not a literal: the table theorem must fail
					}
				}
				return true
			})
		}
	}
	if val == "" {
		val = "0"
	}
	return fmt.Sprintf("Definition max_depth : nat := %s.\nDefinition max_depth_sites : nat := %d.\n", val, n), nil
}

// ---------------- C14: directive names filtered at serialisation vs names the evaluator reads ----------------
func init() { siteTables["C14"] = sitesC14 }

func sitesC14(fset *token.FileSet, files map[string]*ast.File) (string, error) {
	var ignore []string
	read := map[string]bool{}
	for _, fn := range sortedFileNames(files) {
		for _, d := range files[fn].Decls {
			fd, ok := d.(*ast.FuncDecl)
			if !ok || fd.Body == nil {
				continue
			}
			if fd.Name.Name == "shouldIgnoreAttr" {
				ast.Inspect(fd.Body, func(x ast.Node) bool {
					cc, ok := x.(*ast.CaseClause)
					if !ok {
						return true
					}
					for _, e := range cc.List {
						if lit, ok := e.(*ast.BasicLit); ok && lit.Kind == token.STRING {
							ignore = append(ignore, strings.Trim(lit.Value, `"`))
						}
					}
					return true
				})
			}
			ast.Inspect(fd.Body, func(x ast.Node) bool {
				call, ok := x.(*ast.CallExpr)
				if !ok {
					return true
				}
				sel, ok := call.Fun.(*ast.SelectorExpr)
				if !ok {
					return true
				}
				if pkg, ok := sel.X.(*ast.Ident); !ok || pkg.Name != "helpers" {
					return true
				}
				switch sel.Sel.Name {
				case "HasAttr", "GetAttr", "RemoveAttr", "FilterAttrs", "SetAttr", "AppendAttr":
					for _, a := range call.Args {
						if lit, ok := a.(*ast.BasicLit); ok && lit.Kind == token.STRING {
							s := strings.Trim(lit.Value, `"`)
							if strings.HasPrefix(s, "v-") || strings.HasPrefix(s, "data-v-") {
								read[s] = true
							}
						}
					}
				}
				return true
			})
		}
	}
	var rd []string
	for k := range read {
		rd = append(rd, k)
	}
	sort.Strings(rd)
	return "From V Require Import Base.Bytes.\nDefinition ignore_list : list bytes := " + coqList(ignore, coqBytes) +
		".\nDefinition read_directives : list bytes := " + coqList(rd, coqBytes) + ".\n", nil
}

// ---------------- typed loading (go/types with the source importer; offline) ----------------
func loadTyped(dir string) (*token.FileSet, []*ast.File, *types.Info, error) {
	fset, files, err := parseRepoPkg(dir)
	if err != nil {
		return nil, nil, nil, err
	}
	var fl []*ast.File
	for _, n := range sortedFileNames(files) {
		fl = append(fl, files[n])
	}
	info := &types.Info{Types: map[ast.Expr]types.TypeAndValue{}, Uses: map[*ast.Ident]types.Object{}, Defs: map[*ast.Ident]types.Object{}}
	oldwd, _ := os.Getwd()
	_ = os.Chdir(dir)
	defer func() { _ = os.Chdir(oldwd) }()
	conf := types.Config{Importer: importer.ForCompiler(fset, "source", nil), Error: func(error) {}}
	_, _ = conf.Check("pkg", fset, fl, info)
	return fset, fl, info, nil
}

// ---------------- C10: every `range` over a map, classified by what the loop body does ----------------
func init() { siteTables["C10"] = sitesC10 }

func sitesC10(_ *token.FileSet, _ map[string]*ast.File) (string, error) {
	var rows []string
	for _, dir := range []string{repoDir, repoDir + "/internal/helpers", repoDir + "/internal/reflect", repoDir + "/internal/parser"} {
		fset, files, info, err := loadTyped(dir)
		if err != nil {
			return "", err
		}
		for _, f := range files {
			fname := filepath.Base(fset.Position(f.Pos()).Filename)
			for _, d := range f.Decls {
				fd, ok := d.(*ast.FuncDecl)
				if !ok || fd.Body == nil {
					continue
				}
				var visit func(n ast.Node, following []ast.Stmt)
				walkBlock := func(list []ast.Stmt) {
					for i, st := range list {
						visit(st, list[i+1:])
					}
				}
				visit = func(n ast.Node, following []ast.Stmt) {
					switch x := n.(type) {
					case *ast.RangeStmt:
						if tv, ok := info.Types[x.X]; ok {
							if _, isMap := tv.Type.Underlying().(*types.Map); isMap {
								rows = append(rows, fmt.Sprintf("  (%s, %s, %s, %s)", coqBytes(fname), coqBytes(fd.Name.Name), coqBytes(nodeStr(fset, x.X)), classifyRange(fset, x, following)))
							}
						}
						walkBlock(x.Body.List)
					case *ast.BlockStmt:
						walkBlock(x.List)
					case *ast.IfStmt:
						walkBlock(x.Body.List)
						if x.Else != nil {
							visit(x.Else, nil)
						}
					case *ast.ForStmt:
						walkBlock(x.Body.List)
					case *ast.SwitchStmt:
						for _, c := range x.Body.List {
							walkBlock(c.(*ast.CaseClause).Body)
						}
					case *ast.TypeSwitchStmt:
						for _, c := range x.Body.List {
							walkBlock(c.(*ast.CaseClause).Body)
						}
					case *ast.ExprStmt, *ast.AssignStmt, *ast.ReturnStmt, *ast.DeferStmt, *ast.GoStmt:
						ast.Inspect(n, func(y ast.Node) bool {
							if fl, ok := y.(*ast.FuncLit); ok {
								walkBlock(fl.Body.List)
								return false
							}
							return true
						})
					}
				}
				walkBlock(fd.Body.List)
			}
		}
	}
	sort.Strings(rows)
	// reflection-based map iteration (no range statement): MapKeys / MapRange call sites, with whether a sort follows in the function
	var refl []string
	for _, dir := range []string{repoDir, repoDir + "/internal/helpers", repoDir + "/internal/reflect"} {
		fset, files, err := parseRepoPkg(dir)
		if err != nil {
			return "", err
		}
		for _, fn := range sortedFileNames(files) {
			for _, d := range files[fn].Decls {
				fd, ok := d.(*ast.FuncDecl)
				if !ok || fd.Body == nil {
					continue
				}
				body := nodeStrFull(fset, fd.Body)
				ast.Inspect(fd.Body, func(x ast.Node) bool {
					call, ok := x.(*ast.CallExpr)
					if !ok {
						return true
					}
					if sel, ok := call.Fun.(*ast.SelectorExpr); ok && (sel.Sel.Name == "MapKeys" || sel.Sel.Name == "MapRange") {
						refl = append(refl, fmt.Sprintf("  (%s, %s, %s, %s)", coqBytes(fn), coqBytes(fd.Name.Name), coqBytes(sel.Sel.Name), coqBool(strings.Contains(body, "sort."))))
					}
					return true
				})
			}
		}
	}
	sort.Strings(refl)
	// clock / randomness reachable from the package (an output must not depend on them)
	var nondet []string
	for _, dir := range []string{repoDir, repoDir + "/internal/helpers", repoDir + "/internal/reflect", repoDir + "/internal/parser"} {
		fset, files, err := parseRepoPkg(dir)
		if err != nil {
			return "", err
		}
		for _, fn := range sortedFileNames(files) {
			ast.Inspect(files[fn], func(x ast.Node) bool {
				if sel, ok := x.(*ast.SelectorExpr); ok {
					if id, ok := sel.X.(*ast.Ident); ok && ((id.Name == "time" && sel.Sel.Name == "Now") || id.Name == "rand" || id.Name == "ulid") {
						nondet = append(nondet, fmt.Sprintf("  (%s, %s)", coqBytes(fn), coqBytes(nodeStr(fset, sel))))
					}
				}
				return true
			})
		}
	}
	sort.Strings(nondet)
	nd := "Definition nondet_calls : list (bytes * bytes) := [\n" + strings.Join(nondet, ";\n") + "\n].\n"
	return "From V Require Import Base.Bytes Model.MapOrder.\n" + nd + "Definition map_ranges : list range_site := [\n" + strings.Join(rows, ";\n") + "\n].\n" +
		"Definition reflect_iters : list (bytes * bytes * bytes * bool) := [\n" + strings.Join(refl, ";\n") + "\n].\n", nil
}

func nodeStrFull(fset *token.FileSet, n ast.Node) string {
	var sb strings.Builder
	_ = printer.Fprint(&sb, fset, n)
	return sb.String()
}

// classifyRange: RMerge  - the body only writes map[key-derived] = ..., deletes keys, or calls Set-like methods keyed by the
//                          loop key (writes to distinct keys commute);
//                RSorted - the body appends to a slice that is sorted right after the loop;
//                ROther  - anything else (the result may depend on the iteration order).
func classifyRange(fset *token.FileSet, r *ast.RangeStmt, following []ast.Stmt) string {
	keyName := ""
	if id, ok := r.Key.(*ast.Ident); ok {
		keyName = id.Name
	}
	valName := ""
	if id, ok := r.Value.(*ast.Ident); ok {
		valName = id.Name
	}
	appended := ""
	var okStmt func(s ast.Stmt) bool
	okStmt = func(s ast.Stmt) bool {
		switch x := s.(type) {
		case *ast.DeclStmt: // local temporaries
			return true
		case *ast.AssignStmt:
			perEntry := valName != "" && len(x.Lhs) > 0
			for _, l := range x.Lhs { // writes to fields of the entry's own value commute across entries
				sel, ok := l.(*ast.SelectorExpr)
				if !ok {
					perEntry = false
					break
				}
				if id, ok := sel.X.(*ast.Ident); !ok || id.Name != valName {
					perEntry = false
				}
			}
			if perEntry {
				return true
			}
			if len(x.Lhs) == 1 && len(x.Rhs) == 1 {
				if ix, ok := x.Lhs[0].(*ast.IndexExpr); ok { // m[k] = v
					_ = ix
					return true
				}
				if call, ok := x.Rhs[0].(*ast.CallExpr); ok {
					if fn, ok := call.Fun.(*ast.Ident); ok && fn.Name == "append" && len(call.Args) >= 1 {
						appended = nodeStr(fset, call.Args[0])
						return nodeStr(fset, x.Lhs[0]) == appended
					}
				}
				if x.Tok == token.DEFINE { // local temporaries
					return true
				}
			}
			return false
		case *ast.ExprStmt:
			call, ok := x.X.(*ast.CallExpr)
			if !ok {
				return false
			}
			if fn, ok := call.Fun.(*ast.Ident); ok && fn.Name == "delete" {
				return true
			}
			if sel, ok := call.Fun.(*ast.SelectorExpr); ok {
				switch sel.Sel.Name {
				case "Set", "SetSlot", "Assign", "RegisterFunc": // keyed writes
					if len(call.Args) >= 1 {
						if id, ok := call.Args[0].(*ast.Ident); ok && id.Name == keyName {
							return true
						}
					}
				}
			}
			return false
		case *ast.IfStmt:
			for _, b := range x.Body.List {
				if !okStmt(b) {
					return false
				}
			}
			if x.Else != nil {
				if blk, ok := x.Else.(*ast.BlockStmt); ok {
					for _, b := range blk.List {
						if !okStmt(b) {
							return false
						}
					}
				} else {
					return false
				}
			}
			return true
		case *ast.BranchStmt:
			return x.Tok == token.CONTINUE
		}
		return false
	}
	for _, s := range r.Body.List {
		if !okStmt(s) {
			return "(ROther " + coqBytes(nodeStr(fset, s)) + ")"
		}
	}
	if appended == "" {
		return "RMerge"
	}
	// an appending loop is fine only when the slice is sorted before it is used
	for _, s := range following {
		str := nodeStr(fset, s)
		if strings.HasPrefix(str, "sort.") && strings.Contains(str, appended) {
			return "RSorted"
		}
		break
	}
	return "(ROther " + coqBytes("append to "+appended+" without a sort") + ")"
}
