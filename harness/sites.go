package main

import (
	"fmt"
	"go/ast"
	"go/parser"
	"go/printer"
	"go/token"
	"os"
	"path/filepath"
	"sort"
	"strings"
)

// Translator for the finite syntactic inventories (DESIGN §4.2): parses /repo with
// go/parser and emits Coq tables under coq/Gen/.

const repoDir = "/repo"

var siteTables = map[string]func(fset *token.FileSet, files map[string]*ast.File) (string, error){}

func parseRepoPkg(dir string) (*token.FileSet, map[string]*ast.File, error) {
	fset := token.NewFileSet()
	files := map[string]*ast.File{}
	ents, err := os.ReadDir(dir)
	if err != nil {
		return nil, nil, err
	}
	for _, e := range ents {
		n := e.Name()
		if e.IsDir() || !strings.HasSuffix(n, ".go") || strings.HasSuffix(n, "_test.go") || n == "verif_export.go" {
			continue
		}
		f, err := parser.ParseFile(fset, filepath.Join(dir, n), nil, parser.ParseComments)
		if err != nil {
			return nil, nil, err
		}
		files[n] = f
	}
	return fset, files, nil
}

func runSites(prop, out string) error {
	gen, ok := siteTables[prop]
	if !ok {
		return fmt.Errorf("no site table for %s", prop)
	}
	fset, files, err := parseRepoPkg(repoDir)
	if err != nil {
		return err
	}
	body, err := gen(fset, files)
	if err != nil {
		return err
	}
	hdr := "(* GENERATED from /repo by `vharness sites " + prop + "` on every run — do not edit *)\n"
	return os.WriteFile(out, []byte(hdr+body), 0o644)
}

func nodeStr(fset *token.FileSet, n ast.Node) string {
	var sb strings.Builder
	_ = printer.Fprint(&sb, fset, n)
	s := strings.Join(strings.Fields(sb.String()), " ")
	if len(s) > 80 {
		s = s[:80]
	}
	return s
}

func sortedFileNames(files map[string]*ast.File) []string {
	var ns []string
	for n := range files {
		ns = append(ns, n)
	}
	sort.Strings(ns)
	return ns
}

func recvTypeName(fd *ast.FuncDecl) string {
	if fd.Recv == nil || len(fd.Recv.List) == 0 {
		return ""
	}
	t := fd.Recv.List[0].Type
	if st, ok := t.(*ast.StarExpr); ok {
		t = st.X
	}
	if id, ok := t.(*ast.Ident); ok {
		return id.Name
	}
	return ""
}

// ---------------- C12: uses of the destination writer in the methods of *template ----------------
func init() { siteTables["C12"] = sitesC12 }

func writerParam(fd *ast.FuncDecl) string {
	for _, p := range fd.Type.Params.List {
		if se, ok := p.Type.(*ast.SelectorExpr); ok {
			if x, ok := se.X.(*ast.Ident); ok && x.Name == "io" && se.Sel.Name == "Writer" && len(p.Names) == 1 {
				return p.Names[0].Name
			}
		}
	}
	return ""
}

func sitesC12(fset *token.FileSet, files map[string]*ast.File) (string, error) {
	type meth struct {
		name string
		fd   *ast.FuncDecl
		w    string
	}
	var ms []meth
	names := map[string]bool{}
	for _, fn := range sortedFileNames(files) {
		for _, d := range files[fn].Decls {
			fd, ok := d.(*ast.FuncDecl)
			if !ok || fd.Body == nil || recvTypeName(fd) != "template" {
				continue
			}
			if w := writerParam(fd); w != "" {
				ms = append(ms, meth{fd.Name.Name, fd, w})
				names[fd.Name.Name] = true
			}
		}
	}
	var rows []string
	for _, m := range ms {
		var uses []string
		// parent map to know the statement context of each call
		var stack []ast.Node
		handled := map[*ast.Ident]bool{}
		errKept := func() bool { // is the innermost enclosing statement one that keeps the call's error?
			for i := len(stack) - 1; i >= 0; i-- {
				switch s := stack[i].(type) {
				case *ast.ReturnStmt:
					return true
				case *ast.AssignStmt:
					for _, l := range s.Lhs {
						if id, ok := l.(*ast.Ident); ok && id.Name == "err" {
							return true
						}
					}
					return false
				case *ast.ExprStmt:
					return false
				}
			}
			return false
		}
		ast.Inspect(m.fd.Body, func(n ast.Node) bool {
			if n == nil {
				stack = stack[:len(stack)-1]
				return true
			}
			stack = append(stack, n)
			call, ok := n.(*ast.CallExpr)
			if !ok {
				return true
			}
			for ai, a := range call.Args {
				id, ok := a.(*ast.Ident)
				if !ok || id.Name != m.w {
					continue
				}
				handled[id] = true
				sel, _ := call.Fun.(*ast.SelectorExpr)
				callee := ""
				if sel != nil {
					callee = sel.Sel.Name
				}
				recv := ""
				if sel != nil {
					recv = nodeStr(fset, sel.X)
				}
				switch {
				case callee == "WriteTo" && len(call.Args) == 1 && errKept():
					uses = append(uses, "UCopyReturned")
				case callee == "Copy" && recv == "io" && ai == 0 && errKept():
					uses = append(uses, "UCopyReturned")
				case names[callee] && !strings.Contains(recv, "vue") && errKept():
					uses = append(uses, "UDelegate "+coqBytes(callee))
				default:
					uses = append(uses, "UOther "+coqBytes(nodeStr(fset, call)))
				}
			}
			return true
		})
		// any other mention of the writer parameter
		ast.Inspect(m.fd.Body, func(n ast.Node) bool {
			if id, ok := n.(*ast.Ident); ok && id.Name == m.w && !handled[id] {
				uses = append(uses, "UOther "+coqBytes("mention of "+m.w+" outside a call argument"))
			}
			return true
		})
		rows = append(rows, fmt.Sprintf("  (%s, %s, [%s])", coqBytes(m.name), coqBool(ast.IsExported(m.name)), strings.Join(uses, "; ")))
	}
	return "From V Require Import Base.Bytes Model.Entry.\nDefinition sites : list site := [\n" + strings.Join(rows, ";\n") + "\n].\n", nil
}

// ---------------- C07: the layout depth budget literal ----------------
func init() { siteTables["C07"] = sitesC07 }

func sitesC07(fset *token.FileSet, files map[string]*ast.File) (string, error) {
	val := ""
	n := 0
	for _, fn := range sortedFileNames(files) {
		for _, d := range files[fn].Decls {
			fd, ok := d.(*ast.FuncDecl)
			if !ok || fd.Body == nil || recvTypeName(fd) != "template" || fd.Name.Name != "layout" {
				continue
			}
			ast.Inspect(fd.Body, func(x ast.Node) bool {
				as, ok := x.(*ast.AssignStmt)
				if !ok || len(as.Lhs) != 1 || len(as.Rhs) != 1 {
					return true
				}
				if id, ok := as.Lhs[0].(*ast.Ident); ok && id.Name == "maxDepth" {
					if lit, ok := as.Rhs[0].(*ast.BasicLit); ok && lit.Kind == token.INT {
						val = lit.Value
						n++
					} else {
						n += 100 // not a literal: the table theorem must fail
					}
				}
				return true
			})
		}
	}
	if val == "" {
		val = "0"
	}
	return fmt.Sprintf("Definition max_depth : nat := %s.\nDefinition max_depth_sites : nat := %d.\n", val, n), nil
}

// ---------------- C14: directive names filtered at serialisation vs names the evaluator reads ----------------
func init() { siteTables["C14"] = sitesC14 }

func sitesC14(fset *token.FileSet, files map[string]*ast.File) (string, error) {
	var ignore []string
	read := map[string]bool{}
	for _, fn := range sortedFileNames(files) {
		for _, d := range files[fn].Decls {
			fd, ok := d.(*ast.FuncDecl)
			if !ok || fd.Body == nil {
				continue
			}
			if fd.Name.Name == "shouldIgnoreAttr" {
				ast.Inspect(fd.Body, func(x ast.Node) bool {
					cc, ok := x.(*ast.CaseClause)
					if !ok {
						return true
					}
					for _, e := range cc.List {
						if lit, ok := e.(*ast.BasicLit); ok && lit.Kind == token.STRING {
							ignore = append(ignore, strings.Trim(lit.Value, `"`))
						}
					}
					return true
				})
			}
			ast.Inspect(fd.Body, func(x ast.Node) bool {
				call, ok := x.(*ast.CallExpr)
				if !ok {
					return true
				}
				sel, ok := call.Fun.(*ast.SelectorExpr)
				if !ok {
					return true
				}
				if pkg, ok := sel.X.(*ast.Ident); !ok || pkg.Name != "helpers" {
					return true
				}
				switch sel.Sel.Name {
				case "HasAttr", "GetAttr", "RemoveAttr", "FilterAttrs", "SetAttr", "AppendAttr":
					for _, a := range call.Args {
						if lit, ok := a.(*ast.BasicLit); ok && lit.Kind == token.STRING {
							s := strings.Trim(lit.Value, `"`)
							if strings.HasPrefix(s, "v-") || strings.HasPrefix(s, "data-v-") {
								read[s] = true
							}
						}
					}
				}
				return true
			})
		}
	}
	var rd []string
	for k := range read {
		rd = append(rd, k)
	}
	sort.Strings(rd)
	return "From V Require Import Base.Bytes.\nDefinition ignore_list : list bytes := " + coqList(ignore, coqBytes) +
		".\nDefinition read_directives : list bytes := " + coqList(rd, coqBytes) + ".\n", nil
}
