package main

import (
	"bytes"
	"context"
	"fmt"
	"regexp"
	"sort"
	"strings"
	"testing/fstest"
	"time"

	"github.com/titpetric/vuego"
)

// C06: slots. Components with default / named slots (fallback, scoped props, inside loops);
// includers supplying every subset in the three syntaxes with dynamic content; instances side by
// side; pass-through of an outer slot into an inner component.

type c06Supply struct {
	name   string // default, a, b
	form   string // plain (children), vslot (v-slot:name), hash (#name)
	scoped string // "", "sp" (whole props under a name), "{ item }" destructured
	body   []*c06Tpl
	vanish bool // the content is supplied but evaluates to nothing (an element whose condition is false)
}
type c06Tpl struct {
	kind     string // print slot for include
	id       int
	views    []c04View
	name     string // slot name
	sprops   [][2]string
	fallback []*c06Tpl
	loopVar  string
	coll     string
	wrap     string // for: how the loop is written - "" <div v-for>, "template" <template v-for>, "slot" the v-for on the <slot> tag itself
	body     []*c06Tpl
	file     string
	props    []c05Prop
	supplied []c06Supply
	cond     int // include: 0 unconditional, 1 chosen by a true v-if, 2 chosen as the v-else of a false v-if, 3 by a true v-else-if
}

func c06Coq(ts []*c06Tpl) string {
	if len(ts) == 0 {
		return "SNil"
	}
	t, next := ts[0], c06Coq(ts[1:])
	switch t.kind {
	case "print":
		return fmt.Sprintf("(SPrint %d %s %s)", t.id, coqList(t.views, func(v c04View) string {
			return map[string]string{"text": "VText ", "attr": "VAttr "}[v.kind] + coqBytes(v.path)
		}), next)
	case "slot":
		ps := coqList(t.sprops, func(p [2]string) string { return "(" + coqBytes(p[0]) + ", " + coqBytes(p[1]) + ")" })
		return fmt.Sprintf("(SSlot %s %s %s %s)", coqBytes(t.name), ps, c06Coq(t.fallback), next)
	case "for":
		return fmt.Sprintf("(SFor %s %s %s %s)", coqBytes(t.loopVar), coqBytes(t.coll), c06Coq(t.body), next)
	}
	sup := coqList(t.supplied, func(s c06Supply) string {
		sc := "ScNone"
		switch {
		case strings.HasPrefix(s.scoped, "{"):
			var names []string
			for _, n := range strings.Split(strings.Trim(s.scoped, "{} "), ",") {
				names = append(names, strings.TrimSpace(n))
			}
			sc = "(ScDestr " + coqList(names, coqBytes) + ")"
		case s.scoped != "":
			sc = "(ScVar " + coqBytes(s.scoped) + ")"
		}
		return fmt.Sprintf("(%s, %s, %s)", coqBytes(s.name), sc, c06Coq(s.body))
	})
	return fmt.Sprintf("(SInclude %s %s %s %s)", coqBytes(t.file), c05PropsCoq(t.props), sup, next)
}
func c06Src(ts []*c06Tpl) string {
	var sb strings.Builder
	for _, t := range ts {
		switch t.kind {
		case "print":
			sb.WriteString(c04Src([]*c04Tpl{{kind: "print", id: t.id, views: t.views}}))
		case "slot":
			attrs := ""
			if t.name != "default" {
				attrs += fmt.Sprintf(` name="%s"`, t.name)
			}
			for _, p := range t.sprops {
				attrs += fmt.Sprintf(` :%s="%s"`, p[0], p[1])
			}
			fmt.Fprintf(&sb, "<slot%s>%s</slot>", attrs, c06Src(t.fallback))
		case "for":
			switch {
			case t.wrap == "slot" && len(t.body) == 1 && t.body[0].kind == "slot":
				inner := c06Src(t.body) // <slot ...>fallback</slot>
				fmt.Fprintf(&sb, `<slot v-for="%s in %s"%s`, t.loopVar, t.coll, strings.TrimPrefix(inner, "<slot"))
			case t.wrap == "template":
				fmt.Fprintf(&sb, `<template v-for="%s in %s">%s</template>`, t.loopVar, t.coll, c06Src(t.body))
			default:
				fmt.Fprintf(&sb, `<div v-for="%s in %s">%s</div>`, t.loopVar, t.coll, c06Src(t.body))
			}
		case "include":
			attrs := ""
			for _, p := range t.props {
				switch p.kind {
				case "static":
					attrs += fmt.Sprintf(` %s="%s"`, p.name, p.text)
				default:
					attrs += fmt.Sprintf(` :%s="%s"`, p.name, p.path)
				}
			}
			switch t.cond { // a condition that holds changes nothing: the include is the chosen branch
			case 1:
				attrs += ` v-if="1 == 1"`
			case 2:
				sb.WriteString(`<p v-if="1 == 2">no</p>`)
				attrs += ` v-else`
			case 3:
				sb.WriteString(`<p v-if="1 == 2">no</p>`)
				attrs += ` v-else-if="2 == 2"`
			}
			fmt.Fprintf(&sb, `<template include="%s"%s>`, t.file, attrs)
			for _, s := range t.supplied {
				never := ""
				if s.vanish {
					never = `<i v-if="1 == 2">never</i>`
				}
				val := ""
				if s.scoped != "" {
					val = fmt.Sprintf(`="%s"`, s.scoped)
				}
				switch s.form {
				case "plain":
					sb.WriteString(c06Src(s.body) + never)
				case "vslot":
					if s.name == "default" && val == "" {
						fmt.Fprintf(&sb, "<template v-slot>%s</template>", c06Src(s.body)+never)
					} else {
						fmt.Fprintf(&sb, "<template v-slot:%s%s>%s</template>", s.name, val, c06Src(s.body)+never)
					}
				case "hash":
					fmt.Fprintf(&sb, "<template #%s%s>%s</template>", s.name, val, c06Src(s.body)+never)
				}
			}
			sb.WriteString("</template>")
		}
	}
	return sb.String()
}

type c06Gen struct {
	r      *Rng
	nextID int
	views  map[int][]c04View
}

func (g *c06Gen) print(names ...string) *c06Tpl {
	g.nextID++
	t := &c06Tpl{kind: "print", id: g.nextID}
	for _, n := range names {
		t.views = append(t.views, c04View{kind: "text", path: n})
	}
	g.views[t.id] = t.views
	return t
}

// what a piece of supplied content prints: includer variables, names a component may define, slot props
var c06Watch = []string{"who", "p", "it", "item", "sp.item", "k", "sp.k", "inner"}

func (g *c06Gen) watch() *c06Tpl {
	var ns []string
	for _, n := range c06Watch {
		if g.r.Intn(3) != 0 {
			ns = append(ns, n)
		}
	}
	if len(ns) == 0 {
		ns = []string{"who"}
	}
	return g.print(ns...)
}
func (g *c06Gen) slot(name string) *c06Tpl {
	t := &c06Tpl{kind: "slot", name: name}
	if g.r.Bool() {
		t.sprops = append(t.sprops, [2]string{"item", Pick(g.r, []string{"it", "p", "who"})})
	}
	if g.r.Intn(3) == 0 {
		t.sprops = append(t.sprops, [2]string{"k", Pick(g.r, []string{"p", "zz"})})
	}
	if g.r.Bool() {
		t.fallback = []*c06Tpl{g.watch()}
	}
	return t
}
func (g *c06Gen) supplies(depth int, files []string) []c06Supply {
	var out []c06Supply
	for _, n := range []string{"default", "a", "b"} {
		if g.r.Intn(2) == 0 {
			continue
		}
		s := c06Supply{name: n}
		if n == "default" {
			s.form = Pick(g.r, []string{"plain", "plain", "vslot", "hash"})
		} else {
			s.form = Pick(g.r, []string{"vslot", "hash"})
		}
		if s.form != "plain" && !(s.form == "vslot" && n == "default") {
			s.scoped = Pick(g.r, []string{"", "", "sp", "{ item }", "{ item, k }"})
		}
		s.body = []*c06Tpl{g.watch()}
		if g.r.Intn(6) == 0 { // supplied, and nothing comes of it: the slot shows nothing, not its fallback
			s.body, s.vanish = nil, true
			out = append(out, s)
			continue
		}
		if depth > 0 && g.r.Intn(3) == 0 {
			s.body = append(s.body, g.include(depth-1, files))
		}
		if g.r.Intn(4) == 0 {
			s.body = append(s.body, g.watch())
		}
		out = append(out, s)
	}
	return out
}
func (g *c06Gen) include(depth int, files []string) *c06Tpl {
	t := &c06Tpl{kind: "include", file: Pick(g.r, files)}
	if g.r.Bool() {
		t.props = append(t.props, c05Prop{name: "p", kind: "static", text: fmt.Sprintf("prop%d", g.r.Intn(3))})
	}
	if g.r.Intn(3) == 0 {
		t.props = append(t.props, c05Prop{name: "who", kind: "static", text: "shadowed-who"})
	}
	t.supplied = g.supplies(depth, files)
	if g.r.Intn(4) == 0 {
		t.cond = 1 + g.r.Intn(3)
	}
	return t
}

func init() { streams["C06"] = runC06 }

// a <slot> written inside content that a template supplies to a component belongs to that template: at top level
// (a page, a string template, a layout) nothing was supplied to it, so it shows its own fallback - also when the same
// include tag supplies a slot of that name to the component; inside a component it shows what that component was given
func c06SlotInSuppliedContent(r *Run) {
	m := fstest.MapFS{
		"panel.vuego": &fstest.MapFile{Data: []byte(`<section><h2><slot name="title">no-title</slot></h2><div><slot>no-body</slot></div><footer><slot name="footer">no-footer</slot></footer></section>`)},
		"page.vuego":  &fstest.MapFile{Data: []byte(`<template include="panel.vuego"><template #title><b>{{ heading }}</b></template><template #footer><i><slot name="title">Untitled page</slot></i></template><p><slot name="footer">page-fallback</slot></p></template>`)},
		"site.vuego":  &fstest.MapFile{Data: []byte(`<template include="wrap.vuego"><template #title><u>site-title</u></template></template>`)},
		"wrap.vuego":  &fstest.MapFile{Data: []byte(`<template include="panel.vuego"><template #title><b>inner</b></template><template #footer><i><slot name="title">wrap-fallback</slot></i></template></template>`)},
	}
	norm := func(s string) string { return strings.Join(strings.Fields(s), "") }
	wantPage := norm(`<section><h2><b>Inbox</b></h2><div><p>page-fallback</p></div><footer><i>Untitled page</i></footer></section>`)
	wantSite := norm(`<section><h2><b>inner</b></h2><div>no-body</div><footer><i><u>site-title</u></i></footer></section>`)
	// slot props given as literals (booleans, numbers, strings) arrive like any other value
	m["lit.vuego"] = &fstest.MapFile{Data: []byte(`<div v-for="x in two"><slot :open="true" :locked="false" :n="3" :s="'str'" :x="x">fb</slot></div><slot name="foot" :open="false" :on="true"></slot>`)}
	m["litpage.vuego"] = &fstest.MapFile{Data: []byte(`<template include="lit.vuego"><template #default="{ open, locked, n, s, x }"><b v-if="open">open</b><b v-else>closed</b>[{{ open }}|{{ locked }}|{{ n }}|{{ s }}|{{ x }}]</template><template v-slot:foot="p"><i v-if="p.open">o</i><i v-else>c</i>{{ p.on }}</template></template>`)}
	wantLit := norm(`<div><b>open</b>[true|false|3|str|1]</div><div><b>open</b>[true|false|3|str|2]</div><i>c</i>true`)
	for _, c := range []struct{ name, entry, file, want string }{
		{"literal-slot-props", "render", "litpage.vuego", wantLit}, {"literal-slot-props-load", "load", "litpage.vuego", wantLit},
		{"top-level-file", "render", "page.vuego", wantPage}, {"top-level-load", "load", "page.vuego", wantPage}, {"top-level-string", "string", "page.vuego", wantPage},
		{"forwarded-by-a-component", "render", "site.vuego", wantSite}, {"forwarded-by-a-component-load", "load", "site.vuego", wantSite},
	} {
		out, err := miniRenderEntry(m, c.entry, c.file, map[string]any{"heading": "Inbox", "two": []any{1, 2}, "open": "includer-value"})
		r.Eval("slot-in-supplied-content:"+c.name, true, nil)
		r.Count("stream:slot-in-supplied-content(oracle only)")
		if got := norm(out); err != nil || got != norm(c.want) {
			r.Fail("a slot inside supplied content is not filled by (only) what its own template was given", map[string]string{"oracle": "slot-in-supplied-content", "case": c.name},
				map[string]any{"files": map[string]string{"panel.vuego": string(m["panel.vuego"].Data), c.file: string(m[c.file].Data), "wrap.vuego": string(m["wrap.vuego"].Data), "lit.vuego": string(m["lit.vuego"].Data)}, "output": got, "expected": c.want, "err": fmt.Sprint(err)})
		}
	}
}

// render one file of a file system through an entry point, with a time limit
func miniRenderEntry(m fstest.MapFS, entry, file string, data map[string]any) (string, error) {
	type res struct {
		out string
		err error
	}
	ch := make(chan res, 1)
	go func() {
		var buf bytes.Buffer
		var err error
		defer func() {
			if x := recover(); x != nil {
				err = fmt.Errorf("PANIC %v", x)
			}
			ch <- res{buf.String(), err}
		}()
		switch entry {
		case "render":
			err = vuego.NewVue(m).Render(&buf, file, data)
		case "load":
			err = vuego.NewFS(m).Fill(data).Load(file).Render(context.Background(), &buf)
		default:
			err = vuego.NewFS(m).Fill(data).RenderString(context.Background(), &buf, string(m[file].Data))
		}
	}()
	select {
	case x := <-ch:
		return x.out, x.err
	case <-time.After(4 * time.Second):
		return "", fmt.Errorf("TIMEOUT")
	}
}

// one supplied slot content filled several times with different slot props (a slot inside v-for, a slot
// used twice): every fill shows the content evaluated with ITS props, whatever the content is made of -
// interpolation, <template v-html>, <p v-html>, <template v-if>, a nested include (direct oracle)
func c06PerFill(r *Run) {
	files := map[string]string{
		"list.vuego": `<ul><li v-for="item in items"><slot :item="item">fb</slot></li></ul>`,
		"two.vuego":  `<header><slot :item="items[0]">fb</slot></header><footer><slot :item="items[1]">fb</slot></footer>`,
		"leaf.vuego": `<em>{{ t }}</em>`,
	}
	contents := []struct{ src, want string }{
		{`<template v-slot="{ item }"><b>{{ item.title }}</b><template v-html="item.body"></template></template>`, `<b>T%d</b><i>B%d</i>`},
		{`<template v-slot="p"><p v-html="p.item.body"></p></template>`, `<p><i>B%d</i></p>`},
		{`<template v-slot="{ item }"><template v-if="item.flag"><u>{{ item.title }}</u></template><template v-else><s>{{ item.title }}</s></template></template>`, `%s`},
		{`<template v-slot="{ item }"><template include="leaf.vuego" :t="item.title"></template></template>`, `<em>T%d</em>`},
		{`<template v-slot="{ item }"><span v-text="item.title"></span><template v-html="item.body"></template><template v-html="item.body"></template></template>`, `<span>T%d</span><i>B%d</i><i>B%d</i>`},
	}
	data := map[string]any{"items": []any{
		map[string]any{"title": "T1", "body": "<i>B1</i>", "flag": true},
		map[string]any{"title": "T2", "body": "<i>B2</i>", "flag": false},
		map[string]any{"title": "T3", "body": "<i>B3</i>", "flag": true}}}
	for ci, c := range contents {
		for _, comp := range []string{"list.vuego", "two.vuego"} {
			n := 3
			if comp == "two.vuego" {
				n = 2
			}
			var want strings.Builder
			for i := 1; i <= n; i++ {
				open, close_ := "<li>", "</li>"
				if comp == "two.vuego" {
					open, close_ = []string{"<header>", "<footer>"}[i-1], []string{"</header>", "</footer>"}[i-1]
				}
				piece := strings.ReplaceAll(c.want, "%d", fmt.Sprint(i))
				if c.want == "%s" {
					piece = map[bool]string{true: "<u>T" + fmt.Sprint(i) + "</u>", false: "<s>T" + fmt.Sprint(i) + "</s>"}[i != 2]
				}
				want.WriteString(open + piece + close_)
			}
			w := want.String()
			if comp == "list.vuego" {
				w = "<ul>" + w + "</ul>"
			}
			m := fstest.MapFS{}
			for k, v := range files {
				m[k] = &fstest.MapFile{Data: []byte(v)}
			}
			src := `<template include="` + comp + `">` + c.src + `</template>`
			var buf bytes.Buffer
			var err error
			func() {
				defer func() {
					if x := recover(); x != nil {
						err = fmt.Errorf("PANIC %v", x)
					}
				}()
				err = vuego.NewFS(m).Fill(data).RenderString(context.Background(), &limitWriter{w: &buf, max: 1 << 20}, src)
			}()
			got := strings.Join(strings.Fields(buf.String()), "")
			r.Eval(fmt.Sprintf("per-fill:%d:%s", ci, comp), true, nil)
			r.Count("stream:per-fill(oracle only)")
			if err != nil || got != w {
				r.Fail("a slot filled several times does not show the supplied content evaluated with each fill's own props", map[string]string{"oracle": "per-fill", "content": fmt.Sprint(ci), "component": comp},
					map[string]any{"template": src, "files": files, "output": buf.String(), "expected": w, "err": fmt.Sprint(err)})
			}
		}
	}
}

func runC06(r *Run) {
	c06SlotInSuppliedContent(r)
	c06PerFill(r)
	c06ContentState(r)
	r.Imports = []string{"Base.Val", "Model.Stack", "Model.Loops", "Model.Include", "Model.Slots"}
	r.Rule("components with default / named slots a, b (with and without fallback, binding props item / k, inside v-for (on a parent element, on a <template> and on the <slot> tag itself), nested inside another component that forwards an outer slot); includers supplying every subset of the slots " +
		"as plain children, <template v-slot:name>, <template #name>, with the props under a declared name or destructured; supplied content is dynamic (prints includer variables, names the component defines, slot props) and may include further components; " +
		"several instances side by side; non-trivial: content supplied, or >= 2 instances, or a slot in a loop")
	r.Assume("one supply per slot name on an include tag; slot prop expressions are plain paths; text values contain no HTML-special characters")
	rr := r.Rng
	n := 1500
	if r.Thorough() {
		n = 30000
	}
	files := []string{"box.vuego", "list.vuego", "wrap.vuego"}
	for c := 0; c < n; c++ {
		g := &c06Gen{r: rr, views: map[int][]c04View{}}
		// box: default slot + named a, b
		box := []*c06Tpl{g.print("p", "who"), g.slot("default"), g.slot("a"), g.print("p")}
		if rr.Bool() {
			box = append(box, g.slot("b"))
		}
		// list: a slot inside a loop, filled once per item with that item's props
		lst := []*c06Tpl{{kind: "for", loopVar: "it", coll: "xs", wrap: Pick(rr, []string{"", "", "template"}), body: []*c06Tpl{g.print("it"), g.slot(Pick(rr, []string{"default", "a"}))}}, g.slot("b")}
		if rr.Intn(3) == 0 { // the loop written on the <slot> tag itself: one fill (or fallback) per item, with that item's props
			lst = append(lst, &c06Tpl{kind: "for", loopVar: "it", coll: "xs", wrap: "slot", body: []*c06Tpl{g.slot(Pick(rr, []string{"default", "a", "b"}))}})
		}
		// wrap: includes box and forwards its own slots into it explicitly
		inner := &c06Tpl{kind: "include", file: "box.vuego", props: []c05Prop{{name: "p", kind: "static", text: "from-wrap"}, {name: "inner", kind: "static", text: "wrap-inner"}}}
		if rr.Bool() {
			inner.supplied = append(inner.supplied, c06Supply{name: "default", form: "plain", body: []*c06Tpl{g.print("p", "inner"), {kind: "slot", name: "default", fallback: []*c06Tpl{g.print("who")}}}})
		}
		if rr.Bool() {
			inner.supplied = append(inner.supplied, c06Supply{name: "a", form: Pick(rr, []string{"vslot", "hash"}), body: []*c06Tpl{{kind: "slot", name: "a"}, g.watch()}})
		}
		wrap := []*c06Tpl{g.print("p"), inner, g.slot("b")}
		comps := map[string][]*c06Tpl{"box.vuego": box, "list.vuego": lst, "wrap.vuego": wrap}
		var page []*c06Tpl
		page = append(page, g.watch())
		k := 1 + rr.Intn(3)
		for i := 0; i < k; i++ {
			page = append(page, g.include(1, files), g.watch())
		}
		data := VMap(KV{K: "who", V: VStr("outer-who")}, KV{K: "xs", V: VList("", VStr("x0"), VStr("x1"))}, KV{K: "it", V: VStr("outer-it")}).Normalize()
		mfs := fstest.MapFS{}
		srcs := map[string]string{}
		var names []string
		for f, b := range comps {
			srcs[f] = c06Src(b)
			mfs[f] = &fstest.MapFile{Data: []byte(srcs[f])}
			names = append(names, f)
		}
		sort.Strings(names)
		pageSrc := c06Src(page)
		srcs["(page)"] = pageSrc
		outc := make(chan [2]string, 1)
		go func() { // the unrepaired tree can loop forever on shared slot nodes: bound the run
			var buf bytes.Buffer
			var err error
			func() {
				defer func() {
					if x := recover(); x != nil {
						err = fmt.Errorf("PANIC %v", x)
					}
				}()
				err = vuego.NewFS(mfs).Fill(data.Go()).RenderString(context.Background(), &limitWriter{w: &buf, max: 1 << 20}, pageSrc)
			}()
			e := ""
			if err != nil {
				e = err.Error()
			}
			outc <- [2]string{buf.String(), e}
		}()
		var res [2]string
		select {
		case res = <-outc:
		case <-time.After(4 * time.Second):
			r.Fail("render did not return within 4 s (unbounded evaluation or output)", map[string]string{"oracle": "terminates"}, map[string]any{"files": srcs})
			r.Count("timeout")
			r.Eval("timeout:"+pageSrc, true, map[string]any{"files": srcs, "outcome": "timeout"})
			return // the stuck goroutine keeps allocating: stop the stream here
		}
		var obs Obs
		if res[1] != "" {
			obs = L(A("err"), A("other"), A(res[1]))
		} else {
			obs = L(append([]Obs{A("ok")}, c04Project(res[0], g.views)...)...)
		}
		coq := fmt.Sprintf("{| c_world := %s; c_data := %s; c_page := %s |}",
			coqList(names, func(f string) string { return "(" + coqBytes(f) + ", SC [] " + c06Coq(comps[f]) + ")" }), data.Coq(), c06Coq(page))
		nontrivial := strings.Contains(pageSrc, "v-slot") || strings.Contains(pageSrc, "#") || strings.Count(pageSrc, "include=") >= 2 || strings.Contains(pageSrc, "list.vuego")
		r.Count(fmt.Sprintf("instances:%d", strings.Count(pageSrc, "include=")))
		r.Case("slots", coq, obs, map[string]any{"files": srcs}, map[string]string{}, nontrivial)
	}
}

type limitWriter struct {
	w   *bytes.Buffer
	max int
}

func (l *limitWriter) Write(p []byte) (int, error) {
	if l.w.Len()+len(p) > l.max {
		return 0, fmt.Errorf("output exceeds %d bytes", l.max)
	}
	return l.w.Write(p)
}

// supplied content holding elements with static attributes next to v-show / v-text / v-html / :class, shown once per
// item (a slot in a loop, a component instantiated by v-for on the include tag, a slot used twice): what one use
// makes of such an element (display:none, a class) stays with that use; every use equals the same item shown alone
func c06ContentState(r *Run) {
	files := map[string]string{
		"list.vuego": `<ul><li v-for="item in items"><slot :item="item">fb</slot></li></ul>`,
		"card.vuego": `<section><slot :item="item">fb</slot></section>`,
		"two.vuego":  `<header><slot :item="items[0]">fb</slot></header><footer><slot :item="items[1]">fb</slot></footer>`,
	}
	contents := []string{
		`<template v-slot="p"><b style="color:red" v-show="p.item.visible" v-text="p.item.name">old</b></template>`,
		`<template v-slot="{ item }"><div><i style="x:y" class="k" :class="{hot: item.visible}" v-show="item.visible" v-html="item.name"></i></div></template>`,
	}
	pages := map[string]string{
		"slot-in-loop":     `<template include="list.vuego" :items="items">CONTENT</template>`,
		"instances-by-for": `<template include="card.vuego" v-for="item in items" :item="item">CONTENT</template>`,
		"slot-used-twice":  `<template include="two.vuego" :items="items">CONTENT</template>`,
	}
	masks := [][]bool{{false, true}, {true, false, true}, {false, false, true}}
	for pn, page := range pages {
		for ci, content := range contents {
			for _, mask := range masks {
				if pn == "slot-used-twice" && len(mask) != 2 {
					continue
				}
				m := fstest.MapFS{}
				for k, v := range files {
					m[k] = &fstest.MapFile{Data: []byte(v)}
				}
				src := strings.Replace(page, "CONTENT", content, 1)
				m["page.vuego"] = &fstest.MapFile{Data: []byte(src)}
				var items []any
				for i, on := range mask {
					items = append(items, map[string]any{"visible": on, "name": fmt.Sprintf("n%d", i)})
				}
				norm := func(s string) string { return strings.Join(strings.Fields(s), "") }
				out, err := miniRenderEntry(m, "render", "page.vuego", map[string]any{"items": items})
				got := norm(out)
				// every item's element as it is written when that item is the only one
				ok := err == nil
				for i := range mask {
					alone, _ := miniRenderEntry(m, "render", "page.vuego", map[string]any{"items": []any{items[i], items[i]}})
					re := regexp.MustCompile(`<(b|i)[^>]*>n\d</(b|i)>`)
					all := re.FindAllString(norm(alone), -1)
					mine := re.FindAllString(got, -1)
					if len(all) == 0 || len(mine) != len(mask) || mine[i] != all[0] {
						ok = false
					}
				}
				r.Eval(fmt.Sprintf("content-state:%s:%d:%v", pn, ci, mask), true, nil)
				r.Count("stream:content-state(oracle only)")
				if !ok {
					r.Fail("supplied content shown for one item carries state another use left on its elements", map[string]string{"oracle": "content-state", "page": pn, "content": fmt.Sprint(ci)},
						map[string]any{"page": src, "components": files, "items_visible": fmt.Sprint(mask), "output": out, "err": fmt.Sprint(err)})
				}
			}
		}
	}
}
