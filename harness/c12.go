package main

import (
	"bytes"
	"context"
	"errors"
	"fmt"
	"io"
	"strings"
	"sync"
	"testing/fstest"
	"time"

	"github.com/titpetric/vuego"
)

// C12: all-or-nothing output; writer failures are reported.

var errFault = errors.New("injected writer fault")

type faultWriter struct {
	buf    []byte
	limit  int // -1 = never fails
	writes int
}

func (w *faultWriter) Write(p []byte) (int, error) {
	w.writes++
	if w.limit >= 0 && len(w.buf)+len(p) > w.limit {
		n := w.limit - len(w.buf)
		if n < 0 {
			n = 0
		}
		w.buf = append(w.buf, p[:n]...)
		return n, errFault
	}
	w.buf = append(w.buf, p...)
	return len(p), nil
}

type c12Prog struct {
	name     string
	files    map[string]string
	page     string // file rendered by Render / RenderFile
	chain    int    // number of links the page goes through (1 = no layout)
	inline   string // template text for RenderString / RenderByte / RenderReader ("" = not used)
	data     map[string]any
	loadFail bool // the page file does not exist
}

func c12Catalogue() []c12Prog {
	big := strings.Repeat("<p>row {{ n }}</p>\n", 12)
	comps := map[string]string{
		"comp/ok.vuego":   `<span class="c">{{ x }}</span>`,
		"comp/bad.vuego":  `<span>{{ x | nosuchfilter }}</span>`,
		"comp/req.vuego":  `<template :required="need"><i>{{ need }}</i></template>`,
		"comp/deep.vuego": `<div><template include="comp/bad.vuego" x="1"></template></div>`,
	}
	with := func(extra map[string]string) map[string]string {
		m := map[string]string{}
		for k, v := range comps {
			m[k] = v
		}
		for k, v := range extra {
			m[k] = v
		}
		return m
	}
	data := map[string]any{"n": 7, "x": "val", "items": []any{"a", "b", "c"}, "title": "T"}
	layoutA := "<html><body><main v-html=\"content\"></main><footer>{{ title }}</footer></body></html>"
	base := "<html><head><title>{{ title }}</title></head><body v-html=\"content\"></body></html>"
	ps := []c12Prog{
		{name: "ok-simple", files: with(map[string]string{"page.vuego": "<h1>{{ title }}</h1><p>{{ x }}</p>"}), page: "page.vuego", chain: 1, inline: "<h1>{{ title }}</h1><p>{{ x }}</p>"},
		{name: "ok-empty", files: with(map[string]string{"page.vuego": ""}), page: "page.vuego", chain: 1, inline: ""},
		{name: "ok-loop-include", files: with(map[string]string{"page.vuego": "<ul><li v-for=\"i in items\">{{ i }}</li></ul><template include=\"comp/ok.vuego\" x=\"q\"></template>" + big}), page: "page.vuego", chain: 1,
			inline: "<ul><li v-for=\"i in items\">{{ i }}</li></ul><template include=\"comp/ok.vuego\" x=\"q\"></template>" + big},
		{name: "fail-early-filter", files: with(map[string]string{"page.vuego": "<p>{{ x | nosuchfilter }}</p>" + big}), page: "page.vuego", chain: 1, inline: "<p>{{ x | nosuchfilter }}</p>" + big},
		{name: "fail-late-filter", files: with(map[string]string{"page.vuego": big + "<p>{{ x | nosuchfilter }}</p>"}), page: "page.vuego", chain: 1, inline: big + "<p>{{ x | nosuchfilter }}</p>"},
		{name: "fail-missing-include", files: with(map[string]string{"page.vuego": big + "<template include=\"comp/none.vuego\"></template>"}), page: "page.vuego", chain: 1, inline: big + "<template include=\"comp/none.vuego\"></template>"},
		{name: "fail-inside-include", files: with(map[string]string{"page.vuego": big + "<template include=\"comp/deep.vuego\"></template><p>after</p>"}), page: "page.vuego", chain: 1, inline: big + "<template include=\"comp/deep.vuego\"></template><p>after</p>"},
		{name: "fail-required", files: with(map[string]string{"page.vuego": "<p>before</p><template include=\"comp/req.vuego\"></template>"}), page: "page.vuego", chain: 1, inline: "<p>before</p><template include=\"comp/req.vuego\"></template>"},
		{name: "ok-required-met", files: with(map[string]string{"page.vuego": "<p>before</p><template include=\"comp/req.vuego\" need=\"n\"></template>"}), page: "page.vuego", chain: 1, inline: "<p>before</p><template include=\"comp/req.vuego\" need=\"n\"></template>"},
		{name: "fail-inside-loop", files: with(map[string]string{"page.vuego": "<ul><li v-for=\"i in items\"><b>{{ i }}</b><template include=\"comp/bad.vuego\" x=\"1\"></template></li></ul>"}), page: "page.vuego", chain: 1,
			inline: "<ul><li v-for=\"i in items\"><b>{{ i }}</b><template include=\"comp/bad.vuego\" x=\"1\"></template></li></ul>"},
		{name: "fail-missing-page", files: with(nil), page: "nopage.vuego", chain: 1, loadFail: true},
		// a failure in every directive position, after a large part of the document has been evaluated
		{name: "fail-in-v-text", files: with(map[string]string{"page.vuego": big + "<p v-text=\"x | nosuchfilter\">t</p><p>after</p>"}), page: "page.vuego", chain: 1, inline: big + "<p v-text=\"x | nosuchfilter\">t</p><p>after</p>"},
		{name: "fail-in-v-html", files: with(map[string]string{"page.vuego": big + "<div v-html=\"x | nosuchfilter\"></div><p>after</p>"}), page: "page.vuego", chain: 1, inline: big + "<div v-html=\"x | nosuchfilter\"></div><p>after</p>"},
		{name: "fail-in-bound-attr", files: with(map[string]string{"page.vuego": big + "<p :title=\"x | nosuchfilter\">t</p><p>after</p>"}), page: "page.vuego", chain: 1, inline: big + "<p :title=\"x | nosuchfilter\">t</p><p>after</p>"},
		{name: "fail-in-interpolated-attr", files: with(map[string]string{"page.vuego": big + "<p title=\"a {{ x | nosuchfilter }} b\">t</p><p>after</p>"}), page: "page.vuego", chain: 1, inline: big + "<p title=\"a {{ x | nosuchfilter }} b\">t</p><p>after</p>"},
		{name: "fail-in-chain-member-text", files: with(map[string]string{"page.vuego": big + "<p v-if=\"no\">a</p><p v-else-if=\"n\" v-text=\"x | nosuchfilter\">b</p><p v-else>c</p><p>after</p>"}), page: "page.vuego", chain: 1, inline: big + "<p v-if=\"no\">a</p><p v-else-if=\"n\" v-text=\"x | nosuchfilter\">b</p><p v-else>c</p><p>after</p>"},
		{name: "fail-in-chain-member-attr", files: with(map[string]string{"page.vuego": big + "<p v-if=\"no\">a</p><p v-else :class=\"x | nosuchfilter\">c</p><p>after</p>"}), page: "page.vuego", chain: 1, inline: big + "<p v-if=\"no\">a</p><p v-else :class=\"x | nosuchfilter\">c</p><p>after</p>"},
		{name: "fail-in-template-v-html", files: with(map[string]string{"page.vuego": big + "<template v-html=\"x | nosuchfilter\"></template><p>after</p>"}), page: "page.vuego", chain: 1, inline: big + "<template v-html=\"x | nosuchfilter\"></template><p>after</p>"},
		{name: "fail-in-loop-late-item", files: with(map[string]string{"page.vuego": big + "<ul><li v-for=\"i in items\"><b v-if=\"i == 'c'\">{{ i | nosuchfilter }}</b><i v-else>{{ i }}</i></li></ul><p>after</p>"}), page: "page.vuego", chain: 1, inline: big + "<ul><li v-for=\"i in items\"><b v-if=\"i == 'c'\">{{ i | nosuchfilter }}</b><i v-else>{{ i }}</i></li></ul><p>after</p>"},
		{name: "fail-in-slot-content", files: with(map[string]string{"page.vuego": big + "<template include=\"comp/ok.vuego\" x=\"q\"><u>{{ x | nosuchfilter }}</u></template><p>after</p>"}), page: "page.vuego", chain: 1, inline: big + "<template include=\"comp/ok.vuego\" x=\"q\"><u>{{ x | nosuchfilter }}</u></template><p>after</p>"},
		{name: "fail-bad-loop-head", files: with(map[string]string{"page.vuego": big + "<ul><li v-for=\"(a, b, c) in items\">{{ a }}</li></ul><p>after</p>"}), page: "page.vuego", chain: 1, inline: big + "<ul><li v-for=\"(a, b, c) in items\">{{ a }}</li></ul><p>after</p>"},
		{name: "fail-in-once", files: with(map[string]string{"page.vuego": big + "<div v-once><span>{{ x | nosuchfilter }}</span></div><p>after</p>"}), page: "page.vuego", chain: 1, inline: big + "<div v-once><span>{{ x | nosuchfilter }}</span></div><p>after</p>"},
		// layouts
		{name: "ok-layout-explicit", files: with(map[string]string{"page.vuego": "---\nlayout: la\n---\n<p>{{ x }}</p>" + big, "layouts/la.vuego": layoutA}), page: "page.vuego", chain: 2},
		{name: "ok-layout-chain3", files: with(map[string]string{"page.vuego": "---\nlayout: la\n---\n<p>{{ x }}</p>", "layouts/la.vuego": "---\nlayout: base\n---\n<section v-html=\"content\"></section>", "layouts/base.vuego": base}), page: "page.vuego", chain: 3},
		{name: "ok-layout-default-base", files: with(map[string]string{"page.vuego": "<p>{{ x }}</p>", "layouts/base.vuego": base}), page: "page.vuego", chain: 2},
		{name: "fail-layout-missing", files: with(map[string]string{"page.vuego": "---\nlayout: nolayout\n---\n<p>{{ x }}</p>" + big}), page: "page.vuego", chain: 2},
		{name: "fail-in-layout", files: with(map[string]string{"page.vuego": "---\nlayout: la\n---\n<p>{{ x }}</p>" + big, "layouts/la.vuego": "<main v-html=\"content\"></main><template include=\"comp/bad.vuego\" x=\"1\"></template>"}), page: "page.vuego", chain: 2},
		{name: "fail-in-page-under-layout", files: with(map[string]string{"page.vuego": "---\nlayout: la\n---\n" + big + "<p>{{ x | nosuchfilter }}</p>", "layouts/la.vuego": layoutA}), page: "page.vuego", chain: 2},
		{name: "fail-in-last-of-chain3", files: with(map[string]string{"page.vuego": "---\nlayout: la\n---\n<p>{{ x }}</p>", "layouts/la.vuego": "---\nlayout: base\n---\n<section v-html=\"content\"></section>", "layouts/base.vuego": base + "<template include=\"comp/none.vuego\"></template>"}), page: "page.vuego", chain: 3},
		{name: "fail-layout-cycle", files: with(map[string]string{"page.vuego": "---\nlayout: la\n---\n<p>{{ x }}</p>", "layouts/la.vuego": "---\nlayout: la\n---\n<section v-html=\"content\"></section>"}), page: "page.vuego", chain: 101},
	}
	for i := range ps {
		ps[i].data = data
	}
	return ps
}

func c12FS(p c12Prog) fstest.MapFS {
	m := fstest.MapFS{}
	for k, v := range p.files {
		m[k] = &fstest.MapFile{Data: []byte(v)}
	}
	return m
}

// one call of an entry point; returns received bytes and the error
func c12Call(p c12Prog, entry string, limit int, cancelled bool) (recv string, err error, pan string) {
	defer func() {
		if x := recover(); x != nil {
			pan = fmt.Sprint(x)
		}
	}()
	ctx := context.Background()
	if cancelled {
		c, cancel := context.WithCancel(ctx)
		cancel()
		ctx = c
	}
	data := map[string]any{}
	for k, v := range p.data {
		data[k] = v
	}
	tpl := vuego.NewFS(c12FS(p)).Fill(data)
	w := &faultWriter{limit: limit}
	switch entry {
	case "Render":
		err = tpl.Load(p.page).Render(ctx, w)
	case "RenderFile":
		err = tpl.RenderFile(ctx, w, p.page)
	case "RenderString":
		err = tpl.RenderString(ctx, w, p.inline)
	case "RenderByte":
		err = tpl.RenderByte(ctx, w, []byte(p.inline))
	case "RenderReader":
		err = tpl.RenderReader(ctx, w, strings.NewReader(p.inline))
	}
	return string(w.buf), err, ""
}

// a context cancelled WHILE the render runs (by a template function), documents below and above every
// plausible buffer size: whatever the call returns, an error means nothing was written and nil means the
// whole document was (direct oracle)
func c12MidCancel(r *Run) {
	for _, rows := range []int{3, 400, 3000} {
		for _, at := range []string{"early", "late"} {
			body := strings.Repeat("<p>row with some text to fill the line {{ n }}</p>\n", rows)
			tpl := "<i>{{ stop() }}</i>" + body
			if at == "late" {
				tpl = body + "<i>{{ stop() }}</i>"
			}
			for _, entry := range []string{"Render", "RenderFile", "RenderString", "RenderByte", "RenderReader", "Render+layout"} {
				ctx, cancel := context.WithCancel(context.Background())
				files := fstest.MapFS{"page.vuego": &fstest.MapFile{Data: []byte(tpl)}}
				if entry == "Render+layout" {
					files["page.vuego"] = &fstest.MapFile{Data: []byte("---\nlayout: la\n---\n" + tpl)}
					files["layouts/la.vuego"] = &fstest.MapFile{Data: []byte(`<main v-html="content"></main><footer>{{ n }}</footer>`)}
				}
				t := vuego.NewFS(files, vuego.WithFuncs(vuego.FuncMap{"stop": func() string { cancel(); return "" }})).Fill(map[string]any{"n": 1})
				var buf bytes.Buffer
				var err error
				pan := ""
				func() {
					defer func() {
						if x := recover(); x != nil {
							pan = fmt.Sprint(x)
						}
					}()
					switch entry {
					case "Render", "Render+layout":
						err = t.Load("page.vuego").Render(ctx, &buf)
					case "RenderFile":
						err = t.RenderFile(ctx, &buf, "page.vuego")
					case "RenderString":
						err = t.RenderString(ctx, &buf, tpl)
					case "RenderByte":
						err = t.RenderByte(ctx, &buf, []byte(tpl))
					case "RenderReader":
						err = t.RenderReader(ctx, &buf, strings.NewReader(tpl))
					}
				}()
				cancel()
				r.Eval(fmt.Sprintf("mid-cancel:%d:%s:%s", rows, at, entry), true, nil)
				r.Count("stream:mid-render-cancel(oracle only)")
				sig := map[string]string{"oracle": "mid-render-cancel", "entry": entry}
				desc := map[string]any{"entry": entry, "rows": rows, "stop": at, "received_bytes": buf.Len(), "err": fmt.Sprint(err)}
				switch {
				case pan != "":
					r.Fail("a render panics when its context is cancelled while it runs", sig, desc)
				case err != nil && buf.Len() > 0:
					r.Fail("a render returned an error after writing part of the document", sig, desc)
				case err == nil && !strings.Contains(buf.String(), "row with some text"):
					r.Fail("a render returned nil without writing the document", sig, desc)
				}
			}
		}
	}
}

// a destination that is slow, and a context cancelled while the finished document is being handed over to it (the
// first Write cancels, then takes its time): an error still means the destination got nothing, nil means it got
// everything, and nothing reaches the destination after the call has returned
type c12SlowWriter struct {
	mu     sync.Mutex
	buf    bytes.Buffer
	cancel func()
}

func (w *c12SlowWriter) Write(p []byte) (int, error) {
	w.cancel()
	time.Sleep(40 * time.Millisecond)
	w.mu.Lock()
	defer w.mu.Unlock()
	return w.buf.Write(p)
}
func (w *c12SlowWriter) Len() int { w.mu.Lock(); defer w.mu.Unlock(); return w.buf.Len() }

func c12CancelInWrite(r *Run) {
	tpl := strings.Repeat("<p>row {{ n }}</p>\n", 30)
	for _, entry := range []string{"Render", "RenderFile", "RenderString", "RenderByte", "RenderReader", "Render+layout", "Render+default-layout"} {
		ctx, cancel := context.WithCancel(context.Background())
		files := fstest.MapFS{"page.vuego": &fstest.MapFile{Data: []byte(tpl)}}
		switch entry {
		case "Render+layout":
			files["page.vuego"] = &fstest.MapFile{Data: []byte("---\nlayout: la\n---\n" + tpl)}
			files["layouts/la.vuego"] = &fstest.MapFile{Data: []byte(`<main v-html="content"></main><footer>{{ n }}</footer>`)}
		case "Render+default-layout":
			files["layouts/base.vuego"] = &fstest.MapFile{Data: []byte(`<main v-html="content"></main>`)}
		}
		t := vuego.NewFS(files).Fill(map[string]any{"n": 1})
		w := &c12SlowWriter{cancel: cancel}
		var err error
		pan := ""
		func() {
			defer func() {
				if x := recover(); x != nil {
					pan = fmt.Sprint(x)
				}
			}()
			switch entry {
			case "Render", "Render+layout", "Render+default-layout":
				err = t.Load("page.vuego").Render(ctx, w)
			case "RenderFile":
				err = t.RenderFile(ctx, w, "page.vuego")
			case "RenderString":
				err = t.RenderString(ctx, w, tpl)
			case "RenderByte":
				err = t.RenderByte(ctx, w, []byte(tpl))
			case "RenderReader":
				err = t.RenderReader(ctx, w, strings.NewReader(tpl))
			}
		}()
		atReturn := w.Len()
		time.Sleep(150 * time.Millisecond)
		later := w.Len()
		cancel()
		r.Eval("cancel-in-write:"+entry, true, nil)
		r.Count("stream:cancel-in-write(oracle only)")
		sig := map[string]string{"oracle": "cancel-in-write", "entry": entry}
		desc := map[string]any{"entry": entry, "received_at_return": atReturn, "received_later": later, "err": fmt.Sprint(err)}
		switch {
		case pan != "":
			r.Fail("a render panics when its context is cancelled during the hand-over", sig, desc)
		case later != atReturn:
			r.Fail("bytes reach the destination after the render has returned", sig, desc)
		case err != nil && later > 0:
			r.Fail("a render returned an error although the destination received output", sig, desc)
		case err == nil && later == 0:
			r.Fail("a render returned nil without writing the document", sig, desc)
		}
	}
}

// a template source that is also an io.Closer whose Close fails (a network body, a file on a stale handle): whatever
// the library does with the source, an error still means the destination got nothing
type c12BadCloser struct{ io.Reader }

func (c12BadCloser) Close() error { return errors.New("connection reset by peer") }

func c12ClosableSource(r *Run) {
	for _, tpl := range []string{`<p>{{ n }}</p>`, strings.Repeat("<p>row {{ n }}</p>\n", 200), `<p>{{ n | nosuchfilter }}</p>`} {
		var buf bytes.Buffer
		err := vuego.NewFS(fstest.MapFS{}).Fill(map[string]any{"n": 1}).RenderReader(context.Background(), &buf, c12BadCloser{strings.NewReader(tpl)})
		r.Eval("closable-source:"+fmt.Sprint(len(tpl)), true, nil)
		r.Count("stream:closable-source(oracle only)")
		sig := map[string]string{"oracle": "closable-source", "entry": "RenderReader"}
		desc := map[string]any{"template_bytes": len(tpl), "received_bytes": buf.Len(), "err": fmt.Sprint(err)}
		switch {
		case err != nil && buf.Len() > 0:
			r.Fail("a render returned an error although the destination received output", sig, desc)
		case err == nil && buf.Len() == 0:
			r.Fail("a render returned nil without writing the document", sig, desc)
		}
	}
}

func init() { streams["C12"] = runC12 }

func runC12(r *Run) {
	c12MidCancel(r)
	c12CancelInWrite(r)
	c12ClosableSource(r)
	r.Imports = []string{"Model.Entry"}
	r.Rule("every Template render entry point (Render with/without layouts, RenderFile, RenderString, RenderByte, RenderReader) x a catalogue of succeeding and failing programs " +
		"(failure early, late, inside include, inside loop, unmet :required, missing page, missing layout, failure in a layout, in the last link of a 3-chain, layout cycle) " +
		"x a destination writer failing at every byte offset (quick: every offset up to 160 and a stride above; thorough: every offset) x a pre-cancelled context; " +
		"non-trivial: the program fails, or the writer fails inside the document, or the context is cancelled")
	r.Assume("the document bytes are an input of the model (reference run on a writer that never fails); the writer reports a failure exactly on the write that would cross its limit")
	progs := c12Catalogue()
	entries := []string{"Render", "RenderFile", "RenderString", "RenderByte", "RenderReader"}
	for _, p := range progs {
		for _, entry := range entries {
			inlineEntry := strings.HasPrefix(entry, "RenderS") || entry == "RenderByte" || entry == "RenderReader"
			if inlineEntry && (p.chain != 1 || p.loadFail) {
				continue
			}
			ref, refErr, pan := c12Call(p, entry, -1, false)
			if pan != "" {
				r.Fail("panic escapes a render entry point", map[string]string{"oracle": "panic", "entry": entry, "prog": p.name}, map[string]any{"prog": p.name, "entry": entry, "panic": pan})
				continue
			}
			ref2, refErr2, _ := c12Call(p, entry, -1, false)
			if ref2 != ref || (refErr == nil) != (refErr2 == nil) {
				r.Count("nondeterministic-reference-skipped")
				continue
			}
			r.Count("prog:" + p.name)
			if refErr != nil {
				r.Count("outcome:error")
			} else {
				r.Count("outcome:ok")
			}
			// the model's view of the program
			outc := "EErr"
			if refErr == nil {
				outc = "(EOk " + coqBytes(ref) + ")"
			}
			var en string
			links := func() string {
				var ls []string
				for i := 0; i < p.chain-1 && i < 3; i++ {
					ls = append(ls, "EOk []")
				}
				ls = append(ls, outc)
				return "[" + strings.Join(ls, "; ") + "]"
			}
			switch {
			case inlineEntry:
				en = "ERenderReader " + outc
			case entry == "Render" && p.loadFail:
				en = "ERenderFile false []" // Load's sticky error is what Render returns
			case entry == "Render" && p.chain == 1:
				en = "ERenderPlain " + outc
			case entry == "Render":
				en = "ERenderLayout " + links()
			default:
				en = fmt.Sprintf("ERenderFile %s %s", coqBool(!p.loadFail), links())
			}
			// offsets
			var offs []int
			n := len(ref)
			for k := 0; k <= n+1; k++ {
				if r.Thorough() || k <= 160 || k >= n-3 || k%7 == 0 {
					offs = append(offs, k)
				}
			}
			offs = append(offs, -1)
			for _, cancelled := range []bool{false, true} {
				for _, k := range offs {
					if cancelled && k > 2 && k != n {
						continue
					}
					recv, err, pan := c12Call(p, entry, k, cancelled)
					desc := map[string]any{"prog": p.name, "entry": entry, "fail_at": k, "cancelled": cancelled, "files": p.files, "page": p.page, "inline": p.inline}
					if pan != "" {
						r.Fail("panic escapes a render entry point", map[string]string{"oracle": "panic", "entry": entry, "prog": p.name}, desc)
						continue
					}
					sig := map[string]string{"entry": entry, "prog": p.name}
					// direct oracles
					if (refErr != nil || cancelled) && (err == nil || recv != "") {
						sig["oracle"] = "error-writes-nothing"
						r.Fail("a failing or cancelled render wrote to the destination or returned nil", sig, map[string]any{"case": desc, "received": recv, "err": fmt.Sprint(err)})
					}
					if err == nil && recv != ref {
						sig["oracle"] = "nil-means-complete"
						r.Fail("render returned nil but the writer did not receive the complete document", sig, map[string]any{"case": desc, "received": recv, "document": ref})
					}
					if refErr == nil && !cancelled && k >= 0 && k < n && err == nil {
						sig["oracle"] = "writer-fault-reported"
						r.Fail("the destination writer failed inside the document and the render returned nil", sig, map[string]any{"case": desc, "received": recv, "document": ref})
					}
					fa := "None"
					if k >= 0 {
						fa = fmt.Sprintf("(Some %d)", k)
					}
					coq := fmt.Sprintf("{| c_cancelled := %s; c_entry := %s; c_fail_at := %s |}", coqBool(cancelled), en, fa)
					nontrivial := refErr != nil || cancelled || (k >= 0 && k < n)
					r.Case("faultwriter", coq, L(A(recv), B(err != nil)), desc, map[string]string{"entry": entry, "prog": p.name}, nontrivial)
				}
			}
		}
	}
	_ = bytes.MinRead
	_ = io.EOF
}
