package main

import (
	"bytes"
	"context"
	"fmt"
	"reflect"
	"regexp"
	"strings"
	"testing/fstest"
	"time"

	"github.com/titpetric/vuego"

	"golang.org/x/net/html"
	"golang.org/x/net/html/atom"
)

// C02: rendering a directive-free template is faithful: parse(render(t)) = parse(t), whitespace aside.

type c02N struct {
	tag   string // "" = text
	text  string // source text (with character references as written)
	attrs [][2]string
	kids  []*c02N
}

var c02Ents = []string{"&amp;", "&lt;", "&gt;", "&quot;", "&#39;", "&#x3c;", "&nbsp;", "&copy;",
	// text that, once decoded, itself looks like a reference or a tag (so an unescaped copy reads back differently)
	"&amp;lt;", "&amp;amp;", "&amp;copy;", "&amp;#60;", "&lt;/b&gt;", "&lt;i&gt;", "&lt;/textarea&gt;", "&lt;/title&gt;", "&lt;/pre&gt;", "&lt;!--"}

func c02Word(r *Rng) string {
	if r.Intn(4) == 0 {
		return Pick(r, c02Ents)
	}
	return Pick(r, []string{"lorem", "ipsum", "x", "A", "42", "a;b", "q#r", "{x}", "=", "it's", "5 > 3", "a & b"})
}
func c02Text(r *Rng) string {
	var ws []string
	for i, k := 0, 1+r.Intn(4); i < k; i++ {
		w := c02Word(r)
		w = strings.NewReplacer("5 > 3", "5 &gt; 3", "a & b", "a &amp; b").Replace(w)
		ws = append(ws, w)
	}
	return strings.Join(ws, " ")
}
func c02Attrs(r *Rng) [][2]string {
	var as [][2]string
	used := map[string]bool{}
	for i, k := 0, r.Intn(3); i < k; i++ {
		// plain names, and names with a colon, a period or an underscore inside (namespaces, htmx / alpine style
		// attributes): none of them is a directive or a binding
		n := Pick(r, []string{"class", "id", "title", "data-x", "lang", "class", "id", "title", "xml:lang", "xmlns:og", "hx-on:click", "aria-label", "data-a.b_c", "x-on:keyup.enter",
			// names that merely resemble the engine's own vocabulary (scoped-style hashes, data attributes) are ordinary attributes
			"data-v-7ba5bd90", "data-v-note", "data-v", "data-vue", "data-html", "data-text", "data-if", "data-for", "data-slot", "is", "key", "ref", "slot-scope", "include-x", "required"})
		if used[n] {
			continue
		}
		used[n] = true
		v := c02Text(r)
		v = strings.ReplaceAll(v, `"`, "&quot;")
		switch r.Intn(12) {
		case 0:
			v = n // a value spelled like the attribute's own name (name="name", for="for")
		case 1:
			v = Pick(r, []string{"true", "false", "on", "0", strings.ToUpper(n)})
		}
		as = append(as, [2]string{n, v})
	}
	return as
}

var c02Inline = []string{"span", "b", "i", "em", "code"}
var c02Void = []string{"br", "img", "hr", "input"}

func c02Inl(r *Rng, depth int) []*c02N {
	var out []*c02N
	for i, k := 0, 1+r.Intn(3); i < k; i++ {
		switch x := r.Intn(8); {
		case x < 4 || depth <= 0:
			if len(out) > 0 && out[len(out)-1].tag == "" {
				continue
			}
			out = append(out, &c02N{text: c02Text(r)})
		case x < 7:
			out = append(out, &c02N{tag: Pick(r, c02Inline), attrs: c02Attrs(r), kids: c02Inl(r, depth-1)})
		default:
			out = append(out, &c02N{tag: Pick(r, c02Void), attrs: c02Attrs(r)})
		}
	}
	return out
}
func c02Block(r *Rng, depth int) []*c02N {
	var out []*c02N
	for i, k := 0, 1+r.Intn(3); i < k; i++ {
		switch x := r.Intn(10); {
		case x < 3 || depth <= 0:
			out = append(out, &c02N{tag: Pick(r, []string{"p", "h1", "h2"}), attrs: c02Attrs(r), kids: c02Inl(r, depth-1)})
		case x < 6:
			out = append(out, &c02N{tag: Pick(r, []string{"div", "section", "article"}), attrs: c02Attrs(r), kids: c02Block(r, depth-1)})
		case x < 7:
			ul := &c02N{tag: "ul"}
			for j, m := 0, 1+r.Intn(3); j < m; j++ {
				ul.kids = append(ul.kids, &c02N{tag: "li", kids: c02Inl(r, depth-1)})
			}
			out = append(out, ul)
		case x < 8:
			tb := &c02N{tag: "tbody"}
			for j, m := 0, 1+r.Intn(2); j < m; j++ {
				tr := &c02N{tag: "tr"}
				for q, n := 0, 1+r.Intn(2); q < n; q++ {
					tr.kids = append(tr.kids, &c02N{tag: "td", kids: c02Inl(r, 0)})
				}
				tb.kids = append(tb.kids, tr)
			}
			out = append(out, &c02N{tag: "table", kids: []*c02N{tb}})
		case x < 9:
			if r.Intn(3) == 0 {
				// elements separated by nothing but white space, and a pre that holds only white space
				sep := func() *c02N { return &c02N{text: Pick(r, []string{" ", "\n", "\t", "  \n  "})} }
				out = append(out, &c02N{tag: "pre", kids: []*c02N{{tag: "b", kids: []*c02N{{text: "key"}}}, sep(), {tag: "i", kids: []*c02N{{text: c02Text(r)}}}, sep(), {tag: "b", kids: []*c02N{{text: "k2"}}}}})
				if r.Bool() {
					out = append(out, &c02N{tag: "pre", kids: []*c02N{{text: Pick(r, []string{" ", "  \n ", "\t"})}}})
				}
				break
			}
			out = append(out, &c02N{tag: Pick(r, []string{"pre", "textarea"}), kids: []*c02N{{text: Pick(r, []string{"", "", "\n", "\n\n", "&#10;", "\n\n\n", "\n &#10;", "&#13;", "\n&#13;&#10;"}) + "line1\n  indented " + c02Text(r) + "\nline3" + Pick(r, []string{"", "", "\n", "\n\n", "&#13;"})}}})
		default:
			out = append(out, &c02N{tag: Pick(r, []string{"script", "style"}), kids: []*c02N{{text: "a < b && c > d; x = \"" + Pick(r, []string{"q", "lorem"}) + "\";"}}})
		}
	}
	return out
}
func c02Src(ns []*c02N) string {
	var sb strings.Builder
	for _, n := range ns {
		if n.tag == "" {
			sb.WriteString(n.text)
			continue
		}
		sb.WriteString("<" + n.tag)
		for _, a := range n.attrs {
			fmt.Fprintf(&sb, ` %s="%s"`, a[0], a[1])
		}
		sb.WriteString(">")
		isVoid := false
		for _, v := range c02Void {
			isVoid = isVoid || v == n.tag
		}
		if isVoid {
			continue
		}
		sb.WriteString(c02Src(n.kids))
		sb.WriteString("</" + n.tag + ">")
	}
	return sb.String()
}

// canonical dump of a parsed document: elements, attributes, text with whitespace collapsed outside
// whitespace-preserving elements; comments and whitespace-only text dropped
func c02Canon(nodes []*html.Node) string {
	var sb strings.Builder
	var walk func(n *html.Node, keep bool)
	walk = func(n *html.Node, keep bool) {
		switch n.Type {
		case html.DoctypeNode:
			sb.WriteString("<!doctype " + n.Data + ">")
		case html.TextNode:
			t := n.Data
			if !keep {
				t = strings.Join(strings.Fields(t), " ")
			}
			if strings.TrimSpace(t) != "" || (keep && t != "") { // white space is content inside pre / textarea
				sb.WriteString("[" + t + "]")
			}
		case html.ElementNode:
			sb.WriteString("<" + n.Data)
			for _, a := range n.Attr {
				v := a.Val
				sb.WriteString(" " + a.Key + "=" + fmt.Sprintf("%q", v))
			}
			sb.WriteString(">")
			k := keep || n.Data == "pre" || n.Data == "textarea" || n.Data == "script" || n.Data == "style"
			for c := n.FirstChild; c != nil; c = c.NextSibling {
				walk(c, k)
			}
			sb.WriteString("</" + n.Data + ">")
		default:
			for c := n.FirstChild; c != nil; c = c.NextSibling {
				walk(c, keep)
			}
		}
	}
	for _, n := range nodes {
		walk(n, false)
	}
	return sb.String()
}
func c02Parse(src string, full bool) []*html.Node {
	if full {
		d, err := html.Parse(strings.NewReader(src))
		if err != nil {
			return nil
		}
		return []*html.Node{d}
	}
	ns, err := html.ParseFragment(strings.NewReader(src), &html.Node{Type: html.ElementNode, Data: "body", DataAtom: atom.Body})
	if err != nil {
		ns, _ = html.ParseFragment(strings.NewReader(src), nil)
	}
	return ns
}

// the parsed source as a Coq forest (canonical: whitespace-only text dropped, text trimmed of HTML whitespace)
func c02CoqForest(nodes []*html.Node) (string, bool) { return c02CoqForestX(nodes, true) }
func c02CoqForestX(nodes []*html.Node, canon bool) (string, bool) {
	ok := true
	var rec func(ns []*html.Node) string
	rec = func(ns []*html.Node) string {
		var xs []string
		for _, n := range ns {
			switch n.Type {
			case html.TextNode:
				t := n.Data
				if strings.Contains(t, "\r") {
					ok = false // carriage returns are outside the model (html.EscapeString writes &#13;, the tokenizer turns a raw one into a line feed): the real-parser oracle decides these
				}
				if canon {
					t = strings.Trim(n.Data, " \t\n\f\r")
				}
				if t != "" {
					xs = append(xs, "Text "+coqBytes(t))
				}
			case html.ElementNode:
				if n.Data == "script" || n.Data == "style" {
					ok = false // raw-text elements are outside the model's serialiser (pre and textarea are inside: verbatim content)
				}
				var as []string
				for _, a := range n.Attr {
					if strings.Contains(a.Val, "\r") {
						ok = false
					}
					as = append(as, "("+coqBytes(a.Key)+", "+coqBytes(a.Val)+")")
				}
				var kids []*html.Node
				for c := n.FirstChild; c != nil; c = c.NextSibling {
					kids = append(kids, c)
				}
				xs = append(xs, fmt.Sprintf("Elem %s [%s] %s", coqBytes(n.Data), strings.Join(as, "; "), rec(kids)))
			}
		}
		return "[" + strings.Join(xs, "; ") + "]"
	}
	return rec(nodes), ok
}

var c02BrRe = regexp.MustCompile(`<br([^>]*)></br>`)

func init() { streams["C02"] = runC02 }

func runC02(r *Run) {
	c02TypedValues(r)
	c02PaddedValues(r)
	c02StringerValues(r)
	c02DirectiveValues(r)
	r.Imports = []string{"Model.Tok"}
	r.Rule("directive-free fragments and full documents generated from a grammar of parser-stable HTML (block, inline, void, list, explicit table, pre / textarea, script / style elements; attributes and text written with character references &amp; &lt; &gt; &quot; &#39; &#x3c; &nbsp; &copy;; doctype): " +
		"parse(template) and parse(render(template)) with x/net/html must be the same document, whitespace and comments aside; for fragments inside the model's vocabulary the theorem's reading function (tokenize, normalise, build, decode) is evaluated in Coq on the bytes the implementation wrote and must return the parsed template; " +
		"interpolated values: the parsed text / attribute equals neighbours ++ value; v-html output holds its value verbatim; non-trivial: the source has a character reference, a void element or nesting >= 2")
	rr := r.Rng
	n := 1200
	if r.Thorough() {
		n = 40000
	}
	for c := 0; c < n; c++ {
		full := rr.Intn(6) == 0
		tree := c02Block(rr, 1+rr.Intn(3))
		src := c02Src(tree)
		if full {
			htmlAttr := Pick(rr, []string{"", "", ` lang="en"`, ` lang="en" data-x="a &amp; b"`})
			bodyAttr := Pick(rr, []string{"", "", ` class="wide"`, ` id="it's" class="a b"`})
			lead := Pick(rr, []string{"", "", "", "<!-- lead -->", "\n"})
			trail := Pick(rr, []string{"", "", "\n", "<!-- generated by x -->", "\n<!-- a -->\n", "  "})
			closeTag := Pick(rr, []string{"</html>", "</html>", "</html>", "</HTML>", "</html >"})
			src = lead + "<!DOCTYPE html><html" + htmlAttr + "><head><title>" + c02Text(rr) + "</title></head><body" + bodyAttr + ">" + src + "</body>" + closeTag + trail
		}
		p1 := c02Parse(src, full)
		var out string
		var err error
		if full { // full documents are recognised on the file path (ParseTemplateBytes); string templates are fragments
			out, err = c02RenderFile(src)
		} else {
			out, err = c03Render(src, map[string]any{})
		}
		desc := map[string]any{"template": src, "full_document": full}
		if err != nil {
			r.Fail("a directive-free template fails to render", map[string]string{"oracle": "faithful", "class": "error"}, map[string]any{"case": desc, "err": err.Error()})
			continue
		}
		p2 := c02Parse(out, full)
		c1, c2 := c02Canon(p1), c02Canon(p2)
		class := "other"
		switch {
		case strings.Contains(src, "<br") && c1 == c02Canon(c02Parse(c02BrRe.ReplaceAllString(out, "<br$1>"), full)):
			class = "br" // the known defect is the whole difference: with <br></br> read as one break the documents agree
		case strings.Contains(src, "<pre") || strings.Contains(src, "<textarea"):
			class = "pre-textarea"
		}
		if full && !strings.Contains(c2, "<!doctype") && strings.Contains(c1, "<!doctype") && strings.Replace(c1, "<!doctype html>", "", 1) == c2 {
			class = "doctype"
		}
		r.Eval("roundtrip:"+src, strings.Contains(src, "&") || strings.Count(src, "<") > 6, desc)
		r.Count("class:" + class)
		if c1 != c2 {
			r.Fail("parsing the output gives a different document than parsing the template", map[string]string{"oracle": "faithful", "class": class},
				map[string]any{"case": desc, "output": out, "parsed_template": c1, "parsed_output": c2})
		}
		if !full {
			if forest, ok := c02CoqForest(p1); ok {
				raw, _ := c02CoqForestX(p1, false)
				r.Case("pretty", fmt.Sprintf("{| c_kind := 1; c_out := []; c_dom := %s |}", raw), A(out), map[string]any{"template": src, "output": out}, map[string]string{"class": class}, strings.Contains(src, "&"))
				r.Case("readback", fmt.Sprintf("{| c_kind := 0; c_out := %s; c_dom := %s |}", coqBytes(out), forest), L(A("same")), map[string]any{"template": src, "output": out}, map[string]string{"class": class}, strings.Contains(src, "&"))
			}
		}
	}
	// interpolated values and v-html
	vals := []string{"word", "a & b", "<b>x</b>", `"q"`, "it's", "&amp;", "{{ v }}", "x < y > z"}
	for _, v := range vals {
		for _, t := range []struct{ name, tpl, attr, pre, post string }{
			{"text", `<p data-m="1">pre &amp; {{ v }} &lt;post</p>`, "", "pre & ", " <post"},
			{"attr", `<p data-m="1" title="t &quot; {{ v }} end">x</p>`, "title", `t " `, " end"},
		} {
			out, err := c01Render(nil, t.tpl, v)
			_, sink, found := c01Parse(out, "1", t.attr)
			r.Eval("interp:"+t.name+":"+v, true, nil)
			if err != nil || !found || strings.Join(strings.Fields(sink), " ") != strings.Join(strings.Fields(t.pre+v+t.post), " ") {
				r.Fail("an interpolated value does not parse back as neighbours ++ value", map[string]string{"oracle": "interp-concat", "position": t.name}, map[string]any{"template": t.tpl, "value": v, "output": out, "parsed": sink})
			}
		}
		out, err := c01Render(nil, `<div data-m="1" v-html="v"></div>`, v)
		r.Eval("vhtml:"+v, true, nil)
		if err != nil || !strings.Contains(out, strings.TrimSpace(v)) {
			r.Fail("v-html output does not contain its value verbatim", map[string]string{"oracle": "vhtml-verbatim"}, map[string]any{"value": v, "output": out})
		}
	}
}

// values that are not strings: the parsed text / attribute value is the neighbours around the value's string form
// (fmt.Sprint), in text, in an interpolated attribute, in a bound attribute, in v-text and through a loop
func c02TypedValues(r *Run) {
	type named float32
	vals := []any{float32(0.1), float32(72.3), float32(3.14), float32(0.5), float32(1e10), 0.1, 1e21, 1e-7, 123456789.0, float64(float32(0.1)),
		int8(-8), int64(1) << 40, uint8(200), uint64(1) << 63, true, false, named(0.1), []any{float32(0.1), 2}, map[string]any{"k": float32(72.3)}, complex64(1 + 2i),
		time.Duration(1500) * time.Millisecond, [2]float32{0.1, 0.2}, struct{ W float32 }{72.3}, &struct{ W float32 }{0.1}}
	for _, v := range vals {
		want := fmt.Sprint(v)
		if rv := reflect.ValueOf(v); rv.Kind() == reflect.Ptr {
			continue // an address
		}
		for _, t := range []struct{ name, tpl, attr, pre, post string }{
			{"text", `<p data-m="1">w={{ v }}kg</p>`, "", "w=", "kg"},
			{"attr", `<p data-m="1" title="w={{ v }}kg">x</p>`, "title", "w=", "kg"},
			{"bound", `<p data-m="1" :title="v">x</p>`, "title", "", ""},
			{"v-text", `<p data-m="1" v-text="v">old</p>`, "", "", ""},
			{"loop", `<div v-for="x in vs"><p data-m="1">w={{ x }}kg</p></div>`, "", "w=", "kg"},
			{"field", `<p data-m="1">w={{ m.k }}kg</p>`, "", "w=", "kg"},
		} {
			out, err := c01RenderAny(nil, t.tpl, v, false)
			_, sink, found := c01Parse(out, "1", t.attr)
			r.Eval("typed-interp:"+t.name+":"+want, true, nil)
			r.Count("stream:typed-values(oracle only)")
			w := t.pre + want + t.post
			if t.name == "field" {
				w = t.pre + t.post // m is not defined in this data: nothing is printed
			}
			if t.name == "bound" && (want == "false" || want == "0" || want == "") {
				continue // a falsy bound value omits the attribute (C14)
			}
			if err != nil || !found || strings.Join(strings.Fields(sink), " ") != strings.Join(strings.Fields(w), " ") {
				r.Fail("a value that is not a string does not appear as its string form between its neighbours", map[string]string{"oracle": "typed-interp", "position": t.name},
					map[string]any{"template": t.tpl, "value": fmt.Sprintf("%T(%v)", v, v), "expected": w, "parsed": sink, "output": out, "err": fmt.Sprint(err)})
			}
		}
	}
}

// string values with white space at their ends, interpolated into attributes: the attribute is the neighbours plus the
// value, blanks included (attribute values are not white-space-insensitive)
func c02PaddedValues(r *Run) {
	for _, v := range []string{"  padded  ", "line\n", "", "\ttab", " ", "a  b", "\n\nx", "x \t", "\u00a0nb\u00a0"} {
		for _, t := range []struct{ name, tpl, attr, pre, post string }{
			{"whole", `<input data-m="1" value="{{ v }}">`, "value", "", ""},
			{"after-text", `<p data-m="1" title="say: {{ v }}">x</p>`, "title", "say: ", ""},
			{"before-text", `<p data-m="1" data-k="{{ v }} end">x</p>`, "data-k", "", " end"},
			{"between", `<p data-m="1" data-k="[{{ v }}]">x</p>`, "data-k", "[", "]"},
			{"twice", `<p data-m="1" data-k="{{ v }}{{ v }}">x</p>`, "data-k", "", "V"},
			{"in-loop", `<div v-for="q in one"><p data-m="1" title="a {{ v }}">x</p></div>`, "title", "a ", ""},
			{"in-branch", `<p v-if="no">n</p><p v-else data-m="1" title="a {{ v }}">x</p>`, "title", "a ", ""},
		} {
			// a render that fails in the middle of a text, with output already produced for it, comes first: nothing of
			// it may show in the next render's text
			_, _ = c03RenderAny(`<p title="Hello {{ v }}, {{ v | nosuchfilter }}">Dear {{ v }}: {{ v | nosuchfilter }}</p>`, map[string]any{"v": "LEFTOVER"})
			out, err := c03RenderAny(t.tpl, map[string]any{"v": v, "one": []any{1}, "no": false})
			_, sink, found := c01Parse(out, "1", t.attr)
			want := t.pre + v + t.post
			if t.post == "V" {
				want = v + v
			}
			r.Eval("padded-interp:"+t.name+":"+v, true, nil)
			r.Count("stream:padded-values(oracle only)")
			if want == "" && !found {
				continue
			}
			if err != nil || sink != want {
				r.Fail("an interpolated attribute is not its neighbours plus the value's string form", map[string]string{"oracle": "padded-interp", "position": t.name},
					map[string]any{"template": t.tpl, "value": v, "expected": want, "parsed": sink, "output": out, "err": fmt.Sprint(err)})
			}
		}
	}
}

// a value shown by v-text / v-html is shown once: mustache-looking text inside the value stays text
func c02DirectiveValues(r *Run) {
	for _, v := range []string{"Hello {{ name }}!", "{{ secret }}", "a {{ 1 + 1 }} b", "{{", "}} {{", "{{ name | upper }}"} {
		for _, t := range []struct{ name, tpl, want string }{
			{"v-text", `<p data-m="1" v-text="v">old</p>`, v},
			{"v-html", `<div data-m="1" v-html="h">old</div>`, "[" + v + "]"},
			{"v-text-in-loop", `<ul><li v-for="x in vs" data-m="1" v-text="x">old</li></ul>`, v},
			{"v-html-in-branch", `<p v-if="no">n</p><div v-else data-m="1" v-html="h">old</div>`, "[" + v + "]"},
			{"v-html-on-template", `<section data-m="1"><template v-html="h"></template></section>`, "[" + v + "]"},
		} {
			out, err := c03RenderAny(t.tpl, map[string]any{"v": v, "h": "<code>[" + v + "]</code>", "vs": []any{v}, "no": false, "name": "World", "secret": "LEAKED"})
			_, sink, found := c01Parse(out, "1", "")
			r.Eval("directive-value:"+t.name+":"+v, true, nil)
			r.Count("stream:directive-values(oracle only)")
			if err != nil || !found || strings.TrimSpace(sink) != strings.TrimSpace(t.want) {
				r.Fail("a value shown by v-text / v-html does not appear as given", map[string]string{"oracle": "directive-value", "position": t.name},
					map[string]any{"template": t.tpl, "value": v, "expected_text": t.want, "parsed_text": sink, "output": out, "err": fmt.Sprint(err)})
			}
		}
	}
}

func c02RenderFile(src string) (string, error) {
	m := fstest.MapFS{"page.vuego": &fstest.MapFile{Data: []byte(src)}}
	var buf bytes.Buffer
	var err error
	func() {
		defer func() {
			if x := recover(); x != nil {
				err = fmt.Errorf("PANIC %v", x)
			}
		}()
		err = vuego.NewFS(m).Load("page.vuego").Render(context.Background(), &buf)
	}()
	return buf.String(), err
}

// values of Go types that have a string form of their own (named string / int / struct types with a String method,
// errors, pointers to them), as fields of a struct root, of a nested struct, of a struct held in a map, and directly in a
// map: text, interpolated attribute and v-html all show fmt.Sprint of the value
type c02Level string

func (l c02Level) String() string { return "level<" + strings.ToUpper(string(l)) + ">" }

type c02Code int

func (c c02Code) String() string { return fmt.Sprintf("E%03d&", int(c)) }

type c02Plain string
type c02Err struct{ msg string }

func (e c02Err) Error() string { return "err: " + e.msg }

type c02Inner struct {
	Level c02Level `json:"level"`
	Code  c02Code  `json:"code"`
}
type c02Root struct {
	Level c02Level `json:"level"`
	Code  c02Code  `json:"code"`
	Plain c02Plain `json:"plain"`
	Err   error    `json:"err"`
	Inner c02Inner `json:"inner"`
	PtrIn *c02Inner
	F32   float32 `json:"f32"`
	U8    uint8   `json:"u8"`
}

func c02StringerValues(r *Run) {
	in := c02Inner{Level: "note", Code: 7}
	root := c02Root{Level: "warn", Code: 42, Plain: "pl ain", Err: c02Err{"x<y"}, Inner: in, PtrIn: &in, F32: 0.1, U8: 200}
	paths := []struct {
		path string
		val  any
	}{{"level", root.Level}, {"Level", root.Level}, {"code", root.Code}, {"plain", root.Plain}, {"err", root.Err}, {"inner.level", in.Level}, {"inner.code", in.Code},
		{"PtrIn.level", in.Level}, {"f32", root.F32}, {"u8", root.U8}}
	datas := map[string]any{"struct-root": root, "pointer-root": &root,
		"map-of-values": map[string]any{"level": root.Level, "Level": root.Level, "code": root.Code, "plain": root.Plain, "err": root.Err, "inner": in, "PtrIn": &in, "f32": root.F32, "u8": root.U8}}
	for dn, data := range datas {
		for _, pv := range paths {
			want := fmt.Sprint(pv.val)
			tpl := `<p data-m="1" title="l-{{ ` + pv.path + ` }}-r">a {{ ` + pv.path + ` }} b</p><div data-m="2" v-html="` + pv.path + `"></div><i data-m="3" v-text="` + pv.path + `"></i>`
			out, err := c03RenderAny(tpl, data)
			_, title, _ := c01Parse(out, "1", "title")
			_, text, _ := c01Parse(out, "1", "")
			_, vtext, _ := c01Parse(out, "3", "")
			r.Eval("stringer-value:"+dn+":"+pv.path, true, nil)
			r.Count("stream:stringer-values(oracle only)")
			if err != nil || title != "l-"+want+"-r" || text != "a "+want+" b" || vtext != want || !strings.Contains(out, `<div data-m="2">`+want+`</div>`) {
				r.Fail("a value whose Go type has a string form of its own is not shown as fmt.Sprint shows it", map[string]string{"oracle": "stringer-values", "data": dn, "path": pv.path},
					map[string]any{"template": tpl, "data": dn, "value_type": fmt.Sprintf("%T", pv.val), "expected": want, "title": title, "text": text, "v-text": vtext, "output": out, "err": fmt.Sprint(err)})
			}
		}
	}
}
