package main

import (
	"bufio"
	"bytes"
	"context"
	"fmt"
	vuego "github.com/titpetric/vuego"
	stdhtml "html"
	"net/url"
	"sort"
	"strings"
	"testing/fstest"
	"time"

	"github.com/yuin/goldmark"
	gast "github.com/yuin/goldmark/ast"
	"github.com/yuin/goldmark/extension"
	geast "github.com/yuin/goldmark/extension/ast"
	ghtml "github.com/yuin/goldmark/renderer/html"
	gtext "github.com/yuin/goldmark/text"
	"golang.org/x/net/html"
	"golang.org/x/net/html/atom"

	"github.com/titpetric/vuego/markdown"
)

// C20: Markdown rendering through the default templates vs goldmark's own HTML renderer.

// one long-lived renderer for all generated documents: what one document defines (link references, ...)
// must not be visible to the next
var c20Shared = markdown.New(nil)

// the same renderer over a content file system whose site-wide data (theme.yml, data/*.yml) defines every name the
// default templates use: a document's own values - also its absent ones (no title, no language, no id) - decide
var c20Site = markdown.New(fstest.MapFS{
	"theme.yml":     &fstest.MapFile{Data: []byte("title: SITE-TITLE\nid: site-id\nalt: SITE-ALT\nhref: /site-href\nsrc: /site-src\nlanguage: sitelang\nlabel: SITE-LABEL\n")},
	"data/site.yml": &fstest.MapFile{Data: []byte("start: 7\nordered: true\nchecked: true\nlevel: 1\ncode: SITE-CODE\ncontent: SITE-CONTENT\nalign: right\nrows: [[{content: SITE-ROW}]]\nheaders: [{content: SITE-HDR}]\ncell: {content: SITE-CELL, align: center}\n")},
})
var c20UseSite bool
var c20ViaLoad bool
var c20LoadN int
var c20FrontMatter = []string{"---\ntitle: T\n---\n", "---\ntitle: T\ntags: [a, b]\nnested:\n  k: v\n---\n\n", "---\ntitle: T\n---\n\n\n",
	// three dashes inside a line of the block belong to the YAML
	"---\ntitle: T\nsub: A --- B\nlast: z\n---\n", "---\ntitle: T\n# --- a comment ---\nlast: z\n---\n\n", "---\nsub: \"---\"\ntitle: T\nlast: z\n---\n"}

func c20Vuego(src string, overrides map[string]string) (out string, err error) {
	defer func() {
		if x := recover(); x != nil {
			err = fmt.Errorf("PANIC %v", x)
		}
	}()
	var md *markdown.Markdown
	if overrides == nil {
		md = c20Shared
		if c20UseSite {
			md = c20Site
		}
	} else {
		m := fstest.MapFS{}
		for k, v := range overrides {
			m[k] = &fstest.MapFile{Data: []byte(v)}
		}
		md = markdown.New(m)
	}
	var buf bytes.Buffer
	done := make(chan error, 1)
	go func() {
		defer func() {
			if x := recover(); x != nil {
				done <- fmt.Errorf("PANIC %v", x)
			}
		}()
		if c20ViaLoad && overrides == nil {
			// the same document as a file of the content file system, behind a front-matter block: Load, then Render
			fm := c20FrontMatter[c20LoadN%len(c20FrontMatter)]
			c20LoadN++
			lm := markdown.New(fstest.MapFS{"docs/page.md": &fstest.MapFile{Data: []byte(fm + src)}})
			doc, err := lm.Load("docs/page.md")
			if err != nil {
				done <- err
				return
			}
			if fm != "" && (doc.FrontMatter() == nil || fmt.Sprint(doc.FrontMatter()["title"]) != "T" || (strings.Contains(fm, "last: z") && fmt.Sprint(doc.FrontMatter()["last"]) != "z")) {
				done <- fmt.Errorf("front matter not parsed: %v", doc.FrontMatter())
				return
			}
			done <- doc.Render(&buf)
			return
		}
		done <- md.RenderBytes(&buf, []byte(src))
	}()
	select {
	case err = <-done:
	case <-time.After(5 * time.Second):
		return "", fmt.Errorf("TIMEOUT")
	}
	return buf.String(), err
}

var c20Ref = goldmark.New(goldmark.WithExtensions(extension.GFM), goldmark.WithRendererOptions(ghtml.WithUnsafe()))

func c20Reference(src string) (string, error) {
	var buf bytes.Buffer
	err := c20Ref.Convert([]byte(src), &buf)
	return buf.String(), err
}

func c20URL(s string) string {
	if u, err := url.PathUnescape(s); err == nil {
		s = u
	}
	return s
}

// canonical dump that drops the representation choices the property does not care about
func c20Canon(src string) string {
	nodes, err := html.ParseFragment(strings.NewReader(src), &html.Node{Type: html.ElementNode, Data: "body", DataAtom: atom.Body})
	if err != nil {
		return "PARSE-ERROR"
	}
	var sb strings.Builder
	var walk func(n *html.Node, pre bool)
	walk = func(n *html.Node, pre bool) {
		switch n.Type {
		case html.TextNode:
			t := n.Data
			if !pre { // HTML white space only: a no-break space or an em space is text
				t = strings.Join(strings.FieldsFunc(t, func(c rune) bool { return c == ' ' || c == '\t' || c == '\n' || c == '\f' || c == '\r' }), " ")
			}
			if strings.Trim(t, " \t\n\f\r") != "" || (pre && t != "") {
				sb.WriteString("[" + t + "]")
			}
		case html.ElementNode:
			// an empty formatting element without attributes is what the parser's reconstruction of
			// unclosed raw <b>, <u>, ... leaves behind at whitespace; it carries no structure or text
			blank := true
			for c := n.FirstChild; c != nil; c = c.NextSibling {
				if c.Type != html.TextNode || strings.Trim(c.Data, " \t\n\f\r") != "" {
					blank = false
				}
			}
			if blank && !pre && len(n.Attr) == 0 {
				switch n.Data {
				case "b", "i", "u", "em", "strong", "s", "small", "big", "code", "font", "tt", "nobr", "strike":
					return
				}
			}
			var as []string
			for _, a := range n.Attr {
				k, v := a.Key, a.Val
				switch {
				case k == "id" && len(n.Data) == 2 && n.Data[0] == 'h':
					continue
				case k == "start" && v == "1":
					continue
				case k == "style" && strings.HasPrefix(strings.ReplaceAll(v, " ", ""), "text-align:"):
					k, v = "align", strings.TrimSuffix(strings.TrimPrefix(strings.ReplaceAll(v, " ", ""), "text-align:"), ";")
				case k == "href" || k == "src":
					v = c20URL(v)
				case (k == "title" || k == "align" || k == "alt") && v == "":
					continue // an empty value and an absent attribute are the same to the property
				}
				as = append(as, k+"="+fmt.Sprintf("%q", v))
			}
			sort.Strings(as)
			sb.WriteString("<" + n.Data)
			for _, a := range as {
				sb.WriteString(" " + a)
			}
			sb.WriteString(">")
			for c := n.FirstChild; c != nil; c = c.NextSibling {
				walk(c, pre || n.Data == "pre")
			}
			sb.WriteString("</" + n.Data + ">")
		default:
			for c := n.FirstChild; c != nil; c = c.NextSibling {
				walk(c, pre)
			}
		}
	}
	for _, n := range nodes {
		walk(n, false)
	}
	return strings.ReplaceAll(sb.String(), "][", " ")
}

// ---------- Markdown grammar ----------
var c20Words = []string{"lorem", "ipsum", "Dolor", "x", "42", "a < b", "AT&T", "&amp;", "&copy;", "&#35;", `\&amp;`, `\&ouml;`, `\&#42;`, "&#38;lt;", "&#x26;amp;", `\&lbrace;\&lbrace; x \&rbrace;\&rbrace;`, "&amp;#42;", `\*not em\*`, `\<`, `\&`, `"quoted"`, "it's", "{{ x }}", "{{ secret }}", "{ y }", "a_b_c", "2*3", "`", "1 > 0", "c:\\dir", "<!-- c -->", "$", "#tag", "[brackets]", "(parens)", "~",
	// text that only an extension beyond CommonMark/GFM would read as syntax: it must stay text
	"&nbsp;", "&nbsp;&nbsp;", "&emsp;", "&#160;", "\u00a0", "&#x3000;", "\u2003x",
	"{#anchor}", "{.wide}", "{key=val}", "[^1]", ":smile:", "==mark==", "^sup^", "H~2~O", "--", "---x", "...", "(c)", "*[HTML]: x", "$x^2$", "++ins++", "@user", "[[wiki]]"}

func c20Word(r *Rng) string {
	if r.Intn(3) == 0 {
		return Pick(r, c20Words)
	}
	return Pick(r, []string{"lorem", "ipsum", "dolor", "sit", "amet", "x", "y", "42"})
}
func c20Inline(r *Rng, depth int) string {
	var parts []string
	for i, k := 0, 1+r.Intn(4); i < k; i++ {
		switch x := r.Intn(16); {
		case x < 6 || depth <= 0:
			parts = append(parts, c20Word(r))
		case x < 7:
			parts = append(parts, "*"+c20Inline(r, depth-1)+"*")
		case x < 8:
			parts = append(parts, "**"+c20Inline(r, depth-1)+"**")
		case x < 9:
			parts = append(parts, "_"+c20Inline(r, 0)+"_")
		case x < 10:
			parts = append(parts, "`"+Pick(r, []string{"code", "a < b && c", "<tag>", "{{ v }}", "x | y", "&amp;", "a  b"})+"`")
		case x == 10 && r.Intn(3) == 0:
			parts = append(parts, Pick(r, []string{"[home]", "[text][home]", "[other][]", "![pic][home]"}))
		case x < 11:
			title := Pick(r, []string{"", "", ` "a title"`, ` "t & <u>"`, ` 'single'`, ` "with \"escaped\""`, ` "\&amp; &#38;lt;"`})
			parts = append(parts, "["+c20Inline(r, depth-1)+Pick(r, []string{"", "", "", "\\\n", "  \n"})+"]("+Pick(r, []string{"https://example.com/a?b=1&c=2", "/rel/path", "#frag", "<url with spaces>", "http://x.y/ä", "mailto:a@b.c", "/p(q)"})+title+")")
		case x < 12:
			parts = append(parts, "!["+Pick(r, []string{"alt", "alt *em* text", "a & b", "", "two\nlines", "a \\* b", "\\&amp; x", "&#38;copy;"})+"]("+Pick(r, []string{"img.png", "/i/a b.png", "https://x.y/i.png?a=1&b=2"})+Pick(r, []string{"", ` "title"`})+")")
		case x < 13:
			parts = append(parts, Pick(r, []string{"<https://auto.link/x?a=1&b=2>", "<me@example.com>", "https://bare.link/path", "www.example.com"}))
		case x < 14:
			parts = append(parts, Pick(r, []string{`<span class="x">raw</span>`, `<b>bold</b>`, `<br/>`, `<i title="a&amp;b">t</i>`}))
		case x < 15:
			parts = append(parts, "~~"+c20Inline(r, 0)+"~~")
		default:
			parts = append(parts, Pick(r, []string{"line  \nbreak", "soft\nbreak", "back\\\nslash"}))
		}
	}
	return strings.Join(parts, " ")
}
func c20Indent(s, pad string) string {
	lines := strings.Split(s, "\n")
	for i := range lines {
		if lines[i] != "" {
			lines[i] = pad + lines[i]
		}
	}
	return strings.Join(lines, "\n")
}
func c20Blocks(r *Rng, depth int) string {
	var bl []string
	for i, k := 0, 1+r.Intn(4); i < k; i++ {
		switch x := r.Intn(14); {
		case x < 4:
			bl = append(bl, c20Inline(r, 2))
		case x < 5:
			bl = append(bl, strings.Repeat("#", 1+r.Intn(6))+" "+c20Inline(r, 1)+Pick(r, []string{"", "", "", " {#setup}", " {.wide}", " {env=prod}", " {#q} #", " #", " \\#"}))
		case x < 6:
			bl = append(bl, c20Inline(r, 0)+Pick(r, []string{"", "", " {#only}", " {.c}"})+"\n"+Pick(r, []string{"===", "---"}))
		case x < 7:
			bl = append(bl, "```"+Pick(r, []string{"", "go", "html", "\\&amp;", "&#38;lt;"})+"\n"+Pick(r, []string{"x := a < b && c\n  indented {{ v }}\n", "<p>&amp;</p>\n\n\nafter blank\n", "tab\there\n"})+"```")
		case x < 8:
			bl = append(bl, "    indented code <b>x</b>\n    second & line")
		case x < 9 && depth > 0:
			bl = append(bl, c20Indent(c20Blocks(r, depth-1), "> "))
		case x < 11 && depth > 0:
			var items []string
			ordered := r.Bool()
			start := Pick(r, []int{1, 1, 3, 0, 10})
			for j, m := 0, 1+r.Intn(3); j < m; j++ {
				marker := "- "
				if ordered {
					marker = fmt.Sprintf("%d. ", start+j)
				}
				task := ""
				if !ordered && r.Intn(4) == 0 {
					task = Pick(r, []string{"[ ] ", "[x] "})
				}
				body := task + c20Inline(r, 1)
				if r.Intn(3) == 0 {
					body += "\n\n" + c20Blocks(r, depth-1)
				}
				pad := strings.Repeat(" ", len(marker))
				lines := strings.Split(body, "\n")
				for li := range lines {
					if li == 0 {
						lines[li] = marker + lines[li]
					} else if lines[li] != "" {
						lines[li] = pad + lines[li]
					}
				}
				items = append(items, strings.Join(lines, "\n"))
			}
			sep := "\n"
			if r.Intn(3) == 0 {
				sep = "\n\n"
			}
			bl = append(bl, strings.Join(items, sep))
		case x < 12:
			bl = append(bl, Pick(r, []string{"---", "***", "___"}))
		case x == 12 && r.Intn(2) == 0:
			bl = append(bl, Pick(r, []string{"[home]: /first-url \"First title\"", "[home]: /second-url", "[other]: <https://o.example/a b> 'O'", "[HOME]: /upper"}))
		case x < 13:
			cols := 1 + r.Intn(4)
			var hdr, al []string
			for c := 0; c < cols; c++ {
				hdr = append(hdr, c20Inline(r, 0))
				al = append(al, Pick(r, []string{"---", ":--", "--:", ":-:"}))
			}
			rows := []string{"| " + strings.Join(hdr, " | ") + " |", "| " + strings.Join(al, " | ") + " |"}
			for j, m := 0, 1+r.Intn(3); j < m; j++ {
				var cells []string
				// a body row may have fewer cells than the header (the parser pads it) or more (the parser drops them)
				n := cols + Pick(r, []int{0, 0, 0, -1, -1, 1})
				if n < 1 {
					n = 1
				}
				for c := 0; c < n; c++ {
					cells = append(cells, strings.ReplaceAll(strings.ReplaceAll(c20Inline(r, 1), "\n", " "), "|", "\\|"))
				}
				if r.Intn(5) == 0 { // without the outer pipes
					rows = append(rows, strings.Join(cells, " | "))
				} else {
					rows = append(rows, "| "+strings.Join(cells, " | ")+" |")
				}
			}
			bl = append(bl, strings.Join(rows, "\n"))
		default:
			bl = append(bl, Pick(r, []string{"<div class=\"raw\">\nraw *block*\n</div>", "<!-- comment block -->", "<!--\nmulti\nline\n-->", "<script>\nlet a = 1 < 2;\n</script>", "<details>\n<summary>s</summary>\n\ninner *md*\n\n</details>"}))
		}
	}
	return strings.Join(bl, "\n\n")
}

func c20Class(src string) string {
	switch {
	case strings.Contains(src, "  \n") || strings.Contains(src, "\\\n"):
		return "hard-break"
	case strings.Contains(src, "\\"):
		return "backslash"
	case strings.Contains(src, "{{"):
		return "mustache"
	case strings.Contains(src, "&") || strings.Contains(src, "<"):
		return "punctuation"
	}
	return "other"
}

func init() { streams["C20"] = runC20 }

func runC20(r *Run) {
	r.Imports = []string{"Model.Tok", "Model.Md"}
	r.Rule("documents generated from a CommonMark/GFM grammar (ATX and setext headings, paragraphs, nested emphasis, code spans, fenced and indented code, links and images with titles, autolinks and bare links, nested lists with starts and task items, tight and loose, blockquotes, tables with alignment, thematic breaks, hard and soft breaks, raw HTML inline and block, strikethrough, entities, backslash escapes, mustache-looking text): " +
		"markdown.RenderBytes through the default templates vs goldmark's own HTML renderer (GFM, unsafe): both parsed with x/net/html and compared after dropping representation choices (attribute order, start=1, align vs style, heading ids, URL percent-encoding, whitespace outside pre); arbitrary byte strings must render without error; every single-template override replaces exactly that template; every third document is rendered by a renderer whose content file system defines site-wide values for every name the default templates use")
	rr := r.Rng
	n := 800
	if r.Thorough() {
		n = 40000
	}
	for i := 0; i < n; i++ {
		if i == 0 {
			// (before the first document: a path the default templates use must not already sit in the memo) the process has resolved more distinct dotted variable paths than any bounded memo of parsed
			// paths holds (the engine keeps 256): the default templates' own paths (cell.align, cell.content, ...) still resolve
			var sb strings.Builder
			for k := 0; k < 400; k++ {
				fmt.Fprintf(&sb, "{{ page.f%d }}{{ site.g%d.h }}", k, k)
			}
			var sink bytes.Buffer
			_ = vuego.New().Fill(map[string]any{"page": map[string]any{}, "site": map[string]any{}}).RenderString(context.Background(), &sink, "<p>"+sb.String()+"</p>")
			r.Count("history:after-400-distinct-variable-paths")
		}
		src := c20Blocks(rr, 2)
		if i%7 == 3 { // a document that begins with blank lines (an editor's leading line break, CRLF files)
			src = Pick(rr, []string{"\n", "\n\n", "\r\n", "\n \n", "\r\n\r\n"}) + src
		}
		c20UseSite = i%3 == 2 // every third document through the renderer whose site data defines the templates' names
		// every fifth document as a file with front-matter, through Load and Document.Render (a document that itself begins
		// with a thematic break or a setext underline would be taken for more front-matter: those stay with RenderBytes)
		c20ViaLoad = i%5 == 4 && !strings.HasPrefix(strings.TrimLeft(src, " \n"), "---") && !strings.Contains(src, "\n---")
		if c20ViaLoad {
			r.Count("entry:Load+Render")
		}
		got, err := c20Vuego(src, nil)
		c20UseSite, c20ViaLoad = false, false
		if i%3 == 2 {
			r.Count("renderer:with-site-data")
		}
		ref, _ := c20Reference(src)
		class := c20Class(src)
		r.Eval("md:"+src, class != "other", nil)
		r.Count("class:" + class)
		desc := map[string]any{"markdown": src}
		if err != nil {
			r.Fail("rendering a Markdown document fails", map[string]string{"oracle": "md-total", "class": class}, map[string]any{"case": desc, "err": err.Error()})
			continue
		}
		if term, ok := c20AST(src); ok && !strings.Contains(got, "\x00") {
			r.Case("ast", fmt.Sprintf("{| c_out := %s; c_doc := %s |}", coqBytes(got), term), L(A("same")), map[string]any{"markdown": src, "output": got}, map[string]string{"class": class}, class != "other")
		} else {
			r.Count("model-skip:node-kind-outside-the-model")
		}
		cg, cr := c20Canon(got), c20Canon(ref)
		if cg != cr {
			// the known defect (a line break written <br></br> reads as two) is reported as such only when it
			// is the whole difference: with it taken out of the output the documents must agree
			cg2 := c20Canon(strings.ReplaceAll(got, "<br></br>", "<br>"))
			if cg2 == cr {
				r.Fail("the rendered document differs from the reference rendering", map[string]string{"oracle": "md-agrees", "class": "br"}, map[string]any{"case": desc, "output": got, "reference": ref, "canon_output": cg, "canon_reference": cr})
			} else {
				r.Fail("the rendered document differs from the reference rendering", map[string]string{"oracle": "md-agrees", "class": c20Diff(cg2, cr, class)}, map[string]any{"case": desc, "output": got, "reference": ref, "canon_output": cg2, "canon_reference": cr})
			}
		}
	}
	// no failure on arbitrary bytes
	nb := 300
	if r.Thorough() {
		nb = 20000
	}
	alphabet := []string{"#", "*", "_", "`", "```", "[", "]", "(", ")", "!", "<", ">", "&", "|", "-", "\n", "\n\n", "    ", "> ", "1. ", "- ", "{{", "}}", "\\", "\x00", "\xff", "~~", ":", "\"", "x", " "}
	for i := 0; i < nb; i++ {
		var sb strings.Builder
		for k, m := 0, 1+rr.Intn(40); k < m; k++ {
			if rr.Intn(8) == 0 {
				sb.WriteByte(byte(rr.Intn(256)))
			} else {
				sb.WriteString(Pick(rr, alphabet))
			}
		}
		src := sb.String()
		_, err := c20Vuego(src, nil)
		r.Eval("bytes:"+src, true, nil)
		r.Count("class:bytes")
		if err != nil {
			r.Fail("rendering a byte string as Markdown fails", map[string]string{"oracle": "md-total", "class": "bytes"}, map[string]any{"case": map[string]any{"markdown": src}, "err": err.Error()})
		}
	}
	// overrides: a user template replaces exactly the corresponding default
	doc := "# Title\n\npara *em* `code` [l](/u) ![i](/p.png)\n\n- item\n\n> quote\n\n```go\ncode\n```\n\n---\n\n| a |\n|---|\n| b |\n\n~~s~~ <https://a.b>"
	base, _ := c20Vuego(doc, nil)
	names := []string{"heading", "paragraph", "emphasis", "code_span", "link", "image", "list", "list_item", "blockquote", "code_block", "thematic_break", "table", "strikethrough", "autolink"}
	for _, nm := range names {
		marker := "OVERRIDE-" + nm
		out, err := c20Vuego(doc, map[string]string{"markdown/" + nm + ".vuego": `<section data-o="` + marker + `">X</section>`})
		r.Eval("override:"+nm, true, nil)
		r.Count("class:override")
		if err != nil || !strings.Contains(out, marker) {
			r.Fail("a user template in the content filesystem does not replace the default", map[string]string{"oracle": "md-override", "template": nm}, map[string]any{"template": nm, "output": out, "err": fmt.Sprint(err)})
			continue
		}
		// every other template's marker-free output is still there: strip the overridden parts and compare what remains by element census
		for _, other := range names {
			if other == nm {
				continue
			}
			tag := map[string]string{"heading": "<h1", "paragraph": "<p", "emphasis": "<em", "code_span": "<code", "link": "<a ", "image": "<img", "list": "<ul", "list_item": "<li", "blockquote": "<blockquote", "code_block": "<pre", "thematic_break": "<hr", "table": "<table", "strikethrough": "<del", "autolink": "<a "}[other]
			inside := map[string][]string{"paragraph": {"emphasis", "code_span", "link", "image", "strikethrough", "autolink"}, "list": {"list_item"}, "list_item": {}, "blockquote": {"paragraph"}, "heading": {}, "table": {}}[nm]
			skip := false
			for _, in := range inside {
				skip = skip || in == other
			}
			if nm == "paragraph" && (other == "blockquote" || other == "list_item") {
				skip = false
			}
			if skip {
				continue
			}
			if strings.Contains(base, tag) && !strings.Contains(out, tag) {
				r.Fail("overriding one template changed the output of another", map[string]string{"oracle": "md-override-exact", "template": nm, "other": other}, map[string]any{"template": nm, "other": other, "output": out})
			}
		}
	}
	// an empty user template switches a construct off: it replaces the default like any other template
	for _, nm := range []string{"thematic_break", "emphasis", "image", "code_block", "strikethrough", "heading"} {
		tag := map[string]string{"heading": "<h1", "emphasis": "<em", "image": "<img", "code_block": "<pre", "thematic_break": "<hr", "strikethrough": "<del"}[nm]
		for _, empty := range []string{"", "\n", "<!-- off -->"} {
			out, err := c20Vuego(doc, map[string]string{"markdown/" + nm + ".vuego": empty})
			r.Eval("override-empty:"+nm, true, nil)
			r.Count("class:override")
			if err != nil || strings.Contains(out, tag) || !strings.Contains(base, tag) {
				r.Fail("an empty user template in the content filesystem does not replace the default", map[string]string{"oracle": "md-override", "template": nm, "form": "empty"},
					map[string]any{"template": nm, "override_text": empty, "output": out, "err": fmt.Sprint(err)})
			}
		}
	}
}

// where two canonical dumps first differ, as a coarse class
func c20Diff(a, b, class string) string {
	i := 0
	for i < len(a) && i < len(b) && a[i] == b[i] {
		i++
	}
	ctx := func(s string) string {
		lo, hi := i-25, i+25
		if lo < 0 {
			lo = 0
		}
		if hi > len(s) {
			hi = len(s)
		}
		return s[lo:hi]
	}
	ca, cb := ctx(a), ctx(b)
	switch {
	case strings.Contains(ca, "<br>") != strings.Contains(cb, "<br>"):
		return "line-break-missing-or-extra"
	case strings.Contains(ca, "\\") && !strings.Contains(cb, "\\"):
		return "backslash-escape"
	}
	return class
}

// ---------- the goldmark AST as a term of Model/Md.v ----------
type c20Dump struct {
	src []byte
	ok  bool // false: the document holds a node kind outside the model (raw HTML, ...)
}

func c20Resolve(b []byte) string {
	var buf bytes.Buffer
	bw := bufio.NewWriter(&buf)
	ghtml.DefaultWriter.Write(bw, b)
	_ = bw.Flush()
	return stdhtml.UnescapeString(buf.String())
}

func (d *c20Dump) inlines(n gast.Node) string {
	var xs []string
	for c := n.FirstChild(); c != nil; c = c.NextSibling() {
		xs = append(xs, d.inline(c)...)
	}
	return "[" + strings.Join(xs, "; ") + "]"
}
func (d *c20Dump) plain(n gast.Node) string {
	var sb strings.Builder
	for c := n.FirstChild(); c != nil; c = c.NextSibling() {
		if t, ok := c.(*gast.Text); ok {
			sb.WriteString(c20Resolve(t.Segment.Value(d.src)))
			if t.SoftLineBreak() {
				sb.WriteString("\n")
			}
		} else if c.HasChildren() {
			sb.WriteString(d.plain(c))
		}
	}
	return sb.String()
}
func (d *c20Dump) inline(n gast.Node) []string {
	switch x := n.(type) {
	case *gast.Text:
		if x.IsRaw() {
			d.ok = false
			return nil
		}
		s := c20Resolve(x.Segment.Value(d.src))
		var out []string
		if x.HardLineBreak() {
			if s != "" {
				out = append(out, "IText "+coqBytes(s))
			}
			return append(out, "IBreak")
		}
		if x.SoftLineBreak() {
			s += "\n"
		}
		if s == "" {
			return nil
		}
		return []string{"IText " + coqBytes(s)}
	case *gast.CodeSpan:
		var sb strings.Builder
		for c := x.FirstChild(); c != nil; c = c.NextSibling() {
			if t, ok := c.(*gast.Text); ok {
				sb.Write(t.Segment.Value(d.src))
			}
		}
		if sb.Len() == 0 {
			d.ok = false
		}
		return []string{"ICode " + coqBytes(sb.String())}
	case *gast.Emphasis:
		return []string{fmt.Sprintf("IEm %v %s", x.Level == 2, d.inlines(x))}
	case *gast.Link:
		return []string{fmt.Sprintf("ILink %s %s %s", coqBytes(string(x.Destination)), coqBytes(c20Resolve(x.Title)), d.inlines(x))}
	case *gast.Image:
		return []string{fmt.Sprintf("IImage %s %s %s", coqBytes(string(x.Destination)), coqBytes(d.plain(x)), coqBytes(c20Resolve(x.Title)))}
	case *gast.AutoLink:
		u := string(x.URL(d.src))
		if x.AutoLinkType == gast.AutoLinkEmail {
			u = "mailto:" + u
		}
		return []string{fmt.Sprintf("IAuto %s %s", coqBytes(u), coqBytes(string(x.Label(d.src))))}
	case *geast.Strikethrough:
		return []string{"IDel " + d.inlines(x)}
	case *geast.TaskCheckBox:
		return []string{fmt.Sprintf("ICheck %v", x.IsChecked)}
	default:
		d.ok = false
		return nil
	}
}
func (d *c20Dump) blocks(n gast.Node) string {
	var xs []string
	for c := n.FirstChild(); c != nil; c = c.NextSibling() {
		xs = append(xs, d.block(c))
	}
	return "[" + strings.Join(xs, "; ") + "]"
}
func (d *c20Dump) lines(n gast.Node) string {
	var sb strings.Builder
	for i := 0; i < n.Lines().Len(); i++ {
		l := n.Lines().At(i)
		sb.Write(l.Value(d.src))
	}
	return sb.String()
}
func (d *c20Dump) cells(row gast.Node) string {
	var xs []string
	for c := row.FirstChild(); c != nil; c = c.NextSibling() {
		tc, ok := c.(*geast.TableCell)
		if !ok {
			d.ok = false
			continue
		}
		al := map[geast.Alignment]string{geast.AlignLeft: "left", geast.AlignCenter: "center", geast.AlignRight: "right"}[tc.Alignment]
		xs = append(xs, fmt.Sprintf("(%s, %s)", coqBytes(al), d.inlines(tc)))
	}
	return "[" + strings.Join(xs, "; ") + "]"
}
func (d *c20Dump) block(n gast.Node) string {
	switch x := n.(type) {
	case *gast.Paragraph:
		return "BPara " + d.inlines(x)
	case *gast.TextBlock:
		return "BText " + d.inlines(x)
	case *gast.Heading:
		return fmt.Sprintf("BHeading %d %s", x.Level, d.inlines(x))
	case *gast.FencedCodeBlock:
		code := d.lines(x)
		if code == "" {
			d.ok = false
		}
		return fmt.Sprintf("BCode %s %s", coqBytes(c20Resolve(x.Language(d.src))), coqBytes(code))
	case *gast.CodeBlock:
		code := d.lines(x)
		if code == "" {
			d.ok = false
		}
		return fmt.Sprintf("BCode [] %s", coqBytes(code))
	case *gast.Blockquote:
		return "BQuote " + d.blocks(x)
	case *gast.List:
		var items []string
		for c := x.FirstChild(); c != nil; c = c.NextSibling() {
			items = append(items, d.blocks(c))
		}
		return fmt.Sprintf("BList %v %d [%s]", x.IsOrdered(), x.Start, strings.Join(items, "; "))
	case *gast.ThematicBreak:
		return "BHr"
	case *geast.Table:
		hd, rows := "[]", []string{}
		for c := x.FirstChild(); c != nil; c = c.NextSibling() {
			switch r := c.(type) {
			case *geast.TableHeader:
				hd = d.cells(r)
			case *geast.TableRow:
				rows = append(rows, d.cells(r))
			}
		}
		return fmt.Sprintf("BTable %s [%s]", hd, strings.Join(rows, "; "))
	default:
		d.ok = false
		return "BHr"
	}
}

var c20Parser = goldmark.New(goldmark.WithExtensions(extension.GFM)).Parser()

func c20AST(src string) (string, bool) {
	d := &c20Dump{src: []byte(src), ok: true}
	doc := c20Parser.Parse(gtext.NewReader(d.src))
	return d.blocks(doc), d.ok
}
