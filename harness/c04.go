package main

import (
	"bytes"
	"context"
	"fmt"
	"regexp"
	"sort"
	"strings"
	"testing/fstest"

	"github.com/titpetric/vuego"
)

// C04: v-for. Templates are generated as trees of probe elements and loops; every probe prints
// what it sees of some names through {{ }}, through an expression, and through a bound attribute.

type c04View struct {
	kind string // text expr attr
	path string
	typ  string // expr: "str" | "int"
}
type c04Tpl struct {
	kind    string // print for
	id      int
	views   []c04View
	vars    []string
	coll    string
	cond    string
	tmpl    bool // <template v-for>
	body    []*c04Tpl
	hasElse bool
	els     []*c04Tpl
	gap     string   // what stands between the loop and its v-else sibling
	echo    []string // print: variables bound once more as attributes of their own name (:x="x"), unobserved
}

func c04Coq(ts []*c04Tpl) string {
	if len(ts) == 0 {
		return "TNil"
	}
	t := ts[0]
	next := c04Coq(ts[1:])
	if t.kind == "print" {
		return fmt.Sprintf("(TPrint %d %s %s)", t.id, coqList(t.views, func(v c04View) string {
			return map[string]string{"text": "VText ", "expr": "VExpr ", "attr": "VAttr ", "prop": "VProp "}[v.kind] + coqBytes(v.path)
		}), next)
	}
	cond := "None"
	if t.cond != "" {
		cond = "(Some " + coqBytes(t.cond) + ")"
	}
	return fmt.Sprintf("(TFor %s %s %s %s %s %s %s)", coqList(t.vars, coqBytes), coqBytes(t.coll), cond, c04Coq(t.body), coqBool(t.hasElse), c04Coq(t.els), next)
}
func c04Src(ts []*c04Tpl) string {
	var sb strings.Builder
	for _, t := range ts {
		if t.kind == "print" && len(t.views) > 0 && t.views[0].kind == "prop" {
			// realised through an include: the probe component prints the props it was given
			attrs := ""
			for k, v := range t.views {
				attrs += fmt.Sprintf(` :v%d="%s"`, k, v.path)
			}
			fmt.Fprintf(&sb, `<template include="probe%d.vuego" pid="%d"%s></template>`, len(t.views), t.id, attrs)
			continue
		}
		if t.kind == "print" {
			// record order: text/expr views first (joined by |), then attribute views
			var texts []string
			attrs := ""
			k := 0
			for _, v := range t.views {
				switch v.kind {
				case "text":
					texts = append(texts, "{{ "+v.path+" }}")
				case "expr":
					if v.typ == "int" {
						texts = append(texts, "{{ "+v.path+" + 0 }}")
					} else {
						texts = append(texts, "{{ "+v.path+" + '' }}")
					}
				case "attr":
					attrs += fmt.Sprintf(` :data-a%d="%s"`, k, v.path)
					k++
				}
			}
			for _, n := range t.echo {
				attrs += fmt.Sprintf(` :%s="%s"`, n, n)
			}
			fmt.Fprintf(&sb, `<i data-m="%d"%s>%s</i>`, t.id, attrs, strings.Join(texts, "|"))
			continue
		}
		tag := "div"
		if t.tmpl {
			tag = "template"
		}
		// the same loop head in its spelling variants: one variable bare or parenthesised, two variables with any
		// spacing around the comma and the parentheses, one or more blanks around "in"
		h := len(t.coll)*7 + len(t.body)*3 + len(t.vars[0]) + len(t.cond)
		for _, c := range t.coll {
			h += int(c)
		}
		vf := []string{t.vars[0], t.vars[0], "(" + t.vars[0] + ")", "( " + t.vars[0] + " )"}[h%4]
		if len(t.vars) == 2 {
			vf = []string{"(%s, %s)", "(%s,%s)", "( %s , %s )", "(%s ,%s)"}[h%4]
			vf = fmt.Sprintf(vf, t.vars[0], t.vars[1])
		}
		if (h/4)%3 == 0 {
			vf += " "
		}
		cond := ""
		if t.cond != "" {
			cond = fmt.Sprintf(` v-if="%s"`, t.cond)
		}
		fmt.Fprintf(&sb, `<%s v-for="%s in %s"%s>%s</%s>`, tag, vf, t.coll, cond, c04Src(t.body), tag)
		if t.hasElse {
			sb.WriteString(t.gap)
			fmt.Fprintf(&sb, `<%s v-else>%s</%s>`, tag, c04Src(t.els), tag)
		}
	}
	return sb.String()
}

var c04Probe = regexp.MustCompile(`<i data-m="(\d+)"([^>]*)>([^<]*)</i>`)
var c04Attr = regexp.MustCompile(`data-a(\d+)="([^"]*)"`)

// project the output to the records of the probes, given the view lists by probe id
func c04Project(out string, views map[int][]c04View) []Obs {
	var recs []Obs
	for _, m := range c04Probe.FindAllStringSubmatch(out, -1) {
		var id int
		fmt.Sscan(m[1], &id)
		vs := views[id]
		nText, nAttr := 0, 0
		for _, v := range vs {
			if v.kind == "attr" {
				nAttr++
			} else {
				nText++
			}
		}
		rec := []Obs{A(m[1])}
		parts := strings.Split(m[3], "|")
		if nText == 0 {
			parts = nil
		}
		attrs := map[int]string{}
		for _, am := range c04Attr.FindAllStringSubmatch(m[2], -1) {
			var k int
			fmt.Sscan(am[1], &k)
			attrs[k] = am[2]
		}
		ti, ai := 0, 0
		for _, v := range vs {
			if v.kind == "attr" {
				if val, ok := attrs[ai]; ok {
					rec = append(rec, A("="+val))
				} else {
					rec = append(rec, A("-"))
				}
				ai++
			} else {
				if ti < len(parts) {
					rec = append(rec, A(parts[ti]))
				} else {
					rec = append(rec, A("<missing-part>"))
				}
				ti++
			}
		}
		recs = append(recs, L(rec...))
	}
	return recs
}

type c04Gen struct {
	r      *Rng
	nextID int
	views  map[int][]c04View
	struc  bool // struct root data
}

// scope: name -> kind of its value ("str","int","strs","ints","rows","people","ptrs","structs","person","pperson","undef")
func (g *c04Gen) printNode(scope map[string]string) *c04Tpl {
	g.nextID++
	t := &c04Tpl{kind: "print", id: g.nextID}
	names := make([]string, 0, len(scope))
	for n := range scope {
		names = append(names, n)
	}
	sort.Strings(names)
	for _, n := range names {
		k := scope[n]
		if g.r.Intn(3) == 0 && len(names) > 3 {
			continue
		}
		switch k {
		case "str", "int":
			t.views = append(t.views, c04View{kind: "text", path: n})
			if g.r.Bool() {
				t.views = append(t.views, c04View{kind: "expr", path: n, typ: k})
			}
			if g.r.Bool() {
				t.views = append(t.views, c04View{kind: "attr", path: n})
			}
		case "undef":
			t.views = append(t.views, c04View{kind: "text", path: n}, c04View{kind: "attr", path: n})
		case "person":
			t.views = append(t.views, c04View{kind: "text", path: n + ".name"}, c04View{kind: "attr", path: n + ".ok"})
		case "pperson":
			t.views = append(t.views, c04View{kind: "text", path: n + ".Name"}, c04View{kind: "text", path: n + ".name"}, c04View{kind: "attr", path: n + ".Plain"})
		}
	}
	if len(t.views) == 0 {
		t.views = append(t.views, c04View{kind: "text", path: "zzundefined"})
	}
	// an attribute that happens to be named like a variable in scope (<option :value="value">): binding it
	// is a read, never a write to any scope
	for _, n := range names {
		if k := scope[n]; (k == "str" || k == "int") && n == strings.ToLower(n) && g.r.Intn(3) == 0 {
			t.echo = append(t.echo, n)
		}
	}
	if g.r.Intn(4) == 0 { // the same probe through an included component with bound props
		var ps []c04View
		for _, v := range t.views {
			if v.kind == "text" && len(ps) < 3 {
				ps = append(ps, c04View{kind: "prop", path: v.path})
			}
		}
		if len(ps) > 0 {
			t.views = ps
		}
	}
	g.views[t.id] = t.views
	return t
}

var c04Elem = map[string]string{"strs": "str", "ints": "int", "arr": "str", "rows": "ints", "people": "person", "ptrs": "pperson", "structs": "pperson",
	"empty": "str", "nilslice": "str", "missing": "str", "scalar": "str", "tags": "str", "mixed": "str",
	"mapany": "str", "mapstr": "str", "mapint": "str", "mappeople": "person"}

func (g *c04Gen) siblings(depth int, scope map[string]string, colls map[string]string) []*c04Tpl {
	var out []*c04Tpl
	n := 1 + g.r.Intn(3)
	for i := 0; i < n; i++ {
		if depth > 0 && g.r.Intn(3) != 0 {
			out = append(out, g.loop(depth, scope, colls))
		} else {
			out = append(out, g.printNode(scope))
		}
	}
	out = append(out, g.printNode(scope)) // what is visible after the loops
	return out
}
func (g *c04Gen) loop(depth int, scope map[string]string, colls map[string]string) *c04Tpl {
	paths := make([]string, 0, len(colls))
	for p := range colls {
		paths = append(paths, p)
	}
	sort.Strings(paths)
	coll := Pick(g.r, paths)
	ck := colls[coll]
	ek := c04Elem[ck]
	t := &c04Tpl{kind: "for", coll: coll, tmpl: g.r.Intn(4) == 0}
	varName := Pick(g.r, []string{"x", "it", "title", "e", "name"})
	t.vars = []string{varName}
	inner := map[string]string{}
	for k, v := range scope {
		inner[k] = v
	}
	if g.r.Intn(3) == 0 {
		ix := Pick(g.r, []string{"i", "idx", "x"})
		if ix != varName {
			t.vars = []string{ix, varName}
			inner[ix] = "int"
		}
	}
	inner[varName] = ek
	innerColls := map[string]string{}
	for k, v := range colls {
		if !strings.HasPrefix(k, varName+".") && k != varName {
			innerColls[k] = v
		}
	}
	// a root collection shadowed by the loop variable is no longer that collection
	for k := range innerColls {
		if k == varName || (len(t.vars) == 2 && k == t.vars[0]) {
			delete(innerColls, k)
		}
	}
	switch ek {
	case "ints":
		innerColls[varName] = "ints"
	case "person":
		innerColls[varName+".tags"] = "tags"
		if g.r.Bool() && !t.tmpl {
			t.cond = varName + ".ok"
		}
	case "str", "int":
		if g.r.Intn(4) == 0 && !t.tmpl {
			t.cond = varName // per-item v-if on the item itself (falsy: "", 0)
		}
	}
	t.body = g.siblings(depth-1, inner, innerColls)
	if g.r.Intn(5) < 2 {
		t.hasElse = true
		t.gap = Pick(g.r, []string{"", "\n  ", "<!-- c -->", "\n"})
		t.els = []*c04Tpl{g.printNode(scope)}
	}
	return t
}

func init() { streams["C04"] = runC04 }

// root data that is a struct: a loop variable spelled like a Go field name (or like its json tag) shadows the
// field inside the loop in every position - {{ }}, expressions, v-if, bound attributes - and the field is
// visible again after the loop (direct oracle: the expected text is written down)
type c04Page struct {
	Title string   `json:"title"`
	Count int      `json:"count"`
	Tags  []string `json:"tags"`
	Plain string
}

func c04StructRoot(r *Run) {
	data := c04Page{Title: "Home", Count: 7, Tags: []string{"a", "b"}, Plain: "P"}
	cases := []struct{ tpl, want string }{
		{`<li v-for="(i, Title) in tags" v-if="Title != 'Home'" :data-k="Title + '-x'">{{ i }}:{{ Title }}</li><p>{{ Title }}</p>`, `<lidata-k="a-x">0:a</li><lidata-k="b-x">1:b</li><p>Home</p>`},
		{`<li v-for="(i, title) in tags" v-if="title != 'Home'" :data-k="title + '-x'">{{ i }}:{{ title }}</li><p>{{ title }}</p>`, `<lidata-k="a-x">0:a</li><lidata-k="b-x">1:b</li><p>Home</p>`},
		{`<li v-for="(Count, t) in tags" :data-k="Count + 1">{{ Count }}{{ t }}</li><p>{{ Count }}|{{ count + 1 }}</p>`, `<lidata-k="1">0a</li><lidata-k="2">1b</li><p>7|8</p>`},
		{`<li v-for="Plain in tags" :class="{on: Plain == 'a'}">{{ Plain + '!' }}</li><p>{{ Plain }}</p>`, `<liclass="on">a!</li><li>b!</li><p>P</p>`},
		{`<template v-for="Title in tags"><i v-if="Title == 'b'">{{ Title | upper }}</i></template><p>{{ Title + '' }}</p>`, `<i>B</i><p>Home</p>`},
		// (attribute names are lower-cased by the HTML parser, so a <template :x> assignment can only use the tag's spelling)
		{`<template :title="count + 1"></template><p>{{ title }}|{{ title + 1 }}</p>`, `<p>8|9</p>`},
	}
	for i, c := range cases {
		var buf bytes.Buffer
		var err error
		func() {
			defer func() {
				if x := recover(); x != nil {
					err = fmt.Errorf("PANIC %v", x)
				}
			}()
			err = vuego.New().Fill(data).RenderString(context.Background(), &buf, c.tpl)
		}()
		got := strings.Join(strings.Fields(buf.String()), "")
		r.Eval(fmt.Sprintf("struct-root:%d", i), true, nil)
		r.Count("stream:struct-root(oracle only)")
		if err != nil || got != c.want {
			r.Fail("a loop or template variable does not shadow the root struct field of the same name in every position", map[string]string{"oracle": "struct-root-shadowing", "case": fmt.Sprint(i)},
				map[string]any{"template": c.tpl, "data": fmt.Sprintf("%+v", data), "output": buf.String(), "expected": c.want, "err": fmt.Sprint(err)})
		}
	}
}

// a nil member of a collection: the loop variable is bound (to nil) in that instance too, so it shadows an
// outer variable, an outer loop's variable and a root struct field of the same name (direct oracle)
type c04Names struct {
	Name  string
	Names []any
}

func c04NilItems(r *Run) {
	cases := []struct {
		data any
		tpl  string
		want string
	}{
		{map[string]any{"x": "outer", "xs": []any{"a", nil, "b"}}, `<li v-for="x in xs">[{{ x }}]</li><p>{{ x }}</p>`, `<li>[a]</li><li>[]</li><li>[b]</li><p>outer</p>`},
		{map[string]any{"rows": []any{[]any{"r0", nil}, []any{nil, "r1"}}}, `<div v-for="(i, v) in rows"><i v-for="(j, v) in v">[{{ v }}]</i></div>`, `<div><i>[r0]</i><i>[]</i></div><div><i>[]</i><i>[r1]</i></div>`},
		{c04Names{Name: "Root", Names: []any{"n0", nil}}, `<b v-for="Name in Names">[{{ Name }}]</b><p>{{ Name }}</p>`, `<b>[n0]</b><b>[]</b><p>Root</p>`},
		{map[string]any{"x": "outer", "xs": []any{nil, nil}}, `<li v-for="(x, y) in xs">{{ x }}[{{ y }}]</li>`, `<li>0[]</li><li>1[]</li>`},
		{map[string]any{"x": "outer", "ps": []*c04Names{nil, {Name: "p1"}}}, `<li v-for="x in ps">[{{ x.Name }}]</li><p>{{ x }}</p>`, `<li>[]</li><li>[p1]</li><p>outer</p>`},
	}
	// names bound inside one loop instance - the item, the index and any number of names assigned by a <template a=..>
	// in the body - are gone in every later loop: an instance of 1 to 14 names, then an unrelated loop that reads them
	for k := 1; k <= 14; k++ {
		var attrs, reads, empties strings.Builder
		for j := 1; j <= k; j++ {
			fmt.Fprintf(&attrs, ` a%d="v%d"`, j, j)
			fmt.Fprintf(&reads, "|{{ a%d }}", j)
			empties.WriteString("|")
		}
		people := []any{"ann", "bob"}
		cases = append(cases, struct {
			data any
			tpl  string
			want string
		}{map[string]any{"people": people, "queue": []any{"x", "y"}},
			`<div v-for="(i, p) in people"><template` + attrs.String() + `></template>{{ a` + fmt.Sprint(k) + ` }}</div><li v-for="q in queue">{{ q }}[{{ i }}|{{ p }}` + reads.String() + `]</li><u v-for="(n, z) in queue">{{ p }}{{ a1 }}</u>`,
			strings.Repeat(`<div>v`+fmt.Sprint(k)+`</div>`, 2) + `<li>x[|` + empties.String() + `]</li><li>y[|` + empties.String() + `]</li><u></u><u></u>`})
	}
	for i, c := range cases {
		var buf bytes.Buffer
		var err error
		func() {
			defer func() {
				if x := recover(); x != nil {
					err = fmt.Errorf("PANIC %v", x)
				}
			}()
			err = vuego.New().Fill(c.data).RenderString(context.Background(), &buf, c.tpl)
		}()
		got := strings.Join(strings.Fields(buf.String()), "")
		r.Eval(fmt.Sprintf("nil-item:%d", i), true, nil)
		r.Count("stream:nil-items(oracle only)")
		if err != nil || got != c.want {
			what, orc := "a loop variable bound to a nil member does not shadow the outer name in its instance", "nil-item-shadowing"
			if strings.Contains(c.tpl, "<template a1=") {
				what, orc = "names bound in one loop instance are visible in a later, unrelated loop", "instance-names-gone"
			}
			r.Fail(what, map[string]string{"oracle": orc, "case": fmt.Sprint(i)},
				map[string]any{"template": c.tpl, "data": fmt.Sprintf("%+v", c.data), "output": buf.String(), "expected": c.want, "err": fmt.Sprint(err)})
		}
	}
}

// the head of a v-for, every string up to length 4 (6 thorough) over {a b blank tab newline ( ) , "in" " in "} plus written-out spellings
func c04Heads(r *Run) {
	sigma := []string{"a", "b", " ", "(", ")", ",", "in", " in ", "\t", "\n"}
	max := 4
	if r.Thorough() {
		max = 6
	}
	var all []string
	var gen func(p string, n int)
	gen = func(p string, n int) {
		all = append(all, p)
		if n == 0 {
			return
		}
		for _, c := range sigma {
			gen(p+c, n-1)
		}
	}
	gen("", max)
	all = append(all, "item in items", "(item) in items", "( item ) in items", "(i, item) in items", "(i,item) in items", "( i , item )  in  items ", " x  in  xs.list[0] ",
		"(a, b, c) in xs", "() in xs", "(,) in xs", "(a,) in xs", "(,b) in xs", "x in", "x in ", " in xs", "x of xs", "x\tin\txs", "x in y in z", "(x in xs", "x) in xs", "((a, b)) in xs", "(a, (b)) in xs", "index in in in",
		// heads wrapped over lines or aligned with tabs
		"(i, v)\n  in items", "(i, v) in\n  items", "v\t in \titems", "(i,\n v) in items", "\n(i, v) in items\n", "v in\titems", "v\tin items", "(i, v) in \n items.list", "v \n in \n items")
	for _, h := range all {
		vars, coll, ok := vuego.VerifParseFor(h)
		var obs Obs
		if ok {
			var vs []Obs
			for _, v := range vars {
				vs = append(vs, A(v))
			}
			obs = L(A("ok"), L(vs...), A(coll))
		} else {
			obs = L(A("error"))
		}
		r.Case("loop-head", "CHead "+coqBytes(h), obs, map[string]any{"head": h}, nil, strings.Contains(h, " in "))
	}
}

type c04Section string

type c04User struct {
	Name   string
	Active bool
}
type c04Group struct {
	Active bool
	Name   string
	Size   int
}

// one loop variable name meeting values of different Go types - within one list, in nested rows, and in two loops over
// different struct types on one engine: every item is bound as it is, and an expression on it sees THAT item
func c04MixedItems(r *Run) {
	rr := r.Rng
	pool := []any{1, "one", 2, 2.5, nil, true, int64(1), "1", uint8(3), false, []any{1}, map[string]any{"k": 1}}
	show := func(v any) string {
		if v == nil {
			return ""
		}
		return fmt.Sprint(v)
	}
	n := 60
	if r.Thorough() {
		n = 1500
	}
	for c := 0; c < n; c++ {
		eng := vuego.New()
		for round := 0; round < 2; round++ {
			var xs []any
			var want []string
			for i, k := 0, 2+rr.Intn(5); i < k; i++ {
				v := Pick(rr, pool[:10])
				xs = append(xs, v)
				want = append(want, fmt.Sprintf("%d=%s", i, show(v)))
			}
			users := []c04User{{"ann", true}, {"bob", false}, {"cy", true}}
			groups := []c04Group{{false, "ops", 3}, {true, "dev", 5}}
			rows := []any{[]int{0, 1}, []string{"", "s"}, []any{nil, 2.5}}
			// bindings on the loop's own <template> tag, the second computed from the first: each instance computes them from
			// ITS item (with and without a per-item condition on the tag)
			ns := []any{map[string]any{"n": 1 + rr.Intn(3)}, map[string]any{"n": 0}, map[string]any{"n": 4 + rr.Intn(3)}, map[string]any{"n": 7}}
			chained := `<template v-for="(i, x) in ns" v-if="x.n > 0" :a="x.n" :b="a * 10"><q>{{ i }}:{{ x.n }}:{{ a }}:{{ b }}</q></template>` +
				`<template v-for="x in ns" :c="x.n + 1" :d="c + 1"><q>{{ x.n }}:{{ c }}:{{ d }}</q></template>`
			var wantQ []string
			for i, it := range ns {
				if n := it.(map[string]any)["n"].(int); n > 0 {
					wantQ = append(wantQ, fmt.Sprintf("%d:%d:%d:%d", i, n, n, n*10))
				}
			}
			for _, it := range ns {
				n := it.(map[string]any)["n"].(int)
				wantQ = append(wantQ, fmt.Sprintf("%d:%d:%d", n, n+1, n+2))
			}
			{
				var qb bytes.Buffer
				qerr := eng.New().Fill(map[string]any{"ns": ns}).RenderString(context.Background(), &qb, chained)
				var gotQ []string
				for _, m := range regexp.MustCompile(`<q>([^<]*)</q>`).FindAllStringSubmatch(qb.String(), -1) {
					gotQ = append(gotQ, m[1])
				}
				r.Eval(fmt.Sprintf("chained-bindings:%d:%d", c, round), true, nil)
				if qerr != nil || strings.Join(gotQ, ",") != strings.Join(wantQ, ",") {
					r.Fail("bindings on a loop's <template> tag are not computed from the instance's own item", map[string]string{"oracle": "chained-template-bindings", "kind": "oracle"},
						map[string]any{"template": chained, "ns": fmt.Sprint(ns), "expected": wantQ, "got": gotQ, "err": fmt.Sprint(qerr)})
				}
			}
			// a loop variable named like a root key: a path that leads nowhere on the item leads nowhere - it is not answered
			// from the root value the variable hides (text, bound attribute, nested loop with its v-else)
			{
				shadow := `<p v-for="item in items2" :title="item.badge">{{ item.name }}:{{ item.badge }}:{{ item.meta.k }}</p>` +
					`<div v-for="group in groups2"><span v-for="t in group.tags">{{ t }}</span><em v-else>none</em></div>`
				sdata := map[string]any{
					"item":    map[string]any{"name": "ROOT", "badge": "gold", "meta": map[string]any{"k": "rootk"}},
					"items2":  []any{map[string]any{"name": "a"}, map[string]any{"name": "b", "badge": "tin"}},
					"group":   map[string]any{"tags": []any{"x", "y"}},
					"groups2": []any{map[string]any{"id": 1}, map[string]any{"id": 2, "tags": []any{"z"}}},
				}
				var sb bytes.Buffer
				serr := eng.New().Fill(sdata).RenderString(context.Background(), &sb, shadow)
				got := strings.Join(strings.Fields(sb.String()), "")
				want := `<p>a::</p><ptitle="tin">b:tin:</p><div><em>none</em></div><div><span>z</span></div>`
				r.Eval(fmt.Sprintf("shadowed-root-key:%d:%d", c, round), true, nil)
				if serr != nil || got != want {
					r.Fail("a path that fails on the loop item is answered from the root value the loop variable hides", map[string]string{"oracle": "shadowed-root-key", "kind": "oracle"},
						map[string]any{"template": shadow, "expected": want, "got": got, "err": fmt.Sprint(serr)})
				}
			}
			// static text right before a loop element, the parent's closing tag right after it: a loop without output leaves
			// nothing behind, and a v-else is shown for an empty loop only
			{
				for _, cs := range []struct{ tpl, want string }{
					{`<ul>items:<li v-for="x in none">{{ x }}</li></ul>`, `<ul>items:</ul>`},
					{`<ul> <li v-for="x in none">{{ x }}</li></ul>`, `<ul></ul>`},
					{`<ul>a<li v-for="x in two">{{ x }}</li> <li v-else>none</li></ul>`, `<ul>a<li>1</li><li>2</li></ul>`},
					{`<ul>a<li v-for="x in none">{{ x }}</li> <li v-else>none</li></ul>`, `<ul>a<li>none</li></ul>`},
					{`<section><div v-for="r in rows2">t<span v-for="c in r.cells">{{ c }}</span></div></section>`, `<section><div>t<span>1</span></div><div>t</div></section>`},
					{`<div><b>k</b> text <span v-for="x in missing">{{ x }}</span></div><p>after</p>`, `<div><b>k</b>text</div><p>after</p>`},
				} {
					var sb bytes.Buffer
					serr := eng.New().Fill(map[string]any{"none": []any{}, "two": []any{1, 2}, "rows2": []any{map[string]any{"cells": []any{1}}, map[string]any{"cells": []any{}}}}).RenderString(context.Background(), &sb, cs.tpl)
					got := strings.Join(strings.Fields(sb.String()), "")
					r.Eval(fmt.Sprintf("text-before-loop:%d:%d", c, round), true, nil)
					if serr != nil || got != cs.want {
						r.Fail("a loop next to static text leaves unevaluated template nodes behind or shows a wrong v-else", map[string]string{"oracle": "text-before-loop", "kind": "oracle"},
							map[string]any{"template": cs.tpl, "expected": cs.want, "got": got, "err": fmt.Sprint(serr)})
					}
				}
			}
			// collections reached through a map whose key type is a named string type
			{
				tm := `<ul><li v-for="(i, x) in menus.main">m:{{ i }}:{{ x }}</li><li v-else>none-main</li><li v-for="x in menus.side">s:{{ x }}</li><li v-else>none-side</li><li v-for="x in byname.ann.Name">n</li><li v-else>none-name</li></ul>`
				var sb bytes.Buffer
				serr := eng.New().Fill(map[string]any{"menus": map[c04Section][]string{"main": {"a", "b"}, "side": {}}, "byname": map[c04Section]c04User{"ann": {Name: "Ann"}}}).RenderString(context.Background(), &sb, tm)
				got := strings.Join(strings.Fields(sb.String()), "")
				want := `<ul><li>m:0:a</li><li>m:1:b</li><li>none-side</li><li>none-name</li></ul>`
				r.Eval(fmt.Sprintf("named-key-map:%d:%d", c, round), true, nil)
				if serr != nil || got != want {
					r.Fail("a collection reached through a map with a named string key type is not iterated item by item", map[string]string{"oracle": "named-key-map", "kind": "oracle"},
						map[string]any{"template": tm, "expected": want, "got": got, "err": fmt.Sprint(serr)})
				}
			}
			tpl := `<i v-for="(i, x) in xs" :data-t="x">{{ i }}={{ x }}</i>` +
				`<b v-for="item in users" v-if="item.Active">{{ item.Name }}</b>` +
				`<u v-for="item in groups" v-if="item.Active">{{ item.Name }}{{ item.Size }}</u>` +
				`<s v-for="row in rows"><em v-for="c in row" v-if="c">{{ c }}</em></s>`
			var buf bytes.Buffer
			err := eng.New().Fill(map[string]any{"xs": xs, "users": users, "groups": groups, "rows": rows}).RenderString(context.Background(), &buf, tpl)
			out := buf.String()
			var got []string
			for _, m := range regexp.MustCompile(`<i[^>]*>([^<]*)</i>`).FindAllStringSubmatch(out, -1) {
				got = append(got, stdhtmlUnescape(m[1]))
			}
			rest := regexp.MustCompile(`<i[^>]*>[^<]*</i>\s*`).ReplaceAllString(out, "")
			rest = strings.Join(strings.Fields(rest), "")
			wantRest := "<b>ann</b><b>cy</b><u>dev5</u><s><em>1</em></s><s><em>s</em></s><s><em>2.5</em></s>"
			r.Eval(fmt.Sprintf("mixed-items:%d:%d", c, round), true, nil)
			r.Count("stream:mixed-items(oracle only)")
			if err != nil || strings.Join(got, ",") != strings.Join(want, ",") || rest != wantRest {
				r.Fail("a loop over items of different Go types does not bind each item as it is", map[string]string{"oracle": "mixed-items", "kind": "oracle"},
					map[string]any{"template": tpl, "xs": fmt.Sprintf("%#v", xs), "expected_items": want, "got_items": got, "expected_rest": wantRest, "got_rest": rest, "err": fmt.Sprint(err), "round": round})
				break
			}
		}
	}
}

func runC04(r *Run) {
	c04StructRoot(r)
	c04NilItems(r)
	c04MixedItems(r)
	c04LoopElementDirectives(r)
	c04DescendantState(r)
	r.Imports = []string{"Base.Val", "Model.Stack", "Model.Loops", "Model.ForHead"}
	c04Heads(r)
	r.Rule("loop nests up to depth 3 over slices and arrays of every element kind ([]any, []int, []string, [2]string and [3]int including all-zero arrays, [][]any, []map, []*S1 with nil members, []S1), lengths 0..3, nil, missing and non-sequence collections, and over maps (map[string]any, map[string]string, map[int]string, a map of maps; 0..7 entries whose printed keys sort differently from their numeric / listing order), " +
		"one- and two-variable forms, loop variables that do and do not shadow outer variables / root struct fields, per-item v-if, <template v-for>, followed or not by v-else (with whitespace or a comment in between); " +
		"every instance and the sibling after each loop print names through {{ }}, through an expression ({{ n + '' }}) and through a bound attribute; non-trivial: a loop with >= 2 items, shadowing, or a v-else")
	r.Assume("printed values contain no HTML-special characters and no '|'; map keys print differently from one another")
	rr := r.Rng
	n := 1500
	if r.Thorough() {
		n = 12000
	}
	s1 := func(name string, age int, plain string) Val {
		return Val{K: "struct", T: "S1", M: []KV{{K: "Name", V: VStr(name)}, {K: "Age", V: VInt("int", int64(age))}, {K: "Plain", V: VStr(plain)}, {K: "hidden", V: VStr("H")}, {K: "Skip", V: VInt("int", 9)}, {K: "sec", V: VInt("int", 5)}}}
	}
	for c := 0; c < n; c++ {
		g := &c04Gen{r: rr, views: map[int][]c04View{}}
		strs := func(k int) []Val {
			xs := []Val{}
			for i := 0; i < k; i++ {
				xs = append(xs, VStr(Pick(rr, []string{"a", "b", "", "c c"})))
			}
			return xs
		}
		ints := func(k int) []Val {
			xs := []Val{}
			for i := 0; i < k; i++ {
				xs = append(xs, VInt("int", int64(rr.Intn(3))))
			}
			return xs
		}
		var data Val
		scope := map[string]string{}
		colls := map[string]string{}
		if rr.Intn(4) == 0 { // struct root
			g.struc = true
			p1, p2 := s1("ann", 1, "p"), s1("bob", 2, "")
			data = Val{K: "struct", T: "S2", M: []KV{
				{K: "Title", V: VStr("root-title")}, {K: "Inner", V: s1("in", 3, "ip")}, {K: "Ptr", V: Val{K: "ptr", T: "S1"}},
				{K: "Items", V: VList("int", ints(rr.Intn(4))...)}, {K: "M", V: VMap()}, {K: "Any", V: VStr("any")},
				{K: "Arr", V: Val{K: "arr", T: "str", L: []Val{VStr(Pick(rr, []string{"a0", ""})), VStr(Pick(rr, []string{"a1", ""}))}}}, {K: "SM", V: Val{K: "maps"}}, {K: "IM", V: Val{K: "mapi"}},
				{K: "Ps", V: VList("*S1", Val{K: "ptr", T: "S1", P: &p1}, Val{K: "ptr", T: "S1"}, Val{K: "ptr", T: "S1", P: &p2})},
				{K: "N8", V: VInt("int8", 2)}, {K: "U16", V: VInt("uint16", 0)}, {K: "F32", V: Val{K: "float32", F: 0.5}}, {K: "Flag", V: VBool(true)}}}
			scope["title"] = "str"
			scope["x"] = "undef"
			colls["items"] = "ints"
			colls["Arr"] = "arr"
			colls["ps"] = "ptrs"
			colls["missing"] = "missing"
			colls["title"] = "scalar"
		} else {
			person := func(name string, ok bool, tags int) Val {
				return VMap(KV{K: "name", V: VStr(name)}, KV{K: "ok", V: VBool(ok)}, KV{K: "tags", V: VList("", strs(tags)...)})
			}
			mapKVs := func(mk func(string) Val) []KV {
				var kvs []KV
				for _, k := range []string{"b", "10", "a", "9", "Z", "ab", "-1"} {
					if rr.Intn(2) == 0 {
						kvs = append(kvs, KV{K: k, V: mk(k)})
					}
				}
				return kvs
			}
			intKVs := func() []KV {
				var kvs []KV
				for _, k := range []int64{2, 9, 10, -1, 100, 0} {
					if rr.Intn(2) == 0 {
						kvs = append(kvs, KV{ZK: k, V: VStr(fmt.Sprintf("i%d", k))})
					}
				}
				return kvs
			}
			var rows []Val
			for i, k := 0, rr.Intn(3); i < k; i++ {
				rows = append(rows, VList("", ints(rr.Intn(3))...))
			}
			var people []Val
			for i, k := 0, rr.Intn(4); i < k; i++ {
				people = append(people, person(Pick(rr, []string{"ann", "bob", "cy"}), rr.Bool(), rr.Intn(3)))
			}
			q1, q2 := s1("ann", 1, "p"), s1("bob", 2, "")
			data = VMap(
				KV{K: "x", V: VStr("outer-x")}, KV{K: "title", V: VStr("outer-title")}, KV{K: "i", V: VStr("outer-i")},
				KV{K: "strs", V: VList("", strs(rr.Intn(4))...)}, KV{K: "ss", V: VList("str", strs(rr.Intn(4))...)}, KV{K: "ns", V: VList("int", ints(rr.Intn(4))...)},
				// arrays whose elements may all be zero values (an array of n zeros still has n items)
				KV{K: "arr", V: Val{K: "arr", T: "str", L: []Val{VStr(Pick(rr, []string{"a0", ""})), VStr(Pick(rr, []string{"a1", ""}))}}},
				KV{K: "iarr", V: Val{K: "arr", T: "int", L: ints(3)}},
				KV{K: "zeros", V: VList("int", VInt("int", 0), VInt("int", 0))},
				KV{K: "rows", V: VList("", rows...)}, KV{K: "people", V: VList("map", people...)},
				KV{K: "ptrs", V: VList("*S1", Val{K: "ptr", T: "S1", P: &q1}, Val{K: "ptr", T: "S1"}, Val{K: "ptr", T: "S1", P: &q2})},
				KV{K: "structs", V: VList("S1", q1, q2)},
				KV{K: "empty", V: VList("")}, KV{K: "nilslice", V: VNil()}, KV{K: "scalar", V: VStr("not-a-list")},
				// maps: ForEach visits them in the order of their printed keys ("10" before "9", "Z" before "a")
				KV{K: "byname", V: VMap(mapKVs(func(k string) Val { return VStr("v-" + k) })...)},
				KV{K: "smap", V: Val{K: "maps", M: mapKVs(func(k string) Val { return VStr("s-" + k) })}},
				KV{K: "imap", V: Val{K: "mapi", M: intKVs()}},
				KV{K: "pmap", V: VMap(mapKVs(func(k string) Val { return person(k, rr.Bool(), rr.Intn(3)) })...)},
			)
			scope["x"], scope["title"], scope["i"] = "str", "str", "str"
			scope["e"] = "undef"
			for k, v := range map[string]string{"strs": "strs", "ss": "strs", "ns": "ints", "arr": "arr", "iarr": "ints", "zeros": "ints", "rows": "rows", "people": "people", "ptrs": "ptrs", "structs": "structs",
				"empty": "empty", "nilslice": "nilslice", "missing": "missing", "scalar": "scalar",
				"byname": "mapany", "smap": "mapstr", "imap": "mapint", "pmap": "mappeople"} {
				colls[k] = v
			}
		}
		data = data.Normalize()
		tpl := g.siblings(1+rr.Intn(3), scope, colls)
		src := c04Src(tpl)
		goData := data.Go()
		var out string
		var err error
		out, err = c04Render(src, goData)
		var obs Obs
		if err != nil {
			obs = L(A("error"), A(err.Error()))
		} else {
			obs = L(c04Project(out, g.views)...)
		}
		nontrivial := strings.Count(src, "v-for") >= 1 && (strings.Contains(src, "v-else") || strings.Contains(src, "in title") || strings.Contains(src, `"x in`) || strings.Contains(src, "title in") || len(obs.List) >= 4)
		r.Count(fmt.Sprintf("root-struct:%v", g.struc))
		r.Count(fmt.Sprintf("loops:%d", strings.Count(src, "v-for")))
		coq := fmt.Sprintf("CNest %s %s", data.Coq(), c04Coq(tpl))
		r.Case("loops", coq, obs, map[string]any{"template": src, "data": data.Desc()}, map[string]string{"struct_root": fmt.Sprint(g.struc)}, nontrivial)
	}
}

func c04Render(src string, data any) (string, error) {
	m := fstest.MapFS{}
	for k := 1; k <= 3; k++ {
		var parts []string
		for i := 0; i < k; i++ {
			parts = append(parts, fmt.Sprintf("{{ v%d }}", i))
		}
		m[fmt.Sprintf("probe%d.vuego", k)] = &fstest.MapFile{Data: []byte(`<i data-m="{{ pid }}">` + strings.Join(parts, "|") + `</i>`)}
	}
	var buf bytes.Buffer
	var err error
	func() {
		defer func() {
			if x := recover(); x != nil {
				err = fmt.Errorf("PANIC %v", x)
			}
		}()
		err = vuego.NewFS(m).Fill(data).RenderString(context.Background(), &buf, src)
	}()
	return buf.String(), err
}

// the loop element itself carries a further directive that shows the item (v-html, v-text, a bound attribute, v-show,
// :class, an interpolated attribute), on an element and on <template>: every instance shows ITS item, in order, for
// 1..4 items; a v-else follows and is taken only for the empty collection; the outer name is back afterwards
func c04LoopElementDirectives(r *Run) {
	forms := []struct{ name, tpl, each string }{
		{"template-v-html", `<template v-for="(i, b) in bs" v-html="b"></template>`, `%s`},
		{"template-v-html-1var", `<template v-for="b in bs" v-html="b"></template>`, `%s`},
		{"element-v-html", `<p v-for="b in bs" v-html="b"></p>`, `<p>%s</p>`},
		{"element-v-text", `<p v-for="b in bs" v-text="b"></p>`, `<p>%s</p>`},
		{"element-bound-attr", `<p v-for="b in bs" :title="b">t</p>`, `<ptitle="%s">t</p>`},
		{"element-interpolated-attr", `<p v-for="b in bs" title="x{{ b }}y">t</p>`, `<ptitle="x%sy">t</p>`},
		{"element-class", `<p v-for="b in bs" class="k" :class="b">t</p>`, `<pclass="k%s">t</p>`},
		{"element-v-show", `<p v-for="b in bs" v-show="b == 'two'" :id="b">t</p>`, ``},
		{"template-assign", `<template v-for="b in bs" :last="b"><i>{{ last }}</i></template>`, `<i>%s</i>`},
		{"template-v-html-nested", `<div v-for="g in gs"><template v-for="b in g" v-html="b"></template>|</div>`, ``},
	}
	words := []string{"one", "two", "three", "four"}
	for _, f := range forms {
		for k := 0; k <= 4; k++ {
			for _, shape := range []string{"slice", "array", "strings"} {
				var bs any
				switch shape {
				case "slice":
					xs := []any{}
					for _, w := range words[:k] {
						xs = append(xs, w)
					}
					bs = xs
				case "strings":
					bs = append([]string{}, words[:k]...)
				default:
					switch k {
					case 2:
						bs = [2]string{"one", "two"}
					case 3:
						bs = [3]string{"one", "two", "three"}
					default:
						continue
					}
				}
				want := ""
				for _, w := range words[:k] {
					switch f.name {
					case "element-v-show":
						if w == "two" {
							want += `<pid="two">t</p>`
						} else {
							want += `<pstyle="display:none;"id="` + w + `">t</p>`
						}
					case "element-class":
						want += fmt.Sprintf(f.each, w)
					default:
						want += fmt.Sprintf(f.each, w)
					}
				}
				tpl := f.tpl + `<u v-else>none</u><s>{{ b }}</s>`
				data := map[string]any{"bs": bs, "b": "outer"}
				if f.name == "template-v-html-nested" {
					if shape != "slice" {
						continue
					}
					tpl = f.tpl + `<s>{{ b }}</s>`
					data["gs"] = []any{bs, bs}
					row := "<div>" + strings.Join(words[:k], "") + "|</div>"
					want = row + row
				} else if k == 0 {
					want = "<u>none</u>"
				}
				want += "<s>outer</s>"
				out, err := c04Render(tpl, data)
				got := strings.Join(strings.Fields(out), "")
				// attribute order and the spelling of the style value are the serialiser's business
				norm := func(x string) string {
					x = strings.ReplaceAll(x, `style="display:none;"id="`, `id="§`)
					x = regexp.MustCompile(`id="([^§"]*)"style="display:none;?"`).ReplaceAllString(x, `id="§$1"`)
					return strings.ReplaceAll(x, `class="k`, `class="k`)
				}
				if f.name == "element-class" {
					got = strings.ReplaceAll(got, `class="k`, `class="k`)
					want = strings.ReplaceAll(want, `class="k`, `class="k`)
					got = regexp.MustCompile(`class="k\s*`).ReplaceAllString(got, `class="k`)
				}
				r.Eval(fmt.Sprintf("loop-element:%s:%d:%s", f.name, k, shape), k >= 2, nil)
				r.Count("stream:loop-element-directives(oracle only)")
				if err != nil || norm(got) != norm(want) {
					r.Fail("an instance of a loop whose element carries a further directive does not show its own item", map[string]string{"oracle": "loop-element-directives", "form": f.name},
						map[string]any{"template": tpl, "items": fmt.Sprint(bs), "output": out, "expected_without_whitespace": want, "err": fmt.Sprint(err)})
				}
			}
		}
	}
}

// elements INSIDE the looped element that carry static attributes next to v-show / v-text / v-html / :class: what one
// instance makes of them (display:none, a payload, a class) belongs to that instance - the next item starts from the
// template again; every instance equals the same item rendered alone
func c04DescendantState(r *Run) {
	bodies := []string{
		`<b style="color:red" v-show="row.on" v-text="row.name">old</b>`,
		`<span><i style="x:y" class="k" :class="{hot: row.on}" v-show="row.on" v-html="row.name"></i></span>`,
		`<template v-if="row.on"><u style="a:b" v-show="row.on" v-text="row.name"></u></template><s v-else style="a:b" v-show="row.on" v-text="row.name"></s>`,
		`<em v-for="q in one" style="m:n" v-show="row.on" v-text="row.name"></em>`,
	}
	masks := [][]bool{{true, false, true}, {false, true}, {false, false, true, true}, {true}}
	for bi, body := range bodies {
		for mi, mask := range masks {
			tpl := `<li v-for="(i, row) in rows">{{ i }}:` + body + `</li>`
			var rows []any
			want := ""
			for i, on := range mask {
				row := map[string]any{"on": on, "name": fmt.Sprintf("n%d", i)}
				rows = append(rows, row)
				// the same item alone (its index written out literally)
				alone, _ := c04Render(`<li v-for="(j, row) in rows">`+fmt.Sprint(i)+`:`+body+`</li>`, map[string]any{"rows": []any{row}, "one": []any{1}})
				want += strings.Join(strings.Fields(alone), "")
			}
			out, err := c04Render(tpl, map[string]any{"rows": rows, "one": []any{1}})
			got2 := strings.Join(strings.Fields(out), "")
			r.Eval(fmt.Sprintf("descendant-state:%d:%d", bi, mi), len(mask) >= 2, nil)
			r.Count("stream:descendant-state(oracle only)")
			if err != nil || got2 != want {
				r.Fail("an instance of a loop shows state that another instance left on an element inside the looped element", map[string]string{"oracle": "descendant-state", "body": fmt.Sprint(bi)},
					map[string]any{"template": tpl, "rows_on": fmt.Sprint(mask), "output": out, "expected_without_whitespace": want, "err": fmt.Sprint(err)})
			}
		}
	}
}
