package main

import (
	"fmt"
	"reflect"
	"sort"
	"strings"
	"unsafe"
)

// Val mirrors coq/Base/Val.v.
type Val struct {
	K string // nil bool int int8 .. uint64 float32 float64 str list arr map maps mapi struct ptr
	B bool
	I int64
	U uint64
	F float64
	S string
	L []Val
	M []KV
	P *Val
	T string // struct type name (struct, ptr); element type hint (list, arr)
}
type KV struct {
	K        string
	ZK       int64
	V        Val
	Tag      string
	Exported bool
}

// fixed struct types (reflect.StructOf cannot make unexported fields)
type S1 struct {
	Name   string `json:"name"`
	Age    int    `json:"age,omitempty"`
	Plain  string
	hidden string
	Skip   int `json:"-"`
	sec    int `json:"sec"`
}
type S2 struct {
	Title string            `json:"title"`
	Inner S1                `json:"inner"`
	Ptr   *S1               `json:"ptr"`
	Items []int             `json:"items"`
	M     map[string]any    `json:"m"`
	Any   any               `json:"any"`
	Arr   [2]string
	SM    map[string]string `json:"sm"`
	IM    map[int]string    `json:"im"`
	Ps    []*S1             `json:"ps"`
	N8    int8              `json:"n8"`
	U16   uint16            `json:"u16"`
	F32   float32           `json:"f32"`
	Flag  bool              `json:"flag"`
}

// S3: a json tag that equals another field's Go name, and vice versa (name lookup must win)
type S3 struct {
	Label string `json:"Name"`
	Name  string
	Code  int `json:"Label"`
}

// S4: root data for the data-source precedence stream
type S4 struct {
	A  string `json:"a"`
	B  int    `json:"b"`
	C  string `json:"c"`
	Dd string
}

var structTypes = map[string]reflect.Type{"S1": reflect.TypeOf(S1{}), "S2": reflect.TypeOf(S2{}), "S3": reflect.TypeOf(S3{}), "S4": reflect.TypeOf(S4{})}

func VNil() Val              { return Val{K: "nil"} }
func VBool(b bool) Val       { return Val{K: "bool", B: b} }
func VInt(k string, i int64) Val { return Val{K: k, I: i} }
func VStr(s string) Val      { return Val{K: "str", S: s} }
func VList(t string, xs ...Val) Val { return Val{K: "list", T: t, L: xs} }
func VMap(kvs ...KV) Val {
	sort.Slice(kvs, func(i, j int) bool { return kvs[i].K < kvs[j].K })
	return Val{K: "map", M: kvs}
}

func isIntKind(k string) bool {
	switch k {
	case "int", "int8", "int16", "int32", "int64", "uint", "uint8", "uint16", "uint32", "uint64":
		return true
	}
	return false
}

var intTypes = map[string]reflect.Type{
	"int": reflect.TypeOf(int(0)), "int8": reflect.TypeOf(int8(0)), "int16": reflect.TypeOf(int16(0)), "int32": reflect.TypeOf(int32(0)), "int64": reflect.TypeOf(int64(0)),
	"uint": reflect.TypeOf(uint(0)), "uint8": reflect.TypeOf(uint8(0)), "uint16": reflect.TypeOf(uint16(0)), "uint32": reflect.TypeOf(uint32(0)), "uint64": reflect.TypeOf(uint64(0)),
}

func elemType(hint string) reflect.Type {
	switch {
	case hint == "" || hint == "any":
		return reflect.TypeOf((*any)(nil)).Elem()
	case hint == "str":
		return reflect.TypeOf("")
	case hint == "bool":
		return reflect.TypeOf(true)
	case hint == "float64":
		return reflect.TypeOf(float64(0))
	case hint == "map":
		return reflect.TypeOf(map[string]any{})
	case hint == "list":
		return reflect.TypeOf([]any{})
	case isIntKind(hint):
		return intTypes[hint]
	case strings.HasPrefix(hint, "*"):
		return reflect.PointerTo(structTypes[hint[1:]])
	default:
		if t, ok := structTypes[hint]; ok {
			return t
		}
	}
	panic("bad elem hint " + hint)
}

// Go rebuilds the Go value.
func (v Val) Go() any {
	rv := v.rv()
	if !rv.IsValid() {
		return nil
	}
	return rv.Interface()
}
func (v Val) rv() reflect.Value {
	switch v.K {
	case "nil":
		return reflect.Value{}
	case "bool":
		return reflect.ValueOf(v.B)
	case "float32":
		return reflect.ValueOf(float32(v.F))
	case "float64":
		return reflect.ValueOf(v.F)
	case "str":
		return reflect.ValueOf(v.S)
	case "list":
		et := elemType(v.T)
		s := reflect.MakeSlice(reflect.SliceOf(et), len(v.L), len(v.L))
		for i, x := range v.L {
			setRV(s.Index(i), x)
		}
		return s
	case "arr":
		et := elemType(v.T)
		a := reflect.New(reflect.ArrayOf(len(v.L), et)).Elem()
		for i, x := range v.L {
			setRV(a.Index(i), x)
		}
		return a
	case "map":
		m := map[string]any{}
		for _, kv := range v.M {
			m[kv.K] = kv.V.Go()
		}
		return reflect.ValueOf(m)
	case "maps":
		m := map[string]string{}
		for _, kv := range v.M {
			m[kv.K] = kv.V.S
		}
		return reflect.ValueOf(m)
	case "mapi":
		m := map[int]string{}
		for _, kv := range v.M {
			m[int(kv.ZK)] = kv.V.S
		}
		return reflect.ValueOf(m)
	case "struct":
		t := structTypes[v.T]
		s := reflect.New(t).Elem()
		for _, kv := range v.M {
			f := s.FieldByName(kv.K)
			if !f.CanSet() {
				f = reflect.NewAt(f.Type(), unsafe.Pointer(f.UnsafeAddr())).Elem()
			}
			setRV(f, kv.V)
		}
		return s
	case "ptr":
		t := structTypes[v.T]
		if v.P == nil {
			return reflect.Zero(reflect.PointerTo(t))
		}
		p := reflect.New(t)
		p.Elem().Set(v.P.rv())
		return p
	}
	if isIntKind(v.K) {
		x := reflect.New(intTypes[v.K]).Elem()
		if strings.HasPrefix(v.K, "u") {
			x.SetUint(uint64(v.I))
		} else {
			x.SetInt(v.I)
		}
		return x
	}
	panic("bad val kind " + v.K)
}
func setRV(dst reflect.Value, x Val) {
	rv := x.rv()
	if !rv.IsValid() {
		dst.Set(reflect.Zero(dst.Type()))
		return
	}
	dst.Set(rv)
}

func hintOf(t reflect.Type) string {
	switch t.Kind() {
	case reflect.Interface:
		return ""
	case reflect.String:
		return "str"
	case reflect.Bool:
		return "bool"
	case reflect.Float64:
		return "float64"
	case reflect.Map:
		return "map"
	case reflect.Slice:
		return "list"
	case reflect.Ptr:
		return "*" + t.Elem().Name()
	case reflect.Struct:
		return t.Name()
	}
	if isIntKind(t.Kind().String()) {
		return t.Kind().String()
	}
	return ""
}

// FromGo converts any Go value back to a Val (never calls Interface on unexported fields).
func FromGo(x any) Val {
	if x == nil {
		return VNil()
	}
	return fromRV(reflect.ValueOf(x))
}
func fromRV(rv reflect.Value) Val {
	switch rv.Kind() {
	case reflect.Invalid:
		return VNil()
	case reflect.Interface:
		if rv.IsNil() {
			return VNil()
		}
		return fromRV(rv.Elem())
	case reflect.Bool:
		return VBool(rv.Bool())
	case reflect.Int, reflect.Int8, reflect.Int16, reflect.Int32, reflect.Int64:
		return Val{K: rv.Kind().String(), I: rv.Int()}
	case reflect.Uint, reflect.Uint8, reflect.Uint16, reflect.Uint32, reflect.Uint64:
		return Val{K: rv.Kind().String(), I: int64(rv.Uint())}
	case reflect.Float32:
		return Val{K: "float32", F: rv.Float()}
	case reflect.Float64:
		return Val{K: "float64", F: rv.Float()}
	case reflect.String:
		return VStr(rv.String())
	case reflect.Slice, reflect.Array:
		k := "list"
		if rv.Kind() == reflect.Array {
			k = "arr"
		}
		out := Val{K: k, L: []Val{}, T: hintOf(rv.Type().Elem())}
		for i := 0; i < rv.Len(); i++ {
			out.L = append(out.L, fromRV(rv.Index(i)))
		}
		return out
	case reflect.Map:
		if rv.Type().Key().Kind() != reflect.String {
			out := Val{K: "mapi"}
			for _, k := range rv.MapKeys() {
				out.M = append(out.M, KV{ZK: k.Int(), V: fromRV(rv.MapIndex(k))})
			}
			sort.Slice(out.M, func(i, j int) bool { return out.M[i].ZK < out.M[j].ZK })
			return out
		}
		k := "map"
		if rv.Type().Elem().Kind() == reflect.String {
			k = "maps"
		}
		out := Val{K: k}
		for _, key := range rv.MapKeys() {
			out.M = append(out.M, KV{K: key.String(), V: fromRV(rv.MapIndex(key))})
		}
		sort.Slice(out.M, func(i, j int) bool { return out.M[i].K < out.M[j].K })
		return out
	case reflect.Struct:
		out := Val{K: "struct", T: rv.Type().Name()}
		for i := 0; i < rv.NumField(); i++ {
			f := rv.Type().Field(i)
			out.M = append(out.M, KV{K: f.Name, Tag: f.Tag.Get("json"), Exported: f.IsExported(), V: fromRV(rv.Field(i))})
		}
		return out
	case reflect.Ptr:
		if rv.IsNil() {
			return Val{K: "ptr", T: rv.Type().Elem().Name()}
		}
		t := fromRV(rv.Elem())
		return Val{K: "ptr", T: rv.Type().Elem().Name(), P: &t}
	}
	return VStr(fmt.Sprintf("<%s>", rv.Kind()))
}

func fieldMeta(typ, name string) (tag string, exported bool) {
	if t, ok := structTypes[typ]; ok {
		if f, ok := t.FieldByName(name); ok {
			return f.Tag.Get("json"), f.IsExported()
		}
	}
	return "", false
}

// Normalize fills Tag/Exported of struct fields from the Go type (so generators need not).
func (v Val) Normalize() Val { return FromGo(v.Go()) }

func fshown(v Val) string {
	if v.K == "float32" {
		return fmt.Sprint(float32(v.F))
	}
	return fmt.Sprint(v.F)
}

// Obs mirrors obs_of_val.
func (v Val) Obs() Obs {
	switch v.K {
	case "nil":
		return L(A("nil"))
	case "bool":
		return L(A("bool"), B(v.B))
	case "float32", "float64":
		return L(A(v.K), A(fshown(v)))
	case "str":
		return L(A("str"), A(v.S))
	case "list", "arr":
		xs := []Obs{A(v.K)}
		for _, x := range v.L {
			xs = append(xs, x.Obs())
		}
		return L(xs...)
	case "map":
		xs := []Obs{A("map")}
		for _, kv := range v.M {
			xs = append(xs, L(A(kv.K), kv.V.Obs()))
		}
		return L(xs...)
	case "maps":
		xs := []Obs{A("maps")}
		for _, kv := range v.M {
			xs = append(xs, L(A(kv.K), A(kv.V.S)))
		}
		return L(xs...)
	case "mapi":
		xs := []Obs{A("mapi")}
		for _, kv := range v.M {
			xs = append(xs, L(A(fmt.Sprint(kv.ZK)), kv.V.Obs()))
		}
		return L(xs...)
	case "struct":
		xs := []Obs{A("struct")}
		for _, kv := range v.M {
			xs = append(xs, L(A(kv.K), kv.V.Obs()))
		}
		return L(xs...)
	case "ptr":
		if v.P == nil {
			return L(A("ptr"), A("nil"))
		}
		return L(A("ptr"), v.P.Obs())
	}
	return L(A(v.K), A(fmt.Sprint(v.I)))
}

var coqKind = map[string]string{"int": "KInt", "int8": "KInt8", "int16": "KInt16", "int32": "KInt32", "int64": "KInt64",
	"uint": "KUint", "uint8": "KUint8", "uint16": "KUint16", "uint32": "KUint32", "uint64": "KUint64"}

func coqZ(i int64) string {
	if i < 0 {
		return fmt.Sprintf("(%d)%%Z", i)
	}
	return fmt.Sprintf("%d%%Z", i)
}

// Coq prints the value as a term of type val.
func (v Val) Coq() string {
	switch v.K {
	case "nil":
		return "VNil"
	case "bool":
		return "(VBool " + coqBool(v.B) + ")"
	case "float32", "float64":
		return fmt.Sprintf("(VFloat %s %s %s)", coqBool(v.K == "float64"), coqBool(v.F == 0), coqBytes(fshown(v)))
	case "str":
		return "(VStr " + coqBytes(v.S) + ")"
	case "list":
		return "(VList " + coqList(v.L, Val.Coq) + ")"
	case "arr":
		return "(VArr " + coqList(v.L, Val.Coq) + ")"
	case "map":
		return "(VMap " + coqList(v.M, func(kv KV) string { return "(" + coqBytes(kv.K) + ", " + kv.V.Coq() + ")" }) + ")"
	case "maps":
		return "(VMapS " + coqList(v.M, func(kv KV) string { return "(" + coqBytes(kv.K) + ", " + coqBytes(kv.V.S) + ")" }) + ")"
	case "mapi":
		return "(VMapI " + coqList(v.M, func(kv KV) string { return "(" + coqZ(kv.ZK) + ", " + kv.V.Coq() + ")" }) + ")"
	case "struct":
		return "(VStruct " + coqList(v.M, func(kv KV) string {
			tag, exp := fieldMeta(v.T, kv.K)
			return fmt.Sprintf("(%s, %s, %s, %s)", coqBytes(kv.K), coqBytes(tag), coqBool(exp), kv.V.Coq())
		}) + ")"
	case "ptr":
		if v.P == nil {
			return "(VPtr None)"
		}
		return "(VPtr (Some " + v.P.Coq() + "))"
	}
	return fmt.Sprintf("(VInt %s %s)", coqKind[v.K], coqZ(v.I))
}
func coqScope(m map[string]Val) string {
	keys := make([]string, 0, len(m))
	for k := range m {
		keys = append(keys, k)
	}
	sort.Strings(keys)
	return coqList(keys, func(k string) string { return "(" + coqBytes(k) + ", " + m[k].Coq() + ")" })
}
func goScope(m map[string]Val) map[string]any {
	out := map[string]any{}
	for k, v := range m {
		out[k] = v.Go()
	}
	return out
}

// JSON-friendly rendering for replay files
func (v Val) Desc() any {
	switch v.K {
	case "nil":
		return nil
	case "bool":
		return v.B
	case "str":
		return v.S
	case "float32", "float64":
		return map[string]any{v.K: v.F}
	case "list", "arr":
		xs := []any{}
		for _, x := range v.L {
			xs = append(xs, x.Desc())
		}
		return map[string]any{v.K + ":" + v.T: xs}
	case "map", "maps":
		m := map[string]any{}
		for _, kv := range v.M {
			m[kv.K] = kv.V.Desc()
		}
		return map[string]any{v.K: m}
	case "mapi":
		m := map[string]any{}
		for _, kv := range v.M {
			m[fmt.Sprint(kv.ZK)] = kv.V.Desc()
		}
		return map[string]any{"map[int]string": m}
	case "struct":
		m := map[string]any{}
		for _, kv := range v.M {
			m[kv.K] = kv.V.Desc()
		}
		return map[string]any{"struct " + v.T: m}
	case "ptr":
		if v.P == nil {
			return "(*" + v.T + ")(nil)"
		}
		return map[string]any{"&": v.P.Desc()}
	}
	return map[string]any{v.K: v.I}
}
func descScope(m map[string]Val) any {
	out := map[string]any{}
	for k, v := range m {
		out[k] = v.Desc()
	}
	return out
}

func (v Val) hasLivePtr() bool {
	switch v.K {
	case "ptr":
		return v.P != nil
	case "list", "arr":
		for _, x := range v.L {
			if x.hasLivePtr() {
				return true
			}
		}
	case "map", "mapi", "struct":
		for _, kv := range v.M {
			if kv.V.hasLivePtr() {
				return true
			}
		}
	}
	return false
}

// Printable mirrors printable_val: fmt prints nested non-nil pointers as addresses.
func (v Val) Printable() bool {
	if v.K == "ptr" && v.P != nil {
		return !v.P.hasLivePtr()
	}
	return !v.hasLivePtr()
}

// StructToMapVal mirrors struct_to_map / to_env of Model/Stack.v on harness values.
func (v Val) ToEnv() Val {
	switch v.K {
	case "ptr":
		if v.P == nil {
			return Val{K: "map"}
		}
		return v.P.ToEnv()
	case "struct":
		out := Val{K: "map"}
		idx := map[string]int{}
		for _, kv := range v.M {
			tag, exp := fieldMeta(v.T, kv.K)
			if !exp {
				continue
			}
			key := kv.K
			if t := strings.Split(tag, ",")[0]; t != "" {
				key = t
			}
			val := kv.V
			if val.K == "struct" || val.K == "ptr" {
				val = val.ToEnv()
			}
			if i, ok := idx[key]; ok {
				out.M[i].V = val
			} else {
				idx[key] = len(out.M)
				out.M = append(out.M, KV{K: key, V: val})
			}
		}
		sort.Slice(out.M, func(i, j int) bool { return out.M[i].K < out.M[j].K })
		return out
	}
	return v
}
