package main

import (
	"bytes"
	"context"
	"fmt"
	"regexp"
	"strings"
	"testing/fstest"

	"github.com/titpetric/vuego"
)

// C08: precedence of data sources over histories of New / Load / Fill / Assign / Get / Render.

var c08Keys = []string{"a", "b", "c", "d", "Dd"}

func c08Probe() string {
	var sb strings.Builder
	for _, k := range c08Keys {
		fmt.Fprintf(&sb, `<i data-k="%s" :data-a0="%s">{{ %s }}</i><u data-e="%s" v-if="%s"></u>`, k, k, k, k, k)
	}
	return sb.String()
}

var c08I = regexp.MustCompile(`<i data-k="(\w+)"([^>]*)>([^<]*)</i>`)
var c08U = regexp.MustCompile(`<u data-e="(\w+)"`)
var c08A = regexp.MustCompile(`data-a0="([^"]*)"`)

func c08Project(out string, err error) Obs {
	if err != nil {
		return L(A("error"), A(err.Error()))
	}
	text, attr, vif := map[string]string{}, map[string]string{}, map[string]bool{}
	for _, m := range c08I.FindAllStringSubmatch(out, -1) {
		text[m[1]] = strings.TrimSpace(m[3])
		attr[m[1]] = "-"
		if am := c08A.FindStringSubmatch(m[2]); am != nil {
			attr[m[1]] = "=" + am[1]
		}
	}
	for _, m := range c08U.FindAllStringSubmatch(out, -1) {
		vif[m[1]] = true
	}
	var xs []Obs
	for _, k := range c08Keys {
		xs = append(xs, L(A(text[k]), A(attr[k]), B(vif[k])))
	}
	return L(xs...)
}

type c08Op struct {
	kind string
	i    int
	file string
	data Val
	key  string
	val  Val
}

func (o c08Op) Coq() string {
	switch o.kind {
	case "new":
		return fmt.Sprintf("ONew %d", o.i)
	case "load":
		return fmt.Sprintf("OLoad %d %s", o.i, coqBytes(o.file))
	case "fill":
		return fmt.Sprintf("OFill %d %s", o.i, o.data.Coq())
	case "assign":
		return fmt.Sprintf("OAssign %d %s %s", o.i, coqBytes(o.key), o.val.Coq())
	case "get":
		return fmt.Sprintf("OGet %d %s", o.i, coqBytes(o.key))
	case "render":
		return fmt.Sprintf("ORender %d", o.i)
	}
	return fmt.Sprintf("ORenderString %d", o.i)
}
func (o c08Op) Desc() string {
	switch o.kind {
	case "load":
		return fmt.Sprintf("t%d.Load(%s)", o.i, o.file)
	case "fill":
		return fmt.Sprintf("t%d.Fill(%v)", o.i, o.data.Desc())
	case "assign":
		return fmt.Sprintf("t%d.Assign(%s, %v)", o.i, o.key, o.val.Desc())
	case "get":
		return fmt.Sprintf("t%d.Get(%s)", o.i, o.key)
	}
	return fmt.Sprintf("t%d.%s()", o.i, o.kind)
}

func c08Yaml(m []KV) string {
	var sb strings.Builder
	for _, kv := range m {
		switch kv.V.K {
		case "str":
			fmt.Fprintf(&sb, "%s: %q\n", kv.K, kv.V.S)
		case "bool":
			fmt.Fprintf(&sb, "%s: %v\n", kv.K, kv.V.B)
		case "nil":
			fmt.Fprintf(&sb, "%s: ~\n", kv.K)
		default:
			fmt.Fprintf(&sb, "%s: %d\n", kv.K, kv.V.I)
		}
	}
	return sb.String()
}
func c08Scope(m []KV) string {
	return coqList(m, func(kv KV) string { return "(" + coqBytes(kv.K) + ", " + kv.V.Coq() + ")" })
}

func init() { streams["C08"] = runC08 }

// Fill(struct) then Assign of a name spelled like a Go field name or like its json tag: the later Assign
// wins for that name everywhere it is read - Get, {{ }}, expressions, v-if, bound attributes - on the
// template itself and on its New() / Load() children (direct oracle)
type c08Doc struct {
	Title string `json:"title"`
	Count int    `json:"count"`
	Plain string
}

func c08StructAssign(r *Run) {
	fsys := fstest.MapFS{"p.vuego": &fstest.MapFile{Data: []byte(`<p :data-t="NAME + '!'" v-if="NAME == 'assigned'">{{ NAME }}|{{ NAME + '' }}</p><p v-else>WRONG {{ NAME }}</p>`)}}
	for di, data := range []any{c08Doc{Title: "filled", Count: 1, Plain: "filled"}, &c08Doc{Title: "filled", Count: 1, Plain: "filled"}, map[string]any{"Title": "filled", "title": "filled", "Plain": "filled"}} {
		for _, name := range []string{"Title", "title", "Plain"} {
			base := vuego.NewFS(fsys).Fill(data).Assign(name, "assigned")
			want := `<pdata-t="assigned!">assigned|assigned</p>`
			src := strings.ReplaceAll(string(fsys["p.vuego"].Data), "NAME", name)
			check := func(what string, got string, err error) {
				r.Eval(fmt.Sprintf("struct-assign:%d:%s:%s", di, name, what), true, nil)
				r.Count("stream:struct-assign(oracle only)")
				if err != nil || strings.Join(strings.Fields(got), "") != want {
					r.Fail("a value assigned after Fill(struct) does not win for its name", map[string]string{"oracle": "struct-assign", "name": name, "via": what},
						map[string]any{"data": fmt.Sprintf("%T", data), "name": name, "via": what, "output": got, "expected": want, "err": fmt.Sprint(err)})
				}
			}
			var b1, b2, b3 bytes.Buffer
			e1 := base.RenderString(context.Background(), &b1, src)
			check("RenderString", b1.String(), e1)
			e2 := base.New().RenderString(context.Background(), &b2, src)
			check("New.RenderString", b2.String(), e2)
			m := fstest.MapFS{"p.vuego": &fstest.MapFile{Data: []byte(src)}}
			e3 := vuego.NewFS(m).Fill(data).Assign(name, "assigned").Load("p.vuego").Render(context.Background(), &b3)
			check("Load.Render", b3.String(), e3)
			if g := base.New().Get(name); g != "assigned" {
				check("New.Get", "<p>"+g+"</p>", nil)
			}
		}
	}
}

type c08Tagged struct {
	Title   string `json:",omitempty"` // an option only: the key is the Go name
	Section string `json:"section"`
	Renamed string `json:"renamed,omitempty"`
	Plain   string
	Count   int `json:",string"`
}

// Fill(struct) ranks like Fill(map of the same keys) over theme.yml and data/*.yml, whatever the shape of the field's
// json tag: a name only, options only, both, none
func c08StructTags(r *Run) {
	fsys := fstest.MapFS{
		"theme.yml":     {Data: []byte("Title: theme-Title\nsection: theme-section\nrenamed: theme-renamed\nPlain: theme-Plain\nCount: 7\nfooter: theme-footer\n")},
		"data/site.yml": {Data: []byte("Title: site-Title\nrenamed: site-renamed\nPlain: site-Plain\n")},
		"page.vuego": {Data: []byte(`<h1>{{ Title }}|{{ section }}|{{ renamed }}|{{ Plain }}|{{ Count }}|{{ footer }}</h1>` +
			`<b v-if="Title == 'filled-Title'">t</b><b v-if="renamed == 'filled-renamed'">r</b><b v-if="Plain == 'filled-Plain'">p</b><a :title="Title" :data-r="renamed" :data-p="Plain">x</a>`)},
	}
	render := func(data any, fillFirst bool) string {
		var buf bytes.Buffer
		var err error
		if fillFirst {
			err = vuego.NewFS(fsys).Fill(data).Load("page.vuego").Render(context.Background(), &buf)
		} else {
			err = vuego.NewFS(fsys).Load("page.vuego").Fill(data).Render(context.Background(), &buf)
		}
		return buf.String() + "|err=" + fmt.Sprint(err)
	}
	st := c08Tagged{Title: "filled-Title", Section: "filled-section", Renamed: "filled-renamed", Plain: "filled-Plain", Count: 3}
	m := map[string]any{"Title": "filled-Title", "section": "filled-section", "renamed": "filled-renamed", "Plain": "filled-Plain", "Count": 3}
	for _, ff := range []bool{true, false} {
		want := render(m, ff)
		for name, d := range map[string]any{"struct": st, "pointer": &st} {
			got := render(d, ff)
			r.Eval(fmt.Sprintf("struct-tags:%s:%v", name, ff), true, nil)
			r.Count("stream:struct-tags(oracle only)")
			if got != want {
				r.Fail("Fill(struct) does not rank like Fill(map of the same keys)", map[string]string{"oracle": "struct-tags", "data": name},
					map[string]any{"data": name, "fill_before_load": ff, "with_struct": got, "with_map": want})
			}
		}
	}
}

func runC08(r *Run) {
	c08StructAssign(r)
	c08StructTags(r)
	r.Imports = []string{"Base.Val", "Model.Stack", "Model.Sources"}
	r.Rule("engines with every presence pattern of a key in theme.yml, data/1.yml, data/2.yml (directory order), the page's front-matter, Fill and Assign; Fill data as map, struct (json tags and an untagged field) and pointer to struct; " +
		"histories up to length 9 of New / Load / Fill / Assign / Get / Render / RenderString on a growing template tree; after every render each key is read through {{ }}, a bound attribute and v-if, " +
		"and parents and siblings are read again after operations on a child; non-trivial: a key present in >= 2 sources")
	r.Assume("values are strings, ints, bools and null without HTML-special characters; the layout key is not used (C07)")
	rr := r.Rng
	n := 1500
	if r.Thorough() {
		n = 40000
	}
	valOf := func(tag, k string) Val {
		switch rr.Intn(7) {
		case 0:
			return VInt("int", int64(rr.Intn(3)))
		case 1:
			return VStr("")
		case 2:
			return VNil() // `key: ~` in YAML, Assign(key, nil), a nil entry in a Fill map: the key IS defined there
		case 3:
			if rr.Intn(2) == 0 {
				return VBool(rr.Bool())
			}
		}
		return VStr(tag + "-" + k)
	}
	subset := func(tag string, keys []string) []KV {
		var m []KV
		for _, k := range keys {
			if rr.Bool() {
				m = append(m, KV{K: k, V: valOf(tag, k)})
			}
		}
		return m
	}
	for c := 0; c < n; c++ {
		theme := subset("theme", []string{"a", "b", "c", "d"})
		d1 := subset("data1", []string{"a", "b", "d"})
		d2 := subset("data2", []string{"a", "c", "d"})
		if rr.Intn(5) == 0 { // an engine without any config
			theme, d1, d2 = nil, nil, nil
		}
		fm1 := subset("fm1", []string{"a", "b", "Dd"})
		fm2 := subset("fm2", []string{"c"})
		mfs := fstest.MapFS{}
		if theme != nil || d1 != nil || d2 != nil {
			mfs["theme.yml"] = &fstest.MapFile{Data: []byte(c08Yaml(theme))}
			mfs["data/1.yml"] = &fstest.MapFile{Data: []byte(c08Yaml(d1))}
			// the second data file under the names a site would give it (the later name in directory order either way)
			mfs[[]string{"data/2.yml", "data/theme.yml", "data/site.yaml", "data/2.yml"}[c%4]] = &fstest.MapFile{Data: []byte(c08Yaml(d2))}
		}
		page := func(fm []KV) string {
			if len(fm) == 0 {
				return c08Probe()
			}
			// the block as editors write it: LF or CRLF line ends, blanks after the closing fence
			switch c % 5 {
			case 1:
				return "---\r\n" + strings.ReplaceAll(c08Yaml(fm), "\n", "\r\n") + "---\r\n" + c08Probe()
			case 2:
				return "---\n" + c08Yaml(fm) + "--- \n" + c08Probe()
			case 3:
				return "--- \n" + c08Yaml(fm) + "---\t\n" + c08Probe()
			}
			return "---\n" + c08Yaml(fm) + "---\n" + c08Probe()
		}
		mfs["page1.vuego"] = &fstest.MapFile{Data: []byte(page(fm1))}
		mfs["page2.vuego"] = &fstest.MapFile{Data: []byte(page(fm2))}
		// the two documented ways to build the engine over a file system read the same configuration
		tpls := []vuego.Template{vuego.NewFS(mfs)}
		if rr.Intn(3) == 0 {
			tpls = []vuego.Template{vuego.New(vuego.WithFS(mfs))}
			r.Count("constructor:New(WithFS)")
		}
		loaded := []bool{false}
		var ops []c08Op
		var obs []Obs
		mkData := func() Val {
			switch rr.Intn(9) {
			case 8:
				return VNil() // Fill(nil): no data at all
			case 0, 1, 4, 5:
				return VMap(subset("fill", []string{"a", "b", "c", "Dd"})...)
			case 2, 6:
				return Val{K: "struct", T: "S4", M: []KV{{K: "A", V: VStr(Pick(rr, []string{"", "sfill-a"}))}, {K: "B", V: VInt("int", int64(rr.Intn(2)))}, {K: "C", V: VStr("sfill-c")}, {K: "Dd", V: VStr(Pick(rr, []string{"", "sfill-Dd"}))}}}
			default:
				s := Val{K: "struct", T: "S4", M: []KV{{K: "A", V: VStr("pfill-a")}, {K: "B", V: VInt("int", 1)}, {K: "C", V: VStr("")}, {K: "Dd", V: VStr("pfill-Dd")}}}
				return Val{K: "ptr", T: "S4", P: &s}
			}
		}
		// one caller-owned map reused for several Fill calls: the engine must never write to it
		sharedVal := VMap(subset("shared", []string{"a", "b", "c", "Dd"})...).Normalize()
		shared := sharedVal.Go().(map[string]any)
		useShared := rr.Bool()
		readAll := func() { // parents and siblings must be unaffected by what happened to others
			for i := range tpls {
				k := Pick(rr, []string{"a", "b", "c", "d"})
				ops = append(ops, c08Op{kind: "get", i: i, key: k})
				obs = append(obs, A(tpls[i].Get(k)))
			}
		}
		steps := 3 + rr.Intn(7)
		for s := 0; s < steps; s++ {
			i := rr.Intn(len(tpls))
			switch x := rr.Intn(12); {
			case x < 1:
				ops = append(ops, c08Op{kind: "new", i: i})
				tpls = append(tpls, tpls[i].New())
				loaded = append(loaded, false)
				obs = append(obs, L())
			case x < 3 && rr.Intn(3) == 0:
				// the View shim: a template loaded from this one and filled with the view's data - the same as Load then Fill
				f := Pick(rr, []string{"page1.vuego", "page2.vuego"})
				d := mkData().Normalize()
				ops = append(ops, c08Op{kind: "load", i: i, file: f}, c08Op{kind: "fill", i: len(tpls), data: d})
				tpls = append(tpls, vuego.View[any](tpls[i], f, d.Go()))
				loaded = append(loaded, true)
				obs = append(obs, L(), L())
				readAll()
			case x < 3:
				f := Pick(rr, []string{"page1.vuego", "page2.vuego"})
				ops = append(ops, c08Op{kind: "load", i: i, file: f})
				tpls = append(tpls, tpls[i].Load(f))
				loaded = append(loaded, true)
				obs = append(obs, L())
			case x < 5:
				d := mkData().Normalize()
				var goData any
				if useShared && d.K == "map" {
					d, goData = sharedVal, shared
				} else {
					goData = d.Go()
				}
				ops = append(ops, c08Op{kind: "fill", i: i, data: d})
				tpls[i].Fill(goData)
				obs = append(obs, L())
				readAll()
			case x < 7:
				k := Pick(rr, []string{"a", "b", "c", "d"})
				v := valOf("assign", k)
				ops = append(ops, c08Op{kind: "assign", i: i, key: k, val: v})
				tpls[i].Assign(k, v.Go())
				obs = append(obs, L())
				readAll()
			case x < 8:
				k := Pick(rr, c08Keys)
				ops = append(ops, c08Op{kind: "get", i: i, key: k})
				obs = append(obs, A(tpls[i].Get(k)))
			case x < 10 && loaded[i]:
				ops = append(ops, c08Op{kind: "render", i: i})
				var buf bytes.Buffer
				err := tpls[i].Render(context.Background(), &buf)
				obs = append(obs, c08Project(buf.String(), err))
			default:
				ops = append(ops, c08Op{kind: "renderstring", i: i})
				var buf bytes.Buffer
				err := tpls[i].RenderString(context.Background(), &buf, c08Probe())
				obs = append(obs, c08Project(buf.String(), err))
			}
		}
		// always end with a render of a freshly loaded page and of every template as a string
		ops = append(ops, c08Op{kind: "load", i: 0, file: "page1.vuego"})
		t := tpls[0].Load("page1.vuego")
		tpls = append(tpls, t)
		obs = append(obs, L())
		ops = append(ops, c08Op{kind: "render", i: len(tpls) - 1})
		var buf bytes.Buffer
		err := t.Render(context.Background(), &buf)
		obs = append(obs, c08Project(buf.String(), err))
		// ... and once more from the same parent, with every name assigned after the load: the page was rendered before on
		// this engine (whatever the engine remembers of it), and its front matter still outranks the assignments
		ops = append(ops, c08Op{kind: "load", i: 0, file: "page1.vuego"})
		t2 := tpls[0].Load("page1.vuego")
		tpls = append(tpls, t2)
		obs = append(obs, L())
		for _, k := range []string{"a", "b", "c", "d"} {
			v := valOf("late", k)
			ops = append(ops, c08Op{kind: "assign", i: len(tpls) - 1, key: k, val: v})
			t2.Assign(k, v.Go())
			obs = append(obs, L())
		}
		ops = append(ops, c08Op{kind: "render", i: len(tpls) - 1})
		var buf2 bytes.Buffer
		err2 := t2.Render(context.Background(), &buf2)
		obs = append(obs, c08Project(buf2.String(), err2))
		// direct oracle on a canonical history: NewFS.Fill(map).Assign*.Load(page1).Assign*.Render must follow the fixed order
		{
			fill := subset("ofill", []string{"a", "b", "c"})
			a1 := subset("oassign1", []string{"a", "b", "d"})
			a2 := subset("oassign2", []string{"a", "c"})
			base := vuego.NewFS(mfs)
			fm := map[string]any{}
			for _, kv := range fill {
				fm[kv.K] = kv.V.Go()
			}
			base.Fill(fm)
			for _, kv := range a1 {
				base.Assign(kv.K, kv.V.Go())
			}
			t := base.Load("page1.vuego")
			for _, kv := range a2 {
				t.Assign(kv.K, kv.V.Go())
			}
			var ob bytes.Buffer
			oerr := t.Render(context.Background(), &ob)
			got := c08Project(ob.String(), oerr)
			for ki, k := range []string{"a", "b", "c", "d"} {
				want := ""
				for _, src := range [][]KV{theme, d1, d2, fill, a1, a2, fm1} { // lowest to highest precedence
					for _, kv := range src {
						if kv.K == k {
							want = fmt.Sprint(kv.V.Go())
							if kv.V.K == "nil" {
								want = ""
							}
						}
					}
				}
				r.Eval("oracle:"+k, true, nil)
				if oerr != nil || len(got.List) <= ki || *got.List[ki].List[0].Atom != want {
					r.Fail("the rendered value does not follow the fixed order of data sources", map[string]string{"oracle": "fixed-order", "key": k},
						map[string]any{"theme.yml": c08Yaml(theme), "data/1.yml": c08Yaml(d1), "data/2.yml": c08Yaml(d2), "Fill": c08Yaml(fill), "Assign before Load": c08Yaml(a1), "Assign after Load": c08Yaml(a2), "front-matter": c08Yaml(fm1), "key": k, "expected": want, "observed": got.Show()})
				}
			}
		}
		var descs []string
		for _, o := range ops {
			descs = append(descs, o.Desc())
		}
		if got, want := FromGo(shared).Obs().Show(), sharedVal.Obs().Show(); got != want {
			r.Fail("Fill / Assign / Render modified the map the caller passed to Fill", map[string]string{"oracle": "caller-map-untouched"}, map[string]any{"history": descs, "map_now": got, "map_given": want})
		}
		files := fmt.Sprintf("[(%s, %s); (%s, %s)]", coqBytes("page1.vuego"), c08Scope(fm1), coqBytes("page2.vuego"), c08Scope(fm2))
		coq := fmt.Sprintf("{| c_engine := E %s [%s; %s] %s; c_keys := %s; c_ops := %s |}", c08Scope(theme), c08Scope(d1), c08Scope(d2), files, coqList(c08Keys, coqBytes), coqList(ops, c08Op.Coq))
		r.Case("sources", coq, L(obs...), map[string]any{"theme.yml": c08Yaml(theme), "data/1.yml": c08Yaml(d1), "data/2.yml": c08Yaml(d2), "page1 front-matter": c08Yaml(fm1), "page2 front-matter": c08Yaml(fm2), "history": descs}, map[string]string{}, true)
	}
}
