package main

import (
	"strconv"
	"fmt"
	"sort"
	"strings"

	"github.com/titpetric/vuego"
)

// C17: the variable stack. Histories of public Stack operations; every return value is observed.

type c17Op struct {
	kind string
	key  string
	val  Val
	m    map[string]Val
	obj  int // id of a reused caller-owned map object (-1 = fresh)
	idx  int
}

func (o c17Op) Coq() string {
	switch o.kind {
	case "push":
		return "OPush " + coqScope(o.m)
	case "pop":
		return "OPop"
	case "set":
		return "OSet " + coqBytes(o.key) + " " + o.val.Coq()
	case "lookup":
		return "OLookup " + coqBytes(o.key)
	case "resolve":
		return "OResolve " + coqBytes(o.key)
	case "envmap":
		return "OEnvMap"
	case "copy":
		return "OCopy"
	case "switch":
		return fmt.Sprintf("OSwitch %d", o.idx)
	case "foreach":
		return "OForEach " + coqBytes(o.key)
	case "getstring":
		return "OGetString " + coqBytes(o.key)
	case "getint":
		return "OGetInt " + coqBytes(o.key)
	case "getslice":
		return "OGetSlice " + coqBytes(o.key)
	case "getmap":
		return "OGetMap " + coqBytes(o.key)
	case "split":
		return "OSplit " + coqBytes(o.key)
	}
	panic(o.kind)
}
func (o c17Op) Desc() any {
	switch o.kind {
	case "push":
		return map[string]any{"Push": descScope(o.m), "caller_map_object": o.obj}
	case "set":
		return map[string]any{"Set": o.key, "value": o.val.Desc()}
	case "switch":
		return map[string]any{"switch_to_stack": o.idx}
	case "pop", "envmap", "copy":
		return o.kind
	}
	return map[string]any{o.kind: o.key}
}

func optObs(v any, ok bool) Obs {
	if !ok {
		return L(A("none"))
	}
	return L(A("some"), FromGo(v).Obs())
}

// c17Run executes a history on the implementation.
func c17Run(rootMap map[string]Val, rootData Val, ops []c17Op, objs []map[string]any, agree func(s *vuego.Stack, env map[string]any)) (out Obs, panicked string) {
	var res []Obs
	defer func() {
		if p := recover(); p != nil {
			panicked = fmt.Sprint(p)
			res = append(res, L(A("panic")))
			out = L(res...)
		}
	}()
	var st *vuego.Stack
	if rootData.K == "nil" {
		st = vuego.NewStack(goScope(rootMap))
	} else {
		st = vuego.NewStackWithData(goScope(rootMap), rootData.Go())
	}
	stacks := []*vuego.Stack{st}
	cur := 0
	for _, o := range ops {
		s := stacks[cur]
		switch o.kind {
		case "push":
			if o.obj >= 0 {
				s.Push(objs[o.obj])
			} else if len(o.m) == 0 {
				s.Push(nil) // a scope obtained from the map pool
			} else {
				s.Push(goScope(o.m))
			}
			res = append(res, L())
		case "pop":
			s.Pop()
			res = append(res, L())
		case "set":
			s.Set(o.key, o.val.Go())
			res = append(res, L())
		case "lookup":
			v, ok := s.Lookup(o.key)
			res = append(res, optObs(v, ok))
		case "resolve":
			v, ok := s.Resolve(o.key)
			res = append(res, optObs(v, ok))
		case "envmap":
			env := s.EnvMap()
			res = append(res, FromGo(env).Obs())
			if agree != nil {
				agree(s, env)
			}
		case "copy":
			stacks = append(stacks, s.Copy())
			res = append(res, L())
		case "switch":
			cur = o.idx
			res = append(res, L())
		case "foreach":
			xs := []Obs{}
			_ = s.ForEach(o.key, func(i int, v any) error {
				xs = append(xs, FromGo(v).Obs())
				return nil
			})
			res = append(res, L(xs...))
		case "getstring":
			v, ok := s.GetString(o.key)
			if cv, ok2 := s.Resolve(o.key); ok2 && cv != nil && !FromGo(cv).Printable() {
				res = append(res, L(A("address-inside")))
			} else if ok {
				res = append(res, L(A("some"), A(v)))
			} else {
				res = append(res, L(A("none")))
			}
		case "getint":
			v, ok := s.GetInt(o.key)
			if cv, ok2 := s.Resolve(o.key); ok2 && cv != nil && strings.HasPrefix(FromGo(cv).K, "float") {
				res = append(res, L(A("float-not-modelled")))
			} else if ok {
				res = append(res, L(A("some"), A(fmt.Sprint(v))))
			} else {
				res = append(res, L(A("none")))
			}
		case "getslice":
			v, ok := s.GetSlice(o.key)
			if ok {
				xs := []Obs{A("some")}
				for _, x := range v {
					xs = append(xs, FromGo(x).Obs())
				}
				res = append(res, L(xs...))
			} else {
				res = append(res, L(A("none")))
			}
		case "getmap":
			v, ok := s.GetMap(o.key)
			if ok {
				res = append(res, L(A("some"), FromGo(v).Obs()))
			} else {
				res = append(res, L(A("none")))
			}
		case "split":
			xs := []Obs{}
			for _, p := range vuego.VerifSplitPath(o.key) {
				xs = append(xs, A(p))
			}
			res = append(res, L(xs...))
		}
	}
	return L(res...), ""
}

func init() { streams["C17"] = runC17 }

func c17Scalar(r *Rng) Val {
	switch r.Intn(9) {
	case 0:
		return VNil()
	case 1:
		return VBool(r.Bool())
	case 2:
		return VInt(Pick(r, []string{"int", "int8", "int64", "uint", "uint16", "uint64"}), int64(r.Intn(5)))
	case 3:
		return VInt("int", int64(r.Intn(200)-100))
	case 4:
		return VStr(Pick(r, []string{"", "x", "hello", "42", "-7", "a.b", "0"}))
	case 5:
		return Val{K: "float64", F: Pick(r, []float64{0, 1.5, -2, 3})}
	default:
		return VStr(Pick(r, []string{"v1", "v2", "v3"}))
	}
}
func c17S1(r *Rng) Val {
	return Val{K: "struct", T: "S1", M: []KV{
		{K: "Name", V: VStr(Pick(r, []string{"", "ann", "bob"}))}, {K: "Age", V: VInt("int", int64(r.Intn(3)))},
		{K: "Plain", V: VStr(Pick(r, []string{"p", "q"}))}, {K: "hidden", V: VStr("H")}, {K: "Skip", V: VInt("int", 9)}, {K: "sec", V: VInt("int", 5)}}}
}
func c17S3(r *Rng) Val {
	return Val{K: "struct", T: "S3", M: []KV{{K: "Label", V: VStr(Pick(r, []string{"the-label", "L"}))}, {K: "Name", V: VStr(Pick(r, []string{"the-name", ""}))}, {K: "Code", V: VInt("int", int64(r.Intn(3)))}}}
}
func c17Value(r *Rng, depth int) Val {
	if depth <= 0 {
		return c17Scalar(r)
	}
	switch r.Intn(13) {
	case 12:
		return c17S3(r)
	case 0, 1:
		n := r.Intn(4)
		xs := []Val{}
		for i := 0; i < n; i++ {
			xs = append(xs, c17Value(r, depth-1))
		}
		return VList("", xs...)
	case 2:
		return VList("int", VInt("int", 7), VInt("int", 8), VInt("int", 9))
	case 3:
		return Val{K: "arr", T: "str", L: []Val{VStr("a0"), VStr("a1")}}
	case 4, 5:
		n := r.Intn(4)
		kvs := []KV{}
		seen := map[string]bool{}
		for i := 0; i < n; i++ {
			k := Pick(r, []string{"k", "name", "a b", "x", "0", "inner", "Name"})
			if seen[k] {
				continue
			}
			seen[k] = true
			kvs = append(kvs, KV{K: k, V: c17Value(r, depth-1)})
		}
		return VMap(kvs...)
	case 6:
		m := Val{K: "maps"}
		for _, k := range []string{"k", "x"} {
			if r.Bool() {
				m.M = append(m.M, KV{K: k, V: VStr(Pick(r, []string{"", "sv"}))})
			}
		}
		return m
	case 7:
		return c17S1(r)
	case 8:
		if r.Chance(1, 3) {
			return Val{K: "ptr", T: "S1"}
		}
		s := c17S1(r)
		return Val{K: "ptr", T: "S1", P: &s}
	case 9:
		return c17S2(r, depth-1)
	case 10:
		return Val{K: "mapi", M: []KV{{ZK: 1, V: VStr("one")}, {ZK: 2, V: VStr("two")}}}
	case 11:
		s1, s2 := c17S1(r), c17S1(r)
		return VList("*S1", Val{K: "ptr", T: "S1", P: &s1}, Val{K: "ptr", T: "S1"}, Val{K: "ptr", T: "S1", P: &s2})
	}
	return c17Scalar(r)
}
func c17S2(r *Rng, depth int) Val {
	ptr := Val{K: "ptr", T: "S1"}
	if r.Bool() {
		s := c17S1(r)
		ptr.P = &s
	}
	anyv := c17Scalar(r)
	if depth > 0 && r.Bool() {
		anyv = VMap(KV{K: "k", V: c17Scalar(r)}, KV{K: "deep", V: VList("", c17Scalar(r), c17Scalar(r))})
	}
	s1 := c17S1(r)
	return Val{K: "struct", T: "S2", M: []KV{
		{K: "Title", V: VStr(Pick(r, []string{"", "T"}))}, {K: "Inner", V: c17S1(r)}, {K: "Ptr", V: ptr},
		{K: "Items", V: VList("int", VInt("int", 1), VInt("int", 2))},
		{K: "M", V: VMap(KV{K: "k", V: c17Scalar(r)}, KV{K: "nilv", V: VNil()})},
		{K: "Any", V: anyv}, {K: "Arr", V: Val{K: "arr", T: "str", L: []Val{VStr("a0"), VStr("a1")}}},
		{K: "SM", V: Val{K: "maps", M: []KV{{K: "k", V: VStr("sv")}}}},
		{K: "IM", V: Val{K: "mapi", M: []KV{{ZK: 1, V: VStr("one")}}}},
		{K: "Ps", V: VList("*S1", Val{K: "ptr", T: "S1", P: &s1}, Val{K: "ptr", T: "S1"})},
		{K: "N8", V: VInt("int8", int64(r.Intn(3)))}, {K: "U16", V: VInt("uint16", int64(r.Intn(3)))},
		{K: "F32", V: Val{K: "float32", F: Pick(r, []float64{0, 0.5})}}, {K: "Flag", V: VBool(r.Bool())}}}
}

// paths into a value, built while walking it (mostly valid) and then perturbed
func c17Paths(r *Rng, root string, v Val, depth int) []string {
	out := []string{root}
	type item struct {
		p string
		v Val
	}
	cur := []item{{root, v}}
	for d := 0; d < depth; d++ {
		var next []item
		for _, it := range cur {
			steps := map[string]Val{}
			switch it.v.K {
			case "map", "maps":
				for _, kv := range it.v.M {
					steps[kv.K] = kv.V
				}
				steps["missing"] = VNil()
			case "list", "arr":
				for i, x := range it.v.L {
					steps[fmt.Sprint(i)] = x
				}
				steps[fmt.Sprint(len(it.v.L))] = VNil()
				steps["-1"] = VNil()
				steps["+0"] = VNil()
				steps["x"] = VNil()
			case "struct":
				for _, kv := range it.v.M {
					steps[kv.K] = kv.V
					if kv.Tag != "" {
						steps[strings.Split(kv.Tag, ",")[0]] = kv.V
					}
				}
				steps["Nope"] = VNil()
			case "ptr":
				if it.v.P != nil {
					for _, kv := range it.v.P.M {
						steps[kv.K] = kv.V
						if kv.Tag != "" {
							steps[strings.Split(kv.Tag, ",")[0]] = kv.V
						}
					}
				} else {
					steps["Name"] = VNil()
				}
			case "mapi":
				steps["1"] = VNil()
			default:
				steps["x"] = VNil()
			}
			keys := make([]string, 0, len(steps))
			for k := range steps {
				keys = append(keys, k)
			}
			sort.Strings(keys)
			for _, k := range keys {
				if len(next) > 40 && !r.Chance(1, 4) {
					continue
				}
				var p string
				switch r.Intn(6) {
				case 0:
					p = it.p + "[" + k + "]"
				case 1:
					p = it.p + "['" + k + "']"
				case 2:
					p = it.p + "[\"" + k + "\"]"
				case 3:
					p = it.p + " . " + k
				default:
					p = it.p + "." + k
				}
				out = append(out, p)
				next = append(next, item{p, steps[k]})
			}
		}
		cur = next
	}
	return out
}

// Keys that differ only in white space, or only in the spelling of the path that reaches them, are different keys /
// the same key: each of them resolves to its own element whichever was asked for first in this process (parsed
// paths are memoised process-wide, so this runs before anything else has filled that memo).
func c17LookAlikePaths(r *Run) {
	m := map[string]any{}
	for i := 0; i < 24; i++ {
		m[fmt.Sprintf("a b%d", i)] = fmt.Sprintf("spaced%d", i)
		m[fmt.Sprintf("ab%d", i)] = fmt.Sprintf("plain%d", i)
		m[fmt.Sprintf("a  b%d", i)] = fmt.Sprintf("lead%d", i) // two blanks
	}
	st := vuego.NewStackWithData(map[string]any{"m": m, "xs": []any{"x0", "x1", "x2"}}, nil)
	type q struct{ path, want string }
	var qs []q
	for i := 0; i < 24; i++ {
		sp, pl, ld := q{fmt.Sprintf("m['a b%d']", i), fmt.Sprintf("spaced%d", i)}, q{fmt.Sprintf("m['ab%d']", i), fmt.Sprintf("plain%d", i)}, q{fmt.Sprintf("m['a  b%d']", i), fmt.Sprintf("lead%d", i)}
		switch i % 4 {
		case 0:
			qs = append(qs, sp, pl, ld)
		case 1:
			qs = append(qs, pl, sp, ld)
		case 2:
			qs = append(qs, ld, pl, sp, q{fmt.Sprintf("m.ab%d", i), fmt.Sprintf("plain%d", i)}, q{fmt.Sprintf("m[\"a b%d\"]", i), fmt.Sprintf("spaced%d", i)})
		default:
			qs = append(qs, q{fmt.Sprintf("m . ab%d", i), fmt.Sprintf("plain%d", i)}, sp, pl, q{fmt.Sprintf("m.ab%d", i), fmt.Sprintf("plain%d", i)})
		}
	}
	qs = append(qs, q{"xs[1]", "x1"}, q{"xs[ 1 ]", "x1"}, q{"xs.1", "x1"}, q{"xs[11]", ""}, q{"xs[1 1]", ""}, q{"xs.2", "x2"})
	for round := 0; round < 2; round++ { // the second round meets the memo warm
		for _, c := range qs {
			got, ok := st.Resolve(c.path)
			r.Eval(fmt.Sprintf("lookalike:%d:%s", round, c.path), true, nil)
			r.Count("stream:look-alike-paths(oracle only)")
			if (c.want == "") != !ok || (ok && fmt.Sprint(got) != c.want) {
				r.Fail("a path resolves to the element of a look-alike path", map[string]string{"oracle": "look-alike-paths"},
					map[string]any{"path": c.path, "resolve": fmt.Sprintf("(%v, %v)", got, ok), "expected": c.want, "round": round})
			}
		}
	}
}

// the typed getters on values of every supported kind
func c17Getters(r *Run) {
	st := vuego.NewStackWithData(map[string]any{"i": 7, "i8": int8(-8), "i16": int16(160), "i32": int32(-320), "i64": int64(1) << 40, "u": uint(9), "f32": float32(2.5), "f64": 3.99,
		"s": "text", "num": "12", "neg": "-4", "notnum": "12x", "b": true, "sg": c01Str{"stringer"}, "u32": uint32(32), "nilv": nil, "list": []string{"a", "b"}, "m": map[string]any{"k": int16(5)}}, nil)
	for _, c := range []struct {
		path string
		want int
		ok   bool
	}{{"i", 7, true}, {"i8", -8, true}, {"i16", 160, true}, {"i32", -320, true}, {"i64", 1 << 40, true}, {"u", 9, true}, {"f32", 2, true}, {"f64", 3, true},
		{"num", 12, true}, {"neg", -4, true}, {"notnum", 0, false}, {"s", 0, false}, {"b", 0, false}, {"nilv", 0, false}, {"missing", 0, false}, {"m.k", 5, true}, {"list", 0, false}} {
		got, ok := st.GetInt(c.path)
		r.Eval("getint:"+c.path, true, nil)
		r.Count("stream:getters(oracle only)")
		if ok != c.ok || got != c.want {
			r.Fail("GetInt does not return the number the path holds", map[string]string{"oracle": "getters", "getter": "GetInt", "path": c.path}, map[string]any{"path": c.path, "got": fmt.Sprint(got, ok), "want": fmt.Sprint(c.want, c.ok)})
		}
	}
	for _, c := range []struct {
		path, want string
		ok         bool
	}{{"s", "text", true}, {"i", "7", true}, {"i16", "160", true}, {"i64", "1099511627776", true}, {"u32", "32", true}, {"f32", "2.5", true}, {"f64", "3.99", true}, {"b", "true", true},
		{"sg", "stringer", true}, {"nilv", "", false}, {"missing", "", false}, {"m.k", "5", true}, {"list", "[a b]", true}} {
		got, ok := st.GetString(c.path)
		r.Eval("getstring:"+c.path, true, nil)
		if ok != c.ok || got != c.want {
			r.Fail("GetString does not return the string form of what the path holds", map[string]string{"oracle": "getters", "getter": "GetString", "path": c.path}, map[string]any{"path": c.path, "got": fmt.Sprint(got, ok), "want": fmt.Sprint(c.want, c.ok)})
		}
	}
	if sl, ok := st.GetSlice("list"); !ok || fmt.Sprint(sl) != "[a b]" {
		r.Fail("GetSlice does not return the elements of a typed slice", map[string]string{"oracle": "getters", "getter": "GetSlice", "path": "list"}, map[string]any{"got": fmt.Sprint(sl, ok)})
	}
	if _, ok := st.GetSlice("s"); ok {
		r.Fail("GetSlice answers for a string", map[string]string{"oracle": "getters", "getter": "GetSlice", "path": "s"}, nil)
	}
}

func runC17(r *Run) {
	c17LookAlikePaths(r)
	c17Getters(r)
	c17GoIndexing(r)
	r.Imports = []string{"Base.Val", "Model.Stack"}
	r.Rule("histories of Stack operations (Push fresh / reused caller map, Pop, Set, Lookup, Resolve, EnvMap, Copy+switch, ForEach, GetString/Int/Slice/Map) " +
		"with map, struct, pointer, nil-pointer, map and slice root data; exhaustive over a 7-letter mutating alphabet up to length 4 (thorough 5) with every name observed after every step, " +
		"random long histories, paths built by walking generated nested values (valid, out-of-range, negative, missing, through nil pointers, unexported fields, json tags, bracket/quote variants), " +
		"and splitPathImpl on every string up to length 4 (thorough 5) over {a . [ ] ' \" space 0}; non-trivial: ≥1 push and a shadowed or removed name, or path depth ≥2")
	r.Assume("strings are ASCII where rune semantics matter (TrimSpace); struct-typed values sit in struct- or pointer-typed fields (no struct inside an `any` field); strconv.Atoi inputs stay within int64")
	names := []string{"a", "b", "name", "Name", "age", "Plain", "hidden", "sec", "title", "inner", "Inner", "ptr", "items", "m", "any", "Arr", "zz", "-", "0", "1"}
	roots := func(rr *Rng) Val {
		switch rr.Intn(8) {
		case 0, 1:
			return VNil()
		case 2:
			return c17S2(rr, 1)
		case 3:
			s := c17S2(rr, 1)
			return Val{K: "ptr", T: "S2", P: &s}
		case 4:
			return Val{K: "ptr", T: "S2"}
		case 5:
			return c17S1(rr)
		case 6:
			return VMap(KV{K: "a", V: VStr("rootdata-a")}, KV{K: "zz", V: VNil()}, KV{K: "items", V: VList("", VStr("i0"))})
		default:
			return VList("", VStr("e0"), VStr("e1"))
		}
	}
	var wantObjs []map[string]Val // expected final contents of the caller-owned maps of the next emit (nil = not tracked)
	emit := func(stream string, rootMap map[string]Val, rootData Val, ops []c17Op, objs []map[string]any, nontrivial bool, tags map[string]string) {
		want := wantObjs
		wantObjs = nil
		rootData = rootData.Normalize()
		// direct oracle (no model): the merged environment agrees with Lookup for every name of the universe
		agree := func(s *vuego.Stack, env map[string]any) {
			for _, n := range names {
				lv, lok := s.Lookup(n)
				ev, eok := env[n]
				// a value that comes from a root struct field is shown with nested structs as maps
				if lok == eok && (!lok || FromGo(lv).Obs().Show() == FromGo(ev).Obs().Show() || FromGo(lv).ToEnv().Obs().Show() == FromGo(ev).Obs().Show()) {
					continue
				}
				class := "other"
				rd := rootData
				if rd.K == "ptr" && rd.P != nil {
					rd = *rd.P
				}
				switch {
				case rd.K == "struct":
					for _, kv := range rd.M {
						if tag, exp := fieldMeta(rd.T, kv.K); exp && kv.K == n && strings.Split(tag, ",")[0] != "" && strings.Split(tag, ",")[0] != n {
							class = "go-name-of-json-tagged-root-field"
						}
					}
				case rd.K == "list" || rd.K == "arr":
					if _, err := strconv.Atoi(n); err == nil {
						class = "root-data-sequence-index"
					}
				case rd.K == "map" || rd.K == "maps":
					class = "root-data-typed-map"
				}
				r.Fail("EnvMap disagrees with Lookup", map[string]string{"oracle": "envmap-agrees", "class": class},
					map[string]any{"root_map": descScope(rootMap), "root_data": rootData.Desc(), "ops": descOps(ops), "name": n,
						"lookup": optObs(lv, lok).Show(), "envmap": optObs(ev, eok).Show()})
			}
		}
		impl, pan := c17Run(rootMap, rootData, ops, objs, agree)
		for i := range want {
			if i < len(objs) {
				kvs := []KV{}
				for k, v := range want[i] {
					kvs = append(kvs, KV{K: k, V: v})
				}
				if got, exp := FromGo(objs[i]).Obs().Show(), VMap(kvs...).Obs().Show(); got != exp {
					r.Fail("a Stack operation other than Set on the top scope modified a caller-owned map", map[string]string{"oracle": "caller-map-untouched"},
						map[string]any{"root_map": descScope(rootMap), "root_data": rootData.Desc(), "ops": descOps(ops), "caller_map_now": got, "caller_map_expected": exp})
				}
			}
		}
		if pan != "" {
			r.Fail("panic escapes a Stack operation", map[string]string{"stream": stream, "panic": "true"},
				map[string]any{"root_map": descScope(rootMap), "root_data": rootData.Desc(), "ops": descOps(ops), "panic": pan})
		}
		coq := fmt.Sprintf("{| c_rootmap := %s; c_rootdata := %s; c_ops := %s |}", coqScope(rootMap), rootData.Coq(), coqList(ops, c17Op.Coq))
		r.Case(stream, coq, impl, map[string]any{"root_map": descScope(rootMap), "root_data": rootData.Desc(), "ops": descOps(ops)}, tags, nontrivial)
	}
	observe := func(ops []c17Op, keys []string) []c17Op {
		for _, k := range keys {
			ops = append(ops, c17Op{kind: "lookup", key: k})
		}
		return append(ops, c17Op{kind: "envmap"})
	}

	// (1) exhaustive short histories over a mutating alphabet; observation after every step
	maxLen := 4
	if r.Thorough() {
		maxLen = 5
	}
	alphabet := []string{"pushA", "pushNil", "pushObj", "pop", "setA", "setB", "copy"}
	var rec func(prefix []string)
	count := 0
	rec = func(prefix []string) {
		if len(prefix) > 0 {
			for _, rootKind := range []int{0, 1} {
				rootMap := map[string]Val{"a": VStr("root-a"), "c": VInt("int", 3)}
				rootData := VNil()
				keys := []string{"a", "b", "c"}
				if rootKind == 1 {
					rootData = Val{K: "struct", T: "S1", M: []KV{{K: "Name", V: VStr("ann")}, {K: "Age", V: VInt("int", 4)}, {K: "Plain", V: VStr("p")}, {K: "hidden", V: VStr("H")}, {K: "Skip", V: VInt("int", 9)}, {K: "sec", V: VInt("int", 5)}}}
					rootMap = map[string]Val{"a": VStr("root-a")}
					keys = []string{"a", "b", "name", "Plain"}
				}
				obj := map[string]any{"a": "obj-a", "b": "obj-b"}
				objModel := map[string]Val{"a": VStr("obj-a"), "b": VStr("obj-b")}
				// shadow bookkeeping of which object is on top of which stack, to track legitimate Set writes into it
				type frame struct{ isObj bool }
				shadow := [][]frame{{{false}}}
				cur := 0
				var ops []c17Op
				nPush, nPop := 0, 0
				for i, a := range prefix {
					switch a {
					case "pushA":
						ops = append(ops, c17Op{kind: "push", m: map[string]Val{"a": VStr(fmt.Sprintf("pushed-a%d", i))}, obj: -1})
						shadow[cur] = append(shadow[cur], frame{false})
						nPush++
					case "pushNil":
						ops = append(ops, c17Op{kind: "push", m: map[string]Val{}, obj: -1})
						shadow[cur] = append(shadow[cur], frame{false})
						nPush++
					case "pushObj":
						onStack := false
						for _, st := range shadow {
							for _, f := range st {
								onStack = onStack || f.isObj
							}
						}
						if onStack { // the same object twice at once is the caller aliasing its own map: push a fresh copy instead
							cp := map[string]Val{}
							for k, v := range objModel {
								cp[k] = v
							}
							ops = append(ops, c17Op{kind: "push", m: cp, obj: -1})
							shadow[cur] = append(shadow[cur], frame{false})
							nPush++
							break
						}
						cp := map[string]Val{}
						for k, v := range objModel {
							cp[k] = v
						}
						ops = append(ops, c17Op{kind: "push", m: cp, obj: 0})
						shadow[cur] = append(shadow[cur], frame{true})
						nPush++
					case "pop":
						ops = append(ops, c17Op{kind: "pop"})
						if len(shadow[cur]) > 1 {
							shadow[cur] = shadow[cur][:len(shadow[cur])-1]
						} else {
							shadow[cur] = []frame{{false}}
						}
						nPop++
					case "setNil": // a name bound to nil in the top scope: it shadows the outer binding, in lookups and in the merged map
						ops = append(ops, c17Op{kind: "set", key: "a", val: VNil()})
						if top := shadow[cur][len(shadow[cur])-1]; top.isObj {
							objModel["a"] = VNil()
						}
					case "setA", "setB":
						k := map[string]string{"setA": "a", "setB": "b"}[a]
						v := VStr(fmt.Sprintf("set-%s%d", k, i))
						ops = append(ops, c17Op{kind: "set", key: k, val: v})
						if top := shadow[cur][len(shadow[cur])-1]; top.isObj {
							objModel[k] = v // the caller's map is the top scope: Set writes into it
						}
					case "copy":
						ops = append(ops, c17Op{kind: "copy"})
						shadow = append(shadow, []frame{{false}})
						ops = observe(ops, keys)
						ops = append(ops, c17Op{kind: "switch", idx: len(shadow) - 1})
						cur = len(shadow) - 1
					}
					ops = observe(ops, keys)
					if len(shadow) > 1 { // the other stacks must be unaffected
						other := (cur + 1) % len(shadow)
						ops = append(ops, c17Op{kind: "switch", idx: other})
						ops = observe(ops, keys)
						ops = append(ops, c17Op{kind: "switch", idx: cur})
					}
				}
				tags := map[string]string{}
				wantObjs = []map[string]Val{objModel}
				emit("stack-exhaustive", rootMap, rootData, ops, []map[string]any{obj}, nPush > 0 && (nPop > 0 || strings.Contains(strings.Join(prefix, ","), "set")), tags)
				count++
			}
		}
		if len(prefix) == maxLen {
			return
		}
		for _, a := range alphabet {
			rec(append(append([]string{}, prefix...), a))
		}
	}
	rec(nil)
	r.extra["exhaustive_histories"] = count
	// (1b) histories that first pop the root scope (underflow), then every sequence over a reduced alphabet
	alphabet = []string{"pushObj", "pushNil", "pop", "setA"}
	maxLen++
	rec([]string{"pop"})
	r.extra["exhaustive_histories_after_root_pop"] = count - r.extra["exhaustive_histories"].(int)
	r.extra["exhaustive_max_len"] = maxLen
	// (1c) names bound to nil in inner scopes
	alphabet = []string{"pushNil", "pushObj", "setNil", "copy", "pop", "setA"}
	maxLen = 3
	if r.Thorough() {
		maxLen = 4
	}
	before := count
	rec(nil)
	r.extra["exhaustive_histories_with_nil_bindings"] = count - before

	// (2) random long histories with nested values and paths
	nRand := 250
	if r.Thorough() {
		nRand = 4000
	}
	for n := 0; n < nRand; n++ {
		rr := r.Rng
		rootMap := map[string]Val{}
		for _, k := range names {
			if rr.Chance(1, 4) {
				rootMap[k] = c17Value(rr, 2)
			}
		}
		rootData := roots(rr)
		depth := 1
		var ops []c17Op
		L := 10 + rr.Intn(50)
		nstacks := 1
		maxDepthPath := 0
		for i := 0; i < L; i++ {
			switch rr.Intn(14) {
			case 0:
				m := map[string]Val{}
				for j := rr.Intn(3); j > 0; j-- {
					m[Pick(rr, names)] = c17Value(rr, 2)
				}
				ops = append(ops, c17Op{kind: "push", m: m, obj: -1})
				depth++
			case 1:
				ops = append(ops, c17Op{kind: "pop"})
			case 2, 3:
				v := c17Value(rr, 2)
				if rr.Chance(1, 6) {
					v = VNil()
				}
				ops = append(ops, c17Op{kind: "set", key: Pick(rr, names), val: v})
			case 4:
				ops = append(ops, c17Op{kind: "lookup", key: Pick(rr, names)})
			case 5:
				ops = append(ops, c17Op{kind: "envmap"})
			case 6:
				if nstacks < 3 {
					ops = append(ops, c17Op{kind: "copy"})
					nstacks++
				}
			case 7:
				ops = append(ops, c17Op{kind: "switch", idx: rr.Intn(nstacks)})
			default:
				// a path into a value that is visible right now is best; approximate by walking a fresh value set first
				k := Pick(rr, names)
				v := c17Value(rr, 3)
				ops = append(ops, c17Op{kind: "set", key: k, val: v})
				ps := c17Paths(rr, k, v.Normalize(), 1+rr.Intn(3))
				for j := 0; j < 4 && len(ps) > 0; j++ {
					p := Pick(rr, ps)
					d := strings.Count(p, ".") + strings.Count(p, "[")
					if d > maxDepthPath {
						maxDepthPath = d
					}
					kind := Pick(rr, []string{"resolve", "resolve", "resolve", "foreach", "getstring", "getint", "getslice", "getmap"})
					ops = append(ops, c17Op{kind: kind, key: p})
				}
			}
		}
		// root data fields by path
		if rootData.K != "nil" {
			for _, p := range c17Paths(rr, Pick(rr, []string{"inner", "Inner", "ptr", "m", "items", "any", "Arr", "sm", "im", "ps", "0", "a"}), VNil(), 0) {
				ops = append(ops, c17Op{kind: "resolve", key: p})
			}
			for j := 0; j < 6; j++ {
				ops = append(ops, c17Op{kind: "resolve", key: Pick(rr, []string{"inner.name", "Inner.Name", "inner.hidden", "inner.sec", "ptr.name", "ptr.Plain", "m.k", "m.nilv", "m.zz", "items.1", "items[2]", "items.-1", "any.k", "any.deep.1", "Arr.1", "Arr[0]", "sm.k", "sm.zz", "im.1", "ps.0.name", "ps.1.name", "ps[1]", "title", "Title", "n8", "f32", "flag", "0", "1.x", "a", "zz", "inner.-"})})
			}
		}
		_ = depth
		r.Count(fmt.Sprintf("rootdata:%s", rootData.K+rootData.T))
		emit("stack-random", rootMap, rootData, ops, nil, maxDepthPath >= 2, nil)
	}

	// (3) splitPathImpl, exhaustive over a small alphabet
	sigma := []string{"a", ".", "[", "]", "'", "\"", " ", "0"}
	maxS := 4
	if r.Thorough() {
		maxS = 5
	}
	var all []string
	var gen func(p string, n int)
	gen = func(p string, n int) {
		all = append(all, p)
		if n == 0 {
			return
		}
		for _, c := range sigma {
			gen(p+c, n-1)
		}
	}
	gen("", maxS)
	// ... and every concatenation of up to three written-out pieces: names, dots and bracket forms with blanks in every
	// place a person might put one (conf[ "host" ], a[ 0 ], a['k' ], a[ ' k ' ])
	pieces := []string{"a", "b", ".", ". ", " .", " ", "[0]", "[ 0 ]", "[0 ]", "['k']", "[\"k\"]", "[ 'k' ]", "[ \"k\" ]", "['k' ]", "[ \"k\"]", "[' k ']", "[k]", "[ k ]", "[]", "[ ]", "['']", "[ '' ]", "['k\"]", "[ 'k]", "]", "["}
	var gen2 func(p string, n int)
	seen := map[string]bool{}
	for _, x := range all {
		seen[x] = true
	}
	gen2 = func(p string, n int) {
		if !seen[p] {
			seen[p] = true
			all = append(all, p)
		}
		if n == 0 {
			return
		}
		for _, c := range pieces {
			gen2(p+c, n-1)
		}
	}
	gen2("", 3)
	for i := 0; i < len(all); i += 600 {
		j := i + 600
		if j > len(all) {
			j = len(all)
		}
		var ops []c17Op
		for _, s := range all[i:j] {
			ops = append(ops, c17Op{kind: "split", key: s})
		}
		emit("split-path", map[string]Val{}, VNil(), ops, nil, true, nil)
	}
	r.extra["split_strings"] = len(all)
}

func descOps(ops []c17Op) []any {
	out := []any{}
	for _, o := range ops {
		out = append(out, o.Desc())
	}
	return out
}

// ---- hand-written Go values: path resolution must reach what ordinary Go indexing reaches ----
type c17Base struct {
	ID    int
	Title string `json:"title"`
}
type c17Doc struct {
	c17Base
	Exported c17Base
	Name     string
	Label    string `json:"Name2"`
	Name2    string
	Tags     []string
	Meta     map[string]any
	Next     *c17Doc
	Arr      [2]int
	Grid     [][]int
	ByName   map[string]*c17Doc
	hidden   int
}
type c17Key string
type C17Pub struct{ ID int }
type c17Emb struct {
	C17Pub
	Name string
}

// two levels of embedding, the middle struct declaring a field of the same name as the innermost: Go's rule (the
// shallowest wins) is what Lookup, the merged environment and a copy all follow
type C17Inner struct {
	Title string
	Only  string
}
type C17Mid struct {
	C17Inner
	Title string
}
type C17Page struct {
	C17Mid
	Body string
}
type C17PageP struct {
	*C17Mid
	Body string
}

func c17Promoted(r *Run) {
	mid := C17Mid{C17Inner: C17Inner{Title: "inner-title", Only: "inner-only"}, Title: "mid-title"}
	for name, root := range map[string]any{"by-value": C17Page{C17Mid: mid, Body: "b"}, "by-pointer": C17PageP{C17Mid: &mid, Body: "b"}, "pointer-to-root": &C17Page{C17Mid: mid, Body: "b"}} {
		st := vuego.NewStackWithData(map[string]any{"x": 1}, root)
		st.Push(map[string]any{"y": 2})
		for field, want := range map[string]string{"Title": "mid-title", "Only": "inner-only", "Body": "b"} {
			lv, lok := st.Lookup(field)
			ev, eok := st.EnvMap()[field]
			cv, cok := st.Copy().Lookup(field)
			r.Eval("promoted:"+name+":"+field, true, nil)
			r.Count("stream:promoted-fields(oracle only)")
			if !lok || !eok || !cok || fmt.Sprint(lv) != want || fmt.Sprint(ev) != want || fmt.Sprint(cv) != want {
				r.Fail("a promoted field of the root struct is not the same value for Lookup, the merged environment and a copy", map[string]string{"oracle": "promoted-fields", "root": name, "field": field},
					map[string]any{"root": name, "field": field, "go": want, "lookup": fmt.Sprintf("(%v, %v)", lv, lok), "envmap": fmt.Sprintf("(%v, %v)", ev, eok), "copy_lookup": fmt.Sprintf("(%v, %v)", cv, cok)})
			}
		}
	}
}

func c17GoIndexing(r *Run) {
	c17Promoted(r)
	leaf := &c17Doc{Name: "leaf", Tags: []string{"x"}}
	doc := c17Doc{c17Base: c17Base{ID: 7, Title: "t"}, Exported: c17Base{ID: 8, Title: "u"}, Name: "the-name", Label: "the-label", Name2: "second",
		Tags: []string{"a", "b", "c"}, Meta: map[string]any{"k": 1, "nested": map[string]any{"deep": []any{"d0", "d1"}}, "nilv": nil},
		Next: leaf, Arr: [2]int{4, 5}, Grid: [][]int{{1, 2}, {3}}, ByName: map[string]*c17Doc{"leaf": leaf, "nil": nil}, hidden: 3}
	emb := c17Emb{C17Pub: C17Pub{ID: 9}, Name: "e"}
	ids := []int{10, 20, 30}
	arr := [2]string{"p", "q"}
	totals := map[string]int{"2024": 7, "k": 1, "007": 9}
	byYear := map[string][]string{"2024": {"a", "b"}}
	nested := map[string]map[string][]int{"1": {"2": {5, 6}}}
	// maps keyed by an interface type (what generic decoders produce) or by a named string type, and a pointer to a map
	ak := map[any]any{"name": "nm", "tags": []any{"t0", "t1"}, 7: "seven", "sub": map[any]any{"deep": "dv"}}
	ifs := map[interface{}]string{"k": "v"}
	nk := map[c17Key]int{"a": 1, "b": 2}
	pm := map[string]int{"z": 26}
	// pointers to pointers (a field, a map value, a slice element, the root data): every level is followed
	pdoc := &doc
	ppdoc := &pdoc
	type holder struct {
		Ref  **c17Doc
		Nums **[]int
	}
	pids := &ids
	h := holder{Ref: ppdoc, Nums: &pids}
	st2 := vuego.NewStackWithData(map[string]any{"x": 1}, ppdoc)
	for _, c := range []struct {
		path string
		want any
	}{{"Name", doc.Name}, {"Tags.1", doc.Tags[1]}, {"Next.Name", leaf.Name}} {
		got, ok := st2.Resolve(c.path)
		r.Eval("goindex:**root:"+c.path, true, nil)
		if !ok || fmt.Sprint(got) != fmt.Sprint(c.want) {
			r.Fail("path resolution differs from ordinary Go indexing", map[string]string{"oracle": "go-indexing", "path": "**root:" + c.path},
				map[string]any{"path": c.path, "root": "a pointer to a pointer to a struct", "resolve": fmt.Sprintf("(%v, %v)", got, ok), "go": fmt.Sprint(c.want)})
		}
	}
	st := vuego.NewStackWithData(map[string]any{"doc": doc, "pdoc": &doc, "ppdoc": ppdoc, "h": h, "ph": &h, "pps": []any{ppdoc}, "ppm": map[string]**c17Doc{"k": ppdoc}, "emb": emb, "list": []any{doc, &doc},
		"ids": &ids, "arr": &arr, "totals": totals, "byYear": byYear, "nested": nested, "anymap": map[string]any{"0": "zero", "10": []any{"x"}},
		"ak": ak, "pak": &ak, "ifs": ifs, "nk": nk, "pm": &pm, "wrap": []any{ak}}, doc)
	type chk struct {
		path string
		want any
		ok   bool
	}
	checks := []chk{
		{"doc.Name", doc.Name, true}, {"doc.Name2", doc.Name2, true}, {"doc.Label", doc.Label, true},
		{"doc.Exported.ID", doc.Exported.ID, true}, {"doc.Exported.title", doc.Exported.Title, true}, {"doc.Exported.Title", doc.Exported.Title, true},
		{"emb.ID", emb.ID, true}, {"emb.C17Pub.ID", emb.C17Pub.ID, true}, {"emb.Name", emb.Name, true},
		{"doc.Tags.0", doc.Tags[0], true}, {"doc.Tags[2]", doc.Tags[2], true}, {"doc.Tags.3", nil, false}, {"doc.Tags.-1", nil, false},
		{"doc.Arr.1", doc.Arr[1], true}, {"doc.Arr.2", nil, false}, {"doc.Grid.0.1", doc.Grid[0][1], true}, {"doc.Grid[1][0]", doc.Grid[1][0], true}, {"doc.Grid.1.1", nil, false},
		{"doc.Meta.k", doc.Meta["k"], true}, {"doc.Meta.nested.deep.1", "d1", true}, {"doc.Meta.missing", nil, false}, {"doc.Meta.nested.deep.2", nil, false},
		{"doc.Next.Name", doc.Next.Name, true}, {"doc.Next.Tags.0", doc.Next.Tags[0], true}, {"doc.Next.Next.Name", nil, false},
		{"doc.ByName.leaf.Name", leaf.Name, true}, {"doc.ByName.nil.Name", nil, false}, {"doc.ByName.zz.Name", nil, false},
		{"doc.hidden", nil, false}, {"pdoc.Name", doc.Name, true}, {"pdoc.Next.Name", leaf.Name, true}, {"pdoc.hidden", nil, false},
		{"list.0.Name", doc.Name, true}, {"list.1.Name2", doc.Name2, true}, {"list.2.Name", nil, false},
		// numeric-looking steps on containers that are not direct slices: typed maps with digit keys, pointers to slices and arrays
		{"totals.2024", totals["2024"], true}, {"totals.007", totals["007"], true}, {"totals.k", totals["k"], true}, {"totals.2025", nil, false},
		{"byYear.2024[1]", byYear["2024"][1], true}, {"byYear.2024.0", byYear["2024"][0], true}, {"byYear.2024.2", nil, false},
		{"nested.1.2.1", nested["1"]["2"][1], true}, {"nested.1.3", nil, false},
		{"ids[1]", ids[1], true}, {"ids.2", ids[2], true}, {"ids.3", nil, false}, {"arr.0", arr[0], true}, {"arr[1]", arr[1], true}, {"arr.2", nil, false},
		{"ak.name", "nm", true}, {"ak.tags.1", "t1", true}, {"ak.tags[0]", "t0", true}, {"ak.sub.deep", "dv", true}, {"ak.missing", nil, false}, {"pak.name", "nm", true},
		{"ifs.k", "v", true}, {"ifs.zz", nil, false}, {"nk.a", 1, true}, {"nk.b", 2, true}, {"nk.c", nil, false}, {"pm.z", 26, true}, {"pm.y", nil, false}, {"wrap.0.name", "nm", true},
		{"ppdoc.Name", doc.Name, true}, {"ppdoc.Tags.2", doc.Tags[2], true}, {"h.Ref.Name", doc.Name, true}, {"h.Nums.1", ids[1], true}, {"ph.Ref.Next.Name", leaf.Name, true},
		{"pps.0.Name", doc.Name, true}, {"ppm.k.Label", doc.Label, true}, {"ppm.zz.Label", nil, false},
		{"anymap.0", "zero", true}, {"anymap.10.0", "x", true}, {"anymap.1", nil, false},
		{"Name", doc.Name, true}, {"Name2", doc.Name2, true}, {"Tags.1", doc.Tags[1], true}, {"Next.Name", leaf.Name, true}, {"hidden", nil, false},
	}
	for _, c := range checks {
		got, ok := st.Resolve(c.path)
		r.Eval("goindex:"+c.path, true, nil)
		r.Count("stream:go-indexing(oracle only)")
		if ok != c.ok || (ok && fmt.Sprint(got) != fmt.Sprint(c.want)) {
			r.Fail("path resolution differs from ordinary Go indexing", map[string]string{"oracle": "go-indexing", "path": c.path},
				map[string]any{"path": c.path, "resolve": fmt.Sprintf("(%v, %v)", got, ok), "go": fmt.Sprintf("(%v, %v)", c.want, c.ok)})
		}
	}
}
