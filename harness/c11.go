package main

import (
	"regexp"
	"bufio"
	"bytes"
	"context"
	"encoding/json"
	"errors"
	"fmt"
	"os"
	"os/exec"
	"path/filepath"
	"runtime/debug"
	"strings"
	"testing/fstest"
	"time"

	"github.com/titpetric/vuego"
)

// C11: every render call returns.
//
// Cases run in isolated worker processes (this binary, subcommand hostileworker) with a small maximum
// stack, an address-space limit and a wall-clock limit per case; a worker that dies or hangs is
// restarted after the case that killed it.  Outcome classes: ok, error, panic (recovered at the caller:
// it escaped the library), timeout, killed (fatal error: the process died).

type c11Case struct {
	ID     int               `json:"id"`
	Family string            `json:"family"`
	Files  map[string]string `json:"files,omitempty"`
	Entry  string            `json:"entry"` // load | vue | string | fragment
	Page   string            `json:"page,omitempty"`
	Tpl    string            `json:"tpl,omitempty"`
	Data   string            `json:"data"` // name of a value constructor
	Funcs  string            `json:"funcs,omitempty"`
	Note   string            `json:"note,omitempty"`
	Graph  [][]int           `json:"graph,omitempty"`
	Form   int               `json:"form,omitempty"`
	Chain  int               `json:"chain,omitempty"`
	Coq    string            `json:"coq,omitempty"` // the model's case, for families that have one of their own
}
type c11Result struct {
	ID    int    `json:"id"`
	Class string `json:"class"`
	Err   string `json:"err,omitempty"`
	Out   string `json:"out,omitempty"`
}

// ---------- typed data values ----------
type C11Inner struct {
	Name string    `json:"name"`
	Next *C11Inner `json:"next"`
}
type c11Emb struct {
	*C11Inner
	Title string
}
type c11Emb2 struct {
	c11Emb
	K []string
}

type c11Priv struct {
	Name   string
	secret int
	inner  *c11Priv
}
type c11Node struct {
	Name string
	Next *c11Node
	Kids []*c11Node
}
type c11Stringer struct{ s string }

func (c c11Stringer) String() string { return c.s }

type c11PanicStringer struct{}

func (c11PanicStringer) String() string { panic("stringer panics") }

func c11Values() map[string]func() any {
	return map[string]func() any{
		"nil":         func() any { return nil },
		"int":         func() any { return 42 },
		"zero":        func() any { return 0 },
		"neg":         func() any { return -7 },
		"float":       func() any { return 3.5 },
		"bool":        func() any { return true },
		"string":      func() any { return "text" },
		"empty":       func() any { return "" },
		"json-string": func() any { return `{"a": [1, 2` },
		"slice":       func() any { return []any{1, "two", nil, []any{3}} },
		"empty-slice": func() any { return []any{} },
		"nil-slice":   func() any { var s []string; return s },
		"ints":        func() any { return []int{1, 2, 3} },
		"ints2":       func() any { return []int{255, 0} },
		"strs":        func() any { return []string{"a", "b"} },
		"map":         func() any { return map[string]any{"a": 1, "b": map[string]any{"c": "d"}} },
		"nil-map":     func() any { var m map[string]any; return m },
		"int-key-map": func() any { return map[int]string{1: "one", 2: "two"} },
		"struct-key-map": func() any {
			return map[struct{ A int }]string{{1}: "x"}
		},
		"struct":     func() any { return c11Priv{Name: "n", secret: 3, inner: &c11Priv{Name: "i"}} },
		"struct-ptr": func() any { return &c11Priv{Name: "n", secret: 3} },
		"nil-ptr":    func() any { var p *c11Priv; return p },
		// fields promoted from an embedded struct pointer that is nil / set, and from an embedded value
		"nil-embedded":   func() any { return c11Emb{Title: "t"} },
		"set-embedded":   func() any { return &c11Emb{C11Inner: &C11Inner{Name: "in"}, Title: "t"} },
		"deep-embedded":  func() any { return c11Emb2{c11Emb: c11Emb{Title: "t"}} },
		"ptr-ptr":        func() any { p := &c11Priv{Name: "pp"}; return &p },
		"func":           func() any { return func() string { return "called" } },
		"func-arg":       func() any { return func(a, b int) int { return a + b } },
		"chan":           func() any { return make(chan int) },
		"error":          func() any { return errors.New("an error value") },
		"stringer":       func() any { return c11Stringer{"str"} },
		"panic-stringer": func() any { return c11PanicStringer{} },
		"bytes":          func() any { return []byte("by<t>es") },
		"time":           func() any { return time.Date(2026, 1, 2, 3, 4, 5, 0, time.UTC) },
		"duration":       func() any { return 3 * time.Second },
		"uint8":          func() any { return uint8(200) },
		"complex":        func() any { return complex(1, 2) },
		"array":          func() any { return [3]int{1, 2, 3} },
		"iface-slice":    func() any { return []fmt.Stringer{c11Stringer{"a"}, nil} },
		"tree": func() any { // a comment thread 90 replies deep
			var v any = map[string]any{"n": 90, "kids": []any{}}
			for i := 89; i >= 0; i-- {
				v = map[string]any{"n": i, "kids": []any{v}}
			}
			return map[string]any{"node": v}
		},
		"deep": func() any {
			var v any = "leaf"
			for i := 0; i < 200; i++ {
				if i%2 == 0 {
					v = map[string]any{"k": v}
				} else {
					v = []any{v}
				}
			}
			return v
		},
		"cyclic-struct": func() any {
			n := &c11Node{Name: "a"}
			n.Next = &c11Node{Name: "b", Next: n}
			n.Kids = []*c11Node{n}
			return n
		},
		// a map or slice that contains itself is left out: fmt.Sprint itself does not terminate on one
	}
}

func c11Funcs(name string) vuego.FuncMap {
	switch name {
	case "hostile":
		return vuego.FuncMap{
			"boom":    func(s any) string { panic("function panics") },
			"nilfn":   (func(string) string)(nil),
			"notfn":   42,
			"two":     func(a, b string) string { return a + b },
			"noret":   func(s string) {},
			"three":   func(s string) (string, string, error) { return s, s, nil },
			"failing": func(s any) (string, error) { return "", errors.New("filter failed") },
			"typed":   func(n int) int { return n * 2 },
			"variad":  func(xs ...int) int { return len(xs) },
			"ptrarg":  func(p *c11Priv) string { return p.Name },
			// one function per parameter kind: the call converts whatever the data holds to the parameter type
			"kArr3":     func(a [3]int) int { return a[0] },
			"kArrPtr":   func(a *[2]int) int { return a[0] },
			"kStrs":     func(a []string) int { return len(a) },
			"kBytes":    func(a []byte) int { return len(a) },
			"kMap":      func(m map[string]int) int { return len(m) },
			"kChan":     func(c chan int) int { return cap(c) },
			"kFunc":     func(f func() string) string { return f() },
			"kStruct":   func(p c11Priv) string { return p.Name },
			"kIntPtr":   func(p *int) int { return *p },
			"kStringer": func(x fmt.Stringer) string { return x.String() },
			"kErr":      func(e error) string { return e.Error() },
			"kU8":       func(u uint8) uint8 { return u },
			"kF32":      func(f float32) float32 { return f },
			"kCplx":     func(c complex128) complex128 { return c },
			"kBool":     func(b bool) bool { return b },
			"kRune":     func(r rune) string { return string(r) },
			"kDur":      func(d time.Duration) string { return d.String() },
			"kVarAny":   func(xs ...any) int { return len(xs) },
			"kVarArr":   func(xs ...[2]int) int { return len(xs) },
			"kCtxArr":   func(ctx *vuego.VueContext, a [3]int) int { return a[2] },
		}
	}
	return nil
}

// ---------- one case ----------
func c11RunCase(c c11Case) (res c11Result) {
	res.ID = c.ID
	mk, ok := c11Values()[c.Data]
	if !ok {
		mk = func() any { return nil }
	}
	val := mk()
	data := map[string]any{"v": val, "vs": []any{val}, "one": []any{1}, "yes": true, "m": map[string]any{"v": val}}
	if c.Family == "root-data" {
		data = nil
	}
	m := fstest.MapFS{}
	for k, s := range c.Files {
		m[k] = &fstest.MapFile{Data: []byte(s)}
	}
	done := make(chan c11Result, 1)
	go func() {
		var r c11Result
		r.ID = c.ID
		defer func() {
			if x := recover(); x != nil {
				r.Class = "panic"
				r.Err = fmt.Sprint(x)
				if len(r.Err) > 400 {
					r.Err = r.Err[:400]
				}
				done <- r
			}
		}()
		var buf bytes.Buffer
		w := &limitWriter{w: &buf, max: 4 << 20}
		var err error
		var opts []vuego.LoadOption
		if fm := c11Funcs(c.Funcs); fm != nil {
			opts = append(opts, vuego.WithFuncs(fm))
		}
		ctx := context.Background()
		fill := func(t vuego.Template) vuego.Template {
			if c.Family == "root-data" {
				return t.Fill(val)
			}
			return t.Fill(data)
		}
		switch c.Entry {
		case "load":
			err = fill(vuego.NewFS(m, opts...).Load(c.Page)).Render(ctx, w)
		case "vue":
			v := vuego.NewVue(m)
			if fm := c11Funcs(c.Funcs); fm != nil {
				v.Funcs(fm)
			}
			if c.Family == "root-data" {
				err = v.Render(w, c.Page, val)
			} else {
				err = v.Render(w, c.Page, data)
			}
		case "fragment":
			err = vuego.NewVue(m).RenderFragment(w, c.Page, data)
		default:
			err = fill(vuego.NewFS(m, opts...)).RenderString(ctx, w, c.Tpl)
		}
		if err != nil {
			r.Class = "error"
			r.Err = err.Error()
			if len(r.Err) > 400 {
				// a nested error names every file on the way: keep the beginning, the end and what kind of error it is
				kind := ""
				for _, k := range []string{"include depth exceeded", "error loading", "does not exist", "required attribute"} {
					if strings.Contains(r.Err, k) {
						kind += "[" + k + "] "
					}
				}
				r.Err = kind + r.Err[:250] + " ... " + r.Err[len(r.Err)-100:]
			}
		} else {
			r.Class = "ok"
			r.Out = strings.Join(strings.Fields(buf.String()), "")
			if len(r.Out) > 20000 {
				r.Out = r.Out[:20000]
			}
		}
		done <- r
	}()
	select {
	case r := <-done:
		return r
	case <-time.After(4 * time.Second):
		res.Class = "timeout"
		return res
	}
}

// worker: cases from -in, results appended to -out, one JSON per line, "begin N" markers in between
func c11Worker(in, out string, start int) error {
	debug.SetMaxStack(64 << 20)
	b, err := os.ReadFile(in)
	if err != nil {
		return err
	}
	var cases []c11Case
	if err := json.Unmarshal(b, &cases); err != nil {
		return err
	}
	f, err := os.OpenFile(out, os.O_APPEND|os.O_CREATE|os.O_WRONLY, 0o644)
	if err != nil {
		return err
	}
	defer f.Close()
	for i := start; i < len(cases); i++ {
		fmt.Fprintf(f, "begin %d\n", i)
		r := c11RunCase(cases[i])
		jb, _ := json.Marshal(r)
		fmt.Fprintf(f, "%s\n", jb)
		if r.Class == "timeout" {
			os.Exit(7) // the render goroutine cannot be stopped; the parent restarts after this case
		}
	}
	return nil
}

func c11RunAll(r *Run, cases []c11Case) map[int]c11Result {
	in := filepath.Join(r.Out, "hostile_cases.json")
	out := filepath.Join(r.Out, "hostile_results.jsonl")
	_ = os.Remove(out)
	b, _ := json.Marshal(cases)
	_ = os.WriteFile(in, b, 0o644)
	res := map[int]c11Result{}
	start := 0
	killed := 0
	self, _ := os.Executable()
	for start < len(cases) {
		cmd := exec.Command("bash", "-c", `ulimit -v 6000000; exec "$0" hostileworker C11 -in "$1" -out "$2" -start "$3"`, self, in, out, fmt.Sprint(start))
		cmd.Env = append(os.Environ(), "GOMAXPROCS=2")
		var stderr bytes.Buffer
		cmd.Stderr = &stderr
		cmd.Stdout = &stderr
		err := cmd.Run()
		// read what was finished
		last := -1
		finished := map[int]bool{}
		if fh, e := os.Open(out); e == nil {
			sc := bufio.NewScanner(fh)
			sc.Buffer(make([]byte, 1<<20), 1<<24)
			for sc.Scan() {
				ln := sc.Text()
				if strings.HasPrefix(ln, "begin ") {
					fmt.Sscanf(ln, "begin %d", &last)
					continue
				}
				var cr c11Result
				if json.Unmarshal([]byte(ln), &cr) == nil {
					res[cr.ID] = cr
					finished[cr.ID] = true
				}
			}
			fh.Close()
		}
		if err == nil {
			break
		}
		if last < 0 {
			r.Fail("the hostile-input worker could not start", map[string]string{"oracle": "worker"}, map[string]any{"err": err.Error(), "stderr": tail(stderr.String(), 2000)})
			return res
		}
		if !finished[cases[last].ID] {
			msg := tail(stderr.String(), 3000)
			first := msg
			if i := strings.Index(stderr.String(), "fatal error"); i >= 0 {
				first = stderr.String()[i:]
				if len(first) > 300 {
					first = first[:300]
				}
			}
			res[cases[last].ID] = c11Result{ID: cases[last].ID, Class: "killed", Err: first}
			killed++
		} else if res[cases[last].ID].Class == "timeout" {
			killed++
		}
		if killed >= 12 {
			// every such case costs seconds (a stack grown to its limit, a process restart): a dozen failing inputs are
			// enough to report; the rest of the stream is not run
			r.Count("stream-cut-short-after-12-killed-or-hung-cases")
			break
		}
		start = last + 1
	}
	return res
}

func tail(s string, n int) string {
	if len(s) > n {
		return s[len(s)-n:]
	}
	return s
}

// the outer shape of a component file
func c11Wrap(w int) (string, string) {
	switch w {
	case 1:
		return `<template v-if="yes"><div>`, `</div></template>`
	case 2:
		return `<template v-for="x in one"><div>`, `</div></template>`
	case 3:
		return `<template><div>`, `</div></template>`
	case 4:
		return `<template v-if="no">never</template><template v-else><div>`, `</div></template>`
	}
	return "<div>", "</div>"
}

// ---------- case families ----------
func c11GraphCases(r *Run, id *int) []c11Case {
	// every include graph over 3 files where each file holds 0, 1 or 2 includes, in three syntactic positions
	opts := [][]int{{}, {3}, {1, 3}} // 3 names a file that does not exist
	for a := 0; a < 3; a++ {
		opts = append(opts, []int{a})
		for b := 0; b < 3; b++ {
			opts = append(opts, []int{a, b})
		}
	}
	var cases []c11Case
	for i0, o0 := range opts {
		for i1, o1 := range opts {
			for i2, o2 := range opts {
				if !r.Thorough() && r.Rng.Intn(9) != 0 && !(i0 < 4 && i1 < 4 && i2 == 0) {
					continue
				}
				g := [][]int{o0, o1, o2}
				form := r.Rng.Intn(3)
				// how each file is wrapped: an element, or a leading <template> that is a condition, a loop or the root wrapper
				open, close_ := c11Wrap(r.Rng.Intn(5))
				files := map[string]string{}
				for f := 0; f < 3; f++ {
					var b strings.Builder
					fmt.Fprintf(&b, "%sF%d", open, f)
					for _, t := range g[f] {
						inc := fmt.Sprintf(`<template include="f%d.vuego"></template>`, t)
						switch form {
						case 1:
							inc = `<p v-for="x in one">` + inc + `</p>`
						case 2:
							inc = `<span v-if="yes">` + inc + `</span>`
						}
						b.WriteString(inc)
					}
					b.WriteString(close_)
					files[fmt.Sprintf("f%d.vuego", f)] = b.String()
				}
				*id++
				cases = append(cases, c11Case{ID: *id, Family: "include-graph", Files: files, Entry: Pick(r.Rng, []string{"load", "vue", "fragment"}), Page: "f0.vuego", Data: "string",
					Note: fmt.Sprintf("graph=%v form=%d", g, form), Graph: g, Form: form})
			}
		}
	}
	// chains just below and above the limit (the limit is read from the source by the translator)
	for ki, k := range []int{1, 5, 98, 99, 100, 101, 102, 150} {
		for w := 0; w < 5; w++ {
			if w > 0 && (k < 99 || (w+ki)%2 == 0) {
				continue
			}
			open, close_ := c11Wrap(w)
			files := map[string]string{}
			for i := 0; i <= k; i++ {
				body := fmt.Sprintf("%sF%d", open, i)
				if i < k {
					body += fmt.Sprintf(`<template include="f%d.vuego"></template>`, i+1)
				}
				files[fmt.Sprintf("f%d.vuego", i)] = body + close_
			}
			for _, e := range []string{"load", "vue", "fragment"} {
				*id++
				cases = append(cases, c11Case{ID: *id, Family: "include-chain", Files: files, Entry: e, Page: "f0.vuego", Data: "string", Chain: k})
			}
		}
	}
	// cycles through slots, components with slot content, layouts
	extra := []map[string]string{
		{"f0.vuego": `<template include="f1.vuego"><template include="f0.vuego"></template></template>`, "f1.vuego": `<div><slot></slot></div>`},
		{"f0.vuego": `<template include="f1.vuego"><b>x</b></template>`, "f1.vuego": `<div><slot><template include="f1.vuego"></template></slot></div>`},
		{"f0.vuego": `<template include="f1.vuego"></template>`, "f1.vuego": `<div><slot><template include="f0.vuego"></template></slot></div>`},
		{"f0.vuego": "---\nlayout: a\n---\n<p>x</p>", "layouts/a.vuego": "---\nlayout: b\n---\n<div v-html=\"content\"></div>", "layouts/b.vuego": "---\nlayout: a\n---\n<div v-html=\"content\"></div>"},
		{"f0.vuego": "---\nlayout: f0\n---\n<p>x</p>"},
		{"f0.vuego": "---\nlayout: a\n---\n<p>x</p>", "layouts/a.vuego": `<div v-html="content"></div><template include="f0.vuego"></template>`},
		{"f0.vuego": `<template include="f1.vuego" v-for="x in vs"></template>`, "f1.vuego": `<template include="f0.vuego"></template>`},
		// a named slot handed to a layout whose content uses the slot of the same name
		{"f0.vuego": "---\nlayout: base\n---\n<p>x</p><template #side><i>x</i><slot name=\"side\"></slot></template>", "layouts/base.vuego": `<main v-html="content"></main><aside><slot name="side">none</slot></aside>`},
		{"f0.vuego": "---\nlayout: base\n---\n<p>x</p><template #side><slot name=\"side\">fb</slot></template>", "layouts/base.vuego": `<aside><slot name="side"></slot><slot name="side"></slot></aside><main v-html="content"></main>`},
		// content a page hands to its layout that includes a component with a slot of that same name (the component's
		// slot is filled with the content again: only the include limit ends this), directly and through a second component
		{"f0.vuego": "---\nlayout: base\n---\n<p>x</p><template #side><template include=\"box.vuego\"></template></template>", "layouts/base.vuego": `<aside><slot name="side">none</slot></aside><main v-html="content"></main>`,
			"box.vuego": `<div class="box"><slot name="side">fb</slot></div>`},
		{"f0.vuego": "---\nlayout: base\n---\n<p>x</p><template v-slot:side><b>s</b><template include=\"outer.vuego\"></template></template>", "layouts/base.vuego": `<aside><slot name="side">none</slot></aside>`,
			"outer.vuego": `<section><template include="box.vuego"></template></section>`, "box.vuego": `<div class="box"><slot name="side">fb</slot></div>`},
		{"f0.vuego": "---\nlayout: base\n---\n<template #side><template include=\"box.vuego\"></template></template><template #foot><slot name=\"side\"></slot></template>",
			"layouts/base.vuego": `<template include="box.vuego"></template><footer><slot name="foot"></slot></footer>`, "box.vuego": `<div class="box"><slot name="side">fb</slot><slot name="foot">ff</slot></div>`},
		{"f0.vuego": `<template include="f1.vuego"><template #a><template include="f1.vuego"><template #a>deep</template></template></template></template>`, "f1.vuego": `<div><slot name="a"></slot><slot name="a"></slot></div>`},
		{"f0.vuego": `<template include="f1.vuego"><i>s</i></template>`, "f1.vuego": `<template include="f2.vuego"><slot></slot><slot></slot></template>`, "f2.vuego": `<u><slot></slot><slot></slot></u>`},
	}
	// one supplied slot used several times (the evaluated DOM must stay a tree for the serialiser to terminate)
	contents := []string{`plain text`, `<b>el</b>`, `<template v-html="v"></template>`, `<template v-if="yes"><i>c</i></template>`, `<template v-for="x in one"><i>{{ x }}</i></template>`,
		`<template><u>w</u></template>`, `<template include="leaf.vuego"></template>`, `<template v-html="v"></template><template v-html="v"></template>`, `t<template v-html="v"></template>t`, `<p v-html="v"></p>`, `<template v-text="v"></template>`,
		// a slot of the same name inside the supplied content (it has nothing to be filled with: its fallback shows)
		`<b>H</b><slotSAME><i>inner</i></slot>`, `<slotSAME></slot>`, `<div><slotSAME>fb</slot><slotSAME>fb</slot></div>`}
	uses := []string{`<slot%s></slot>`, `<slot%s></slot><slot%s></slot>`, `<div><slot%s></slot><hr><slot%s></slot></div>`, `<header><slot%s></slot></header><footer><slot%s></slot></footer>`,
		`<ul><li v-for="i in one"><slot%s></slot><slot%s></slot></li></ul>`, `<slot%s></slot><slot%s></slot><slot%s></slot>`}
	for ci, content := range contents {
		for ui, use := range uses {
			for _, named := range []bool{false, true} {
				attr, open, close_ := "", "", ""
				if named {
					attr, open, close_ = ` name="cap"`, `<template #cap>`, `</template>`
				}
				comp := strings.ReplaceAll(use, "%s", attr)
				content := strings.ReplaceAll(content, "<slotSAME", "<slot"+attr)
				files := map[string]string{
					"f0.vuego":   `<template include="comp.vuego">` + open + content + close_ + `</template>`,
					"comp.vuego": `<figure>` + comp + `</figure>`,
					"leaf.vuego": `<em>leaf</em>`,
				}
				*id++
				cases = append(cases, c11Case{ID: *id, Family: "slot-shapes", Files: files, Entry: []string{"load", "vue"}[(ci+ui)%2], Page: "f0.vuego", Data: "string"})
			}
		}
	}
	for _, files := range extra {
		for _, e := range []string{"load", "vue"} {
			*id++
			cases = append(cases, c11Case{ID: *id, Family: "cycle-shapes", Files: files, Entry: e, Page: "f0.vuego", Data: "slice"})
		}
	}
	// slot rings: k named slots handed to a layout (or to a component), the content of slot i uses the slot
	// f(i) - every function f from the k slots to the k slots or to nothing, so every ring, chain and
	// self-reference among up to three slots - and the host uses the first slot (once or twice)
	for k := 1; k <= 3; k++ {
		total := 1
		for i := 0; i < k; i++ {
			total *= k + 1
		}
		for code := 0; code < total; code++ {
			var sb strings.Builder
			c := code
			for i := 0; i < k; i++ {
				f := c % (k + 1)
				c /= k + 1
				sb.WriteString(fmt.Sprintf(`<template #s%d><i>c%d</i>`, i, i))
				if f < k {
					sb.WriteString(fmt.Sprintf(`<slot name="s%d">fb%d</slot>`, f, f))
				}
				sb.WriteString(`</template>`)
			}
			use := `<aside><slot name="s0">none</slot></aside>`
			if code%2 == 1 {
				use += `<footer><slot name="s0"></slot><slot name="s1">n1</slot></footer>`
			}
			hosts := []map[string]string{
				{"f0.vuego": "---\nlayout: base\n---\n<p>x</p>" + sb.String(), "layouts/base.vuego": `<main v-html="content"></main>` + use},
				{"f0.vuego": `<template include="comp.vuego">` + sb.String() + `</template>`, "comp.vuego": `<section>` + use + `</section>`},
				{"f0.vuego": "---\nlayout: base\n---\n<p>x</p>" + sb.String(), "layouts/base.vuego": `<main v-html="content"></main><template include="comp.vuego"><template #s0><slot name="s0"></slot></template></template>`, "comp.vuego": `<section>` + use + `</section>`},
			}
			for hi, files := range hosts {
				*id++
				cases = append(cases, c11Case{ID: *id, Family: "slot-rings", Files: files, Entry: []string{"load", "vue"}[(code+hi)%2], Page: "f0.vuego", Data: "string"})
			}
		}
	}
	return cases
}

var c11Positions = []string{
	`<p v-if="v">x</p><p v-else>y</p>`,
	`<p v-if="!v">x</p>`,
	`<p v-if="v.a.b">x</p>`,
	`<p v-if="v > 1">x</p>`,
	`<p v-show="v">x</p>`,
	`<p v-for="x in v">{{ x }}</p>`,
	`<p v-for="(i, x) in v">{{ i }}{{ x }}</p>`,
	`<p v-for="x in v.k">{{ x.name }}</p>`,
	`<template v-for="x in vs"><i v-for="y in x">{{ y }}</i></template>`,
	`<p :title="v.name">{{ v.name }}|{{ v.Name }}|{{ v.next.name }}|{{ v.title }}</p>`, // fields by json tag, promoted ones included
	`<p v-text="v">x</p>`,
	`<p v-html="v">x</p>`,
	`<p style="color: red" :style="v">x</p>`,
	`<p :style="v">x</p>`,
	`<p class="a" :class="v">x</p>`,
	`<p :class="{a: v, b: !v}">x</p>`,
	`<p :class="[v, 'k']">x</p>`,
	`<p :title="v" :data-x="v.Name" :hidden="v">x</p>`,
	`<p title="{{ v }}" data-y="{{ v.k }}">{{ v }}</p>`,
	`<p>{{ v | upper }} {{ v | len }} {{ v | default("d") }} {{ v | json }}</p>`,
	`<p>{{ v.Name }} {{ v.secret }} {{ v.inner.Name }} {{ v.Next.Next.Name }} {{ v[0] }} {{ v["a"] }} {{ v.1 }}</p>`,
	`<p>{{ v + 1 }} {{ v * v }} {{ v == nil }} {{ v ? 1 : 2 }} {{ len(v) }}</p>`,
	`<p>{{ m.v.k.l[0].k }}</p>`,
	`<template include="c.vuego" :p="v" :required="p"></template>`,
	`<template include="c.vuego" p="{{ v }}"></template>`,
	`<template :include="v"></template>`,
	`<template include="c.vuego" v-for="x in v" :p="x"></template>`,
	`<template include="s.vuego" :val="v"><template v-slot="sp">{{ sp.item }} {{ sp.item.Name }}</template></template>`,
	`<template include="s.vuego"><template v-slot:[v]>x</template></template>`,
	`<p v-once :title="v">{{ v }}</p>`,
	`<input :value="v" :checked="v" :disabled="!v">`,
	`<p v-bind:title="v" v-bind="v">x</p>`,
	`<p v-if="v" v-for="x in v" v-text="x" :class="x">z</p>`,
	// loop heads that are not well formed
	`<p v-for="v">x</p><p v-for=" in v">x</p><p v-for="(a, b, c) in v">x</p><p v-for="() in v">x</p>`,
	`<p v-for="x in">x</p>`, `<p v-for="x of v">{{ x }}</p>`, `<p v-for="(x in v">x</p>`, `<p v-for="x in v in v">{{ x }}</p>`, `<template v-for="(, ) in v"><i>{{ v }}</i></template>`,
	`<p :class="{a: {b: v}, 'c d': v}" :style="{color: {x: 1}, 'font-size': v}">x</p>`,
	`<p v-pre :title="v">{{ v }}<i v-for="x in v">{{ x }}</i></p><template v-keep :k="v"><b>{{ v }}</b></template>`,
}

func c11TypeCases(r *Run, id *int) []c11Case {
	files := map[string]string{
		"c.vuego": `<div :title="p"><b v-if="p">{{ p }}</b><i v-for="q in p">{{ q }}</i></div>`,
		"s.vuego": `<div><slot :item="val">fb {{ val }}</slot></div>`,
	}
	var names []string
	for k := range c11Values() {
		names = append(names, k)
	}
	sortStrings(names)
	var cases []c11Case
	for _, pos := range c11Positions {
		for _, dn := range names {
			if !r.Thorough() && r.Rng.Intn(3) != 0 && !strings.Contains(dn, "cyclic") && !(strings.Contains(dn, "embedded") && strings.Contains(pos, "v.name")) && dn != "struct" && dn != "int" && dn != "nil-ptr" {
				continue
			}
			*id++
			cases = append(cases, c11Case{ID: *id, Family: "wrong-type", Files: files, Entry: "string", Tpl: pos, Data: dn})
		}
	}
	// the value as the root data itself
	for _, dn := range names {
		*id++
		cases = append(cases, c11Case{ID: *id, Family: "root-data", Files: map[string]string{"p.vuego": `<p>{{ Name }} {{ name }} {{ a }} {{ k.k }}</p><i v-for="x in Kids">{{ x.Name }}</i>`}, Entry: Pick(r.Rng, []string{"vue", "string"}), Page: "p.vuego",
			Tpl: `<p>{{ Name }} {{ a }} {{ self.name }} {{ Next.Name }}</p>`, Data: dn})
	}
	return cases
}

func c11FuncCases(r *Run, id *int) []c11Case {
	var cases []c11Case
	tpls := []string{
		`<p>{{ v | boom }}</p>`, `<p>{{ boom(v) }}</p>`, `<p :title="boom(v)">x</p>`, `<p v-if="boom(v)">x</p>`,
		`<p>{{ v | nilfn }}</p>`, `<p>{{ nilfn(v) }}</p>`, `<p>{{ v | notfn }}</p>`, `<p>{{ notfn(v) }}</p>`,
		`<p>{{ v | two }}</p>`, `<p>{{ two(v) }}</p>`, `<p>{{ v | two("a", "b", "c") }}</p>`,
		`<p>{{ v | noret }}</p>`, `<p>{{ noret(v) }}</p>`, `<p>{{ v | three }}</p>`, `<p>{{ v | failing }}</p>`,
		`<p>{{ v | typed }}</p>`, `<p>{{ typed(v) }}</p>`, `<p>{{ v | variad }}</p>`, `<p>{{ variad(v, v) }}</p>`,
		`<p>{{ v | ptrarg }}</p>`, `<p>{{ ptrarg(v) }}</p>`, `<p>{{ v | upper | boom | lower }}</p>`,
		`<p v-for="x in vs">{{ x | typed }}</p>`, `<p>{{ v | unknown }}</p>`, `<p>{{ unknown(v) }}</p>`,
	}
	for _, t := range tpls {
		for _, dn := range []string{"string", "int", "nil", "struct-ptr", "nil-ptr", "slice", "func", "map"} {
			*id++
			cases = append(cases, c11Case{ID: *id, Family: "functions", Entry: "string", Tpl: t, Data: dn, Funcs: "hostile"})
		}
	}
	// parameter kinds x data kinds, as a direct call, as a filter and in a bound attribute
	kinds := []string{"kArr3", "kArrPtr", "kStrs", "kBytes", "kMap", "kChan", "kFunc", "kStruct", "kIntPtr", "kStringer", "kErr", "kU8", "kF32", "kCplx", "kBool", "kRune", "kDur", "kVarAny", "kVarArr", "kCtxArr"}
	datas := []string{"ints2", "ints", "strs", "array", "bytes", "string", "int", "neg", "float", "nil", "nil-slice", "nil-ptr", "struct", "struct-ptr", "map", "nil-map", "chan", "func", "error", "stringer", "slice", "uint8", "complex", "duration", "bool"}
	for ki, k := range kinds {
		for di, dn := range datas {
			form := []string{`<p>{{ %s(v) }}</p>`, `<p>{{ v | %s }}</p>`, `<p :title="%s(v)">x</p>`, `<p>{{ %s(v, v) }}</p>`}[(ki+di)%4]
			*id++
			cases = append(cases, c11Case{ID: *id, Family: "functions", Entry: "string", Tpl: fmt.Sprintf(form, k), Data: dn, Funcs: "hostile"})
		}
	}
	// argument texts: every string up to length 3 over quotes, commas, parentheses, blanks, a letter and a digit, as the
	// argument list of a built-in filter, of a direct call, and inside a bound attribute
	var args []string
	var gen func(p string, n int)
	gen = func(p string, n int) {
		if p != "" {
			args = append(args, p)
		}
		if n == 0 {
			return
		}
		for _, c := range []string{"'", "\"", ",", "(", ")", " ", "a", "1", "|", "."} {
			gen(p+c, n-1)
		}
	}
	gen("", 3)
	for i, a := range args {
		form := []string{`<p>{{ v | default(%s) }}</p>`, `<p>{{ default(v, %s) }}</p>`, `<p :title='v | default(%s)'>x</p>`, `<p>{{ v | upper | default(%s) | lower }}</p>`, `<p v-text="v | default(%s)">x</p>`}[i%5]
		if strings.Contains(a, "'") && i%5 == 2 {
			form = `<p>{{ v | default(%s) }}</p>`
		}
		*id++
		cases = append(cases, c11Case{ID: *id, Family: "argument-texts", Entry: "string", Tpl: fmt.Sprintf(form, a), Data: []string{"string", "nil", "int"}[i%3]})
	}
	return cases
}

func c11ByteCases(r *Run, id *int) []c11Case {
	seeds := []string{
		`<div v-if="a"><p v-for="x in xs" :class="{a: x}">{{ x | upper }}</p></div><template include="c.vuego" :p="v"></template>`,
		"---\ntitle: t\nlayout: l\n---\n<p>{{ title }}</p>",
		`<template v-slot:a="p"><slot name="b" :q="p"></slot></template>`,
		`<p :style="{color: c}" v-html="h" v-once>{{ a ? b : c }}</p>`,
	}
	alphabet := []string{"{{", "}}", "<", ">", "\"", "'", "=", ":", "v-for", "v-if", " in ", "(", ")", "[", "]", "|", "\x00", "\xff", "\n", "---", "&", ";", "#", "template", "include", "slot", ".", ",", "{", "}", "</", "/>", "<!--", "-->", "x", "1", " "}
	var cases []c11Case
	n := 400
	if r.Thorough() {
		n = 30000
	}
	for i := 0; i < n; i++ {
		var s string
		switch r.Rng.Intn(3) {
		case 0: // splice
			b := []byte(Pick(r.Rng, seeds))
			for k := 0; k < 1+r.Rng.Intn(6); k++ {
				p := r.Rng.Intn(len(b) + 1)
				ins := Pick(r.Rng, alphabet)
				if r.Rng.Bool() && p < len(b) {
					q := p + r.Rng.Intn(len(b)-p)
					b = append(append(append([]byte{}, b[:p]...), ins...), b[q:]...)
				} else {
					b = append(append(append([]byte{}, b[:p]...), ins...), b[p:]...)
				}
			}
			s = string(b)
		case 1: // tokens
			var sb strings.Builder
			for k, m := 0, 1+r.Rng.Intn(30); k < m; k++ {
				sb.WriteString(Pick(r.Rng, alphabet))
			}
			s = sb.String()
		default: // random bytes
			b := make([]byte, 1+r.Rng.Intn(60))
			for k := range b {
				b[k] = byte(r.Rng.Intn(256))
			}
			s = string(b)
		}
		*id++
		c := c11Case{ID: *id, Family: "bytes", Data: "map", Files: map[string]string{"c.vuego": `<i>{{ p }}</i>`, "layouts/l.vuego": `<main v-html="content"></main>`}}
		if r.Rng.Bool() {
			c.Entry, c.Tpl = "string", s
		} else {
			c.Entry, c.Page = Pick(r.Rng, []string{"load", "vue"}), "p.vuego"
			c.Files["p.vuego"] = s
		}
		cases = append(cases, c)
	}
	return cases
}

func c11Range(a, b int) []int {
	var xs []int
	for i := a; i <= b; i++ {
		xs = append(xs, i)
	}
	return xs
}

func sortStrings(xs []string) {
	for i := 1; i < len(xs); i++ {
		for j := i; j > 0 && xs[j] < xs[j-1]; j-- {
			xs[j], xs[j-1] = xs[j-1], xs[j]
		}
	}
}

func init() { streams["C11"] = runC11 }

func runC11(r *Run) {
	r.Imports = []string{"Model.Depth", "Model.LayoutSlots"}
	r.Rule("isolated worker processes (64 MB maximum stack, address-space limit, 4 s per case): (include-graph) every include graph over 3 files with 0-2 includes per file, includes placed plainly, inside v-for and inside v-if, entered through Load.Render, Vue.Render and RenderFragment; (cycle-shapes) cycles through slot content, slot fallbacks, layouts and nested named slots; (slot-rings) up to three named slots handed to a layout, to a component, or through a layout to a component, the content of each using any other (every ring, chain and self-reference); (slot-shapes) 11 kinds of supplied slot content (text, element, <template v-html / v-if / v-for / v-text>, wrapper, include) x 6 ways a component uses the slot once, twice or three times x default / named; " +
		"(wrong-type) 32 directive positions x 39 data values (every kind: nil pointers, typed nil, unexported fields, non-string map keys, functions, channels, panicking Stringer, deep and cyclic structs / maps / slices); (root-data) each value as the root data; (functions) panicking, nil, non-function, wrong-arity, multi-result template functions as filters and calls, and 20 parameter kinds (arrays, pointers to arrays, typed slices, maps, channels, functions, structs, interfaces, narrow numbers, variadic, context-taking) x 25 data kinds; (bytes) spliced, token-soup and random byte strings as template sources and front-matter; (many-paths) templates with 330 distinct variable paths each, more than the engine's memo of parsed paths holds; (argument-texts) every string up to length 3 over quotes, commas, parentheses, blanks, a pipe, a dot, a letter and a digit as the argument list of a built-in function, as filter, call, bound attribute and v-text; (deep-nesting) elements nested 100..140, 200, 255..257, 300, 400 and 500 deep, and a component that includes itself over a thread 90 replies deep. " +
		"(layout-slots, also compared with Model/LayoutSlots.v) a page that hands 1-4 named slot contents to its layout, contents and layout built from text markers, wrapper elements and <slot> elements with fallbacks nested up to 3 deep, every content free to use any slot - itself, the others, names nobody supplied; the sequence of text markers the layout shows must be the model's. " +
		"Outcome must be ok or error: a panic reaching the caller, a timeout or a dead worker is a violation")
	id := 0
	var cases []c11Case
	cases = append(cases, c11GraphCases(r, &id)...)
	cases = append(cases, c11TypeCases(r, &id)...)
	cases = append(cases, c11FuncCases(r, &id)...)
	cases = append(cases, c11ByteCases(r, &id)...)
	cases = append(cases, c11LayoutSlotCases(r, &id)...)
	// more distinct variable paths in one process than any bounded memo of parsed paths holds (the engine keeps one of
	// 256 entries): every lookup still returns
	for _, form := range []string{"{{ m.v.k%d }}", "{{ m['k%d'].x }}", `<i v-if="m.v.q%d">y</i>`, `<i :title="m.w%d.z">t</i>`} {
		var sb strings.Builder
		for i := 0; i < 330; i++ {
			fmt.Fprintf(&sb, form, i)
		}
		id++
		cases = append(cases, c11Case{ID: id, Family: "many-paths", Entry: "string", Tpl: "<p>" + sb.String() + "</p>", Data: "map"})
	}
	// output nested deeper than any table of precomputed indentation: every depth around 128 levels (the writer
	// keeps 256 indentation strings), some far beyond, and a component that includes itself over a thread 90 deep
	for _, d := range append(c11Range(100, 140), 16, 64, 200, 255, 256, 257, 300, 400, 500) {
		for _, inner := range []string{"x", "<b>x</b><i>y</i>", ""} {
			id++
			cases = append(cases, c11Case{ID: id, Family: "deep-nesting", Entry: "string", Data: "map", Note: fmt.Sprint("depth ", d),
				Tpl: strings.Repeat("<div>", d) + inner + strings.Repeat("</div>", d)})
		}
	}
	for _, entry := range []string{"load", "vue"} {
		id++
		cases = append(cases, c11Case{ID: id, Family: "deep-nesting", Entry: entry, Page: "page.vuego", Data: "tree", Note: "recursive component",
			Files: map[string]string{"page.vuego": `<template include="tree.vuego" :node="node"></template>`,
				"tree.vuego": `<ul><li>{{ node.n }}<template include="tree.vuego" v-for="k in node.kids" :node="k"></template></li></ul>`}})
	}
	res := c11RunAll(r, cases)
	for _, c := range cases {
		cr, ok := res[c.ID]
		if !ok {
			continue
		}
		r.Eval(fmt.Sprintf("case:%d", c.ID), cr.Class != "ok", nil)
		r.Count("family:" + c.Family)
		r.Count("class:" + cr.Class)
		if c.Family == "include-graph" || c.Family == "include-chain" {
			var impl Obs
			switch {
			case cr.Class == "ok":
				impl = L(A("ok"), A(cr.Out))
			case cr.Class == "error" && strings.Contains(cr.Err, "include depth exceeded"):
				impl = L(A("depth"))
			case cr.Class == "error" && (strings.Contains(cr.Err, "error loading") || strings.Contains(cr.Err, "does not exist")):
				impl = L(A("missing"))
			default:
				impl = L(A(cr.Class), A(cr.Err))
			}
			coq := ""
			if c.Family == "include-chain" {
				coq = fmt.Sprintf("CGraph (chain %d) 0", c.Chain)
			} else {
				var fl []string
				for _, its := range c.Graph {
					var xs []string
					for _, g := range its {
						xs = append(xs, fmt.Sprintf("%s %d", []string{"IInc", "ILoop", "IIf"}[c.Form], g))
					}
					fl = append(fl, "["+strings.Join(xs, "; ")+"]")
				}
				coq = fmt.Sprintf("CGraph [%s] 0", strings.Join(fl, "; "))
			}
			r.Case("graph", coq, impl, map[string]any{"files": c.Files, "entry": c.Entry}, map[string]string{"family": c.Family}, true)
		}
		if c.Family == "layout-slots" {
			var impl Obs
			if cr.Class == "ok" {
				var ids []Obs
				for _, mm := range c11Marker.FindAllStringSubmatch(cr.Out, -1) {
					ids = append(ids, A(mm[1]))
				}
				impl = L(A("ok"), L(ids...))
			} else {
				impl = L(A(cr.Class), A(cr.Err))
			}
			r.Case("graph", c.Coq, impl, map[string]any{"files": c.Files, "entry": c.Entry}, map[string]string{"family": c.Family}, strings.Count(c.Coq, "LSlot") >= 3)
		}
		if cr.Class == "ok" || cr.Class == "error" {
			continue
		}
		sig := map[string]string{"oracle": "returns", "class": cr.Class, "family": c.Family, "where": c11Where(cr.Err)}
		r.Fail("a render call did not return normally: "+cr.Class, sig, map[string]any{"case": c, "result": cr})
	}
}

// a coarse location for grouping: the panic message or fatal error kind
func c11Where(msg string) string {
	switch {
	case strings.Contains(msg, "stack overflow") || strings.Contains(msg, "stack exceeds"):
		return "stack-overflow"
	case strings.Contains(msg, "interface conversion"):
		return "interface-conversion"
	case strings.Contains(msg, "unexported"):
		return "unexported-field"
	case strings.Contains(msg, "nil pointer"):
		return "nil-pointer"
	case strings.Contains(msg, "index out of range"):
		return "index-out-of-range"
	case strings.Contains(msg, "reflect"):
		return "reflect"
	case msg == "":
		return "none"
	}
	if len(msg) > 60 {
		msg = msg[:60]
	}
	return msg
}

var c11Marker = regexp.MustCompile(`data-t="(\d+)"`)

// slots a page hands to its layout (Model/LayoutSlots.v): items are text markers, wrappers and slots with fallbacks
type c11Item struct {
	kind int // 0 text, 1 wrapper, 2 slot
	id   int
	name int
	kids []c11Item
}

func c11ItemsSrc(its []c11Item) string {
	var sb strings.Builder
	for _, it := range its {
		switch it.kind {
		case 0:
			fmt.Fprintf(&sb, `<b data-t="%d">t</b>`, it.id)
		case 1:
			sb.WriteString("<div>" + c11ItemsSrc(it.kids) + "</div>")
		default:
			fmt.Fprintf(&sb, `<slot name="s%d">%s</slot>`, it.name, c11ItemsSrc(it.kids))
		}
	}
	return sb.String()
}
func c11ItemsCoq(its []c11Item) string {
	var xs []string
	for _, it := range its {
		switch it.kind {
		case 0:
			xs = append(xs, fmt.Sprintf("LText %d", it.id))
		case 1:
			xs = append(xs, "LWrap "+c11ItemsCoq(it.kids))
		default:
			xs = append(xs, fmt.Sprintf("LSlot %d %s", it.name, c11ItemsCoq(it.kids)))
		}
	}
	return "[" + strings.Join(xs, "; ") + "]"
}
func c11LayoutSlotCases(r *Run, id *int) []c11Case {
	rr := r.Rng
	n := 150
	if r.Thorough() {
		n = 1500
	}
	var cases []c11Case
	for c := 0; c < n; c++ {
		next := 0
		var gen func(depth int) []c11Item
		gen = func(depth int) []c11Item {
			var its []c11Item
			for i, k := 0, rr.Intn(4); i < k; i++ {
				switch x := rr.Intn(6); {
				case x < 2 || depth == 0:
					next++
					its = append(its, c11Item{kind: 0, id: next})
				case x == 2:
					its = append(its, c11Item{kind: 1, kids: gen(depth - 1)})
				default:
					its = append(its, c11Item{kind: 2, name: rr.Intn(6), kids: gen(depth - 1)})
				}
			}
			return its
		}
		names := []int{0, 1, 2, 3, 4}
		for i := len(names) - 1; i > 0; i-- {
			j := rr.Intn(i + 1)
			names[i], names[j] = names[j], names[i]
		}
		names = names[:1+rr.Intn(4)]
		var page strings.Builder
		page.WriteString("---\nlayout: lay\n---\n<p>page</p>")
		var tbl []string
		for _, nm := range names {
			content := gen(2)
			// a content always mentions some slot, so that rings are common
			content = append(content, c11Item{kind: 2, name: rr.Intn(6), kids: gen(1)})
			fmt.Fprintf(&page, `<template %s>%s</template>`, Pick(rr, []string{fmt.Sprintf("#s%d", nm), fmt.Sprintf("v-slot:s%d", nm)}), c11ItemsSrc(content))
			tbl = append(tbl, fmt.Sprintf("(%d, %s)", nm, c11ItemsCoq(content)))
		}
		layout := gen(3)
		layout = append(layout, c11Item{kind: 2, name: names[0], kids: gen(1)})
		*id++
		cases = append(cases, c11Case{ID: *id, Family: "layout-slots", Entry: "load", Page: "page.vuego", Data: "string",
			Files: map[string]string{"page.vuego": page.String(), "layouts/lay.vuego": `<main>` + c11ItemsSrc(layout) + `</main>`},
			Coq:   fmt.Sprintf("CSlots [%s] %s", strings.Join(tbl, "; "), c11ItemsCoq(layout))})
	}
	return cases
}
