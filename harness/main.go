package main

import (
	"flag"
	"fmt"
	"os"
)

type runFn func(r *Run)

var streams = map[string]runFn{}

func main() {
	if len(os.Args) < 3 {
		fmt.Fprintln(os.Stderr, "usage: vharness run <prop> [-tier quick|thorough] [-seed N] [-out DIR] | vharness sites <prop> -out FILE")
		os.Exit(2)
	}
	cmd, prop := os.Args[1], os.Args[2]
	fs := flag.NewFlagSet(cmd, flag.ExitOnError)
	tier := fs.String("tier", "quick", "")
	seed := fs.Uint64("seed", 1, "")
	out := fs.String("out", ".", "")
	replay := fs.String("replay", "", "")
	racebin := fs.String("racebin", "", "")
	inFile := fs.String("in", "", "")
	startAt := fs.Int("start", 0, "")
	_ = fs.Parse(os.Args[3:])
	switch cmd {
	case "run":
		f, ok := streams[prop]
		if !ok {
			fmt.Fprintln(os.Stderr, "unknown property", prop)
			os.Exit(2)
		}
		r := NewRun(prop, *tier, *seed, *out)
		r.ReplayFile = *replay
		r.RaceBin = *racebin
		f(r)
		if err := r.Finish(); err != nil {
			fmt.Fprintln(os.Stderr, "finish:", err)
			os.Exit(3)
		}
		os.Exit(0) // do not wait for goroutines a stream may have abandoned
	case "hostileworker":
		if err := c11Worker(*inFile, *out, *startAt); err != nil {
			fmt.Fprintln(os.Stderr, "hostileworker:", err)
			os.Exit(3)
		}
		os.Exit(0)
	case "concworker":
		if err := c09Worker(*seed, *tier, *out); err != nil {
			fmt.Fprintln(os.Stderr, "concworker:", err)
			os.Exit(3)
		}
		os.Exit(0)
	case "sites":
		if err := runSites(prop, *out); err != nil {
			fmt.Fprintln(os.Stderr, "sites:", err)
			os.Exit(3)
		}
	default:
		os.Exit(2)
	}
}
