package main

import (
	"crypto/sha256"
	"encoding/json"
	"fmt"
	"os"
	"path/filepath"
	"sort"
	"strings"
)

// ---------- PRNG: one splitmix64 state for everything ----------
type Rng struct{ s uint64 }

func (r *Rng) Next() uint64 {
	r.s += 0x9e3779b97f4a7c15
	z := r.s
	z = (z ^ (z >> 30)) * 0xbf58476d1ce4e5b9
	z = (z ^ (z >> 27)) * 0x94d049bb133111eb
	return z ^ (z >> 31)
}
func (r *Rng) Intn(n int) int {
	if n <= 0 {
		return 0
	}
	return int(r.Next() % uint64(n))
}
func (r *Rng) Bool() bool          { return r.Next()&1 == 1 }
func (r *Rng) Chance(p, q int) bool { return r.Intn(q) < p }
func Pick[T any](r *Rng, xs []T) T { return xs[r.Intn(len(xs))] }

// ---------- observations ----------
type Obs struct {
	Atom *string
	List []Obs
}

func A(s string) Obs      { return Obs{Atom: &s} }
func L(xs ...Obs) Obs     { if xs == nil { xs = []Obs{} }; return Obs{List: xs} }
func B(b bool) Obs        { if b { return A("t") }; return A("f") }
func N(n int) Obs         { return A(fmt.Sprint(n)) }
func (o Obs) Coq() string {
	if o.Atom != nil {
		return "OA " + coqBytes(*o.Atom)
	}
	var sb strings.Builder
	sb.WriteString("OL [")
	for i, x := range o.List {
		if i > 0 {
			sb.WriteString("; ")
		}
		sb.WriteString(x.Coq())
	}
	sb.WriteString("]")
	return sb.String()
}

// Show mirrors Base/Obs.v show_obs so that implementation and model observations read alike.
func (o Obs) Show() string {
	if o.Atom != nil {
		var sb strings.Builder
		sb.WriteByte('\'')
		for i := 0; i < len(*o.Atom); i++ {
			c := (*o.Atom)[i]
			if c >= 32 && c < 127 && c != '"' && c != '\\' && c != '(' && c != ')' {
				sb.WriteByte(c)
			} else {
				fmt.Fprintf(&sb, "\\%02x", c)
			}
		}
		sb.WriteByte('\'')
		return sb.String()
	}
	var sb strings.Builder
	sb.WriteByte('(')
	for _, x := range o.List {
		sb.WriteString(x.Show())
		sb.WriteByte(' ')
	}
	sb.WriteByte(')')
	return sb.String()
}

// coqBytes prints a Go string as a Coq term of type bytes.
func coqBytes(s string) string {
	ok := true
	for i := 0; i < len(s); i++ {
		if s[i] < 32 || s[i] > 126 {
			ok = false
			break
		}
	}
	if ok {
		return `(sb "` + strings.ReplaceAll(s, `"`, `""`) + `")`
	}
	var sb strings.Builder
	sb.WriteString("[")
	for i := 0; i < len(s); i++ {
		if i > 0 {
			sb.WriteString(";")
		}
		fmt.Fprintf(&sb, "x%02x", s[i])
	}
	sb.WriteString("]")
	return sb.String()
}
func coqBool(b bool) string {
	if b {
		return "true"
	}
	return "false"
}
func coqList[T any](xs []T, f func(T) string) string {
	var sb strings.Builder
	sb.WriteString("[")
	for i, x := range xs {
		if i > 0 {
			sb.WriteString("; ")
		}
		sb.WriteString(f(x))
	}
	sb.WriteString("]")
	return sb.String()
}
func coqOpt(s *string) string {
	if s == nil {
		return "None"
	}
	return "(Some " + *s + ")"
}

// ---------- a run: collects cases, oracle failures, distribution ----------
type Failure struct {
	Kind   string            `json:"kind"` // "oracle"
	What   string            `json:"what"`
	Sig    map[string]string `json:"sig"`
	Replay any               `json:"replay"`
}
type CaseRec struct {
	Shard  int               `json:"shard"`
	Index  int               `json:"index"`
	Stream string            `json:"stream"`
	Tags   map[string]string `json:"tags,omitempty"`
	Desc   any               `json:"desc"`
	Impl   string            `json:"impl"`
}
type Run struct {
	Prop, Tier string
	Seed       uint64
	Out        string
	ReplayFile string
	RaceBin    string
	Rng        *Rng
	RunModule  string // Coq module with case/run, e.g. "Run.RunC18"
	Imports    []string
	Prelude    string // Coq definitions emitted at the top of every shard

	shardSize   int
	curBytes    int
	cur         []string
	shard       int
	recs        *os.File
	evals       int
	modelCases  int
	seen        map[[32]byte]bool
	nontrivial  int
	dist        map[string]int
	failures    []Failure
	failKeys    map[string]int
	samples     []any
	knownNotes  []string
	extra       map[string]any
	rule        string
	assumptions []string
}

func NewRun(prop, tier string, seed uint64, out string) *Run {
	_ = os.MkdirAll(out, 0o755)
	// remove stale shards
	old, _ := filepath.Glob(filepath.Join(out, "cases_*.v"))
	for _, f := range old {
		_ = os.Remove(f)
	}
	recs, err := os.Create(filepath.Join(out, "cases.jsonl"))
	if err != nil {
		panic(err)
	}
	h := sha256.Sum256([]byte(prop))
	mix := uint64(h[0]) | uint64(h[1])<<8 | uint64(h[2])<<16 | uint64(h[3])<<24
	return &Run{Prop: prop, Tier: tier, Seed: seed, Out: out, Rng: &Rng{s: seed*0x2545F4914F6CDD1D ^ mix},
		shardSize: 250, recs: recs, seen: map[[32]byte]bool{}, dist: map[string]int{}, extra: map[string]any{},
		RunModule: "Run.Run" + prop}
}
func (r *Run) Thorough() bool { return r.Tier == "thorough" }
func (r *Run) Count(key string) { r.dist[key]++ }
func (r *Run) CountN(key string, n int) { r.dist[key] += n }
func (r *Run) Rule(s string)    { r.rule = s }
func (r *Run) Assume(s string)  { r.assumptions = append(r.assumptions, s) }

// Eval records one implementation evaluation that has no model counterpart (oracle-only).
func (r *Run) Eval(key string, nontrivial bool, sample any) {
	r.evals++
	h := sha256.Sum256([]byte(key))
	if !r.seen[h] {
		r.seen[h] = true
		if nontrivial {
			r.nontrivial++
		}
	}
	if sample != nil && len(r.samples) < 6 {
		r.samples = append(r.samples, sample)
	}
}

// Case records a case for the model: the Coq term of the case, the implementation's
// observation, a readable description, tags for the known-findings matcher.
func (r *Run) Case(stream, coqCase string, impl Obs, desc any, tags map[string]string, nontrivial bool) {
	r.evals++
	r.modelCases++
	h := sha256.Sum256([]byte(stream + "\x00" + coqCase))
	if !r.seen[h] {
		r.seen[h] = true
		if nontrivial {
			r.nontrivial++
		}
	}
	r.Count("stream:" + stream)
	idx := len(r.cur)
	r.cur = append(r.cur, fmt.Sprintf("(%s, %s)", coqCase, coqBytes(impl.Show())))
	rec := CaseRec{Shard: r.shard, Index: idx, Stream: stream, Tags: tags, Desc: desc, Impl: impl.Show()}
	b, _ := json.Marshal(rec)
	_, _ = r.recs.Write(append(b, '\n'))
	if len(r.samples) < 6 && (nontrivial || r.evals%97 == 0) {
		r.samples = append(r.samples, map[string]any{"stream": stream, "case": desc, "impl_obs": impl.Show()})
	}
	r.curBytes += len(r.cur[len(r.cur)-1])
	if len(r.cur) >= r.shardSize || r.curBytes > 180000 {
		r.flush()
	}
}
func (r *Run) flush() {
	if len(r.cur) == 0 {
		return
	}
	var sb strings.Builder
	sb.WriteString("From V Require Import Base.Bytes Base.Obs")
	for _, m := range r.Imports {
		sb.WriteString(" " + m)
	}
	sb.WriteString(" " + r.RunModule + ".\n") // last: its [case] and [run] must not be shadowed
	sb.WriteString(r.Prelude)
	sb.WriteString("Definition cases : list (case * bytes) := [\n")
	sb.WriteString(strings.Join(r.cur, ";\n"))
	sb.WriteString("\n].\nDefinition M := Eval vm_compute in mismatches run cases.\n")
	sb.WriteString("Set Printing Width 1000000.\nSet Printing Depth 1000000.\nPrint M.\n")
	_ = os.WriteFile(filepath.Join(r.Out, fmt.Sprintf("cases_%d.v", r.shard)), []byte(sb.String()), 0o644)
	r.shard++
	r.cur = nil
	r.curBytes = 0
}
func (r *Run) Fail(what string, sig map[string]string, replay any) {
	key := what
	ks := make([]string, 0, len(sig))
	for k := range sig {
		ks = append(ks, k)
	}
	sort.Strings(ks)
	for _, k := range ks {
		key += "|" + k + "=" + sig[k]
	}
	if r.failKeys == nil {
		r.failKeys = map[string]int{}
	}
	r.failKeys[key]++
	if r.failKeys[key] <= 20 && len(r.failures) < 2000 {
		r.failures = append(r.failures, Failure{Kind: "oracle", What: what, Sig: sig, Replay: replay})
	}
	r.Count("oracle_fail:" + what)
}
func (r *Run) Finish() error {
	r.flush()
	_ = r.recs.Close()
	keys := make([]string, 0, len(r.dist))
	for k := range r.dist {
		keys = append(keys, k)
	}
	sort.Strings(keys)
	sum := map[string]any{
		"property": r.Prop, "tier": r.Tier, "seed": r.Seed,
		"evaluations": r.evals, "model_cases": r.modelCases, "distinct": len(r.seen),
		"distinct_nontrivial": r.nontrivial, "rule": r.rule,
		"distribution": r.dist, "failures": r.failures, "samples": r.samples, "shards": r.shard,
		"extra": r.extra, "assumptions": r.assumptions,
	}
	b, err := json.MarshalIndent(sum, "", " ")
	if err != nil {
		return err
	}
	return os.WriteFile(filepath.Join(r.Out, "summary.json"), b, 0o644)
}

// toggleElems writes elements on which evaluation WRITES attributes (v-show into a style, the payload
// attributes of v-text / v-html, the v-once id, class / style merges) - with 0..5 further static attributes,
// so that parsed attribute slices of every length and spare capacity occur - all driven by the condition
// cond and the value expressions text / htmlv. A render that changes a shared (cached) copy of such an
// element shows in a later or concurrent render whose condition or values differ.
func toggleElems(cond, text, htmlv, coll string) string {
	var sb strings.Builder
	pads := []string{"", ` data-p0="0"`, ` data-p0="0" data-p1="1"`, ` data-p0="0" data-p1="1" data-p2="2"`, ` data-p0="0" data-p1="1" data-p2="2" data-p3="3"`, ` data-p0="0" data-p1="1" data-p2="2" data-p3="3" data-p4="4"`}
	for i, pad := range pads {
		for _, dir := range []string{"", ` v-text="` + text + `"`, ` v-html="` + htmlv + `"`} {
			for _, style := range []string{"", ` style="color:red"`, ` style="display:block; margin:0"`} {
				fmt.Fprintf(&sb, `<p%s v-show="%s"%s%s>t%d</p>`, dir, cond, style, pad, i)
			}
			if dir != "" { // the same without any child node
				fmt.Fprintf(&sb, `<aside%s v-show="%s" style="float: right"%s></aside>`, dir, cond, pad)
				fmt.Fprintf(&sb, `<input%s :class="{on: %s}" class="k" v-once%s>`, dir, cond, pad)
			}
			fmt.Fprintf(&sb, `<p%s%s :class="{on: %s}" class="k">c%d</p>`, dir, pad, cond, i)
			fmt.Fprintf(&sb, `<p%s%s v-once>o%d</p>`, dir, pad, i)
			fmt.Fprintf(&sb, `<p%s%s v-if="%s" style="top:0" v-show="%s">i%d</p>`, dir, pad, cond, cond, i)
		}
		// v-pre (content copied unevaluated), v-keep (the <template> tag itself is kept), the long v-bind: spelling
		fmt.Fprintf(&sb, `<p v-pre%s>{{ %s }} <b v-if="%s" :title="%s">k</b></p>`, pad, text, cond, text)
		fmt.Fprintf(&sb, `<template v-keep class="kept"%s><i v-show="%s" style="top:1px">{{ %s }}</i></template>`, pad, cond, text)
		fmt.Fprintf(&sb, `<template v-if="%s" v-keep%s><em v-bind:title="%s">kept-if</em></template><template v-else v-keep><em>kept-else</em></template>`, cond, pad, text)
		fmt.Fprintf(&sb, `<u v-bind:class="{on: %s}" v-bind:style="{color: 'red'}" v-bind:data-t="%s"%s>vb</u>`, cond, text, pad)
		fmt.Fprintf(&sb, `<template v-html="%s"%s></template>`, htmlv, pad)
		fmt.Fprintf(&sb, `<template v-text="%s"%s></template>`, text, pad)
		fmt.Fprintf(&sb, `<b v-for="x in %s" v-text="%s"%s v-show="%s" style="left:0"></b>`, coll, text, pad, cond)
	}
	return sb.String()
}
