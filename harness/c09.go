package main

import (
	"bytes"
	"context"
	"encoding/json"
	"fmt"
	"io"
	"io/fs"
	"os"
	"os/exec"
	"path/filepath"
	"regexp"
	"sort"
	"strings"
	"sync"
	"time"

	"github.com/titpetric/vuego"
	"golang.org/x/net/html"
)

// C09: one engine, many goroutines.
//
// The plain harness starts the race-instrumented harness as a worker (GORACE log_path=...), which renders
// generated program sets from N goroutines over one shared engine / one shared base template and compares
// every call's bytes and error with the same call made alone on a fresh engine.  The race detector's
// reports are parsed here.  A second stream drives the real template cache through sequential lookup /
// modify histories and compares it with Model/CacheConc.v.

// ---------- a file system whose files can be modified while renders run (itself race-free) ----------
type concFS struct {
	mu    sync.RWMutex
	files map[string]*concFile
}
type concFile struct {
	data []byte
	mod  time.Time
}

func newConcFS() *concFS { return &concFS{files: map[string]*concFile{}} }
func (c *concFS) Put(name, data string, mod time.Time) {
	c.mu.Lock()
	c.files[name] = &concFile{data: []byte(data), mod: mod}
	c.mu.Unlock()
}
func (c *concFS) Touch(name string, mod time.Time) {
	c.mu.Lock()
	if f, ok := c.files[name]; ok {
		c.files[name] = &concFile{data: f.data, mod: mod}
	}
	c.mu.Unlock()
}
func (c *concFS) Clone() *concFS {
	n := newConcFS()
	c.mu.RLock()
	for k, f := range c.files {
		n.files[k] = &concFile{data: f.data, mod: f.mod}
	}
	c.mu.RUnlock()
	return n
}
func (c *concFS) get(name string) (*concFile, bool) {
	c.mu.RLock()
	f, ok := c.files[name]
	c.mu.RUnlock()
	return f, ok
}

type concInfo struct {
	name string
	f    *concFile
	dir  bool
}

func (i concInfo) Name() string { return filepath.Base(i.name) }
func (i concInfo) Size() int64 {
	if i.f == nil {
		return 0
	}
	return int64(len(i.f.data))
}
func (i concInfo) Mode() fs.FileMode {
	if i.dir {
		return fs.ModeDir | 0o555
	}
	return 0o444
}
func (i concInfo) ModTime() time.Time {
	if i.f == nil {
		return time.Time{}
	}
	return i.f.mod
}
func (i concInfo) IsDir() bool { return i.dir }
func (i concInfo) Sys() any    { return nil }

type concOpen struct {
	info concInfo
	r    *bytes.Reader
}

func (o *concOpen) Stat() (fs.FileInfo, error) { return o.info, nil }
func (o *concOpen) Read(p []byte) (int, error) { return o.r.Read(p) }
func (o *concOpen) Close() error               { return nil }

type concDir struct {
	info concInfo
	ents []fs.DirEntry
}

func (d *concDir) Stat() (fs.FileInfo, error) { return d.info, nil }
func (d *concDir) Read([]byte) (int, error)   { return 0, fmt.Errorf("is a directory") }
func (d *concDir) Close() error               { return nil }
func (d *concDir) ReadDir(n int) ([]fs.DirEntry, error) {
	e := d.ents
	d.ents = nil
	if n > 0 && len(e) == 0 {
		return nil, io.EOF
	}
	return e, nil
}

func (c *concFS) isDir(name string) bool {
	if name == "." {
		return true
	}
	c.mu.RLock()
	defer c.mu.RUnlock()
	for k := range c.files {
		if strings.HasPrefix(k, name+"/") {
			return true
		}
	}
	return false
}
func (c *concFS) Open(name string) (fs.File, error) {
	if f, ok := c.get(name); ok {
		return &concOpen{info: concInfo{name: name, f: f}, r: bytes.NewReader(f.data)}, nil
	}
	if c.isDir(name) {
		var ents []fs.DirEntry
		seen := map[string]bool{}
		c.mu.RLock()
		for k, f := range c.files {
			rel := k
			if name != "." {
				if !strings.HasPrefix(k, name+"/") {
					continue
				}
				rel = strings.TrimPrefix(k, name+"/")
			}
			if i := strings.Index(rel, "/"); i >= 0 {
				d := rel[:i]
				if !seen[d] {
					seen[d] = true
					ents = append(ents, fs.FileInfoToDirEntry(concInfo{name: d, dir: true}))
				}
			} else if !seen[rel] {
				seen[rel] = true
				ents = append(ents, fs.FileInfoToDirEntry(concInfo{name: rel, f: f}))
			}
		}
		c.mu.RUnlock()
		sort.Slice(ents, func(i, j int) bool { return ents[i].Name() < ents[j].Name() })
		return &concDir{info: concInfo{name: name, dir: true}, ents: ents}, nil
	}
	return nil, &fs.PathError{Op: "open", Path: name, Err: fs.ErrNotExist}
}
func (c *concFS) ReadFile(name string) ([]byte, error) {
	if f, ok := c.get(name); ok {
		return append([]byte(nil), f.data...), nil
	}
	return nil, &fs.PathError{Op: "read", Path: name, Err: fs.ErrNotExist}
}
func (c *concFS) Stat(name string) (fs.FileInfo, error) {
	if f, ok := c.get(name); ok {
		return concInfo{name: name, f: f}, nil
	}
	if c.isDir(name) {
		return concInfo{name: name, dir: true}, nil
	}
	return nil, &fs.PathError{Op: "stat", Path: name, Err: fs.ErrNotExist}
}

// ---------- program sets ----------
type c09Set struct {
	Name  string
	Files map[string]string
	Pages []string // files rendered as pages
	Frags []string // files rendered as fragments / includes
}

var c09T0 = time.Date(2026, 1, 1, 0, 0, 0, 0, time.UTC)

func c09GenSet(r *Rng, id int) c09Set {
	s := c09Set{Name: fmt.Sprintf("set%d", id), Files: map[string]string{}}
	layout := r.Intn(3) != 0
	if layout {
		s.Files["layouts/main.vuego"] = `<html><head><title>{{ title }}</title></head><body class="{{ theme }}"><header v-once><b>{{ site }}</b></header><main v-html="content"></main><footer><slot name="foot">nofoot</slot></footer></body></html>`
	}
	s.Files["comp/card.vuego"] = "---\nkind: card\n---\n" + `<template :required="label"><div class="card {{ kind }}"><h3 v-once>{{ label | upper }}</h3><slot>empty</slot><small v-if="note">{{ note }}</small></div></template>`
	// a component whose slot hands values to its content and that goes on reading its own props after the slot
	s.Files["comp/panel.vuego"] = `<div class="panel" :data-k="kind"><slot :owner="label" :n="qty">none</slot><b>[{{ label }}|{{ kind }}|{{ qty }}]</b><slot name="foot" :who="label"></slot><i>{{ kind }}</i></div>`
	s.Files["comp/item.vuego"] = `<li :class="cls"><span v-text="it.name"></span> = {{ it.qty * 2 }}<i v-if="it.qty > 1">many</i><i v-else>one</i></li>`
	nPages := 1 + r.Intn(3)
	for p := 0; p < nPages; p++ {
		var fm strings.Builder
		fm.WriteString("---\n")
		fmt.Fprintf(&fm, "title: Page %d of %s\n", p, s.Name)
		if layout && r.Intn(4) != 0 {
			fm.WriteString("layout: main\n")
		}
		if r.Bool() {
			fm.WriteString("note: from front-matter\n")
		}
		fm.WriteString("---\n")
		var b strings.Builder
		fmt.Fprintf(&b, `<section id="p%d"><h1>{{ title }}</h1>`, p)
		feats := []string{
			`<p>{{ user.name }} ({{ user.profile.city }})</p>`,
			`<ul><template v-for="it in items" include="comp/item.vuego" :it="it" cls="row"></template></ul>`,
			`<template include="comp/card.vuego" label="first" :note="note"><em>{{ user.name | upper }}</em></template>`,
			`<template include="comp/card.vuego" :label="user.name"></template>`,
			`<template include="comp/panel.vuego" :label="user.name" kind="k1" :qty="counter"><template #default="{ owner, n }"><u>{{ owner }}:{{ n }}:{{ counter }}</u></template><template v-slot:foot="p"><s>{{ p.who }}</s></template></template><ol><li v-for="it in items">{{ it.name }}{{ owner }}{{ n }}</li></ol>`,
			`<div v-once><span>{{ counter }}</span></div>`,
			`<p v-for="(i, it) in items" :data-i="i">{{ it.name | lower }}-{{ i + 1 }}</p>`,
			`<p v-if="user.admin">admin</p><p v-else-if="user.name">named</p><p v-else>anon</p>`,
			`<p :title="shout(user.name)" :class="{on: user.admin, off: !user.admin}">x</p>`,
			`<template #foot><i>foot {{ title }}</i></template>`,
			`<p>{{ len(items) }} {{ items[0].name }} {{ user.profile.zip + 1 }}</p>`,
			// elements whose evaluation writes attributes; the condition and the values differ between calls
			// that bring their own data and calls on the shared data
			toggleElems("counter > 7", "user.name", "user.name", "items"),
			// equality and arithmetic on values whose Go type differs between requests
			`<p v-if="counter == 7" :class="{eight: counter == 8, str: note == 'from front-matter'}">seven</p><p v-else-if="counter != 9">not-nine</p><p v-else>nine</p><i v-show="note == ''" :data-n="counter % 3 == 0">n</i><u>{{ counter == 7 ? 'is7' : 'not7' }} {{ counter * 2 }} {{ note == 7 }}</u>`,
		}
		for i := range feats {
			if r.Intn(3) != 0 {
				b.WriteString(feats[i])
			}
		}
		b.WriteString(`</section>`)
		// variables assigned at the root scope of the page (they must land in the request's scope, not in shared data)
		if r.Intn(2) == 0 {
			b.WriteString(`<template :seq="counter + 1" :who="user.name"></template><p>#{{ seq }} {{ who }}</p><template v-for="it in items"><template :last="it.name"></template></template><p>{{ last }}</p>`)
		}
		name := fmt.Sprintf("page%d.vuego", p)
		if r.Intn(3) == 0 { // no front-matter at all
			s.Files[name] = b.String()
			s.Pages = append(s.Pages, name)
			continue
		}
		s.Files[name] = fm.String() + b.String()
		s.Pages = append(s.Pages, name)
	}
	// two directories whose pages name the same layout, each with a layout of that name beside its pages: what the name
	// means depends on the directory of the page that says it
	if layout {
		s.Files["blog/shell.vuego"] = `<div class="blog-shell">{{ site }}<main v-html="content"></main></div>`
		s.Files["docs/shell.vuego"] = `<section class="docs-shell">{{ theme }}<main v-html="content"></main></section>`
		s.Files["blog/post.vuego"] = "---\nlayout: shell\ntitle: Post\n---\n<h1>{{ title }}</h1><p>{{ user.name }}</p>"
		s.Files["docs/page.vuego"] = "---\nlayout: shell\ntitle: Doc\n---\n<h1>{{ title }}</h1><p>{{ counter }}</p>"
		s.Pages = append(s.Pages, "blog/post.vuego", "docs/page.vuego")
	}
	// a page that brings everything it reads in its own front-matter and assigns at its root scope: rendered with no
	// data at all (nil, or an empty map), what it assigns must stay in that request
	s.Files["selfpage.vuego"] = "---\nstep: 1\ntitle: Self\nuser:\n  name: fm-user\n---\n" +
		`<h1>{{ title }}</h1><template :step="step + 1" :who="user.name"></template><p>Step {{ step }} {{ who }}</p><template :step="step + 1"></template><p>Step {{ step }}</p>`
	// every set has a page WITHOUT front-matter that assigns at its root scope (directly and from a loop): rendered over the
	// shared read-only data, what it assigns must land in the request's scope, never in the data handed in
	s.Files["rootassign.vuego"] = `<section><template :seq="counter + 1" :who="user.name"></template><p>#{{ seq }} {{ who }}</p><template v-for="it in items"><template :last="it.name"></template></template><p>{{ last }}</p></section>`
	s.Pages = append(s.Pages, "rootassign.vuego")
	s.Frags = []string{"comp/card.vuego", "comp/item.vuego"}
	return s
}

func c09Funcs() vuego.FuncMap {
	return vuego.FuncMap{"shout": func(s string) string { return strings.ToUpper(s) + "!" }}
}

// data shared, read-only, between all requests
func c09SharedData() map[string]any {
	return map[string]any{
		"site": "S", "theme": "dark", "counter": 7, "label": "shared-label", "note": "",
		"user":  map[string]any{"name": "Ann", "admin": true, "profile": map[string]any{"city": "Oslo", "zip": 41}},
		"items": []any{map[string]any{"name": "Bolt", "qty": 3}, map[string]any{"name": "Nut", "qty": 1}},
		"it":    map[string]any{"name": "Solo", "qty": 2}, "cls": "c",
	}
}

type c09Call struct {
	Kind string `json:"kind"`
	File string `json:"file,omitempty"`
	Tpl  string `json:"tpl,omitempty"`
	Own  bool   `json:"own_data,omitempty"` // per-call data instead of the shared map
	Idx  int    `json:"idx"`
}

func c09GenCalls(r *Rng, s c09Set, n int, salt int) []c09Call {
	var calls []c09Call
	for i := 0; i < n; i++ {
		idx := salt*1000 + i
		switch r.Intn(9) {
		case 8:
			calls = append(calls, c09Call{Kind: Pick(r, []string{"Vue.Render.nil", "Vue.Render.empty", "Load.Render.nofill"}), File: "selfpage.vuego", Idx: idx})
		case 0, 1:
			calls = append(calls, c09Call{Kind: "Load.Fill.Render", File: Pick(r, s.Pages), Own: r.Intn(3) == 0, Idx: idx})
		case 2:
			calls = append(calls, c09Call{Kind: "New.Fill.RenderFile", File: Pick(r, s.Pages), Own: r.Intn(3) == 0, Idx: idx})
		case 3:
			calls = append(calls, c09Call{Kind: "Vue.Render", File: Pick(r, s.Pages), Own: r.Intn(3) == 0, Idx: idx})
		case 4:
			calls = append(calls, c09Call{Kind: "Vue.RenderFragment", File: Pick(r, s.Frags), Idx: idx})
		case 5, 6:
			// previously unseen expressions and dotted paths
			tpl := fmt.Sprintf(`<p>{{ user.profile.city }} {{ fresh.k%d.v }} {{ counter + %d }} {{ user.name | upper }}</p><template include="comp/card.vuego" label="L%d"><b>{{ fresh.k%d.w }}</b></template>`, idx, idx, idx, idx)
			calls = append(calls, c09Call{Kind: "New.Fill.RenderString", Tpl: tpl, Idx: idx})
		default:
			tpl := fmt.Sprintf(`<i>{{ site }} {{ counter * %d }} {{ user.profile.zip - %d }}</i><div v-once>{{ site }}</div>`, idx, idx)
			if i%3 == 2 {
				// a request that fails in the middle of a text node and of an attribute value, after part of it was written:
				// nothing of it may surface in anybody else's output
				tpl = fmt.Sprintf(`<p title="LEAK-ATTR-%d-{{ user.name }}-{{ user.name | nosuchfilter%d }}">x</p><p>LEAK-TEXT-%d-{{ site }}-{{ counter | nosuchfilter%d }}</p>`, idx, idx, idx, idx)
			}
			calls = append(calls, c09Call{Kind: "base.RenderString", Tpl: tpl, Idx: idx})
		}
	}
	return calls
}

type c09Engine struct {
	fsys *concFS
	base vuego.Template
	vue  *vuego.Vue
}

// a node processor with per-render state (it numbers the headings of one render): the engine must give every
// render an instance of its own (NodeProcessor.New)
type c09Numberer struct{ n int }

func (p *c09Numberer) New() vuego.NodeProcessor            { return &c09Numberer{} }
// before evaluation it marks the headings, paragraphs and list items of the template it is given (a step that is
// not idempotent: a tree that were pre-processed twice would carry the mark twice)
func (p *c09Numberer) PreProcess(nodes []*html.Node) error {
	var walk func(n *html.Node)
	walk = func(n *html.Node) {
		if n.Type == html.ElementNode && (n.Data == "h1" || n.Data == "h2" || n.Data == "p" || n.Data == "ul" || n.Data == "section" || n.Data == "div") {
			n.Attr = append(n.Attr, html.Attribute{Key: "data-pre", Val: "1"})
		}
		for c := n.FirstChild; c != nil; c = c.NextSibling {
			walk(c)
		}
	}
	for _, n := range nodes {
		walk(n)
	}
	return nil
}
func (p *c09Numberer) PostProcess(nodes []*html.Node) error {
	var walk func(n *html.Node)
	walk = func(n *html.Node) {
		if n.Type == html.ElementNode && (n.Data == "h1" || n.Data == "h3" || n.Data == "li") {
			p.n++
			n.Attr = append(n.Attr, html.Attribute{Key: "data-seq", Val: fmt.Sprint(p.n)})
		}
		for c := n.FirstChild; c != nil; c = c.NextSibling {
			walk(c)
		}
	}
	for _, n := range nodes {
		walk(n)
	}
	return nil
}

func c09NewEngine(fsys *concFS, shared map[string]any) *c09Engine {
	base := vuego.NewFS(fsys, vuego.WithFuncs(c09Funcs()), vuego.WithProcessor(&c09Numberer{})).Fill(shared)
	return &c09Engine{fsys: fsys, base: base, vue: vuego.NewVue(fsys).Funcs(c09Funcs()).RegisterNodeProcessor(&c09Numberer{})}
}

type c09Res struct {
	Out string
	Err string
}

func (e *c09Engine) do(c c09Call, shared map[string]any) (res c09Res) {
	defer func() {
		if x := recover(); x != nil {
			res = c09Res{Err: fmt.Sprintf("PANIC %v", x)}
		}
	}()
	data := shared
	if c.Own {
		data = c09SharedData()
		// the same expressions meet a different Go type from one request to the next (JSON-decoded numbers are
		// float64, database ids int64): a request must evaluate them with its own values
		switch c.Idx % 4 {
		case 0:
			data["counter"] = c.Idx
		case 1:
			data["counter"] = int64(c.Idx)
		case 2:
			data["counter"] = float64(c.Idx)
		default:
			data["counter"] = uint16(c.Idx % 60000)
		}
		if c.Idx%5 == 0 {
			data["note"] = 7 // elsewhere a string
		}
		data["user"].(map[string]any)["name"] = fmt.Sprintf("U%d", c.Idx)
	}
	if c.Kind == "New.Fill.RenderString" {
		d := map[string]any{}
		for k, v := range shared {
			d[k] = v
		}
		d["fresh"] = map[string]any{fmt.Sprintf("k%d", c.Idx): map[string]any{"v": c.Idx, "w": "w" + fmt.Sprint(c.Idx)}}
		data = d
	}
	var buf bytes.Buffer
	var err error
	ctx := context.Background()
	switch c.Kind {
	case "Load.Fill.Render":
		err = e.base.Load(c.File).Fill(data).Render(ctx, &buf)
	case "New.Fill.RenderFile":
		err = e.base.New().Fill(data).RenderFile(ctx, &buf, c.File)
	case "Vue.Render":
		err = e.vue.Render(&buf, c.File, data)
	case "Vue.Render.nil":
		err = e.vue.Render(&buf, c.File, nil)
	case "Vue.Render.empty":
		err = e.vue.Render(&buf, c.File, map[string]any{})
	case "Load.Render.nofill":
		err = e.base.Load(c.File).Render(ctx, &buf)
	case "Vue.RenderFragment":
		err = e.vue.RenderFragment(&buf, c.File, data)
	case "New.Fill.RenderString":
		err = e.base.New().Fill(data).RenderString(ctx, &buf, c.Tpl)
	case "base.RenderString":
		err = e.base.RenderString(ctx, &buf, c.Tpl)
	}
	res.Out = buf.String()
	if err != nil {
		res.Err = err.Error()
	}
	return res
}

type c09Diff struct {
	Set    string  `json:"set"`
	Round  string  `json:"round"`
	N      int     `json:"goroutines"`
	Call   c09Call `json:"call"`
	Alone  c09Res  `json:"alone"`
	Shared c09Res  `json:"concurrent"`
}
type c09Report struct {
	Calls  int            `json:"calls"`
	Rounds map[string]int `json:"rounds"`
	Kinds  map[string]int `json:"kinds"`
	Errs   int            `json:"calls_returning_error"`
	Diffs  []c09Diff      `json:"diffs"`
	Sets   int            `json:"sets"`
}

func c09Worker(seed uint64, tier, out string) error {
	r := &Rng{s: seed*7919 + 13}
	nsets := 10
	if tier == "thorough" {
		nsets = 400
	}
	rep := c09Report{Rounds: map[string]int{}, Kinds: map[string]int{}}
	for si := 0; si < nsets; si++ {
		set := c09GenSet(r, si)
		rep.Sets++
		fsys := newConcFS()
		for k, v := range set.Files {
			fsys.Put(k, v, c09T0)
		}
		shared := c09SharedData()
		eng := c09NewEngine(fsys, shared)
		N := []int{2, 4, 8, 16}[si%4]
		for ri, round := range []string{"cold", "warm", "touched-while-rendering", "content-changed"} {
			if round == "content-changed" {
				// a component and a page change between rounds: every goroutine meets a stale cache at once
				fsys.Put("comp/item.vuego", strings.Replace(set.Files["comp/item.vuego"], "many", "lots", 1), c09T0.Add(time.Duration(1000+si)*time.Second))
				p := set.Pages[0]
				fsys.Put(p, strings.Replace(set.Files[p], "<h1>", "<h1>v2 ", 1), c09T0.Add(time.Duration(1000+si)*time.Second))
			}
			perG := make([][]c09Call, N)
			for g := 0; g < N; g++ {
				perG[g] = c09GenCalls(r, set, 5, (si*10+ri)*100+g)
			}
			got := make([][]c09Res, N)
			start := make(chan struct{})
			var wg sync.WaitGroup
			stop := make(chan struct{})
			var twg sync.WaitGroup
			if round == "touched-while-rendering" {
				twg.Add(1)
				go func() { // modification times move (contents unchanged) while renders run
					defer twg.Done()
					<-start
					for k := 1; ; k++ {
						select {
						case <-stop:
							return
						default:
						}
						for name := range set.Files {
							fsys.Touch(name, c09T0.Add(time.Duration(k)*time.Second))
						}
						time.Sleep(50 * time.Microsecond)
					}
				}()
			}
			for g := 0; g < N; g++ {
				wg.Add(1)
				go func(g int) {
					defer wg.Done()
					<-start
					for _, c := range perG[g] {
						got[g] = append(got[g], eng.do(c, shared))
					}
				}(g)
			}
			close(start)
			wg.Wait()
			close(stop)
			twg.Wait()
			// each call alone, on a fresh engine over the same files (after the concurrent round: the process-global
			// path cache must be cold when the goroutines meet it)
			alone := make([][]c09Res, N)
			for g := 0; g < N; g++ {
				for _, c := range perG[g] {
					fe := c09NewEngine(fsys.Clone(), c09SharedData())
					alone[g] = append(alone[g], fe.do(c, c09SharedData()))
				}
			}
			for g := 0; g < N; g++ {
				for i, c := range perG[g] {
					rep.Calls++
					rep.Rounds[round]++
					rep.Kinds[c.Kind]++
					if alone[g][i].Err != "" {
						rep.Errs++
					}
					if alone[g][i] != got[g][i] && len(rep.Diffs) < 40 {
						rep.Diffs = append(rep.Diffs, c09Diff{Set: set.Name, Round: round, N: N, Call: c, Alone: alone[g][i], Shared: got[g][i]})
					}
				}
			}
		}
	}
	// ---- a base template without file system and without data (vuego.New()), shared by all requests ----
	bare := vuego.New()
	for round := 0; round < 6; round++ {
		N := []int{2, 4, 8, 16, 8, 4}[round]
		type req struct {
			who string
			tpl string
		}
		mk := func(g, i int) req {
			who := fmt.Sprintf("u%d_%d_%d", round, g, i)
			return req{who: who, tpl: `<template :seen="who" :n="1 + 1"></template><p>hello {{ who }}</p><i>{{ who | upper }}</i><p>bye {{ seen }} {{ n }}</p><b v-for="x in xs">{{ x }}{{ who }}</b>`}
		}
		do := func(base vuego.Template, q req) (res c09Res) {
			defer func() {
				if x := recover(); x != nil {
					res = c09Res{Err: fmt.Sprintf("PANIC %v", x)}
				}
			}()
			var buf bytes.Buffer
			err := base.New().Assign("who", q.who).Assign("xs", []any{1, 2}).RenderString(context.Background(), &buf, q.tpl)
			res.Out = buf.String()
			if err != nil {
				res.Err = err.Error()
			}
			return res
		}
		got := make([][]c09Res, N)
		start := make(chan struct{})
		var wg sync.WaitGroup
		for g := 0; g < N; g++ {
			wg.Add(1)
			go func(g int) {
				defer wg.Done()
				<-start
				for i := 0; i < 5; i++ {
					got[g] = append(got[g], do(bare, mk(g, i)))
				}
			}(g)
		}
		close(start)
		wg.Wait()
		for g := 0; g < N; g++ {
			for i := 0; i < 5; i++ {
				q := mk(g, i)
				alone := do(vuego.New(), q)
				rep.Calls++
				rep.Rounds["bare-base"]++
				rep.Kinds["bare.New.Assign.RenderString"]++
				if alone != got[g][i] && len(rep.Diffs) < 40 {
					rep.Diffs = append(rep.Diffs, c09Diff{Set: "bare", Round: "bare-base", N: N, Call: c09Call{Kind: "bare.New.Assign.RenderString", Tpl: q.tpl, Idx: g*10 + i}, Alone: alone, Shared: got[g][i]})
				}
			}
		}
		// what the requests assigned must not be visible on the base afterwards
		var buf bytes.Buffer
		_ = bare.RenderString(context.Background(), &buf, `[{{ who }}{{ seen }}]`)
		rep.Calls++
		rep.Rounds["bare-base"]++
		rep.Kinds["bare.RenderString"]++
		if strings.TrimSpace(buf.String()) != "[]" && len(rep.Diffs) < 40 {
			rep.Diffs = append(rep.Diffs, c09Diff{Set: "bare", Round: "bare-base", N: N, Call: c09Call{Kind: "bare.RenderString", Tpl: "[{{ who }}{{ seen }}]"}, Alone: c09Res{Out: "[]"}, Shared: c09Res{Out: buf.String()}})
		}
	}
	b, _ := json.MarshalIndent(rep, "", " ")
	return os.WriteFile(filepath.Join(out, "conc.json"), b, 0o644)
}

// ---------- race log ----------
type c09Race struct {
	Site string
	Text string
}

var c09FrameRe = regexp.MustCompile(`^\s+(\S+)\(\)$`)

func c09ParseRaces(dir string) []c09Race {
	var races []c09Race
	files, _ := filepath.Glob(filepath.Join(dir, "race.*"))
	for _, f := range files {
		b, err := os.ReadFile(f)
		if err != nil {
			continue
		}
		for _, blk := range strings.Split(string(b), "==================") {
			if !strings.Contains(blk, "DATA RACE") {
				continue
			}
			// the first library frame of each of the two access stacks
			var sites []string
			for _, part := range regexp.MustCompile(`(?m)^(Read at|Write at|Previous read at|Previous write at|Atomic read at|Atomic write at|Previous atomic \w+ at)`).Split(blk, -1)[1:] {
				part = strings.SplitN(part, "\n\n", 2)[0]
				site := "?"
				for _, ln := range strings.Split(part, "\n") {
					if m := c09FrameRe.FindStringSubmatch(ln); m != nil && strings.Contains(m[1], "titpetric/vuego") {
						fn := m[1][strings.LastIndex(m[1], "/")+1:]
						site = fn
						break
					}
				}
				sites = append(sites, site)
			}
			sort.Strings(sites)
			if len(blk) > 3000 {
				blk = blk[:3000]
			}
			races = append(races, c09Race{Site: strings.Join(sites, " | "), Text: blk})
		}
	}
	return races
}

func init() { streams["C09"] = runC09 }

func runC09(r *Run) {
	r.Imports = []string{"Model.CacheConc"}
	r.Rule("(conc, built with -race) generated program sets (pages with front-matter, layouts, includes with slots and props, :required, v-once, v-for over includes, v-if chains, filters, custom functions, object :class) x one shared engine and one shared base template x N in {2,4,8,16} goroutines x rounds (cold cache, warm cache, modification times moving while renders run, contents changed between rounds) x 6 call kinds (Load.Fill.Render, New.Fill.RenderFile, Vue.Render, Vue.RenderFragment, RenderString with previously unseen expressions and dotted paths, RenderString on the shared base itself) with one read-only data map shared by all requests: " +
		"every call's bytes and error must equal those of the same call made alone on a fresh engine, and the race detector must report nothing; " +
		"(cache) sequential histories of lookups and file modifications drive the real template cache and Model/CacheConc.v: the version each lookup returns must agree")
	r.Assume("the Go race detector reports only races between accesses that were executed in this run; the lockset theorem covers every schedule of the modelled accesses")

	// ---- cache histories against Model/CacheConc.v ----
	nh := 150
	if r.Thorough() {
		nh = 6000
	}
	for h := 0; h < nh; h++ {
		c09History(r, h)
	}

	// ---- the concurrent worker ----
	if r.RaceBin == "" {
		r.Fail("the race-instrumented harness is not available", map[string]string{"oracle": "race-build"}, nil)
		return
	}
	cmd := exec.Command(r.RaceBin, "concworker", "C09", "-seed", fmt.Sprint(r.Seed), "-tier", r.Tier, "-out", r.Out)
	cmd.Env = append(os.Environ(), "GORACE=log_path="+filepath.Join(r.Out, "race")+" halt_on_error=0 exitcode=0")
	outb, err := cmd.CombinedOutput()
	if err != nil {
		r.Fail("the concurrent worker failed", map[string]string{"oracle": "worker"}, map[string]any{"err": err.Error(), "output": string(outb)})
		return
	}
	var rep c09Report
	b, _ := os.ReadFile(filepath.Join(r.Out, "conc.json"))
	if json.Unmarshal(b, &rep) != nil || rep.Calls == 0 {
		r.Fail("the concurrent worker reported nothing", map[string]string{"oracle": "worker"}, map[string]any{"output": string(outb)})
		return
	}
	for i := 0; i < rep.Calls; i++ {
		r.Eval(fmt.Sprintf("conc-call:%d", i), true, nil)
	}
	for k, v := range rep.Rounds {
		r.CountN("round:"+k, v)
	}
	for k, v := range rep.Kinds {
		r.CountN("call:"+k, v)
	}
	r.CountN("calls-returning-error", rep.Errs)
	r.CountN("program-sets", rep.Sets)
	for _, d := range rep.Diffs {
		r.Fail("a concurrent call returned other bytes or another error than the same call alone", map[string]string{"oracle": "cross-talk", "call": d.Call.Kind, "round": d.Round}, d)
	}
	seen := map[string]bool{}
	for _, rc := range c09ParseRaces(r.Out) {
		r.Count("race-reports")
		if seen[rc.Site] {
			continue
		}
		seen[rc.Site] = true
		r.Fail("the race detector reports a data race", map[string]string{"oracle": "race", "site": rc.Site}, map[string]any{"report": rc.Text, "replay": "vharness-race concworker C09 -seed " + fmt.Sprint(r.Seed) + " -tier " + r.Tier})
	}
}

// one sequential history: lookups of 2 files by 3 "threads" (complete lookups, in history order) and
// modifications in between; the page's text carries its version
func c09History(r *Run, h int) {
	rr := r.Rng
	fsys := newConcFS()
	ver := []int{0, 0}
	name := func(k int) string { return fmt.Sprintf("f%d.vuego", k) }
	put := func(k int) {
		fsys.Put(name(k), fmt.Sprintf("<p>K%dV%d</p>", k, ver[k]), c09T0.Add(time.Duration(ver[k]+1)*time.Second))
	}
	put(0)
	put(1)
	vue := vuego.NewVue(fsys)
	var evs []string
	var got []Obs
	nontrivial := false
	for i, n := 0, 3+rr.Intn(10); i < n; i++ {
		if rr.Intn(3) == 0 {
			k := rr.Intn(2)
			ver[k]++
			put(k)
			evs = append(evs, fmt.Sprintf("HTouch %d", k))
			nontrivial = true
			continue
		}
		t, k := rr.Intn(3), rr.Intn(2)
		var buf bytes.Buffer
		err := vue.Render(&buf, name(k), map[string]any{})
		o := strings.TrimSpace(buf.String())
		if err != nil {
			o = "ERR"
		}
		evs = append(evs, fmt.Sprintf("HLookup %d %d", t, k))
		got = append(got, A(o))
	}
	r.Case("cache", "["+strings.Join(evs, "; ")+"]", L(got...), map[string]any{"history": evs}, nil, nontrivial)
}
