package main

import (
	"bytes"
	"context"
	"encoding/json"
	"fmt"
	"html"
	"regexp"
	"sort"
	"strings"
	"testing/fstest"

	"github.com/titpetric/vuego"
)

// C05: components. Include trees over components/*.vuego with props of every form.

type c05Prop struct {
	name, kind      string // static interp bound
	text, pre, post string
	path            string
}
type c05Tpl struct {
	kind    string // print include tag
	id      int
	views   []c04View
	file    string
	tag     string
	props   []c05Prop
	cond    int    // include / tag: 0 unconditional, 1 v-if, 2 v-else, 3 v-else-if (conditions that hold)
	content string // include: static content handed to the component's slots
}
type c05Comp struct {
	file     string
	fm       []KV
	wrapper  bool
	required []string
	body     []*c05Tpl
	after    int // wrapper components: how many trailing body nodes are placed after the wrapper
}

func c05PropsCoq(ps []c05Prop) string {
	return coqList(ps, func(p c05Prop) string {
		switch p.kind {
		case "static":
			return fmt.Sprintf("(%s, PStatic %s)", coqBytes(p.name), coqBytes(p.text))
		case "interp":
			return fmt.Sprintf("(%s, PInterp %s %s %s)", coqBytes(p.name), coqBytes(p.pre), coqBytes(p.path), coqBytes(p.post))
		}
		return fmt.Sprintf("(%s, PBound %s)", coqBytes(p.name), coqBytes(p.path))
	})
}
func c05Coq(ts []*c05Tpl) string {
	if len(ts) == 0 {
		return "INil"
	}
	t, next := ts[0], c05Coq(ts[1:])
	switch t.kind {
	case "slotmark": // a <slot> of the component: it shows static content only, the model of props and scopes does not see it
		return next
	case "print":
		return fmt.Sprintf("(IPrint %d %s %s)", t.id, coqList(t.views, func(v c04View) string {
			return map[string]string{"text": "VText ", "attr": "VAttr "}[v.kind] + coqBytes(v.path)
		}), next)
	case "include":
		return fmt.Sprintf("(IInclude %s %s %s)", coqBytes(t.file), c05PropsCoq(t.props), next)
	}
	return fmt.Sprintf("(ITag %s %s %s)", coqBytes(t.tag), c05PropsCoq(t.props), next)
}
func c05Src(ts []*c05Tpl) string {
	var sb strings.Builder
	for _, t := range ts {
		if t.kind == "print" {
			sb.WriteString(c04Src([]*c04Tpl{{kind: "print", id: t.id, views: t.views}}))
			continue
		}
		if t.kind == "slotmark" {
			sb.WriteString(t.tag)
			continue
		}
		attrs := ""
		for _, p := range t.props {
			switch p.kind {
			case "static":
				attrs += fmt.Sprintf(` %s="%s"`, p.name, p.text)
			case "interp":
				attrs += fmt.Sprintf(` %s="%s{{ %s }}%s"`, p.name, p.pre, p.path, p.post)
			default:
				if (len(p.name)+len(p.path)+t.id)%3 == 0 { // the long spelling of a bound prop
					attrs += fmt.Sprintf(` v-bind:%s="%s"`, p.name, p.path)
				} else {
					attrs += fmt.Sprintf(` :%s="%s"`, p.name, p.path)
				}
			}
		}
		// an include chosen by a condition that holds is the same include
		switch t.cond {
		case 1:
			attrs += ` v-if="1 == 1"`
		case 2:
			sb.WriteString(`<p v-if="1 == 2">no</p>`)
			attrs += ` v-else`
		case 3:
			sb.WriteString(`<p v-if="1 == 2">no</p>`)
			attrs += ` v-else-if="2 == 2"`
		}
		if t.kind == "include" {
			fmt.Fprintf(&sb, `<template include="%s"%s>%s</template>`, t.file, attrs, t.content)
		} else {
			fmt.Fprintf(&sb, `<%s%s>%s</%s>`, t.tag, attrs, t.content, t.tag)
		}
	}
	return sb.String()
}

// how front-matter blocks are written in this case (0: plain LF)
var c05FenceStyle int

func (c c05Comp) Source() string {
	var sb strings.Builder
	if len(c.fm) > 0 {
		// the block as editors write it: LF or CRLF line ends, blanks after a fence
		nl, open, closing := "\n", "---\n", "---\n"
		switch (c05FenceStyle + len(c.file) + len(c.fm)) % 5 {
		case 1:
			nl, open, closing = "\r\n", "---\r\n", "---\r\n"
		case 2:
			open = "--- \n"
		case 3:
			closing = "---\t\n"
		}
		if c05FenceStyle == 0 {
			nl, open, closing = "\n", "---\n", "---\n"
		}
		sb.WriteString(open)
		for _, kv := range c.fm {
			switch kv.V.K {
			case "str":
				fmt.Fprintf(&sb, "%s: %q%s", kv.K, kv.V.S, nl)
			case "int":
				fmt.Fprintf(&sb, "%s: %d%s", kv.K, kv.V.I, nl)
			case "bool":
				fmt.Fprintf(&sb, "%s: %v%s", kv.K, kv.V.B, nl)
			case "nil":
				fmt.Fprintf(&sb, "%s: ~%s", kv.K, nl)
			}
		}
		sb.WriteString(closing)
	}
	if c.wrapper {
		req := ""
		if len(c.required) > 0 {
			// the list may be written under either spelling, with any spacing around the commas, and split over both
			// spellings on one tag (the only way to give two lists): all of it is one list, in source order
			h := 0
			for _, x := range c.required {
				h = h*31 + len(x) + int(x[0])
			}
			h += len(c.file) + len(c.body)
			sep := []string{", ", ",", " , ", ",  "}[h%4]
			a, b := ":required", ":require"
			if (h/4)%2 == 1 {
				a, b = b, a
			}
			k := len(c.required)
			if (h/8)%3 == 0 && len(c.required) >= 2 {
				k = 1 + (h/24)%(len(c.required)-1)
			}
			req = fmt.Sprintf(` %s="%s"`, a, strings.Join(c.required[:k], sep))
			if k < len(c.required) {
				req += fmt.Sprintf(` %s="%s"`, b, strings.Join(c.required[k:], sep))
			}
		}
		k := len(c.body) - c.after // the last [after] nodes of the body stand after the wrapper
		return sb.String() + "<template" + req + ">" + c05Src(c.body[:k]) + "</template>" + c05Src(c.body[k:])
	}
	return sb.String() + c05Src(c.body)
}
func (c c05Comp) Coq() string {
	fm := coqList(c.fm, func(kv KV) string { return "(" + coqBytes(kv.K) + ", " + kv.V.Coq() + ")" })
	return fmt.Sprintf("(%s, C %s %s %s %s)", coqBytes(c.file), fm, coqBool(c.wrapper), coqList(c.required, coqBytes), c05Coq(c.body))
}

var c05Tags = map[string]string{"components/Card.vuego": "card", "components/RowItem.vuego": "row-item", "components/ui/BadgeBox.vuego": "ui-badge-box"}
var c05ReqErr = regexp.MustCompile(`required attribute '([^']*)' not provided`)

type c05Gen struct {
	r      *Rng
	nextID int
	views  map[int][]c04View
}

var c05Names = []string{"a", "b", "c", "t", "xs", "m"}

func (g *c05Gen) print() *c05Tpl {
	g.nextID++
	t := &c05Tpl{kind: "print", id: g.nextID}
	for _, n := range c05Names {
		if g.r.Intn(3) == 0 {
			continue
		}
		switch n {
		case "xs":
			t.views = append(t.views, c04View{kind: "text", path: "xs.1"})
		case "m":
			t.views = append(t.views, c04View{kind: "text", path: "m.k"}, c04View{kind: "attr", path: "m.on"})
		default:
			t.views = append(t.views, c04View{kind: "text", path: n})
			if g.r.Bool() {
				t.views = append(t.views, c04View{kind: "attr", path: n})
			}
		}
	}
	if len(t.views) == 0 {
		t.views = []c04View{{kind: "text", path: "a"}}
	}
	g.views[t.id] = t.views
	return t
}
func (g *c05Gen) props() []c05Prop {
	var ps []c05Prop
	for _, n := range c05Names {
		switch g.r.Intn(6) {
		case 0:
			ps = append(ps, c05Prop{name: n, kind: "static", text: Pick(g.r, []string{"lit-" + n, "", "7", "x y"})})
		case 1:
			ps = append(ps, c05Prop{name: n, kind: "interp", pre: Pick(g.r, []string{"", "p-"}), path: Pick(g.r, []string{"a", "b", "n1", "zz", "m.k", "pad", "pad"}), post: Pick(g.r, []string{"", "-q"})})
		case 2, 3:
			ps = append(ps, c05Prop{name: n, kind: "bound", path: Pick(g.r, []string{"a", "b", "c", "pad", "n0", "n1", "flag", "off", "list", "obj", "zz", "obj.k", "list.0"})})
		}
	}
	return ps
}
func (g *c05Gen) body(depth int, files []string, allowTags bool) []*c05Tpl {
	var out []*c05Tpl
	if depth == 0 || len(files) == 0 || g.r.Intn(3) != 0 { // otherwise the body starts with an include
		out = append(out, g.print())
	}
	n := g.r.Intn(3)
	if len(out) == 0 {
		n = 1 + g.r.Intn(2)
	}
	for i := 0; i < n; i++ {
		if depth > 0 && len(files) > 0 {
			f := Pick(g.r, files)
			t := &c05Tpl{kind: "include", file: f, props: g.props()}
			if g.r.Intn(4) == 0 {
				t.props = nil // an include without any attribute
			}
			if allowTags && g.r.Intn(3) == 0 {
				t.kind, t.tag = "tag", c05Tags[f]
			}
			if g.r.Intn(4) == 0 {
				t.cond = 1 + g.r.Intn(3)
			}
			// static content handed to the component's slots: the props and variables of the component are the same
			// before and after a slot that shows it
			t.content = Pick(g.r, []string{"", "", "<b>content</b>", "text", `<template #foot><i>f</i></template><u>d</u>`, `<template v-slot:foot><i>f</i></template>`})
			out = append(out, t)
		}
		if g.r.Intn(3) == 0 {
			out = append(out, &c05Tpl{kind: "slotmark", tag: Pick(g.r, []string{"<slot></slot>", "<slot>fb</slot>", `<slot name="foot"></slot>`, `<slot name="foot">ff</slot><slot></slot>`, `<div><slot></slot></div>`})})
		}
		out = append(out, g.print())
	}
	return out
}

func init() { streams["C05"] = runC05 }

// where the front-matter block of a file ends: every text up to length 7 (thorough 9) over dash, line feed and a
// letter, and written-out blocks with carriage returns, blanks after the fences, dashes inside lines, several fences,
// no closing fence - the model's split against extractFrontMatter's (texts whose block is not valid YAML are
// counted, not compared: the parser is not modelled)
func c05FrontMatterSplit(r *Run) {
	var all []string
	maxLen := 7
	if r.Thorough() {
		maxLen = 9
	}
	var gen func(p string, n int)
	gen = func(p string, n int) {
		all = append(all, p)
		if n == 0 {
			return
		}
		for _, c := range []string{"-", "\n", "a"} {
			gen(p+c, n-1)
		}
	}
	gen("", maxLen)
	for _, open := range []string{"---\n", "---\r\n", "--- \n", "---", "----\n", "--- # c\n", " ---\n", "\n---\n"} {
		for _, block := range []string{"", "k: v\n", "k: A --- B\nl: z\n", "k: v\r\nl: w\r\n", "# --- c\n", "k: |\n  ---\n  x\n", "k: v"} {
			for _, closing := range []string{"---\n", "---", "---\r\n", "--- \n", "---\t\nx", "----\n", "", "--\n", "---\n---\n", "\n---\n"} {
				for _, body := range []string{"", "<p>b</p>", "\n<p>b</p>\n---\nmore", "---\n", "\r\n<p>b</p>"} {
					all = append(all, open+block+closing+body)
				}
			}
		}
	}
	for _, s := range all {
		has, rest, err := vuego.VerifExtractFrontMatter([]byte(s))
		if err != nil {
			r.Count("front-matter-split:invalid-yaml(not compared)")
			continue
		}
		r.Count("front-matter-split:" + map[bool]string{true: "block", false: "none"}[has])
		r.Case("split", "CSplit "+coqBytes(s), L(A(string(rest))), map[string]any{"file_text": s}, map[string]string{"stream": "front-matter-split"}, has || string(rest) != s)
	}
}

func runC05(r *Run) {
	r.Imports = []string{"Base.Val", "Model.Stack", "Model.Loops", "Model.Include"}
	r.Rule("include trees up to depth 3 over three component files (plain, with a <template :required> wrapper, with front-matter), each include giving every name as static / interpolated / bound attribute or not at all, " +
		"names colliding with includer variables and front-matter keys, bound values of every JSON-like type (string, int, bool, list, map, missing, falsy), the same component included several times, " +
		"shorthand tags registered by WithComponents (also nested in the content of one another, with v-once / v-for / v-if / bound attributes on the tag: the page written with shorthand tags and with <template include> must render the same bytes); probes inside every component and after every include; non-trivial: a name collides, a required name is missing, or a bound non-string value is passed")
	r.Assume("attribute values contain no HTML-special characters and do not start with '{' or '[' (JSON auto-decoding of static strings is documented behaviour, exercised by the repository's own fixtures); one attribute per name on an include tag")
	c05FrontMatterSplit(r)
	c05BoundJSONStrings(r)
	c16ShortLong(r) // pages of nested includes written as <template include> and as shorthand tags: same bytes
	rr := r.Rng
	n := 1500
	if r.Thorough() {
		n = 30000
	}
	files := []string{"components/Card.vuego", "components/RowItem.vuego", "components/ui/BadgeBox.vuego"}
	for c := 0; c < n; c++ {
		c05FenceStyle = c % 6
		g := &c05Gen{r: rr, views: map[int][]c04View{}}
		// components: BadgeBox is a leaf, RowItem may include BadgeBox, Card may include both
		mkFM := func() []KV {
			var fm []KV
			for _, k := range []string{"a", "t", "c"} {
				if rr.Intn(4) == 0 {
					fm = append(fm, KV{K: k, V: Pick(rr, []Val{VStr("fm-" + k), VInt("int", 5), VBool(true), VStr(""), VNil(), VNil()})}) // null: the key IS defined by the front-matter
				}
			}
			return fm
		}
		mkReq := func() (bool, []string) {
			if rr.Intn(2) == 0 {
				return false, nil
			}
			var req []string
			for _, k := range []string{"a", "t", "zz", "b"} {
				if rr.Intn(4) == 0 {
					req = append(req, k)
				}
			}
			return true, req
		}
		comps := []c05Comp{}
		w, rq := mkReq()
		comps = append(comps, c05Comp{file: files[2], fm: mkFM(), wrapper: w, required: rq, body: g.body(0, nil, false)})
		w, rq = mkReq()
		comps = append(comps, c05Comp{file: files[1], fm: mkFM(), wrapper: w, required: rq, body: g.body(1, files[2:], false)})
		w, rq = mkReq()
		comps = append(comps, c05Comp{file: files[0], fm: mkFM(), wrapper: w, required: rq, body: g.body(1, files[1:], false)})
		for i := range comps {
			if comps[i].wrapper && rr.Intn(3) == 0 {
				comps[i].after = rr.Intn(len(comps[i].body))
			}
		}
		extra := []string{}
		if rr.Intn(12) == 0 {
			extra = append(extra, "components/Missing.vuego")
		}
		page := g.body(1, append(append([]string{}, files...), extra...), true)
		for _, t := range page {
			if t.kind == "tag" && t.tag == "" { // the missing file has no tag
				t.kind = "include"
			}
		}
		data := VMap(KV{K: "a", V: VStr("outer-a")}, KV{K: "b", V: VStr("outer-b")}, KV{K: "n0", V: VInt("int", 0)}, KV{K: "n1", V: VInt("int", 1)},
			KV{K: "pad", V: VStr("  pad\t")}, KV{K: "flag", V: VBool(true)}, KV{K: "off", V: VBool(false)}, KV{K: "list", V: VList("", VStr("l0"), VStr("l1"))},
			KV{K: "obj", V: VMap(KV{K: "k", V: VStr("obj-k")}, KV{K: "on", V: VBool(true)})},
			KV{K: "m", V: VMap(KV{K: "k", V: VStr("outer-m-k")})}).Normalize()
		mfs := fstest.MapFS{}
		srcs := map[string]string{}
		for _, cp := range comps {
			mfs[cp.file] = &fstest.MapFile{Data: []byte(cp.Source())}
			srcs[cp.file] = cp.Source()
		}
		pageSrc := c05Src(page)
		var buf bytes.Buffer
		var err error
		func() {
			defer func() {
				if x := recover(); x != nil {
					err = fmt.Errorf("PANIC %v", x)
				}
			}()
			err = vuego.NewFS(mfs, vuego.WithComponents()).Fill(data.Go()).RenderString(context.Background(), &buf, pageSrc)
		}()
		var obs Obs
		switch {
		case err == nil:
			obs = L(append([]Obs{A("ok")}, c04Project(buf.String(), g.views)...)...)
		case c05ReqErr.MatchString(err.Error()):
			obs = L(A("err"), A("required"), A(c05ReqErr.FindStringSubmatch(err.Error())[1]))
		case strings.Contains(err.Error(), "error loading"):
			obs = L(A("err"), A("missing"), A("components/Missing.vuego"))
		default:
			obs = L(A("err"), A("other"), A(err.Error()))
		}
		r.Count("outcome:" + *obs.List[0].Atom + map[bool]string{true: ":" + func() string {
			if len(obs.List) > 1 && obs.List[0].Show() == "'err'" {
				return *obs.List[1].Atom
			}
			return ""
		}(), false: ""}[err != nil])
		sort.Slice(comps, func(i, j int) bool { return comps[i].file < comps[j].file })
		coq := fmt.Sprintf("CTree {| c_world := %s; c_data := %s; c_page := %s |}", coqList(comps, c05Comp.Coq), data.Coq(), c05Coq(page))
		nontrivial := strings.Contains(pageSrc, "include=") || strings.Contains(pageSrc, "<card") || strings.Contains(pageSrc, "<row-item") || strings.Contains(pageSrc, "<ui-badge-box")
		srcs["(page)"] = pageSrc
		r.Case("includes", coq, obs, map[string]any{"files": srcs}, map[string]string{}, nontrivial)
	}
	c05LoopLeak(r)
	c05PropsInReusedContent(r)
	c05JSONLooking(r)
}

// includes inside loops: what an include is given lives in the component instance only; after the loop
// neither the loop variable nor any prop name is bound in the includer, and an includer variable of the
// same name is what it was (direct oracle: the expectation is written down, not modelled)
func c05LoopLeak(r *Run) {
	files := map[string]string{
		"row.vuego":    `<i data-row="1">{{ item }}{{ item.name }}{{ label }}{{ title }}</i>`,
		"needs.vuego":  `<template :required="item"><b>needs:{{ item }}</b></template>`,
		"needsl.vuego": `<template :required="label"><b>needs:{{ label }}</b></template>`,
	}
	loops := []string{
		`<template v-for="item in items"><template include="row.vuego" PROPS></template></template>`,
		`<template v-for="item in items" include="row.vuego" PROPS></template>`,
		`<ul><li v-for="item in items"><template include="row.vuego" PROPS></template></li></ul>`,
		`<div v-for="(i, item) in items"><p><template include="row.vuego" PROPS></template></p></div>`,
		`<template v-for="g in groups"><template v-for="item in g"><template include="row.vuego" PROPS></template></template></template>`,
		// the include is the chosen branch of a condition inside the loop
		`<ul><li v-for="item in items"><template include="row.vuego" v-if="1 == 1" PROPS></template></li></ul>`,
		`<div v-for="item in items"><p v-if="1 == 2">no</p><template include="row.vuego" v-else PROPS></template></div>`,
		`<template v-for="item in items"><p v-if="1 == 2">no</p><template include="row.vuego" v-else-if="item" PROPS></template></template>`,
	}
	propSets := []string{`:item="item"`, `:item="item" :label="item.name"`, `:label="item.name" :title="item.name"`, `item="{{ item.name }}" :label="item"`, `:title="item.name"`}
	for li, loop := range loops {
		for pi, props := range propSets {
			body := strings.ReplaceAll(loop, "PROPS", props)
			probe := `<u data-after="1">[{{ item }}|{{ item.name }}|{{ label }}|{{ title }}]</u>`
			m := fstest.MapFS{}
			for k, v := range files {
				m[k] = &fstest.MapFile{Data: []byte(v)}
			}
			data := map[string]any{"title": "T", "items": []any{map[string]any{"name": "one"}, map[string]any{"name": "two"}},
				"groups": []any{[]any{map[string]any{"name": "one"}}, []any{map[string]any{"name": "two"}}}}
			render := func(src string) (string, error) {
				var buf bytes.Buffer
				var err error
				func() {
					defer func() {
						if x := recover(); x != nil {
							err = fmt.Errorf("PANIC %v", x)
						}
					}()
					err = vuego.NewFS(m).Fill(data).RenderString(context.Background(), &buf, src)
				}()
				return buf.String(), err
			}
			desc := map[string]any{"template": body + probe, "files": files}
			sig := map[string]string{"oracle": "loop-include-no-leak", "loop": fmt.Sprint(li), "props": fmt.Sprint(pi)}
			r.Eval(fmt.Sprintf("loopleak:%d:%d", li, pi), true, nil)
			r.Count("stream:loop-include-no-leak(oracle only)")
			out, err := render(body + probe)
			if err != nil {
				r.Fail("a loop of includes fails to render", sig, map[string]any{"case": desc, "err": err.Error()})
				continue
			}
			flat := strings.Join(strings.Fields(out), "")
			if !strings.Contains(flat, "[|||T]") {
				r.Fail("a name given to an include inside a loop is bound in the includer after the loop", sig, map[string]any{"case": desc, "output": out, "expected_probe": "[|||T]"})
			}
			for _, need := range []string{"needs.vuego", "needsl.vuego"} {
				_, err2 := render(body + `<template include="` + need + `"></template>`)
				if err2 == nil || !c05ReqErr.MatchString(err2.Error()) {
					sig2 := map[string]string{"oracle": "loop-include-no-leak", "loop": fmt.Sprint(li), "props": fmt.Sprint(pi), "what": "required"}
					r.Fail("a component that requires a name is satisfied by a name given to an earlier include inside a loop", sig2, map[string]any{"case": desc, "then": need, "err": fmt.Sprint(err2)})
				}
			}
		}
	}
}

// a bound prop keeps its type: a string that happens to be a complete JSON document stays that string, also when the tag
// gives the same name literally as well (a default overridden by a binding)
func c05BoundJSONStrings(r *Run) {
	m := fstest.MapFS{"item.vuego": &fstest.MapFile{Data: []byte(`<i data-p="1">[{{ title | type }}|{{ title }}]</i>`)}}
	for _, v := range []string{`{"id": 7}`, `[1,2]`, `{}`, `[]`, `{"a":{"b":[1]}}`, `["x"]`} {
		for _, f := range []struct{ name, tpl string }{
			{"bound", `<template include="item.vuego" :title="v"></template>`},
			{"long-bound", `<template include="item.vuego" v-bind:title="v"></template>`},
			{"literal-then-bound", `<template include="item.vuego" title="{}" :title="v"></template>`},
			{"bound-then-literal", `<template include="item.vuego" :title="v" title="[]"></template>`},
			{"literal-then-long-bound", `<template include="item.vuego" title="plain" v-bind:title="v"></template>`},
			{"in-loop", `<p v-for="x in one"><template include="item.vuego" title="{}" :title="v"></template></p>`},
			{"conditional", `<template include="item.vuego" v-if="1 == 1" title="{}" :title="v"></template>`},
		} {
			var buf bytes.Buffer
			err := vuego.NewFS(m).Fill(map[string]any{"v": v, "one": []any{1}}).RenderString(context.Background(), &buf, f.tpl)
			got := ""
			if mm := c05PropProbe.FindStringSubmatch(buf.String()); mm != nil {
				got = html.UnescapeString(mm[1])
			}
			r.Eval("bound-json-string:"+f.name+":"+v, true, nil)
			r.Count("stream:bound-json-string(oracle only)")
			if want := "string|" + v; err != nil || got != want {
				r.Fail("a bound string prop that spells a JSON document does not reach the component as that string", map[string]string{"oracle": "bound-json-string", "form": f.name},
					map[string]any{"template": f.tpl, "value": v, "received": got, "expected": want, "err": fmt.Sprint(err)})
			}
		}
	}
}

var c05PropProbe = regexp.MustCompile(`(?s)<i data-p="1">\[(.*?)\]</i>`)

// c05JSONLooking: a string prop that is not a complete JSON document reaches the component as that string,
// however much of it looks like JSON (the documented decoding applies to complete JSON arrays and objects only).
func c05JSONLooking(r *Run) {
	vals := []string{"[1] Introduction", "[2024] Annual report", "{} is an empty object", `{"a":1} and more`, "[1,2] [3]", "[] x", "[1]]", `{"k":"v"}}`,
		"[abc", "{x}", "[", "{", "[1,", "[tag] title", "{{", "[[1]] 2", "[true]false", `["a"] "b"`, "[1] ", " [1] x"}
	m := fstest.MapFS{"item.vuego": &fstest.MapFile{Data: []byte(`<i data-p="1">[{{ title }}]</i>`)}}
	forms := []struct{ name, tpl string }{
		{"static", `<template include="item.vuego" title="%s"></template>`},
		{"interpolated", `<template include="item.vuego" title="{{ v }}"></template>`},
		{"interpolated-prefix", `<template include="item.vuego" title="{{ pre }}{{ rest }}"></template>`},
		{"bound", `<template include="item.vuego" :title="v"></template>`},
		{"in-loop", `<p v-for="x in one"><template include="item.vuego" :title="v"></template></p>`},
	}
	for _, v := range vals {
		var probe any
		if json.Unmarshal([]byte(v), &probe) == nil {
			continue // a complete JSON document: decoded, as documented
		}
		for _, f := range forms {
			src := f.tpl
			if f.name == "static" {
				src = fmt.Sprintf(f.tpl, html.EscapeString(v))
			}
			cut := len(v) / 2
			data := map[string]any{"v": v, "pre": v[:cut], "rest": v[cut:], "one": []any{1}}
			var buf bytes.Buffer
			var err error
			func() {
				defer func() {
					if x := recover(); x != nil {
						err = fmt.Errorf("PANIC %v", x)
					}
				}()
				err = vuego.NewFS(m).Fill(data).RenderString(context.Background(), &buf, src)
			}()
			r.Eval("jsonlooking:"+f.name+":"+v, true, nil)
			r.Count("stream:json-looking-prop(oracle only)")
			sig := map[string]string{"oracle": "json-looking-prop", "form": f.name}
			got := ""
			if mm := c05PropProbe.FindStringSubmatch(buf.String()); mm != nil {
				got = html.UnescapeString(mm[1])
			}
			if err != nil || strings.TrimSpace(got) != strings.TrimSpace(v) {
				r.Fail("a string prop that is not a JSON document does not reach the component as that string", sig,
					map[string]any{"template": src, "component": `<i data-p="1">[{{ title }}]</i>`, "value": v, "received": got, "output": buf.String(), "err": fmt.Sprint(err)})
			}
		}
	}
}

// an include written inside content that a component shows more than once (a slot inside a loop, two slots of one
// name, a slot used in header and footer): EVERY use passes the component exactly the props of that use - the value
// of that moment, with its type - whichever form the prop is written in
func c05PropsInReusedContent(r *Run) {
	comps := map[string]string{
		"list.vuego":  `<ul><li v-for="item in items"><slot :item="item">none</slot></li></ul>`,
		"twice.vuego": `<header><slot :item="first">none</slot></header><footer><slot :item="second">none</slot></footer>`,
		"row.vuego":   `<span data-row="1">{{ row.name }}={{ row.n }}</span><em v-if="row.n > 1">big</em><u>{{ label }}</u>`,
		"cell.vuego":  `<b data-cell="1">{{ item }}</b>`,
	}
	data := map[string]any{"items": []any{map[string]any{"name": "a", "n": 1}, map[string]any{"name": "b", "n": 2}, map[string]any{"name": "c", "n": 3}},
		"first": map[string]any{"name": "f", "n": 5}, "second": map[string]any{"name": "s", "n": 0}, "words": []any{"x", "y", "z"}}
	cases := []struct{ name, page, want string }{
		{"bound-prop-in-loop-slot", `<template include="list.vuego" :items="items"><template v-slot="p"><template include="row.vuego" :row="p.item" label="L"></template></template></template>`,
			`<ul><li><spandata-row="1">a=1</span><u>L</u></li><li><spandata-row="1">b=2</span><em>big</em><u>L</u></li><li><spandata-row="1">c=3</span><em>big</em><u>L</u></li></ul>`},
		{"interpolated-prop-in-loop-slot", `<template include="list.vuego" :items="items"><template v-slot="p"><template include="row.vuego" :row="p.item" label="l-{{ p.item.name }}"></template></template></template>`,
			`<ul><li><spandata-row="1">a=1</span><u>l-a</u></li><li><spandata-row="1">b=2</span><em>big</em><u>l-b</u></li><li><spandata-row="1">c=3</span><em>big</em><u>l-c</u></li></ul>`},
		{"v-bind-prop-in-loop-slot", `<template include="list.vuego" :items="words"><template v-slot="{ item }"><template include="cell.vuego" v-bind:item="item"></template></template></template>`,
			`<ul><li><bdata-cell="1">x</b></li><li><bdata-cell="1">y</b></li><li><bdata-cell="1">z</b></li></ul>`},
		{"bound-prop-in-slot-used-twice", `<template include="twice.vuego" :first="first" :second="second"><template v-slot="p"><template include="row.vuego" :row="p.item" label="T"></template></template></template>`,
			`<header><spandata-row="1">f=5</span><em>big</em><u>T</u></header><footer><spandata-row="1">s=0</span><u>T</u></footer>`},
		{"shorthand-tag-in-loop-slot", `<template include="list.vuego" :items="items"><template v-slot="p"><row-c :row="p.item" label="S"></row-c></template></template>`,
			`<ul><li><spandata-row="1">a=1</span><u>S</u></li><li><spandata-row="1">b=2</span><em>big</em><u>S</u></li><li><spandata-row="1">c=3</span><em>big</em><u>S</u></li></ul>`},
	}
	for _, c := range cases {
		for _, entry := range []string{"render", "load"} {
			m := fstest.MapFS{"page.vuego": &fstest.MapFile{Data: []byte(c.page)}}
			for k, v := range comps {
				m[k] = &fstest.MapFile{Data: []byte(v)}
			}
			m["components/RowC.vuego"] = &fstest.MapFile{Data: []byte(comps["row.vuego"])}
			var buf bytes.Buffer
			var err error
			func() {
				defer func() {
					if x := recover(); x != nil {
						err = fmt.Errorf("PANIC %v", x)
					}
				}()
				opts := []vuego.LoadOption{vuego.WithComponents()}
				if entry == "render" {
					err = vuego.NewFS(m, opts...).Fill(data).RenderString(context.Background(), &buf, c.page)
				} else {
					err = vuego.NewFS(m, opts...).Fill(data).Load("page.vuego").Render(context.Background(), &buf)
				}
			}()
			got := strings.Join(strings.Fields(buf.String()), "")
			r.Eval("props-in-reused-content:"+c.name+":"+entry, true, nil)
			r.Count("stream:props-in-reused-content(oracle only)")
			if err != nil || got != c.want {
				r.Fail("an include inside content that is shown more than once does not receive the props of that use", map[string]string{"oracle": "props-in-reused-content", "case": c.name, "entry": entry},
					map[string]any{"page": c.page, "components": comps, "output": buf.String(), "expected_without_whitespace": c.want, "err": fmt.Sprint(err)})
			}
		}
	}
}
