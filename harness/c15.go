package main

import (
	"bytes"
	"context"
	"fmt"
	"io/fs"
	"regexp"
	"strings"
	"testing/fstest"
	"time"

	"github.com/titpetric/vuego"
)

// C15: long-lived engine vs fresh engine over histories of edits and renders.

type countFS struct {
	m     fstest.MapFS
	reads map[string]int
}

func (c *countFS) Open(name string) (fs.File, error) { c.reads[name]++; return c.m.Open(name) }
func (c *countFS) ReadFile(name string) ([]byte, error) {
	c.reads[name]++
	return c.m.ReadFile(name)
}
func (c *countFS) Stat(name string) (fs.FileInfo, error) { return c.m.Stat(name) }

var c15Toggles = toggleElems("odd", "v", "v", "none")

var c15Files = []string{"page.vuego", "comp.vuego", "layouts/lay.vuego"}

// in the default-layout scenario the page names no layout and file 2 is layouts/base.vuego
func c15Name(f int, defaultScenario bool) string {
	if f == 2 && defaultScenario {
		return "layouts/base.vuego"
	}
	return c15Files[f]
}

// a version numbered 1000*k + b differs from version b of the same file in its front-matter only: the bytes after the
// front-matter block are those of version b (an edit that touches nothing but the front-matter)
func c15Body(cid int) int { return cid % 1000 }

func c15Content(f, cid int, valid, layoutScenario bool) string {
	if !valid {
		return "---\nv: [unclosed\n---\n<p>broken" + fmt.Sprint(cid) + "</p>"
	}
	switch f {
	case 0:
		fm := fmt.Sprintf("---\nv: %d\nodd: %v\nst: early%d\n", cid, cid%2 == 1, cid)
		if cid%2 == 0 { // a key only every other version has: when it is gone from the file it is gone from the render
			fm += fmt.Sprintf("extra: x%d\n", cid)
		}
		// a key whose type changes from version to version (text, number, absent) and that conditions read
		switch cid % 3 {
		case 0:
			fm += "status: draft\n"
		case 1:
			fm += fmt.Sprintf("status: %d\n", cid)
		}
		if layoutScenario {
			fm += "layout: lay\n"
		}
		// elements whose evaluation writes attributes, driven by a front-matter value that changes from version to version
		body := fmt.Sprintf("<p>P%d v={{ v }}</p><template include=\"comp.vuego\"></template><small>x={{ extra }};</small><em v-if=\"status != 'draft'\">published</em><em v-else>draft</em><em v-show=\"status == 1\">one</em><b :data-s=\"status != nil ? 'set' : 'unset'\">s</b>", c15Body(cid)) + c15Toggles +
			// a variable of the front-matter is read, then assigned at the page's root scope: the assignment belongs to this render only
			`<u>{{ st }}</u><template st="late" :v2="v"></template><u>{{ st }}</u>`
		if layoutScenario { // a named slot handed to the layout: its nodes must not be shared with the cache
			body += fmt.Sprintf("<template #side><em>S%d</em></template>", c15Body(cid))
		}
		return fm + "---\n" + body
	case 1:
		return fmt.Sprintf("<i>C%d</i>", cid)
	default:
		return fmt.Sprintf("<main><b>L%d</b><aside><slot name=\"side\"></slot><hr></aside><div v-html=\"content\"></div></main>", cid) + c15Toggles
	}
}

type c15Op struct {
	kind  string // edit delete render
	f     int
	cid   int
	valid bool
	t     int
	entry string // VueRender VueFragment TplPlain TplLayout (+ alias RenderFile)
}

func (o c15Op) Coq() string {
	switch o.kind {
	case "edit":
		return fmt.Sprintf("HEdit %d %d %s %d", o.f, o.cid, coqBool(o.valid), o.t)
	case "delete":
		return fmt.Sprintf("HDelete %d", o.f)
	}
	e := o.entry
	if e == "RenderFile" {
		e = "TplPlain"
	}
	if e == "RenderFileDefault" {
		e = "TplDefault"
	}
	if e == "RenderFileLayout" {
		e = "TplLayout"
	}
	return "HRender " + e
}
func (o c15Op) Desc() string {
	switch o.kind {
	case "edit":
		return fmt.Sprintf("edit %s := version %d (valid=%v) mtime=%d", c15Files[o.f], o.cid, o.valid, o.t)
	case "delete":
		return "delete " + c15Files[o.f]
	}
	return "render via " + o.entry
}

var c15P = regexp.MustCompile(`P(\d+) v=(\d*)`)
var c15C = regexp.MustCompile(`C(\d+)`)
var c15X = regexp.MustCompile(`x=([^;]*);`)
var c15L = regexp.MustCompile(`L(\d+)`)

func c15Render(cfs fs.FS, vue *vuego.Vue, tpl vuego.Template, entry string) (out string, err error, pan string) {
	defer func() {
		if x := recover(); x != nil {
			pan = fmt.Sprint(x)
		}
	}()
	var buf bytes.Buffer
	switch entry {
	case "VueRender":
		err = vue.Render(&buf, "page.vuego", map[string]any{})
	case "VueFragment":
		err = vue.RenderFragment(&buf, "page.vuego", map[string]any{})
	case "TplPlain", "TplLayout", "TplDefault":
		err = tpl.Load("page.vuego").Render(context.Background(), &buf)
	case "RenderFile", "RenderFileLayout", "RenderFileDefault":
		err = tpl.RenderFile(context.Background(), &buf, "page.vuego")
	}
	return buf.String(), err, ""
}

func c15Project(out string, err error, reads map[string]int) Obs {
	rd := L(N(reads["page.vuego"]), N(reads["comp.vuego"]), N(reads["layouts/lay.vuego"]+reads["layouts/base.vuego"]))
	if err != nil {
		return L(A("err"), rd)
	}
	mark := func(re *regexp.Regexp, both bool) Obs {
		m := re.FindStringSubmatch(out)
		if m == nil {
			return A("-")
		}
		if both { // the page: the version is the one its front-matter names, and the body must be that version's body
			var v int
			fmt.Sscan(m[2], &v)
			if m[2] == "" || fmt.Sprint(c15Body(v)) != m[1] {
				return A(m[1] + "/v" + m[2])
			}
			wantX := ""
			if v%2 == 0 {
				wantX = fmt.Sprintf("x%d", v)
			}
			if x := c15X.FindStringSubmatch(out); x == nil || x[1] != wantX {
				// outside the freshness guard (zero or repeated modification times) Load may read a newer version's
				// front matter than the cache serves: a key of a NEWER version showing through is that mix, not a leftover
				var k int
				if x != nil && v%2 == 1 {
					if _, err := fmt.Sscanf(x[1], "x%d", &k); err == nil && k%1000 > v%1000 {
						return A(m[2])
					}
				}
				return A(m[2] + "/extra=" + fmt.Sprint(x))
			}
			return A(m[2])
		}
		return A(m[1])
	}
	return L(A("ok"), mark(c15P, true), mark(c15C, false), mark(c15L, false), rd)
}

// which file a layout name means depends on the files that exist now: a layout beside the page wins over layouts/, and
// comes and goes with that file - a long-lived engine follows, render by render, what a new engine would do
func c15LayoutResolution(r *Run) {
	type step struct {
		what string
		do   func(m fstest.MapFS, t time.Time)
	}
	put := func(name, text string) func(m fstest.MapFS, t time.Time) {
		return func(m fstest.MapFS, t time.Time) { m[name] = &fstest.MapFile{Data: []byte(text), ModTime: t} }
	}
	del := func(name string) func(m fstest.MapFS, t time.Time) {
		return func(m fstest.MapFS, t time.Time) { delete(m, name) }
	}
	steps := []step{
		{"initial files", func(m fstest.MapFS, t time.Time) {
			put("pages/p.vuego", "---\nlayout: post\n---\n<p>page</p>")(m, t)
			put("docs/d.vuego", "---\nlayout: post\n---\n<p>doc</p>")(m, t)
			put("layouts/post.vuego", `<main class="global" v-html="content"></main>`)(m, t)
		}},
		{"create pages/post.vuego", put("pages/post.vuego", `<main class="local-1" v-html="content"></main>`)},
		{"edit pages/post.vuego", put("pages/post.vuego", `<main class="local-2" v-html="content"></main>`)},
		{"create docs/post.vuego", put("docs/post.vuego", `<main class="docs-local" v-html="content"></main>`)},
		{"delete pages/post.vuego", del("pages/post.vuego")},
		{"edit layouts/post.vuego", put("layouts/post.vuego", `<main class="global-2" v-html="content"></main>`)},
		{"delete docs/post.vuego", del("docs/post.vuego")},
		{"create pages/post.vuego again", put("pages/post.vuego", `<main class="local-3" v-html="content"></main>`)},
	}
	for _, entry := range []string{"Load.Render", "RenderFile"} {
		m := fstest.MapFS{}
		long := vuego.NewFS(m)
		var hist []string
		for i, st := range steps {
			st.do(m, time.Unix(200000+int64(i)*10, 0))
			hist = append(hist, st.what)
			for _, page := range []string{"pages/p.vuego", "docs/d.vuego"} {
				render := func(t vuego.Template) string {
					var buf bytes.Buffer
					var err error
					if entry == "RenderFile" {
						err = t.New().RenderFile(context.Background(), &buf, page)
					} else {
						err = t.New().Load(page).Render(context.Background(), &buf)
					}
					return strings.Join(strings.Fields(buf.String()), "") + "|err=" + fmt.Sprint(err)
				}
				got, want := render(long), render(vuego.NewFS(m))
				r.Eval(fmt.Sprintf("layout-resolution:%s:%d:%s", entry, i, page), i > 0, nil)
				r.Count("stream:layout-resolution(oracle only)")
				if got != want {
					r.Fail("a long-lived engine resolves a layout name differently from a new engine over the same files", map[string]string{"oracle": "layout-resolution", "entry": entry},
						map[string]any{"history": append([]string{}, hist...), "page": page, "long_lived": got, "new_engine": want})
				}
			}
		}
	}
}

// a page that fails in the middle of a text (output already produced for it), then is repaired: the long-lived engine
// renders the repaired page like a new engine does - nothing of the failed render is left anywhere
func c15FailedThenRepaired(r *Run) {
	good := func(i int) string {
		return fmt.Sprintf("<p>Hello {{ name }} v%d!</p><p title=\"t {{ name }}\">x</p>", i)
	}
	bad := `<p>DRAFT for {{ name }} total {{ name | noSuchFilter }}</p><p title="T {{ name }} {{ name | nosuch2 }}">y</p>`
	for _, entry := range []string{"VueRender", "Load.Render"} {
		m := fstest.MapFS{}
		vue, tpl := vuego.NewVue(m), vuego.NewFS(m)
		render := func(v *vuego.Vue, t vuego.Template) string {
			var buf bytes.Buffer
			var err error
			if entry == "VueRender" {
				err = v.Render(&buf, "page.vuego", map[string]any{"name": "World"})
			} else {
				err = t.New().Fill(map[string]any{"name": "World"}).Load("page.vuego").Render(context.Background(), &buf)
			}
			return strings.Join(strings.Fields(buf.String()), "") + "|failed=" + fmt.Sprint(err != nil)
		}
		for i := 0; i < 6; i++ {
			src := good(i)
			if i%2 == 1 {
				src = bad
			}
			m["page.vuego"] = &fstest.MapFile{Data: []byte(src), ModTime: time.Unix(300000+int64(i)*10, 0)}
			got, want := render(vue, tpl), render(vuego.NewVue(m), vuego.NewFS(m))
			r.Eval(fmt.Sprintf("failed-then-repaired:%s:%d", entry, i), i > 0, nil)
			r.Count("stream:failed-then-repaired(oracle only)")
			if got != want {
				r.Fail("after a failed render the long-lived engine renders the page differently from a new engine", map[string]string{"oracle": "failed-then-repaired", "entry": entry},
					map[string]any{"step": i, "page": src, "long_lived": got, "new_engine": want})
			}
		}
	}
}

func init() { streams["C15"] = runC15 }

func runC15(r *Run) {
	c15LayoutResolution(r)
	c15FailedThenRepaired(r)
	c15SameFileOtherData(r)
	r.Imports = []string{"Model.Cache"}
	r.Rule("histories of {edit page/component/layout with a new version and an mtime that advances, stays equal, goes backwards or is zero; delete; recreate; make invalid (bad front-matter); " +
		"render via Vue.Render, Vue.RenderFragment, Load().Render, RenderFile, with a named layout, without any, and with the default layouts/base.vuego being created, edited and deleted between renders} on one long-lived engine over an in-memory FS; " +
		"after every render the output is compared with a newly created engine (oracle, on histories inside the freshness guard) and with the model's prediction of loaded versions and file reads; " +
		"non-trivial: at least one edit or delete between two renders")
	r.Assume("freshness is claimed (oracle) only for histories in which every file carries a non-zero mtime and no edit re-uses the mtime the cache remembers; outside that guard only the model comparison applies")
	nhist := 700
	maxLen := 7
	if r.Thorough() {
		nhist = 30000
		maxLen = 10
	}
	rr := r.Rng
	// scripted histories first: one file edited three times with every pattern of modification times over {none, early,
	// late} - forwards, backwards, equal to the one the cache remembers, back to it after a detour - and a render
	// after every edit, for each entry point and each cached file
	type c15Script struct {
		engine      int
		layout, def bool
		ops         []c15Op
	}
	var scripts []c15Script
	for _, sc := range []c15Script{{engine: 0}, {engine: 1}, {engine: 1, layout: true}, {engine: 1, def: true}} {
		nf := 2
		if sc.layout || sc.def {
			nf = 3
		}
		entry := map[bool]string{true: "TplLayout", false: map[int]string{0: "VueRender", 1: "TplPlain"}[sc.engine]}[sc.layout]
		if sc.def {
			entry = "TplDefault"
		}
		for f := 0; f < nf; f++ {
			for pat := 0; pat < 27; pat++ {
				ts := []int{[]int{0, 5, 10}[pat%3], []int{0, 5, 10}[pat/3%3], []int{0, 5, 10}[pat/9]}
				if !r.Thorough() && (ts[0] == 0 || pat%2 == 1 && f == 1) {
					continue // quick tier: the first version carries a time, every other pattern for the component
				}
				var ops []c15Op
				id := 0
				for g := 0; g < nf; g++ {
					if g != f {
						id++
						ops = append(ops, c15Op{kind: "edit", f: g, cid: id, valid: true, t: 7})
					}
				}
				for _, t := range ts {
					id++
					ops = append(ops, c15Op{kind: "edit", f: f, cid: id, valid: true, t: t}, c15Op{kind: "render", entry: entry})
				}
				x := sc
				x.ops = ops
				scripts = append(scripts, x)
			}
		}
	}
	r.extra["scripted_mtime_histories"] = len(scripts)
	for h := 0; h < nhist+len(scripts); h++ {
		engine := rr.Intn(2) // 0 = Vue, 1 = Template
		layoutScenario := engine == 1 && rr.Bool()
		// the page names no layout and layouts/base.vuego comes and goes: the default layout applies exactly while it exists
		defaultScenario := engine == 1 && !layoutScenario && rr.Bool()
		if h < len(scripts) {
			engine, layoutScenario, defaultScenario = scripts[h].engine, scripts[h].layout, scripts[h].def
		}
		guardedHist := rr.Intn(10) < 7
		cfs := &countFS{m: fstest.MapFS{}, reads: map[string]int{}}
		vue := vuego.NewVue(cfs)
		tpl := vuego.NewFS(cfs)
		var ops []c15Op
		cid := 0
		clock := 10
		lastT := map[int]int{}
		inGuard := true
		lastCid := map[int]int{}
		edit := func(f int, valid bool) c15Op {
			cid++
			id := cid
			if f == 0 && valid && lastCid[0] != 0 && lastCid[0] < 3000 && rr.Intn(3) == 0 { // only the page's front-matter changes
				id = lastCid[0] + 1000
			}
			if valid {
				lastCid[f] = id
			} else {
				lastCid[f] = 0
			}
			var t int
			switch {
			case guardedHist || rr.Intn(10) < 5:
				clock += 1 + rr.Intn(3)
				t = clock
			case rr.Intn(3) == 0:
				t = 0
			case rr.Intn(2) == 0 && lastT[f] != 0:
				t = lastT[f] // equal mtime
			default:
				t = 1 + rr.Intn(clock) // possibly backwards, possibly equal to a remembered one
			}
			lastT[f] = t
			return c15Op{kind: "edit", f: f, cid: id, valid: valid, t: t}
		}
		// initial files
		ops = append(ops, edit(0, true), edit(1, true))
		if layoutScenario || (defaultScenario && rr.Bool()) {
			ops = append(ops, edit(2, true))
		}
		n := 3 + rr.Intn(maxLen-2)
		for i := 0; i < n; i++ {
			nf := 2
			if layoutScenario || defaultScenario {
				nf = 3
			}
			switch x := rr.Intn(10); {
			case x < 4:
				var e string
				if engine == 0 {
					e = Pick(rr, []string{"VueRender", "VueRender", "VueFragment"})
				} else if layoutScenario {
					e = Pick(rr, []string{"TplLayout", "RenderFileLayout"})
				} else if defaultScenario {
					e = Pick(rr, []string{"TplDefault", "RenderFileDefault"})
				} else {
					e = Pick(rr, []string{"TplPlain", "RenderFile"})
				}
				ops = append(ops, c15Op{kind: "render", entry: e})
			case x < 7:
				ops = append(ops, edit(rr.Intn(nf), true))
			case x < 8:
				ops = append(ops, edit(rr.Intn(nf), false))
			default:
				ops = append(ops, c15Op{kind: "delete", f: rr.Intn(nf)})
			}
		}
		lastEntry := map[bool]string{true: "TplLayout", false: map[int]string{0: "VueRender", 1: "TplPlain"}[engine]}[layoutScenario]
		if defaultScenario {
			lastEntry = "TplDefault"
		}
		ops = append(ops, c15Op{kind: "render", entry: lastEntry})
		if h < len(scripts) {
			ops = scripts[h].ops
		}
		// run
		var obs []Obs
		remembered := map[int]int{} // mtime the cache may remember per file (over-approximation: every mtime ever rendered with)
		seenT := map[int]map[int]bool{0: {}, 1: {}, 2: {}}
		editsSinceRender := false
		nontrivial := false
		renders := 0
		for _, o := range ops {
			switch o.kind {
			case "edit":
				if o.t == 0 || seenT[o.f][o.t] {
					inGuard = false
				}
				seenT[o.f][o.t] = true
				mt := time.Time{}
				if o.t != 0 {
					// distinct model times are distinct instants 300 ms apart: several of them fall into the same second
					mt = time.Unix(100000, 0).Add(time.Duration(o.t) * 300 * time.Millisecond)
				}
				cfs.m[c15Name(o.f, defaultScenario)] = &fstest.MapFile{Data: []byte(c15Content(o.f, o.cid, o.valid, layoutScenario)), ModTime: mt}
				editsSinceRender = true
			case "delete":
				delete(cfs.m, c15Name(o.f, defaultScenario))
				editsSinceRender = true
			case "render":
				if editsSinceRender && renders > 0 {
					nontrivial = true
				}
				editsSinceRender = false
				renders++
				cfs.reads = map[string]int{}
				out, err, pan := c15Render(cfs, vue, tpl, o.entry)
				if pan != "" {
					r.Fail("panic escapes a render", map[string]string{"oracle": "panic"}, map[string]any{"history": descC15(ops), "panic": pan})
				}
				reads := cfs.reads
				obs = append(obs, c15Project(out, err, reads))
				// oracle: a newly created engine on the same files
				ffs := &countFS{m: cfs.m, reads: map[string]int{}}
				fout, ferr, _ := c15Render(ffs, vuego.NewVue(ffs), vuego.NewFS(ffs), o.entry)
				r.Count("render:" + o.entry)
				if inGuard {
					r.Count("oracle:in-guard")
					if out != fout || (err == nil) != (ferr == nil) {
						r.Fail("long-lived engine renders differently from a newly created engine", map[string]string{"oracle": "fresh-engine", "entry": o.entry},
							map[string]any{"history": descC15(ops), "long_lived": out, "long_lived_err": fmt.Sprint(err), "fresh": fout, "fresh_err": fmt.Sprint(ferr)})
					}
				} else {
					r.Count("oracle:outside-guard(model only)")
				}
			}
		}
		_ = remembered
		r.Count(fmt.Sprintf("engine:%d layout:%v default-layout:%v", engine, layoutScenario, defaultScenario))
		coq := "{| c_ops := " + coqList(ops, c15Op.Coq) + " |}"
		tags := map[string]string{"guarded": fmt.Sprint(inGuard)}
		r.Case("cache-history", coq, L(obs...), map[string]any{"history": descC15(ops), "layout_scenario": layoutScenario, "default_layout_scenario": defaultScenario}, tags, nontrivial)
	}
}

func descC15(ops []c15Op) []string {
	var s []string
	for _, o := range ops {
		s = append(s, o.Desc())
	}
	return s
}

var _ = strings.Join

// a page (and its layout) left alone, rendered again and again with data that flips what its elements show: elements
// that carry static attributes next to v-show / v-text / v-html / :class / :style render from the file, not from what
// an earlier render made of them
func c15SameFileOtherData(r *Run) {
	page := "---\nlayout: frame\n---\n" + `<p style="color:red" v-show="visible" v-text="note">old</p><div class="k" :class="{on: visible}" style="margin:0" :style="{opacity: level}" v-html="html"></div>` +
		`<ul><li v-for="it in items" style="x:y" v-show="it.on" v-text="it.name"></li></ul><input value="v" :disabled="!visible" v-show="visible">`
	frame := `<aside style="float:right" v-show="sidebar" v-html="sidebar"></aside><main v-html="content"></main>`
	datas := []map[string]any{
		{"visible": false, "level": 0, "items": []any{map[string]any{"on": false, "name": "a"}}},
		{"visible": true, "note": "n", "html": "<b>h</b>", "level": 0.5, "sidebar": "<i>s</i>", "items": []any{map[string]any{"on": true, "name": "b"}, map[string]any{"on": false, "name": "c"}}},
		{"visible": false, "note": "m", "sidebar": "", "items": []any{map[string]any{"on": true, "name": "d"}}},
		{"visible": true, "level": 1, "items": []any{}},
	}
	for _, entry := range []string{"VueRender", "Load.Render"} {
		m := fstest.MapFS{"page.vuego": &fstest.MapFile{Data: []byte(page), ModTime: time.Unix(400000, 0)}, "layouts/frame.vuego": &fstest.MapFile{Data: []byte(frame), ModTime: time.Unix(400000, 0)}}
		vue, tpl := vuego.NewVue(m), vuego.NewFS(m)
		render := func(v *vuego.Vue, t vuego.Template, d map[string]any) string {
			var buf bytes.Buffer
			var err error
			if entry == "VueRender" {
				err = v.Render(&buf, "page.vuego", d)
			} else {
				err = t.New().Fill(d).Load("page.vuego").Render(context.Background(), &buf)
			}
			return strings.Join(strings.Fields(buf.String()), "") + "|failed=" + fmt.Sprint(err != nil)
		}
		for round := 0; round < 2; round++ {
			for i, d := range datas {
				got, want := render(vue, tpl, d), render(vuego.NewVue(m), vuego.NewFS(m), d)
				r.Eval(fmt.Sprintf("same-file-other-data:%s:%d:%d", entry, round, i), round+i > 0, nil)
				r.Count("stream:same-file-other-data(oracle only)")
				if got != want {
					r.Fail("a file left alone renders differently on a long-lived engine after it was rendered with other data", map[string]string{"oracle": "same-file-other-data", "entry": entry},
						map[string]any{"round": round, "data": fmt.Sprint(d), "page": page, "layout": frame, "long_lived": got, "new_engine": want})
				}
			}
		}
	}
}
