(* GENERATED from /repo by `vharness sites C12` on every run — do not edit *)
From V Require Import Base.Bytes Model.Entry.
Definition sites : list site := [
  ((sb "layout"), false, [UCopyReturned]);
  ((sb "Render"), true, [UDelegate (sb "layout"); UDelegate (sb "layout"); UDelegate (sb "renderWithoutLayout")]);
  ((sb "renderWithoutLayout"), false, [UCopyReturned]);
  ((sb "RenderFile"), true, [UDelegate (sb "Render")]);
  ((sb "RenderString"), true, [UDelegate (sb "RenderByte")]);
  ((sb "RenderByte"), true, [UDelegate (sb "RenderReader")]);
  ((sb "RenderReader"), true, [UCopyReturned])
].
