(* GENERATED from /repo by `vharness sites C12` on every run — do not edit *)
From V Require Import Base.Bytes Model.Entry.
Definition sites : list site := [
  ((sb "layout"), false, [UCopyReturned]);
  ((sb "Render"), true, [UDelegate (sb "layout"); UDelegate (sb "layout"); UOther (sb "t.vue.Render(w, t.filename, t.stack.EnvMap())"); UDelegate (sb "renderWithoutLayout"); UOther (sb "mention of w outside a call argument")]);
  ((sb "renderWithoutLayout"), false, [UCopyReturned]);
  ((sb "RenderFile"), true, [UDelegate (sb "Render")]);
  ((sb "RenderString"), true, [UDelegate (sb "RenderByte")]);
  ((sb "RenderByte"), true, [UDelegate (sb "RenderReader")]);
  ((sb "RenderReader"), true, [UCopyReturned])
].
