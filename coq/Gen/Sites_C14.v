(* GENERATED from /repo by `vharness sites C14` on every run — do not edit *)
From V Require Import Base.Bytes.
Definition ignore_list : list bytes := [(sb "v-if"); (sb "v-keep"); (sb "v-else-if"); (sb "v-else"); (sb "v-for"); (sb "v-pre"); (sb "v-html"); (sb "v-text"); (sb "v-show"); (sb "v-once"); (sb "v-once-id"); (sb "data-v-html-content"); (sb "data-v-text-content")].
Definition read_directives : list bytes := [(sb "v-else"); (sb "v-else-if"); (sb "v-for"); (sb "v-html"); (sb "v-if"); (sb "v-keep"); (sb "v-once"); (sb "v-once-id"); (sb "v-pre"); (sb "v-show"); (sb "v-text")].
