(* GENERATED from /repo by `vharness sites C10` on every run — do not edit *)
From V Require Import Base.Bytes Model.MapOrder.
Definition nondet_calls : list (bytes * bytes) := [

].
Definition map_ranges : list range_site := [
  ((sb "eval_include.go"), (sb "evalInclude"), (sb "ctx.SlotScope.Slots"), RMerge);
  ((sb "eval_include.go"), (sb "evalInclude"), (sb "frontMatter"), RMerge);
  ((sb "eval_include.go"), (sb "evalInclude"), (sb "inheritedSlotScope.Slots"), RMerge);
  ((sb "eval_slot.go"), (sb "evalSuppliedSlot"), (sb "slotProps"), RMerge);
  ((sb "eval_template.go"), (sb "evalTemplate"), (sb "vars"), RMerge);
  ((sb "overlay_fs.go"), (sb "Glob"), (sb "matchMap"), RSorted);
  ((sb "overlay_fs.go"), (sb "ReadDir"), (sb "merged"), RSorted);
  ((sb "stack.go"), (sb "EnvMap"), (sb "s.stack[i]"), RMerge);
  ((sb "stack.go"), (sb "GetMap"), (sb "t"), RMerge);
  ((sb "stack.go"), (sb "Pop"), (sb "topMap"), RMerge);
  ((sb "template.go"), (sb "Fill"), (sb "passedData"), RMerge);
  ((sb "template.go"), (sb "Fill"), (sb "t.frontMatter"), RMerge);
  ((sb "template.go"), (sb "Fill"), (sb "t.vue.initialData"), RMerge);
  ((sb "template.go"), (sb "Load"), (sb "tpl.frontMatter"), RMerge);
  ((sb "template.go"), (sb "loadConfig"), (sb "data"), RMerge);
  ((sb "vue.go"), (sb "Funcs"), (sb "funcMap"), RMerge);
  ((sb "vue.go"), (sb "mergeFrontMatter"), (sb "data"), RMerge);
  ((sb "vue.go"), (sb "mergeFrontMatter"), (sb "frontMatter"), RMerge)
].
Definition reflect_iters : list (bytes * bytes * bytes * bool) := [
  ((sb "reflect.go"), (sb "PopulateStructFields"), (sb "MapRange"), false);
  ((sb "stack.go"), (sb "ForEach"), (sb "MapKeys"), true)
].
