(* GENERATED from /repo by `vharness sites C19` on every run — do not edit *)
From Coq Require Import List.
Import ListNotations.
From V Require Import Base.Bytes.
Definition voids : list bytes := [(sb "area"); (sb "base"); (sb "br"); (sb "col"); (sb "embed"); (sb "hr"); (sb "img"); (sb "input"); (sb "link"); (sb "meta"); (sb "param"); (sb "source"); (sb "track"); (sb "wbr")].
Definition inlines : list bytes := [(sb "a"); (sb "abbr"); (sb "b"); (sb "bdi"); (sb "bdo"); (sb "br"); (sb "button"); (sb "cite"); (sb "code"); (sb "data"); (sb "dfn"); (sb "em"); (sb "i"); (sb "kbd"); (sb "label"); (sb "mark"); (sb "q"); (sb "s"); (sb "samp"); (sb "small"); (sb "span"); (sb "strong"); (sb "sub"); (sb "sup"); (sb "time"); (sb "u"); (sb "var"); (sb "wbr")].
Definition phrasings : list bytes := [(sb "p"); (sb "h1"); (sb "h2"); (sb "h3"); (sb "h4"); (sb "h5"); (sb "h6"); (sb "td"); (sb "th"); (sb "dt"); (sb "dd"); (sb "caption"); (sb "figcaption"); (sb "summary"); (sb "legend")].
