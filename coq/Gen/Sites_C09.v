(* GENERATED from /repo by `vharness sites C09` on every run — do not edit *)
From Coq Require Import List.
Import ListNotations.
From V Require Import Base.Bytes Model.Conc.
Inductive wclass := WGuarded | WFresh | WOnce | WOther.
Definition roots_found : nat := 14.
Definition reachable_functions : nat := 147.
Definition functions_total : nat := 209.
Definition shared_types : list bytes := [(sb "vuego.ExprEvaluator"); (sb "vuego.Loader"); (sb "vuego.Vue"); (sb "vuego.templateCacheEntry")].
Definition lock_names : list (nat * bytes) := [
  (0, (sb "ExprEvaluator.mu"));
  (1, (sb "Vue.templateMu"));
  (2, (sb "pathCache"))
].
Definition loc_table : list (nat * bytes * nat) := [
  (0, (sb "ExprEvaluator.programs"), 0);
  (1, (sb "Vue.templateCache"), 1);
  (2, (sb "pathCache.m"), 2)
].
Definition paths : list (bytes * bytes * list action) := [
  ((sb "expr_evaluator.go"), (sb "ClearCache"), [Acq 0 true; Wr 0; Rel 0 true]);
  ((sb "expr_evaluator.go"), (sb "getProgram"), [Acq 0 false; Rd 0; Rel 0 false]);
  ((sb "expr_evaluator.go"), (sb "getProgram"), [Acq 0 false; Rd 0; Rel 0 false; Acq 0 true; Wr 0; Rel 0 true]);
  ((sb "vue.go"), (sb "loadCachedWithFrontMatter"), [Acq 1 false; Rd 1; Rel 1 false]);
  ((sb "vue.go"), (sb "loadCachedWithFrontMatter"), [Acq 1 false; Rd 1; Rel 1 false; Acq 1 true; Wr 1; Rel 1 true]);
  ((sb "stack.go"), (sb "getCachedPath"), [Acq 2 false; Rd 2; Rel 2 false]);
  ((sb "stack.go"), (sb "getCachedPath"), [Acq 2 false; Rd 2; Rel 2 false; Acq 2 true; Rd 2; Wr 2; Rel 2 true]);
  ((sb "stack.go"), (sb "getCachedPath"), [Acq 2 false; Rd 2; Rel 2 false; Acq 2 true; Rd 2; Rel 2 true])
].
Definition shared_writes : list (bytes * bytes * bytes * wclass) := [
  ((sb "expr_evaluator.go"), (sb "getProgram"), (sb "e.programs[expression]"), WGuarded);
  ((sb "node.go"), (sb "GetBodyNode"), (sb "bodyNodeCache"), WOnce);
  ((sb "stack.go"), (sb "getCachedPath"), (sb "pathCache.m[expr]"), WGuarded);
  ((sb "vue.go"), (sb "loadCachedWithFrontMatter"), (sb "v.templateCache[filename]"), WGuarded)
].
Definition global_calls : list (bytes * bytes * bytes * bytes) := [
  ((sb "funcmap.go"), (sb "classifySegment"), (sb "filterRe.FindStringSubmatch"), (sb "*regexp.Regexp"));
  ((sb "funcmap.go"), (sb "parsePipeExpr"), (sb "filterRe.FindStringSubmatch"), (sb "*regexp.Regexp"));
  ((sb "interpolate.go"), (sb "interpolate"), (sb "bufferPool.Get"), (sb "sync.Pool"));
  ((sb "interpolate.go"), (sb "interpolate"), (sb "bufferPool.Put"), (sb "sync.Pool"));
  ((sb "node.go"), (sb "GetBodyNode"), (sb "bodyNodeOnce.Do"), (sb "sync.Once"));
  ((sb "node.go"), (sb "NewNode"), (sb "nodePool.Get"), (sb "*sync.Pool"));
  ((sb "parser.go"), (sb "ParseTemplateBytes"), (sb "htmlEndTag.Match"), (sb "*regexp.Regexp"));
  ((sb "stack.go"), (sb "Pop"), (sb "mapPool.Put"), (sb "sync.Pool"));
  ((sb "stack.go"), (sb "Push"), (sb "mapPool.Get"), (sb "sync.Pool"));
  ((sb "stack.go"), (sb "getCachedPath"), (sb "pathCache.Lock"), (sb "*struct{sync.RWMutex; m map[string][]string}"));
  ((sb "stack.go"), (sb "getCachedPath"), (sb "pathCache.RLock"), (sb "*struct{sync.RWMutex; m map[string][]string}"));
  ((sb "stack.go"), (sb "getCachedPath"), (sb "pathCache.RUnlock"), (sb "*struct{sync.RWMutex; m map[string][]string}"));
  ((sb "stack.go"), (sb "getCachedPath"), (sb "pathCache.Unlock"), (sb "*struct{sync.RWMutex; m map[string][]string}"))
].
