(* GENERATED from /repo by `vharness sites C07` on every run — do not edit *)
Definition max_depth : nat := 100.
Definition max_depth_sites : nat := 1.
