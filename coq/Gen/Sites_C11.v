(* GENERATED from /repo by `vharness sites C11` on every run — do not edit *)
From Coq Require Import List.
Import ListNotations.
From V Require Import Base.Bytes.
Inductive aclass := APool | ASoleImpl | AOther.
Definition max_include_depth : nat := 100.
Definition include_guard : bytes := (sb "len(ctx.TemplateStack) > maxIncludeDepth").
Definition slot_chain_test : bytes := (sb "expanding = expanding || name == slotName").
Definition slot_chain_cond : bytes := (sb "slotContent != nil && !expanding").
Definition slot_chain_push : bytes := (sb "ctx.inheritedSlots = append(ctx.inheritedSlots[:len(ctx.inheritedSlots):len(ctx.").
Definition unchecked_assertions : list (bytes * bytes * bytes * aclass) := [
  ((sb "interpolate.go"), (sb "interpolate"), (sb "bufferPool.Get().(*strings.Builder)"), APool);
  ((sb "node.go"), (sb "NewNode"), (sb "nodePool.Get().(*html.Node)"), APool);
  ((sb "stack.go"), (sb "Push"), (sb "mapPool.Get().(map[string]any)"), APool);
  ((sb "template_layout.go"), (sb "layout"), (sb "tplInterface.(*template)"), ASoleImpl)
].
Definition reflect_field_reads : list (bytes * bytes * bytes * bool) := [
  ((sb "reflect.go"), (sb "PopulateStructFields"), (sb "rv.Field(i)"), true);
  ((sb "reflect.go"), (sb "PopulateStructFields"), (sb "rv.Field(i)"), true);
  ((sb "reflect.go"), (sb "populatePromotedFields"), (sb "ev.Field(i)"), true);
  ((sb "reflect.go"), (sb "populatePromotedFields"), (sb "ev.Field(i)"), true);
  ((sb "reflect.go"), (sb "resolveStruct"), (sb "rv.FieldByIndex(f.Index)"), true);
  ((sb "reflect.go"), (sb "structToMap"), (sb "rv.Field(i)"), true)
].
Definition recover_sites : list (bytes * bytes) := [
  ((sb "funcmap.go"), (sb "callFunc"))
].
