(* The universe of Go values a template can see. *)
From V Require Import Base.Bytes Base.Obs.

Inductive ikind := KInt | KInt8 | KInt16 | KInt32 | KInt64 | KUint | KUint8 | KUint16 | KUint32 | KUint64.
Definition ikind_name (k : ikind) : bytes :=
  match k with
  | KInt => bs "int" | KInt8 => bs "int8" | KInt16 => bs "int16" | KInt32 => bs "int32" | KInt64 => bs "int64"
  | KUint => bs "uint" | KUint8 => bs "uint8" | KUint16 => bs "uint16" | KUint32 => bs "uint32" | KUint64 => bs "uint64"
  end.

(* struct field: Go name, json tag text (empty = no tag), exported, value *)
Inductive val :=
| VNil                                   (* nil interface / untyped nil *)
| VBool (b : bool)
| VInt (k : ikind) (z : Z)
| VFloat (wide : bool) (zero : bool) (shown : bytes)   (* never computed with: fmt.Sprint supplied *)
| VStr (s : bytes)
| VList (l : list val)                   (* slice *)
| VArr (l : list val)                    (* array *)
| VMap (m : list (bytes * val))          (* map[string]any, unique keys *)
| VMapS (m : list (bytes * bytes))       (* map[string]string *)
| VMapI (m : list (Z * val))             (* map[int]T: a map whose key type is not string *)
| VStruct (fs : list (bytes * bytes * bool * val))
| VPtr (o : option val).                 (* typed pointer; None = typed nil pointer *)

Definition f_name (f : bytes * bytes * bool * val) := fst (fst (fst f)).
Definition f_tag (f : bytes * bytes * bool * val) := snd (fst (fst f)).
Definition f_exported (f : bytes * bytes * bool * val) := snd (fst f).
Definition f_val (f : bytes * bytes * bool * val) := snd f.

(* size, used as a measure / for induction over nested lists *)
Fixpoint vsize (v : val) : nat :=
  match v with
  | VList l | VArr l => S (fold_right (fun x n => vsize x + n) 0 l)
  | VMap m => S (fold_right (fun x n => vsize (snd x) + n) 0 m)
  | VMapI m => S (fold_right (fun x n => vsize (snd x) + n) 0 m)
  | VStruct fs => S (fold_right (fun x n => vsize (snd x) + n) 0 fs)
  | VPtr (Some x) => S (vsize x)
  | _ => 1
  end.

(* a json tag's name: the part before the first comma *)
Fixpoint upto_comma (s : bytes) : bytes :=
  match s with [] => [] | c :: r => if beq c x2c then [] else c :: upto_comma r end.
Definition tag_name (tag : bytes) : bytes := upto_comma tag.

Fixpoint assocb {A} (k : bytes) (l : list (bytes * A)) : option A :=
  match l with
  | [] => None
  | (k', v) :: r => if bytes_eqb k' k then Some v else assocb k r
  end.

Fixpoint ins_kv {A} (kv : bytes * A) (l : list (bytes * A)) : list (bytes * A) :=
  match l with
  | [] => [kv]
  | x :: r => if bytes_leb (fst kv) (fst x) then kv :: l else x :: ins_kv kv r
  end.
Definition sort_kv {A} (l : list (bytes * A)) : list (bytes * A) := fold_right ins_kv [] l.
Fixpoint ins_zv {A} (kv : Z * A) (l : list (Z * A)) : list (Z * A) :=
  match l with
  | [] => [kv]
  | x :: r => if Z.leb (fst kv) (fst x) then kv :: l else x :: ins_zv kv r
  end.
Definition sort_zv {A} (l : list (Z * A)) : list (Z * A) := fold_right ins_zv [] l.

(* canonical observation of a value (mirrored by the harness' reflection printer) *)
Fixpoint obs_of_val (v : val) : obs :=
  match v with
  | VNil => OL [OS "nil"]
  | VBool b => OL [OS "bool"; OB b]
  | VInt k z => OL [OA (ikind_name k); OA (dec_Z z)]
  | VFloat w z s => OL [OS (if w then "float64" else "float32"); OA s]
  | VStr s => OL [OS "str"; OA s]
  | VList l => OL (OS "list" :: map obs_of_val l)
  | VArr l => OL (OS "arr" :: map obs_of_val l)
  | VMap m => OL (OS "map" :: map (fun kv => OL [OA (fst kv); snd kv])
                                  (sort_kv (map (fun kv => (fst kv, obs_of_val (snd kv))) m)))
  | VMapS m => OL (OS "maps" :: map (fun kv => OL [OA (fst kv); OA (snd kv)]) (sort_kv m))
  | VMapI m => OL (OS "mapi" :: map (fun kv => OL [OA (dec_Z (fst kv)); snd kv])
                                   (sort_zv (map (fun kv => (fst kv, obs_of_val (snd kv))) m)))
  | VStruct fs => OL (OS "struct" :: map (fun f => OL [OA (f_name f); obs_of_val (snd f)]) fs)
  | VPtr None => OL [OS "ptr"; OS "nil"]
  | VPtr (Some x) => OL [OS "ptr"; obs_of_val x]
  end.
Definition obs_opt (o : option val) : obs :=
  match o with Some v => OL [OS "some"; obs_of_val v] | None => OL [OS "none"] end.

(* fmt.Sprint on the deterministic part of the universe (no pointers below the top level) *)
Definition join (sep : bytes) (l : list bytes) : bytes :=
  match l with [] => [] | x :: r => x ++ flat_map (fun y => sep ++ y) r end.
Fixpoint sprint (v : val) : bytes :=
  match v with
  | VNil => bs "<nil>"
  | VBool b => if b then bs "true" else bs "false"
  | VInt _ z => dec_Z z
  | VFloat _ _ s => s
  | VStr s => s
  | VList l | VArr l => x5b :: join [x20] (map sprint l) ++ [x5d]
  | VMap m => bs "map[" ++ join [x20] (map (fun kv => fst kv ++ x3a :: sprint (snd kv)) m) ++ [x5d]
  | VMapS m => bs "map[" ++ join [x20] (map (fun kv => fst kv ++ x3a :: snd kv) m) ++ [x5d]
  | VMapI m => bs "map[" ++ join [x20] (map (fun kv => dec_Z (fst kv) ++ x3a :: sprint (snd kv)) m) ++ [x5d]
  | VStruct fs => x7b :: join [x20] (map (fun f => sprint (snd f)) fs) ++ [x7d]
  | VPtr None => bs "<nil>"
  | VPtr (Some x) => x26 :: sprint x
  end.

(* fmt prints a non-nil pointer below the top level as an address: such values have no
   deterministic string form and are excluded from printed observations *)
Fixpoint has_live_ptr (v : val) : bool :=
  match v with
  | VPtr (Some _) => true
  | VList l | VArr l => existsb has_live_ptr l
  | VMap m => existsb (fun kv => has_live_ptr (snd kv)) m
  | VMapI m => existsb (fun kv => has_live_ptr (snd kv)) m
  | VStruct fs => existsb (fun f => has_live_ptr (snd f)) fs
  | _ => false
  end.
Definition printable_val (v : val) : bool :=
  match v with VPtr (Some x) => negb (has_live_ptr x) | _ => negb (has_live_ptr v) end.
