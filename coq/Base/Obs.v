(* Observations: what a correspondence stream compares.  The Go harness builds
   the same tree from the implementation's behaviour; [obs_eqb] compares. *)
From V Require Import Base.Bytes.
Inductive obs := OA (s : bytes) | OL (l : list obs).
Fixpoint obs_eqb (a b : obs) {struct a} : bool :=
  match a, b with
  | OA s, OA t => bytes_eqb s t
  | OL l, OL m =>
      (fix go (l m : list obs) : bool :=
         match l, m with
         | [], [] => true
         | x :: l', y :: m' => obs_eqb x y && go l' m'
         | _, _ => false
         end) l m
  | _, _ => false
  end.
Definition OS (s : string) : obs := OA (bs s).
Definition ON (n : nat) : obs := OA (dec_nat n).
Definition OB (b : bool) : obs := OA (if b then bs "t" else bs "f").

(* one-line printer for mismatch reports: atoms in hex *)
Definition hexd (n : N) : byte :=
  match Byte.of_N (if N.ltb n 10 then 48 + n else 87 + n) with Some b => b | None => x3f end.
Definition hex_byte (c : byte) : bytes := [hexd (bN c / 16); hexd (bN c mod 16)].
Definition printable (c : byte) : bool :=
  N.leb 32 (bN c) && N.ltb (bN c) 127 && negb (beq c x22) && negb (beq c x5c) && negb (beq c x28) && negb (beq c x29).
Definition show_atom (s : bytes) : bytes :=
  x27 :: flat_map (fun c => if printable c then [c] else x5c :: hex_byte c) s ++ [x27].
Fixpoint show_obs (o : obs) : bytes :=
  match o with
  | OA s => show_atom s
  | OL l => x28 :: (fix go (l : list obs) : bytes :=
                      match l with [] => [] | x :: r => show_obs x ++ x20 :: go r end) l ++ [x29]
  end.
Definition show (o : obs) : string := string_of_list_byte (show_obs o).

(* generic mismatch computation used by every stream's Run file *)
Section Mismatch.
  Context {case : Type} (run : case -> obs).
  (* the expected observation arrives printed ([show_obs] format, mirrored by the harness) *)
  Fixpoint mismatches_from (i : nat) (cs : list (case * bytes)) : list (nat * string) :=
    match cs with
    | [] => []
    | (c, exp) :: r =>
        let got := show_obs (run c) in
        if bytes_eqb got exp then mismatches_from (S i) r
        else (i, string_of_list_byte got) :: mismatches_from (S i) r
    end.
  Definition mismatches := mismatches_from 0.
End Mismatch.
