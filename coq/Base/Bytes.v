(* Byte strings: Go strings are byte sequences.  Style rule: no [match] on byte
   constructors anywhere; bytes are tested with [beq] only. *)
From Coq Require Export Strings.Byte Strings.String Bool Lia NArith ZArith List.
Export ListNotations.
Definition bytes := list byte.
Definition bs (s : string) : bytes := list_byte_of_string s.
(* compact literals for generated case files: the parsed term is a plain list of
   byte constructors (a [string] literal is ten times larger) *)
Inductive bstr := BS (l : list byte).
Definition unBS (x : bstr) : bytes := match x with BS l => l end.
Declare Scope bstr_scope. Delimit Scope bstr_scope with bstr.
String Notation bstr BS unBS : bstr_scope.
Definition sb (s : bstr) : bytes := unBS s.
Arguments sb s%bstr.
Definition beq (a b : byte) : bool := Byte.eqb a b.
Lemma beq_spec a b : reflect (a = b) (beq a b).
Proof. unfold beq. destruct (Byte.eqb a b) eqn:E; constructor.
 - apply Byte.byte_dec_bl. exact E.
 - intro H. apply Byte.byte_dec_lb in H. congruence. Qed.
Arguments beq : simpl never.
Lemma beq_false a b : a <> b -> beq a b = false.
Proof. intro H. destruct (beq_spec a b); congruence. Qed.
Lemma beq_refl a : beq a a = true.
Proof. destruct (beq_spec a a); congruence. Qed.
Lemma beq_true a b : beq a b = true -> a = b.
Proof. destruct (beq_spec a b); congruence. Qed.
Ltac bcase c b := destruct (beq_spec c b); [subst c|].

Fixpoint bytes_eqb (a b : bytes) : bool :=
  match a, b with
  | [], [] => true
  | x :: a', y :: b' => beq x y && bytes_eqb a' b'
  | _, _ => false
  end.
Lemma bytes_eqb_spec a b : reflect (a = b) (bytes_eqb a b).
Proof.
  revert b; induction a as [|x a IH]; intros [|y b]; cbn; try (constructor; congruence).
  destruct (beq_spec x y); cbn; [|constructor; congruence].
  destruct (IH b); constructor; congruence.
Qed.
Lemma bytes_eqb_refl a : bytes_eqb a a = true.
Proof. destruct (bytes_eqb_spec a a); congruence. Qed.
Lemma bytes_eqb_eq a b : bytes_eqb a b = true <-> a = b.
Proof. destruct (bytes_eqb_spec a b); split; congruence. Qed.
Lemma bytes_eqb_neq a b : bytes_eqb a b = false <-> a <> b.
Proof. destruct (bytes_eqb_spec a b); split; congruence. Qed.

(* Go's [<] on strings: bytewise lexicographic *)
Definition bN (c : byte) : N := Byte.to_N c.
Lemma bN_inj a b : bN a = bN b -> a = b.
Proof.
  unfold bN. intro H.
  assert (Byte.of_N (Byte.to_N a) = Byte.of_N (Byte.to_N b)) as E by congruence.
  rewrite !Byte.of_to_N in E. congruence.
Qed.
Fixpoint bytes_leb (a b : bytes) : bool :=
  match a, b with
  | [], _ => true
  | _ :: _, [] => false
  | x :: a', y :: b' => if N.ltb (bN x) (bN y) then true
                        else if N.ltb (bN y) (bN x) then false else bytes_leb a' b'
  end.
Definition bytes_ltb (a b : bytes) : bool := negb (bytes_leb b a).
Lemma bytes_leb_refl a : bytes_leb a a = true.
Proof. induction a as [|x a IH]; cbn; [reflexivity|]. rewrite N.ltb_irrefl. exact IH. Qed.
Lemma bytes_leb_total a b : bytes_leb a b = true \/ bytes_leb b a = true.
Proof.
  revert b; induction a as [|x a IH]; intros [|y b]; cbn; auto.
  destruct (N.ltb_spec (bN x) (bN y)); [auto|].
  destruct (N.ltb_spec (bN y) (bN x)); [auto|]. apply IH.
Qed.
Lemma bytes_leb_trans a b c : bytes_leb a b = true -> bytes_leb b c = true -> bytes_leb a c = true.
Proof.
  revert b c; induction a as [|x a IH]; intros [|y b] [|z c]; cbn; try congruence.
  destruct (N.ltb_spec (bN x) (bN y)), (N.ltb_spec (bN y) (bN z)), (N.ltb_spec (bN x) (bN z));
    try reflexivity; try lia;
    destruct (N.ltb_spec (bN y) (bN x)), (N.ltb_spec (bN z) (bN y)), (N.ltb_spec (bN z) (bN x));
    try congruence; try lia.
  apply IH.
Qed.
Lemma bytes_leb_antisym a b : bytes_leb a b = true -> bytes_leb b a = true -> a = b.
Proof.
  revert b; induction a as [|x a IH]; intros [|y b]; cbn; try congruence.
  destruct (N.ltb_spec (bN x) (bN y)), (N.ltb_spec (bN y) (bN x)); try congruence; try lia.
  intros H1 H2. assert (x = y) by (apply bN_inj; lia). subst. f_equal. auto.
Qed.

(* prefix stripping / searching *)
Fixpoint strip (p s : bytes) : option bytes :=
  match p, s with
  | [], _ => Some s
  | a :: p', b :: s' => if beq a b then strip p' s' else None
  | _, [] => None
  end.
Lemma strip_app p r : strip p (p ++ r) = Some r.
Proof. induction p; cbn; auto. rewrite beq_refl. auto. Qed.
Lemma strip_head_ne p a c r : a <> c -> strip (a :: p) (c :: r) = None.
Proof. intro H. cbn. now rewrite beq_false. Qed.
Lemma strip_Some p s r : strip p s = Some r -> s = p ++ r.
Proof.
  revert s; induction p as [|a p IH]; intros s; cbn; [congruence|].
  destruct s as [|b s]; [discriminate|]. destruct (beq_spec a b); [|discriminate].
  intro H. apply IH in H. subst. reflexivity.
Qed.
Definition has_prefix (p s : bytes) : bool := match strip p s with Some _ => true | None => false end.
Fixpoint contains (p s : bytes) : bool :=
  has_prefix p s || match s with [] => false | _ :: r => contains p r end.
Definition mem_byte (c : byte) (s : bytes) : bool := existsb (beq c) s.
Lemma mem_byte_In c s : mem_byte c s = true <-> In c s.
Proof.
  unfold mem_byte. rewrite existsb_exists. split.
  - intros [x [H1 H2]]. apply beq_true in H2. congruence.
  - intro H. exists c. split; [assumption|apply beq_refl].
Qed.

(* ASCII white space as used by strings.TrimSpace on ASCII input: sp \t \n \v \f \r *)
Definition is_ws (c : byte) : bool :=
  beq c x20 || beq c x09 || beq c x0a || beq c x0b || beq c x0c || beq c x0d.
Fixpoint drop_ws (s : bytes) : bytes :=
  match s with [] => [] | c :: r => if is_ws c then drop_ws r else s end.
Definition trim (s : bytes) : bytes := rev (drop_ws (rev (drop_ws s))).

(* decimal printing of N / Z (strconv.Itoa, fmt %d) *)
Definition digit (n : N) : byte :=
  match Byte.of_N (48 + n) with Some b => b | None => x30 end.
Fixpoint dec_fuel (f : nat) (n : N) (acc : bytes) : bytes :=
  match f with
  | O => acc
  | S f' => let acc' := digit (n mod 10) :: acc in
            if N.eqb (n / 10) 0 then acc' else dec_fuel f' (n / 10) acc'
  end.
Definition dec_N (n : N) : bytes := dec_fuel (S (N.to_nat (N.log2 n))) n [].
Definition dec_Z (z : Z) : bytes :=
  match z with
  | Z0 => [x30]
  | Zpos p => dec_N (Npos p)
  | Zneg p => x2d :: dec_N (Npos p)
  end.
Definition dec_nat (n : nat) : bytes := dec_N (N.of_nat n).
