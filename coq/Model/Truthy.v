(* internal/helpers/value.go:IsTruthy on the value universe, and the positions that consume it *)
From V Require Import Base.Bytes Base.Obs Base.Val.
Definition s_false := Eval cbv in bs "false".
Definition truthy (v : val) : bool :=
  match v with
  | VNil => false
  | VBool b => b
  | VInt _ z => negb (Z.eqb z 0)
  | VFloat _ zero _ => negb zero
  | VStr s => negb (bytes_eqb s [] || bytes_eqb s s_false)
  | _ => true                 (* slices, arrays, maps, structs, pointers (also typed nil pointers) *)
  end.
(* the falsy values the documentation lists *)
Definition documented_falsy (v : val) : bool :=
  match v with
  | VNil => true | VBool false => true | VInt _ 0%Z => true | VFloat _ true _ => true | VStr [] => true
  | _ => false
  end.
(* where a value's truthiness is observable; [None] stands for an undefined variable *)
Inductive position := PIf | PElseIf | PShow | PBoundAttr | PClassObject | PShowOnBranch | PNotIf.
Definition value_truthy (o : option val) : bool := match o with Some v => truthy v | None => false end.
(* effect: is the marker element rendered / visible / is the attribute or class present *)
Definition effect (p : position) (o : option val) : bool :=
  match p with PNotIf => negb (value_truthy o) | _ => value_truthy o end.
