(* html.EscapeString and its inverse on the five references it produces *)
From V Require Import Base.Bytes.
Definition r_amp := Eval cbv in bs "&amp;".
Definition r_39 := Eval cbv in bs "&#39;".
Definition r_lt := Eval cbv in bs "&lt;".
Definition r_gt := Eval cbv in bs "&gt;".
Definition r_34 := Eval cbv in bs "&#34;".
Definition esc1 (c : byte) : bytes :=
  if beq c x26 then r_amp else
  if beq c x27 then r_39 else
  if beq c x3c then r_lt else
  if beq c x3e then r_gt else
  if beq c x22 then r_34 else [c].
Definition escape (s : bytes) : bytes := flat_map esc1 s.
Definition special (c : byte) : bool :=
  beq c x26 || beq c x27 || beq c x3c || beq c x3e || beq c x22.
(* helpers.NeedsHTMLEscape *)
Definition needs_escape (s : bytes) : bool := existsb special s.
Definition refs : list (bytes * byte) :=
  [(r_amp, x26); (r_39, x27); (r_lt, x3c); (r_gt, x3e); (r_34, x22)].
Fixpoint try_refs (l : list (bytes * byte)) (s : bytes) : option (byte * bytes) :=
  match l with
  | [] => None
  | (p, b) :: l' => match strip p s with Some r => Some (b, r) | None => try_refs l' s end
  end.
Fixpoint unescape_f (fuel : nat) (s : bytes) : bytes :=
  match fuel with O => s | S f =>
  match s with
  | [] => []
  | c :: r => match try_refs refs s with
              | Some (b, rest) => b :: unescape_f f rest
              | None => c :: unescape_f f r
              end
  end end.
Definition unescape (s : bytes) : bytes := unescape_f (length s) s.
