(* C01 — a miniature of the evaluator (text interpolation, static and bound attributes, v-text,
   v-if / v-else on a variable, v-if comparing a variable with a literal, v-for over a list, nested
   arbitrarily) in which a string value may be replaced by an opaque HOLE.  Running a template with a
   hole in place of a value succeeds exactly when no construct inspects the value's content. *)
From Coq Require Import List Bool Arith Lia.
Import ListNotations.
From V Require Import Base.Bytes.
Definition name := nat.
Inductive val := VNil | VBool (b : bool) | VStr (s : bytes) | VList (l : list val) | VHole (b : bool).

(* strings with holes *)
Definition hstr := list (bytes + unit).
Definition fill1 (s : bytes) (c : bytes + unit) : bytes := match c with inl b => b | inr _ => s end.
Definition fill (s : bytes) (h : hstr) : bytes := flat_map (fill1 s) h.
Lemma fill_app s a b : fill s (a ++ b) = fill s a ++ fill s b.
Proof. apply flat_map_app. Qed.
Arguments fill : simpl never.

(* replace every hole by the concrete string *)
Fixpoint subst (s : bytes) (v : val) : val :=
  match v with
  | VHole _ => VStr s
  | VList l => VList (map (subst s) l)
  | _ => v
  end.

Definition s_false : bytes := bs "false".
Definition truthy_str (s : bytes) : bool := negb (bytes_eqb s [] || bytes_eqb s s_false).
Definition truthy (v : val) : bool :=
  match v with VNil => false | VBool b => b | VStr s => truthy_str s | VList _ => true | VHole b => b end.

(* fmt.Sprint, producing a string with holes *)
Definition sp : bytes := [x20].
Fixpoint sprint (v : val) : hstr :=
  match v with
  | VNil => []
  | VBool true => [inl (bs "true")] | VBool false => [inl (bs "false")]
  | VStr s => [inl s]
  | VHole _ => [inr tt]
  | VList l => [inl [x5b]] ++ flat_map (fun x => sprint x ++ [inl sp]) l ++ [inl [x5d]]
  end.

Definition env := list (name * val).
Fixpoint lookup (r : env) (x : name) : option val :=
  match r with [] => None | (k, v) :: t => if Nat.eqb k x then Some v else lookup t x end.
Definition senv (s : bytes) (r : env) : env := map (fun kv => (fst kv, subst s (snd kv))) r.

(* templates *)
Inductive seg := Lit (b : bytes) | Var (x : name).
Inductive tattr := AStatic (k : bytes) (v : list seg) | ABound (k : bytes) (x : name).
Inductive tnode :=
| TText (v : list seg)
| TElem (tag : bytes) (a : list tattr) (kids : list tnode)
| TVText (tag : bytes) (x : name)
| TIf (x : name) (th el : list tnode)
| TEq (x : name) (lit : bytes) (th : list tnode)          (* v-if="x == 'lit'": inspects content *)
| TFor (v coll : name) (body : list tnode).

Inductive onode := OText (h : hstr) | OElem (tag : bytes) (a : list (bytes * hstr)) (kids : list onode).
Inductive res (A : Type) := Ok (a : A) | ErrInspect | ErrOther | OutOfFuel.
Arguments Ok {A}. Arguments ErrInspect {A}. Arguments ErrOther {A}. Arguments OutOfFuel {A}.

Definition interp (r : env) (v : list seg) : hstr :=
  flat_map (fun g => match g with
                     | Lit b => [inl b]
                     | Var x => match lookup r x with Some w => sprint w | None => [] end
                     end) v.

Definition eval_attr (r : env) (a : tattr) : list (bytes * hstr) :=
  match a with
  | AStatic k v => [(k, interp r v)]
  | ABound k x => match lookup r x with
                  | Some w => if truthy w then [(k, sprint w)] else []
                  | None => []
                  end
  end.

Definition bind {A B} (x : res A) (k : A -> res B) : res B :=
  match x with Ok a => k a | ErrInspect => ErrInspect | ErrOther => ErrOther | OutOfFuel => OutOfFuel end.

Section WithEv.
  Variable ev : env -> tnode -> res (list onode).
  Fixpoint evals_with (r : env) (ts : list tnode) : res (list onode) :=
    match ts with
    | [] => Ok []
    | t :: ts' => bind (ev r t) (fun a => bind (evals_with r ts') (fun b => Ok (a ++ b)))
    end.
  Fixpoint loop_with (v : name) (r : env) (body : list tnode) (items : list val) : res (list onode) :=
    match items with
    | [] => Ok []
    | it :: rest => bind (evals_with ((v, it) :: r) body) (fun a => bind (loop_with v r body rest) (fun b => Ok (a ++ b)))
    end.
End WithEv.

Fixpoint eval (fuel : nat) (r : env) (t : tnode) {struct fuel} : res (list onode) :=
  match fuel with O => OutOfFuel | S f =>
  let evals := evals_with (eval f) in
  match t with
  | TText v => Ok [OText (interp r v)]
  | TElem tag a kids => bind (evals r kids) (fun ks => Ok [OElem tag (flat_map (eval_attr r) a) ks])
  | TVText tag x => Ok [OElem tag [] [OText (match lookup r x with Some w => sprint w | None => [] end)]]
  | TIf x th el =>
      match lookup r x with
      | Some w => if truthy w then evals r th else evals r el
      | None => evals r el
      end
  | TEq x lit th =>
      match lookup r x with
      | Some (VStr s) => if bytes_eqb s lit then evals r th else Ok []
      | Some (VHole _) => ErrInspect
      | _ => Ok []
      end
  | TFor v coll body =>
      match lookup r coll with
      | Some (VList items) => loop_with (eval f) v r body items
      | Some (VHole _) => ErrInspect
      | _ => Ok []
      end
  end end.

(* filling a DOM *)
Fixpoint ofill (s : bytes) (n : onode) : onode :=
  match n with
  | OText h => OText [inl (fill s h)]
  | OElem tag a kids => OElem tag (map (fun kv => (fst kv, [inl (fill s (snd kv))])) a) (map (ofill s) kids)
  end.
(* normal form of a concrete DOM: every string flattened to one chunk *)
Definition oflat := ofill [].

