(* C01 — a miniature of the evaluator (text interpolation, static and bound attributes, v-text, v-show,
   v-if / v-else-if / v-else chains on variables, v-if comparing a variable with a literal, v-for over a
   list, components included with static / interpolated / bound props and supplied slot content, slots
   with fallback, nested arbitrarily) in which a string value may be replaced by an opaque HOLE.
   Running a template with a hole in place of a value succeeds exactly when no construct inspects the
   value's content. *)
From Coq Require Import List Bool Arith Lia.
Import ListNotations.
From V Require Import Base.Bytes.
Definition name := nat.

(* strings with holes; a hole carries the truthiness of the string that will fill it *)
Definition hstr := list (bytes + bool).
Definition fill1 (s : bytes) (c : bytes + bool) : bytes := match c with inl b => b | inr _ => s end.
Definition fill (s : bytes) (h : hstr) : bytes := flat_map (fill1 s) h.
Lemma fill_app s a b : fill s (a ++ b) = fill s a ++ fill s b.
Proof. apply flat_map_app. Qed.
Arguments fill : simpl never.

(* VHStr: a string built by interpolation (a static prop such as title="Hello {{ name }}"): literal
   pieces and holes *)
Inductive val := VNil | VBool (b : bool) | VStr (s : bytes) | VList (l : list val) | VHole (b : bool) | VHStr (h : hstr)
               | VNum (n : nat).      (* a loop index, a front-matter number *)

(* replace every hole by the concrete string *)
Fixpoint subst (s : bytes) (v : val) : val :=
  match v with
  | VHole _ => VStr s
  | VHStr h => VStr (fill s h)
  | VList l => VList (map (subst s) l)
  | _ => v
  end.

Definition s_false : bytes := bs "false".
Definition truthy_str (s : bytes) : bool := negb (bytes_eqb s [] || bytes_eqb s s_false).
Definition is_lit (c : bytes + bool) : bool := match c with inl _ => true | inr _ => false end.
(* truthiness; None: deciding it would inspect the content of a hole *)
Definition truthy (v : val) : option bool :=
  match v with
  | VNil => Some false | VBool b => Some b | VStr s => Some (truthy_str s) | VList _ => Some true | VHole b => Some b
  | VNum n => Some (negb (Nat.eqb n 0))
  | VHStr h => if forallb is_lit h then Some (truthy_str (fill [] h))
               else match h with [inr b] => Some b | _ => None end
  end.

(* fmt.Sprint, producing a string with holes *)
Definition sp : bytes := [x20].
Fixpoint sprint (v : val) : hstr :=
  match v with
  | VNil => []
  | VBool true => [inl (bs "true")] | VBool false => [inl (bs "false")]
  | VStr s => [inl s]
  | VHole b => [inr b]
  | VHStr h => h
  | VNum n => [inl (dec_nat n)]
  | VList l => [inl [x5b]] ++ tl (flat_map (fun x => inl sp :: sprint x) l) ++ [inl [x5d]]   (* [a b c] *)
  end.

Definition env := list (name * val).
Fixpoint lookup (r : env) (x : name) : option val :=
  match r with [] => None | (k, v) :: t => if Nat.eqb k x then Some v else lookup t x end.
Definition senv (s : bytes) (r : env) : env := map (fun kv => (fst kv, subst s (snd kv))) r.

(* templates *)
Inductive seg := Lit (b : bytes) | Var (x : name).
Inductive tattr := AStatic (k : bytes) (v : list seg) | ABound (k : bytes) (x : name).
(* props of an include: name="lit {{ x }}" (a string) or :name="x" (the value itself) *)
Inductive tprop := PStatic (k : name) (v : list seg) | PBound (k : name) (x : name).
Inductive tnode :=
| TText (v : list seg)
| TElem (tag : bytes) (a : list tattr) (kids : list tnode)
| TVText (tag : bytes) (x : name)
| TShow (tag : bytes) (x : name) (kids : list tnode)      (* v-show="x": truthiness only *)
| TIf (x : name) (th el : list tnode)
| TChain (br : list (name * list tnode)) (el : list tnode) (* v-if / v-else-if ... / v-else *)
| TEq (x : name) (lit : bytes) (th : list tnode)          (* v-if="x == 'lit'": inspects content *)
| TFor (v coll : name) (body : list tnode)
| TFor2 (i v coll : name) (body : list tnode)               (* v-for="(i, v) in coll": zero-based index *)
| TInclude (f : nat) (p : list tprop) (content : list tnode)
| TSlot (fb : list tnode).

(* what an includer supplied for the slot of the component being evaluated: the content, the includer's
   variables and the includer's own closure *)
Inductive clo := CNone | CSome (r : env) (ts : list tnode) (outer : clo).

Inductive onode := OText (h : hstr) | OElem (tag : bytes) (a : list (bytes * hstr)) (kids : list onode).
Inductive res (A : Type) := Ok (a : A) | ErrInspect | ErrOther | OutOfFuel.
Arguments Ok {A}. Arguments ErrInspect {A}. Arguments ErrOther {A}. Arguments OutOfFuel {A}.

Definition interp (r : env) (v : list seg) : hstr :=
  flat_map (fun g => match g with
                     | Lit b => [inl b]
                     | Var x => match lookup r x with Some w => sprint w | None => [] end
                     end) v.

Definition bind {A B} (x : res A) (k : A -> res B) : res B :=
  match x with Ok a => k a | ErrInspect => ErrInspect | ErrOther => ErrOther | OutOfFuel => OutOfFuel end.
Definition truthy_r (v : val) : res bool := match truthy v with Some b => Ok b | None => ErrInspect end.

Definition eval_attr (r : env) (a : tattr) : res (list (bytes * hstr)) :=
  match a with
  | AStatic k v => Ok [(k, interp r v)]
  | ABound k x => match lookup r x with
                  | Some w => bind (truthy_r w) (fun b => Ok (if b then [(k, sprint w)] else []))
                  | None => Ok []
                  end
  end.
Fixpoint eval_attrs (r : env) (l : list tattr) : res (list (bytes * hstr)) :=
  match l with
  | [] => Ok []
  | a :: t => bind (eval_attr r a) (fun x => bind (eval_attrs r t) (fun y => Ok (x ++ y)))
  end.

(* a string built by interpolation: a plain string unless a hole went into it *)
Definition mk_str (h : hstr) : val := if forallb is_lit h then VStr (fill [] h) else VHStr h.
(* a bound prop whose value is falsy or unresolved is not passed at all (evalAttributes drops it), so the
   includer's variable of that name stays visible *)
Definition eval_prop (r : env) (p : tprop) : res env :=
  match p with
  | PStatic k v => Ok [(k, mk_str (interp r v))]
  | PBound k x => match lookup r x with
                  | Some w => bind (truthy_r w) (fun b => Ok (if b then [(k, w)] else []))
                  | None => Ok []
                  end
  end.
Fixpoint eval_props (r : env) (l : list tprop) : res env :=
  match l with
  | [] => Ok []
  | p :: t => bind (eval_prop r p) (fun x => bind (eval_props r t) (fun y => Ok (x ++ y)))
  end.

Definition s_display_none : bytes := bs "display:none;".
Definition k_style : bytes := bs "style".

Section WithEv.
  Variable ev : clo -> env -> tnode -> res (list onode).
  Fixpoint evals_with (c : clo) (r : env) (ts : list tnode) : res (list onode) :=
    match ts with
    | [] => Ok []
    | t :: ts' => bind (ev c r t) (fun a => bind (evals_with c r ts') (fun b => Ok (a ++ b)))
    end.
  Fixpoint loop_with (v : name) (c : clo) (r : env) (body : list tnode) (items : list val) : res (list onode) :=
    match items with
    | [] => Ok []
    | it :: rest => bind (evals_with c ((v, it) :: r) body) (fun a => bind (loop_with v c r body rest) (fun b => Ok (a ++ b)))
    end.
  Fixpoint loop2_with (i v : name) (k : nat) (c : clo) (r : env) (body : list tnode) (items : list val) : res (list onode) :=
    match items with
    | [] => Ok []
    | it :: rest => bind (evals_with c ((v, it) :: (i, VNum k) :: r) body)
                      (fun a => bind (loop2_with i v (S k) c r body rest) (fun b => Ok (a ++ b)))
    end.
  Fixpoint chain_with (c : clo) (r : env) (br : list (name * list tnode)) (el : list tnode) : res (list onode) :=
    match br with
    | [] => evals_with c r el
    | (x, th) :: rest =>
        match lookup r x with
        | Some w => bind (truthy_r w) (fun b => if b then evals_with c r th else chain_with c r rest el)
        | None => chain_with c r rest el
        end
    end.
End WithEv.

Section World.
Variable W : list (env * list tnode).   (* the component files: front-matter (authoritative over props) and body *)
Fixpoint eval (fuel : nat) (c : clo) (r : env) (t : tnode) {struct fuel} : res (list onode) :=
  match fuel with O => OutOfFuel | S f =>
  let evals := evals_with (eval f) in
  match t with
  | TText v => Ok [OText (interp r v)]
  | TElem tag a kids => bind (eval_attrs r a) (fun at' => bind (evals c r kids) (fun ks => Ok [OElem tag at' ks]))
  | TVText tag x => Ok [OElem tag [] [OText (match lookup r x with Some w => sprint w | None => [] end)]]
  | TShow tag x kids =>
      bind (match lookup r x with Some w => truthy_r w | None => Ok false end) (fun b =>
      bind (evals c r kids) (fun ks => Ok [OElem tag (if b then [] else [(k_style, [inl s_display_none])]) ks]))
  | TIf x th el =>
      match lookup r x with
      | Some w => bind (truthy_r w) (fun b => if b then evals c r th else evals c r el)
      | None => evals c r el
      end
  | TChain br el => chain_with (eval f) c r br el
  | TEq x lit th =>
      match lookup r x with
      | Some (VStr s) => if bytes_eqb s lit then evals c r th else Ok []
      | Some (VHole _) => ErrInspect
      | Some (VHStr h) => if forallb is_lit h then (if bytes_eqb (fill [] h) lit then evals c r th else Ok []) else ErrInspect
      | _ => Ok []
      end
  | TFor v coll body =>
      match lookup r coll with
      | Some (VList items) => loop_with (eval f) v c r body items
      | Some (VHole _) => ErrInspect
      | Some (VHStr h) => if forallb is_lit h then Ok [] else ErrInspect
      | _ => Ok []
      end
  | TFor2 i v coll body =>
      match lookup r coll with
      | Some (VList items) => loop2_with (eval f) i v 0 c r body items
      | Some (VHole _) => ErrInspect
      | Some (VHStr h) => if forallb is_lit h then Ok [] else ErrInspect
      | _ => Ok []
      end
  | TInclude fi p content =>
      match nth_error W fi with
      | None => ErrOther
      | Some (fm, body) => bind (eval_props r p) (fun pe => evals (CSome r content c) (fm ++ pe ++ r) body)
      end
  | TSlot fb =>
      match c with
      | CSome rc (x :: content) outer => evals outer rc (x :: content)
      | _ => evals c r fb
      end
  end end.
End World.

(* filling a DOM *)
Fixpoint ofill (s : bytes) (n : onode) : onode :=
  match n with
  | OText h => OText [inl (fill s h)]
  | OElem tag a kids => OElem tag (map (fun kv => (fst kv, [inl (fill s (snd kv))])) a) (map (ofill s) kids)
  end.
(* normal form of a concrete DOM: every string flattened to one chunk *)
Definition oflat := ofill [].
