(* C04: v-for (eval_for.go:evalVFor / evalFor, stack.go:ForEach / Push / Set / Pop) over the
   stack model of C17.  [run] threads the stack through Push / Set / evaluate / Pop exactly as
   the code does; [spec] is the property's reading: one instance per item, evaluated in the
   outer stack extended by one scope that binds the loop variables. *)
From V Require Import Base.Bytes Base.Obs Base.Val Model.Stack Model.Truthy.

(* what a probe element shows of a name *)
Inductive view :=
| VText (p : bytes)        (* {{ p }}: Stack.Resolve, nil and undefined print nothing *)
| VExpr (n : bytes)        (* {{ n + '' }} / {{ n + 0 }}: the expression environment (EnvMap) *)
| VAttr (p : bytes)        (* :data-k="p": Resolve, the attribute is omitted when falsy *)
| VProp (p : bytes).       (* :v="p" on an include of a probe component that prints {{ v }}: a falsy value is not passed *)
(* a sibling list: probe elements and loops, each followed by its next sibling *)
Inductive tpl :=
| TNil
| TPrint (id : nat) (views : list view) (next : tpl)
| TFor (vars : list bytes) (coll : bytes) (cond : option bytes) (body : tpl) (has_else : bool) (els : tpl) (next : tpl).

Definition show_view (s : stack) (w : view) : bytes :=
  match w with
  | VText p => match resolve s p with Some v => if is_nil v then [] else sprint v | None => [] end
  | VExpr n => match assocb n (envmap s) with Some v => sprint v | None => bs "<undefined>" end
  | VAttr p => match resolve s p with Some v => if truthy v then x3d :: sprint v else [x2d] | None => [x2d] end
  | VProp p => match resolve s p with Some v => if truthy v then sprint v else [] | None => [] end
  end.
Definition record := (nat * list bytes)%type.
Definition mkrec (s : stack) (id : nat) (ws : list view) : record := (id, map (show_view s) ws).

Definition bind (s : stack) (vars : list bytes) (i : Z) (v : val) : stack :=
  match vars with
  | [x] => set s x v
  | [ix; x] => set (set s ix (VInt KInt i)) x v
  | _ => s
  end.
Definition cond_ok (s : stack) (c : option bytes) : bool :=
  match c with None => true | Some p => match resolve s p with Some v => truthy v | None => false end end.
Definition is_empty {A} (l : list A) : bool := match l with [] => true | _ => false end.

(* ---- the code: state threaded through Push / Set / evaluate / Pop ---- *)
Fixpoint run (s : stack) (t : tpl) {struct t} : list record * stack :=
  match t with
  | TNil => ([], s)
  | TPrint id ws next => let '(o, s') := run s next in (mkrec s id ws :: o, s')
  | TFor vars coll cond body has_else els next =>
      let iter := fix it (s : stack) (items : list val) (i : Z) {struct items} : list record * stack :=
        match items with
        | [] => ([], s)
        | v :: r =>
            let s1 := bind (push s []) vars i v in
            let '(o, s2) := if cond_ok s1 cond then run s1 body else ([], s1) in
            let '(o', s4) := it (pop s2) r (i + 1)%Z in (o ++ o', s4)
        end in
      let '(out, s1) := iter s (for_each s coll) 0%Z in
      let '(out', s2) := if is_empty out && has_else then run s1 els else (out, s1) in
      let '(o, s3) := run s2 next in (out' ++ o, s3)
  end.
Definition iter (vars : list bytes) (cond : option bytes) (body : tpl) :=
  fix it (s : stack) (items : list val) (i : Z) {struct items} : list record * stack :=
    match items with
    | [] => ([], s)
    | v :: r =>
        let s1 := bind (push s []) vars i v in
        let '(o, s2) := if cond_ok s1 cond then run s1 body else ([], s1) in
        let '(o', s4) := it (pop s2) r (i + 1)%Z in (o ++ o', s4)
    end.

(* ---- the specification: no state; one instance per item, in order, the loop variables bound in
   a scope of their own on top of the outer stack; the v-else sibling exactly when there is no output ---- *)
Fixpoint spec (s : stack) (t : tpl) {struct t} : list record :=
  match t with
  | TNil => []
  | TPrint id ws next => mkrec s id ws :: spec s next
  | TFor vars coll cond body has_else els next =>
      let inst := fix it (items : list val) (i : Z) {struct items} : list record :=
        match items with
        | [] => []
        | v :: r => let s1 := bind (push s []) vars i v in
                    (if cond_ok s1 cond then spec s1 body else []) ++ it r (i + 1)%Z
        end in
      let out := inst (for_each s coll) 0%Z in
      (if is_empty out && has_else then spec s els else out) ++ spec s next
  end.
Fixpoint instances (s : stack) (vars : list bytes) (cond : option bytes) (body : tpl) (items : list val) (i : Z) : list record :=
  match items with
  | [] => []
  | v :: r => let s1 := bind (push s []) vars i v in
              (if cond_ok s1 cond then spec s1 body else []) ++ instances s vars cond body r (i + 1)%Z
  end.

(* the stack a render starts from: Fill(data) then Copy (template.go:Fill, RenderReader) *)
Definition init_stack (data : val) : stack :=
  copy {| scopes := [match to_env data with VMap m => m | _ => [] end]; root := data |}.
