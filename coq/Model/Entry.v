(* C12: the render entry points of template_render.go / template_layout.go, as
   functions of (i) whether the context is already cancelled, (ii) the outcome
   of evaluating each link of the layout chain (generic: the document bytes are
   an argument), (iii) the destination writer's fault offset. *)
From V Require Import Base.Bytes Base.Obs.

Inductive outcome := EOk (doc : bytes) | EErr.

(* an io.Writer that accepts bytes up to offset k and reports a failure on the
   write that would cross it; None = never fails *)
Definition write (fail_at : option nat) (doc : bytes) : bytes * bool :=
  match fail_at with
  | None => (doc, false)
  | Some k => if Nat.ltb k (length doc) then (firstn k doc, true) else (doc, false)
  end.

(* RenderReader (and RenderString / RenderByte, which delegate to it), and
   renderWithoutLayout: poll the context, evaluate and serialise into a private
   buffer, copy the buffer out once, return the copy's error *)
Definition buffered (cancelled : bool) (e : outcome) (fa : option nat) : bytes * bool :=
  if cancelled then ([], true)
  else match e with
       | EErr => ([], true)
       | EOk doc => write fa doc
       end.

(* template.layout: every link is rendered into its own fresh buffer; the first
   failing link aborts; only the last link's buffer is copied to the writer.
   [links] are the outcomes in chain order (page first). *)
Fixpoint layout_loop (links : list outcome) (last : option bytes) (fa : option nat) : bytes * bool :=
  match links with
  | [] => match last with Some d => write fa d | None => ([], true) end
  | EErr :: _ => ([], true)
  | EOk d :: r => layout_loop r (Some d) fa
  end.

Inductive entry :=
| ERenderPlain (e : outcome)            (* Load(f).Render, no layout, no layouts/base.vuego *)
| ERenderLayout (links : list outcome)  (* Load(f).Render through template.layout *)
| ERenderFile (load_ok : bool) (links : list outcome) (* RenderFile = Load + Render; a failed Load is a sticky error *)
| ERenderReader (e : outcome).          (* RenderString / RenderByte / RenderReader *)

Definition run_entry (cancelled : bool) (en : entry) (fa : option nat) : bytes * bool :=
  if cancelled then ([], true)
  else match en with
       | ERenderPlain e => buffered false e fa
       | ERenderLayout links => layout_loop links None fa
       | ERenderFile ok links =>
           if ok then match links with
                      | [e] => buffered false e fa
                      | _ => layout_loop links None fa
                      end
           else ([], true)
       | ERenderReader e => buffered false e fa
       end.

(* the outcome of the whole program, independent of the writer *)
Fixpoint chain_outcome (links : list outcome) (last : option bytes) : outcome :=
  match links with
  | [] => match last with Some d => EOk d | None => EErr end
  | EErr :: _ => EErr
  | EOk d :: r => chain_outcome r (Some d)
  end.
Definition entry_outcome (en : entry) : outcome :=
  match en with
  | ERenderPlain e | ERenderReader e => e
  | ERenderLayout links => chain_outcome links None
  | ERenderFile ok links => if ok then chain_outcome links None else EErr
  end.

(* --- the file entry point of the unrepaired tree, kept to state what was wrong:
   the serialiser wrote each piece straight to the destination and discarded the
   Write results *)
Fixpoint stream_ignoring (chunks : list bytes) (room : option nat) : bytes :=
  match chunks with
  | [] => []
  | c :: r => match room with
              | None => c ++ stream_ignoring r None
              | Some k => if Nat.ltb k (length c) then firstn k c   (* the writer failed; later writes also fail *)
                          else c ++ stream_ignoring r (Some (k - length c))
              end
  end.
Definition legacy_plain (chunks : list bytes) (fa : option nat) : bytes * bool := (stream_ignoring chunks fa, false).

(* --- table of the entry points as found in the source (Gen/Sites_C12.v) --- *)
Inductive wuse :=
| UDelegate (callee : bytes)     (* w is handed to another method of the table, whose error is returned *)
| UCopyReturned                  (* buf.WriteTo(w) / io.Copy(w, buf) of a private buffer, error returned *)
| UOther (what : bytes).         (* anything else done with w *)
Definition site := (bytes * bool * list wuse)%type.   (* method, exported, uses of its writer parameter *)
Fixpoint site_of (n : bytes) (t : list site) : option site :=
  match t with [] => None | s :: r => if bytes_eqb (fst (fst s)) n then Some s else site_of n r end.
(* a method is buffered when every use of its writer is a delegation to a buffered
   method or the single returned copy of a private buffer *)
Fixpoint is_buffered (fuel : nat) (t : list site) (n : bytes) : bool :=
  match fuel with
  | O => false
  | S f => match site_of n t with
           | None => false
           | Some (_, _, uses) =>
               negb (match uses with [] => true | _ => false end) &&
               forallb (fun u => match u with
                                 | UDelegate c => is_buffered f t c
                                 | UCopyReturned => true
                                 | UOther _ => false end) uses
           end
  end.
Definition exported_ok (t : list site) : bool :=
  forallb (fun s => negb (snd (fst s)) || is_buffered 6 t (fst (fst s))) t.
