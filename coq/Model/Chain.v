(* C03: the chain walker of eval_core.go:evaluate / eval_condition.go:evalElseIfChain
   (index arithmetic with skipCount / lastChainNodeIdx) over abstract siblings, and the
   documented truthiness table of internal/helpers/value.go:IsTruthy. *)
From Coq Require Import List Bool Arith Lia.
Import ListNotations.
Definition id := nat.
Inductive node :=
| NIf (c : bool) (i : id) | NElseIf (c : bool) (i : id) | NElse (i : id)
| NPlain (i : id) | NOther (i : id)                   (* NOther: text / comment *)
| NFor (n : nat) (i : id).                            (* element with v-for over n items, no v-if *)

Definition is_elem (n : node) : bool := match n with NOther _ => false | _ => true end.
Definition elseish (n : node) : bool := match n with NElseIf _ _ | NElse _ => true | _ => false end.

(* ---- the code: evalElseIfChain on nodes[i:] = head :: rest ---- *)
(* scan when the v-if was true: index of the last chain member *)
Fixpoint last_member (rest : list node) (idx last : nat) : nat :=
  match rest with
  | [] => last
  | n :: r => if negb (is_elem n) then last_member r (S idx) last
              else if elseish n then last_member r (S idx) idx
              else last
  end.
(* scan when the v-if was false: (rendered ids, skipCount) *)
Fixpoint find_branch (rest : list node) (idx last : nat) : list id * nat :=
  match rest with
  | [] => ([], last)
  | n :: r =>
      match n with
      | NOther _ => find_branch r (S idx) last
      | NElseIf c i => if c then ([i], idx) else find_branch r (S idx) idx
      | NElse i => ([i], idx)
      | _ => ([], last)
      end
  end.
Definition chain (c : bool) (i : id) (rest : list node) : list id * nat :=
  if c then ([i], last_member rest 1 0) else find_branch rest 1 0.

(* eval_for.go:evalVFor - a loop that produced nothing looks at the NEXT ELEMENT only: a v-else there is
   rendered in its place and skipped; anything else ends the search *)
Fixpoint for_else (rest : list node) (idx : nat) : list id * nat :=
  match rest with
  | [] => ([], 0)
  | NOther _ :: r => for_else r (S idx)
  | NElse i :: _ => ([i], idx)
  | _ => ([], 0)
  end.
Fixpoint rep_id (n : nat) (i : id) : list id := match n with O => [] | S m => i :: rep_id m i end.

(* evaluate: the for loop with i += skipCount, on fuel *)
Fixpoint evaluate (fuel : nat) (l : list node) : list id :=
  match fuel with O => [] | S f =>
  match l with
  | [] => []
  | NOther _ :: r => evaluate f r                     (* rendered, but not an element *)
  | NPlain i :: r => i :: evaluate f r
  | NIf c i :: r => let '(out, skip) := chain c i r in out ++ evaluate f (skipn skip r)
  | NFor O i :: r => let '(out, skip) := for_else r 1 in out ++ evaluate f (skipn skip r)
  | NFor n i :: r => rep_id n i ++ evaluate f r
  | _ :: r => evaluate f r                            (* orphan v-else-if / v-else *)
  end end.

(* ---- the specification, on elements only ---- *)
Fixpoint first_truthy (ms : list node) : list id :=
  match ms with
  | NElseIf c i :: r => if c then [i] else first_truthy r
  | NElse i :: _ => [i]
  | _ => []
  end.
Fixpoint drop_members (l : list node) : list node :=
  match l with n :: r => if elseish n then drop_members r else l | [] => [] end.
Fixpoint take_members (l : list node) : list node :=
  match l with n :: r => if elseish n then n :: take_members r else [] | [] => [] end.

Fixpoint spec (fuel : nat) (l : list node) : list id :=
  match fuel with O => [] | S f =>
  match l with
  | [] => []
  | NPlain i :: r => i :: spec f r
  | NIf c i :: r => (if c then [i] else first_truthy (take_members r)) ++ spec f (drop_members r)
  | NFor O _ :: NElse j :: r => j :: spec f r         (* an empty loop renders the v-else right after it *)
  | NFor n i :: r => rep_id n i ++ spec f r           (* one instance per item; not a chain member *)
  | _ :: r => spec f r
  end end.

Definition elems (l : list node) := filter is_elem l.

Definition E (l : list node) := evaluate (length l) l.
Definition S_ (l : list node) := spec (length l) l.

(* the same walk, also recording the non-element nodes it reaches (text that is rendered): a node inside the
   range a chain skips is not reached.  Elements are tagged true, other nodes false. *)
Fixpoint evaluate_t (fuel : nat) (l : list node) : list (bool * id) :=
  match fuel with O => [] | S f =>
  match l with
  | [] => []
  | NOther i :: r => (false, i) :: evaluate_t f r
  | NPlain i :: r => (true, i) :: evaluate_t f r
  | NIf c i :: r => let '(out, skip) := chain c i r in map (pair true) out ++ evaluate_t f (skipn skip r)
  | NFor O i :: r => let '(out, skip) := for_else r 1 in map (pair true) out ++ evaluate_t f (skipn skip r)
  | NFor n i :: r => map (pair true) (rep_id n i) ++ evaluate_t f r
  | _ :: r => evaluate_t f r
  end end.
Definition ET (l : list node) := evaluate_t (length l) l.
