(* C06 / C11 — slots a page hands to its layout (template_layout.go:extractSlotsFromDOM, the
   __slotScope__ entry of the layout's data, eval_slot.go:evalSlot).  A page defines named slot
   contents (<template #name> ... </template>); the layout - and the contents themselves - use them
   through <slot name="..."> fallback </slot>.  A content may mention any slot, itself included, so
   expansion is a recursion through a table that can be cyclic.  evalSlot keeps the names of the
   inherited slots being expanded (ctx.inheritedSlots) and shows the fallback of a slot that is
   already on that chain.

   [expand] mirrors it: recursion on the item is structural; the jump into a supplied content - the
   only non-structural call - spends one unit of fuel.  Proofs/LayoutSlotsP.v shows that
   (number of supplied slots) units always suffice, whatever the table, and that the result does not
   depend on the fuel.  Output is observed as the sequence of text markers. *)
From Coq Require Import List Bool Arith.
Import ListNotations.

Inductive litem :=
| LText (id : nat)                          (* <b data-t="id">t</b> *)
| LWrap (kids : list litem)                 (* <div> kids </div> *)
| LSlot (name : nat) (fallback : list litem).  (* <slot name="s<name>"> fallback </slot> *)
Definition ltable := list (nat * list litem).  (* what the page supplies: name -> content *)

Fixpoint lcontent (t : ltable) (n : nat) : option (list litem) :=
  match t with
  | [] => None
  | (k, c) :: r => if Nat.eqb k n then Some c else lcontent r n
  end.
Definition memb (n : nat) (l : list nat) : bool := existsb (Nat.eqb n) l.

(* evaluate a list of nodes left to right; the first failure aborts *)
Definition seq_opt (f : litem -> option (list nat)) : list litem -> option (list nat) :=
  fix go (its : list litem) : option (list nat) :=
    match its with
    | [] => Some []
    | x :: r => match f x, go r with Some a, Some b => Some (a ++ b) | _, _ => None end
    end.

Fixpoint expand (fuel : nat) (t : ltable) {struct fuel} : list nat -> litem -> option (list nat) :=
  fix one (chain : list nat) (it : litem) {struct it} : option (list nat) :=
    match it with
    | LText id => Some [id]
    | LWrap kids => seq_opt (one chain) kids
    | LSlot n fb =>
        match lcontent t n with
        | Some c =>
            if memb n chain then seq_opt (one chain) fb       (* already being expanded: fallback *)
            else match fuel with
                 | O => None
                 | S f => seq_opt (expand f t (n :: chain)) c  (* ctx.inheritedSlots = append(.., name) *)
                 end
        | None => seq_opt (one chain) fb                       (* nothing supplied: fallback *)
        end
    end.
Definition expand_all (fuel : nat) (t : ltable) (chain : list nat) (its : list litem) : option (list nat) :=
  seq_opt (expand fuel t chain) its.

(* what a layout shows: as many units of fuel as there are supplied slots *)
Definition layout_slots (t : ltable) (layout : list litem) : option (list nat) :=
  expand_all (length t) t [] layout.

(* the twin that remembers only the innermost slot being expanded (the code before repair a290021
   compared nothing at all; a one-name memory is the obvious half-repair) *)
Fixpoint expand_inner (fuel : nat) (t : ltable) {struct fuel} : option nat -> litem -> option (list nat) :=
  fix one (cur : option nat) (it : litem) {struct it} : option (list nat) :=
    match it with
    | LText id => Some [id]
    | LWrap kids => seq_opt (one cur) kids
    | LSlot n fb =>
        match lcontent t n with
        | Some c =>
            if match cur with Some m => Nat.eqb m n | None => false end then seq_opt (one cur) fb
            else match fuel with
                 | O => None
                 | S f => seq_opt (expand_inner f t (Some n)) c
                 end
        | None => seq_opt (one cur) fb
        end
    end.
