(* C09 — lock discipline.  Any number of threads, each running a straight-line program of lock
   acquisitions / releases (RWMutex: read or write mode) and reads / writes of shared locations,
   interleaved by an arbitrary schedule.  [disciplined] is the executable, syntactic check the
   translator's path table is put through. *)
From Coq Require Import List Bool Arith.
Import ListNotations.

Definition thread := nat. Definition lock := nat. Definition loc := nat.
Inductive action := Acq (l : lock) (w : bool) | Rel (l : lock) (w : bool) | Rd (x : loc) | Wr (x : loc).

Definition holding := (lock * bool)%type.
Definition hold_eqb (a b : holding) : bool := Nat.eqb (fst a) (fst b) && Bool.eqb (snd a) (snd b).
Fixpoint remove1 (h : holding) (hs : list holding) : list holding :=
  match hs with [] => [] | x :: r => if hold_eqb h x then r else x :: remove1 h r end.
Definition has (h : holding) (hs : list holding) : bool := existsb (hold_eqb h) hs.
Definition has_lock (l : lock) (hs : list holding) : bool := existsb (fun h => Nat.eqb (fst h) l) hs.

Section Lockset.
Variable guard : loc -> lock.

(* the per-program discipline: every write of x happens while guard(x) is held in write mode, every
   read of x while it is held in some mode, every release matches a holding, and no lock is acquired
   while already held (sync.RWMutex is not reentrant) *)
Fixpoint disciplined (hs : list holding) (p : list action) : bool :=
  match p with
  | [] => true
  | Acq l w :: r => negb (has_lock l hs) && disciplined ((l, w) :: hs) r
  | Rel l w :: r => has (l, w) hs && disciplined (remove1 (l, w) hs) r
  | Rd x :: r => has_lock (guard x) hs && disciplined hs r
  | Wr x :: r => has (guard x, true) hs && disciplined hs r
  end.
(* what is still held at the end *)
Fixpoint final (hs : list holding) (p : list action) : list holding :=
  match p with
  | [] => hs
  | Acq l w :: r => final ((l, w) :: hs) r
  | Rel l w :: r => final (remove1 (l, w) hs) r
  | _ :: r => final hs r
  end.
Definition is_nil {A} (l : list A) : bool := match l with [] => true | _ => false end.
(* a path of a function: disciplined from no holdings and leaving none *)
Definition path_ok (p : list action) : bool := disciplined [] p && is_nil (final [] p).

(* global state: remaining program and current holdings of every thread *)
Record state := { prog : thread -> list action; held : thread -> list holding }.
Definition upd {A} (f : thread -> A) (t : thread) (v : A) : thread -> A := fun u => if Nat.eqb u t then v else f u.

(* RWMutex: a write acquisition needs the lock free, a read acquisition needs no writer *)
Definition free_for (s : state) (l : lock) (w : bool) : Prop :=
  forall u, (if w then has_lock l (held s u) = false else has (l, true) (held s u) = false).

Inductive step : state -> thread -> state -> Prop :=
| SAcq s t l w r : prog s t = Acq l w :: r -> free_for s l w ->
    step s t {| prog := upd (prog s) t r; held := upd (held s) t ((l, w) :: held s t) |}
| SRel s t l w r : prog s t = Rel l w :: r ->
    step s t {| prog := upd (prog s) t r; held := upd (held s) t (remove1 (l, w) (held s t)) |}
| SRd s t x r : prog s t = Rd x :: r -> step s t {| prog := upd (prog s) t r; held := held s |}
| SWr s t x r : prog s t = Wr x :: r -> step s t {| prog := upd (prog s) t r; held := held s |}.

Inductive reach (s0 : state) : state -> Prop :=
| RInit : reach s0 s0
| RStep s t s' : reach s0 s -> step s t s' -> reach s0 s'.

Definition next_access (s : state) (t : thread) : option (loc * bool) :=
  match prog s t with Rd x :: _ => Some (x, false) | Wr x :: _ => Some (x, true) | _ => None end.
(* a data race: two different threads are simultaneously about to access the same location, one writing *)
Definition racy (s : state) : Prop :=
  exists t u x wt wu, t <> u /\ next_access s t = Some (x, wt) /\ next_access s u = Some (x, wu) /\ (wt || wu = true).
End Lockset.
