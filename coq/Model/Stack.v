(* C17: model of stack.go and internal/reflect/reflect.go.
   Scopes are innermost first; [root] is the rootData value ([VNil] = none). *)
From V Require Import Base.Bytes Base.Obs Base.Val.

Definition scope := list (bytes * val).
Record stack := { scopes : list scope; root : val }.

Fixpoint put {A} (m : list (bytes * A)) (k : bytes) (v : A) : list (bytes * A) :=
  match m with
  | [] => [(k, v)]
  | (k', v') :: r => if bytes_eqb k' k then (k, v) :: r else (k', v') :: put r k v
  end.
Fixpoint look (ss : list scope) (k : bytes) : option val :=
  match ss with [] => None | m :: r => match assocb k m with Some v => Some v | None => look r k end end.

(* strconv.Atoi: optional sign, decimal digits, int64 range *)
Definition is_digit (c : byte) : bool := N.leb 48 (bN c) && N.leb (bN c) 57.
Fixpoint digits (s : bytes) (acc : Z) : option Z :=
  match s with
  | [] => Some acc
  | c :: r => if is_digit c then digits r (acc * 10 + Z.of_N (bN c - 48)) else None
  end.
Definition atoi_body (neg : bool) (d : bytes) : option Z :=
  match d with
  | [] => None
  | _ => match digits d 0%Z with
         | Some z => let z' := if neg then (- z)%Z else z in
                     if (Z.leb (- 9223372036854775808) z' && Z.leb z' 9223372036854775807)%Z then Some z' else None
         | None => None end
  end.
Definition atoi (s : bytes) : option Z :=
  match s with
  | [] => None
  | c :: r => if beq c x2d then atoi_body true r else if beq c x2b then atoi_body false r else atoi_body false s
  end.
Definition index (l : list val) (name : bytes) : option val :=
  match atoi name with
  | Some i => if (Z.leb 0 i && Z.ltb i (Z.of_nat (length l)))%Z then nth_error l (Z.to_nat i) else None
  | None => None
  end.

(* reflect.go: resolveStruct — Go field name first (exported only), then json tag *)
Fixpoint field_by_name (fs : list (bytes * bytes * bool * val)) (n : bytes) : option (bytes * bytes * bool * val) :=
  match fs with [] => None | f :: r => if bytes_eqb (f_name f) n then Some f else field_by_name r n end.
Fixpoint field_by_tag (fs : list (bytes * bytes * bool * val)) (n : bytes) : option val :=
  match fs with
  | [] => None
  | f :: r => if negb (bytes_eqb (f_tag f) []) && f_exported f && bytes_eqb (tag_name (f_tag f)) n
              then Some (f_val f) else field_by_tag r n
  end.
Definition resolve_struct fs n : option val :=
  match field_by_name fs n with
  | Some f => if f_exported f then Some (f_val f) else field_by_tag fs n
  | None => field_by_tag fs n
  end.
(* reflect.go: ResolveValue *)
Fixpoint resolve_value (v : val) (n : bytes) : option val :=
  match n with [] => None | _ =>
  match v with
  | VPtr (Some x) => resolve_value x n
  | VStruct fs => resolve_struct fs n
  | VMap m => assocb n m
  | VMapS m => option_map VStr (assocb n m)
  | VList l | VArr l => index l n
  | _ => None            (* nil, nil pointer, scalars, maps with non-string keys *)
  end end.

Definition lookup (s : stack) (k : bytes) : option val :=
  match look (scopes s) k with
  | Some v => Some v
  | None => resolve_value (root s) k
  end.
Definition push (s : stack) (m : scope) : stack := {| scopes := m :: scopes s; root := root s |}.
Definition pop (s : stack) : stack :=
  match scopes s with
  | [] => {| scopes := [[]]; root := root s |}
  | [_] => {| scopes := [[]]; root := root s |}      (* popping the root leaves an empty root scope *)
  | _ :: r => {| scopes := r; root := root s |}
  end.
Definition set (s : stack) (k : bytes) (v : val) : stack :=
  match scopes s with
  | [] => {| scopes := [[(k, v)]]; root := root s |}
  | m :: r => {| scopes := put m k v :: r; root := root s |}
  end.

(* ---- paths: splitPathImpl ---- *)
Fixpoint split_on (c : byte) (s : bytes) : list bytes :=
  match s with
  | [] => [[]]
  | x :: r => if beq x c then [] :: split_on c r
              else match split_on c r with p :: ps => (x :: p) :: ps | [] => [[x]] end
  end.
Definition nonempty (s : bytes) : bool := match s with [] => false | _ => true end.
Definition sanitize (parts : list bytes) : list bytes := filter nonempty (map trim parts).
Definition unquote (s : bytes) : bytes :=
  match s with
  | q :: r => match rev r with
              | q' :: mid => if (beq q x27 && beq q' x27) || (beq q x22 && beq q' x22) then rev mid else s
              | [] => s end
  | [] => s
  end.
Fixpoint bracket_scan (s : bytes) (inside : option bytes) : bytes :=
  match s with
  | [] => []
  | c :: r =>
      match inside with
      | None => if beq c x5b then (if mem_byte x5d r then bracket_scan r (Some []) else c :: bracket_scan r None)
                else c :: bracket_scan r None
      | Some acc => if beq c x5d
                    then let ins := unquote (trim (rev acc)) in
                         (if nonempty ins then x2e :: ins else []) ++ bracket_scan r None
                    else bracket_scan r (Some (c :: acc))
      end
  end.
Definition split_path (expr : bytes) : list bytes :=
  let e := trim expr in
  match e with
  | [] => []
  | _ => if mem_byte x5b e then sanitize (split_on x2e (bracket_scan e None)) else sanitize (split_on x2e e)
  end.

(* ---- Resolve ---- *)
Definition resolve_step (cur : val) (p : bytes) : val :=
  match cur with
  | VMap m => match assocb p m with Some v => v | None => VNil end
  | VMapS m => match assocb p m with Some s => VStr s | None => VNil end
  | _ => match resolve_value cur p with Some v => v | None => VNil end
  end.
Definition is_nil (v : val) : bool := match v with VNil => true | _ => false end.
Fixpoint walk (cur : val) (ps : list bytes) : option val :=
  match ps with
  | [] => Some cur
  | p :: r => let n := resolve_step cur p in if is_nil n then None else walk n r
  end.
Definition resolve (s : stack) (expr : bytes) : option val :=
  if mem_byte x2e expr || mem_byte x5b expr then
    match split_path expr with
    | [] => None
    | h :: t => match lookup s h with
                | Some v => if is_nil v then None else walk v t
                | None => None end
    end
  else lookup s expr.

(* ---- EnvMap / Copy ---- *)
Definition env_key (f : bytes * bytes * bool * val) : bytes :=
  if nonempty (tag_name (f_tag f)) then tag_name (f_tag f) else f_name f.
(* StructToMap: exported fields, nested structs / pointers to structs converted recursively *)
Fixpoint struct_to_map (v : val) : val :=
  match v with
  | VPtr None => VMap []
  | VPtr (Some x) => struct_to_map x
  | VStruct fs =>
      VMap ((fix go (fs : list (bytes * bytes * bool * val)) (acc : list (bytes * val)) : list (bytes * val) :=
               match fs with
               | [] => acc
               | f :: r => if f_exported f
                           then go r (put acc (env_key f)
                                        (match f_val f with
                                         | VStruct _ | VPtr _ => struct_to_map (f_val f)
                                         | x => x end))
                           else go r acc
               end) fs [])
  | _ => VMap []
  end.
Definition to_env (v : val) : val := match v with VStruct _ | VPtr _ => struct_to_map v | x => x end.
Fixpoint deref (v : val) : val := match v with VPtr (Some x) => deref x | x => x end.
(* PopulateStructFields: what the root data contributes to the environment, in the order
   it is offered (a name already bound is never overwritten, so the first entry wins):
   every exported field under its json name (Go name when untagged) and under its Go
   name; the entries of a string-keyed map *)
Definition conv (x : val) : val := match x with VStruct _ | VPtr _ => struct_to_map x | y => y end.
Definition field_entries (f : bytes * bytes * bool * val) : list (bytes * val) :=
  if f_exported f
  then (env_key f, conv (f_val f)) ::
       (if bytes_eqb (f_name f) (env_key f) then [] else [(f_name f, conv (f_val f))])
  else [].
Definition root_fields (r : val) : list (bytes * val) :=
  match deref r with
  | VStruct fs => flat_map field_entries fs
  | VMap m => m
  | VMapS m => map (fun kv => (fst kv, VStr (snd kv))) m
  | _ => []
  end.
Definition overlay (base top : scope) : scope := fold_left (fun acc kv => put acc (fst kv) (snd kv)) top base.
Definition fill_unbound (m r : scope) : scope :=
  fold_left (fun acc kv => match assocb (fst kv) acc with Some _ => acc | None => put acc (fst kv) (snd kv) end) r m.
Definition merged (ss : list scope) : scope := fold_right (fun m acc => overlay acc m) [] ss.
Definition envmap (s : stack) : scope := fill_unbound (merged (scopes s)) (root_fields (root s)).
Definition copy (s : stack) : stack := {| scopes := [envmap s]; root := root s |}.

(* ---- typed accessors ---- *)
Definition signed_or_uint (k : ikind) : bool :=
  match k with KInt | KInt8 | KInt16 | KInt32 | KInt64 | KUint => true | _ => false end.
Definition get_string (s : stack) (p : bytes) : option bytes :=
  match resolve s p with
  | Some v => if is_nil v then None else Some (sprint v)
  | None => None
  end.
Definition get_int (s : stack) (p : bytes) : option Z :=
  match resolve s p with
  | Some (VInt k z) => if signed_or_uint k then Some z else None
  | Some (VStr t) => atoi t
  | _ => None
  end.
Definition get_slice (s : stack) (p : bytes) : option (list val) :=
  match resolve s p with Some (VList l) | Some (VArr l) => Some l | _ => None end.
Definition get_map (s : stack) (p : bytes) : option (list (bytes * val)) :=
  match resolve s p with
  | Some (VMap m) => Some m
  | Some (VMapS m) => Some (map (fun kv => (fst kv, VStr (snd kv))) m)
  | _ => None
  end.
(* ForEach: sequences in index order; maps in the order of their printed keys (stack.go:ForEach
   sorts rv.MapKeys() by fmt.Sprint); [for_each_map] is the older order-blind observation *)
Fixpoint ins_b (x : bytes) (l : list bytes) : list bytes :=
  match l with [] => [x] | y :: r => if bytes_leb x y then x :: l else y :: ins_b x r end.
Definition sort_b (l : list bytes) : list bytes := fold_right ins_b [] l.
(* keys of a map as ForEach orders them: by fmt.Sprint of the key, compared as byte strings *)
Definition map_items (v : val) : option (list (bytes * val)) :=
  match v with
  | VMap m => Some m
  | VMapS m => Some (map (fun kv => (fst kv, VStr (snd kv))) m)
  | VMapI m => Some (map (fun kv => (dec_Z (fst kv), snd kv)) m)
  | _ => None
  end.
Definition for_each_val (v : val) : list val :=
  match v with
  | VList l | VArr l => l
  | _ => match map_items v with Some m => map snd (sort_kv m) | None => [] end
  end.
Definition for_each (s : stack) (p : bytes) : list val :=
  match resolve s p with Some v => for_each_val v | None => [] end.
Definition for_each_map (s : stack) (p : bytes) : option (list bytes) :=
  match resolve s p with
  | Some (VMap m) => Some (sort_b (map (fun kv => show_obs (obs_of_val (snd kv))) m))
  | Some (VMapS m) => Some (sort_b (map (fun kv => show_obs (obs_of_val (VStr (snd kv)))) m))
  | Some (VMapI m) => Some (sort_b (map (fun kv => show_obs (obs_of_val (snd kv))) m))
  | _ => None
  end.

(* ---- histories over several stacks (Copy creates a new one) ---- *)
Inductive op :=
| OPush (m : scope) | OPop | OSet (k : bytes) (v : val)
| OLookup (k : bytes) | OResolve (p : bytes) | OEnvMap | OCopy | OSwitch (i : nat)
| OForEach (p : bytes) | OGetString (p : bytes) | OGetInt (p : bytes) | OGetSlice (p : bytes) | OGetMap (p : bytes)
| OSplit (p : bytes).
Record state := { stacks : list stack; cur : nat }.
Definition cur_stack (st : state) : stack :=
  nth (cur st) (stacks st) {| scopes := [[]]; root := VNil |}.
Fixpoint upd {A} (l : list A) (i : nat) (x : A) : list A :=
  match l, i with
  | [], _ => []
  | _ :: r, O => x :: r
  | y :: r, S i' => y :: upd r i' x
  end.
Definition with_cur (st : state) (s : stack) : state := {| stacks := upd (stacks st) (cur st) s; cur := cur st |}.
