(* loader.go:extractFrontMatter - where the front-matter block of a template file ends and its body begins.
   The YAML between the fences is parsed by yaml.v3 (not modelled); this is the split. *)
From V Require Import Base.Bytes.
Definition fence : bytes := [x2d; x2d; x2d].
(* the first line feed that is followed by three dashes: what stands before it, and what follows the dashes *)
Fixpoint find_fence (s acc : bytes) : option (bytes * bytes) :=
  match s with
  | [] => None
  | c :: r => if beq c x0a then match strip fence r with
                                | Some a => Some (rev acc, a)
                                | None => find_fence r (c :: acc)
                                end
              else find_fence r (c :: acc)
  end.
(* (the text between the fences, if the file has a block; the body) *)
Definition extract (s : bytes) : option bytes * bytes :=
  match strip fence s with
  | None => (None, s)
  | Some rest =>
      match find_fence rest [] with
      | None => (None, s)
      | Some (fm, after) => (Some fm, match after with c :: r => if beq c x0a then r else after | [] => [] end)
      end
  end.
