(* C05: components (eval_template.go:evalTemplate include branch, eval_include.go:evalInclude,
   node_processor.go:resolveComponentTags, template.go:WithComponents) over the stack model. *)
From V Require Import Base.Bytes Base.Obs Base.Val Model.Stack Model.Truthy Model.Loops.

(* an attribute of the include tag *)
Inductive pval :=
| PStatic (s : bytes)            (* name="text" *)
| PInterp (pre path post : bytes) (* name="pre{{ path }}post" *)
| PBound (path : bytes).         (* :name="path" *)
Inductive itpl :=
| INil
| IPrint (id : nat) (views : list view) (next : itpl)
| IInclude (file : bytes) (props : list (bytes * pval)) (next : itpl)
| ITag (tag : bytes) (props : list (bytes * pval)) (next : itpl).   (* registered shorthand <some-tag ...> *)
Record comp := { c_fm : scope; c_wrapper : bool; c_required : list bytes; c_body : itpl }.
Definition world := list (bytes * comp).

Inductive err := EMissing (file : bytes) | ERequired (name : bytes) | EUnknownTag (tag : bytes) | EFuel.
Inductive res (A : Type) := Ok (a : A) | Err (e : err).
Arguments Ok {A}. Arguments Err {A}.

(* evalAttributes on the include tag: static attributes are strings (interpolated when they contain
   a mustache), bound attributes keep the resolved value and are dropped when it is falsy or unresolved *)
Definition text_of (s : stack) (p : bytes) : bytes :=
  match resolve s p with Some v => if is_nil v then [] else sprint v | None => [] end.
Fixpoint eval_props (s : stack) (ps : list (bytes * pval)) : scope :=
  match ps with
  | [] => []
  | (n, PStatic t) :: r => put (eval_props s r) n (VStr t)
  | (n, PInterp a p b) :: r => put (eval_props s r) n (VStr (a ++ text_of s p ++ b))
  | (n, PBound p) :: r =>
      match resolve s p with
      | Some v => if truthy v then put (eval_props s r) n v else eval_props s r
      | None => eval_props s r
      end
  end.
Definition set_all (s : stack) (m : scope) : stack := fold_left (fun acc kv => set acc (fst kv) (snd kv)) m s.
Fixpoint first_missing (env : scope) (req : list bytes) : option bytes :=
  match req with
  | [] => None
  | n :: r => match assocb n env with Some _ => first_missing env r | None => Some n end
  end.

(* WithComponents: components/Dir/SomeName.vuego is registered as dir-some-name *)
Definition is_upper (c : byte) : bool := N.leb 65 (bN c) && N.leb (bN c) 90.
Definition to_lower (c : byte) : byte := match Byte.of_N (bN c + 32) with Some b => b | None => c end.
Fixpoint kebab (first : bool) (s : bytes) : bytes :=
  match s with
  | [] => []
  | c :: r => (if is_upper c then (if first then [] else [x2d]) ++ [to_lower c] else [c]) ++ kebab false r
  end.
Definition ends_with (s suf : bytes) : bool :=
  Nat.leb (length suf) (length s) && bytes_eqb (skipn (length s - length suf) s) suf.
Definition components_prefix := Eval cbv in bs "components/".
Definition tag_of_path (p : bytes) : option bytes :=
  match strip components_prefix p with
  | Some rest =>
      if ends_with rest (bs ".vuego")
      then Some (Val.join [x2d] (map (kebab true) (split_on x2f (firstn (length rest - 6) rest))))
      else None
  | None => None
  end.
Fixpoint file_of_tag (w : world) (tag : bytes) : option bytes :=
  match w with
  | [] => None
  | (f, _) :: r => match tag_of_path f with
                   | Some t => if bytes_eqb t tag then Some f else file_of_tag r tag
                   | None => file_of_tag r tag end
  end.

Section Eval.
Variable w : world.
Fixpoint eval (fuel : nat) (s : stack) (t : itpl) {struct fuel} : res (list record * stack) :=
  match fuel with
  | O => Err EFuel
  | S fu =>
      let include (file : bytes) (props : list (bytes * pval)) (next : itpl) :=
        match assocb file w with
        | None => Err (EMissing file)
        | Some c =>
            let s1 := set_all (push s (eval_props s props)) (c_fm c) in
            match (if c_wrapper c then first_missing (envmap s1) (c_required c) else None) with
            | Some n => Err (ERequired n)
            | None =>
                match eval fu s1 (c_body c) with
                | Err e => Err e
                | Ok (o, s2) =>
                    match eval fu (pop s2) next with
                    | Err e => Err e
                    | Ok (o', s3) => Ok (o ++ o', s3)
                    end
                end
            end
        end in
      match t with
      | INil => Ok ([], s)
      | IPrint id ws next =>
          match eval fu s next with Err e => Err e | Ok (o, s') => Ok (mkrec s id ws :: o, s') end
      | IInclude file props next => include file props next
      | ITag tag props next =>
          match file_of_tag w tag with
          | Some file => include file props next
          | None => Err (EUnknownTag tag)
          end
      end
  end.
End Eval.
