(* C16: v-once on the expanded instantiation forest (loops and includes unrolled; every
   element instance carries the key of its source v-once element, if any).
   eval_core.go:evaluate threads ctx.seen in document order and drops a marked element,
   with its subtree, when its key was already seen in this render. *)
From V Require Import Base.Bytes Base.Obs.
Definition key := bytes.
(* a forest in first-child / next-sibling form *)
Inductive forest := FNil | FNode (mark : option key) (label : nat) (kids : forest) (next : forest).
Definition memb (k : key) (l : list key) : bool := existsb (bytes_eqb k) l.
Fixpoint once (seen : list key) (f : forest) : list key * forest :=
  match f with
  | FNil => (seen, FNil)
  | FNode m lab kids next =>
      match m with
      | Some k =>
          if memb k seen then once seen next
          else let '(s1, ks) := once (k :: seen) kids in
               let '(s2, nx) := once s1 next in (s2, FNode m lab ks nx)
      | None =>
          let '(s1, ks) := once seen kids in
          let '(s2, nx) := once s1 next in (s2, FNode m lab ks nx)
      end
  end.
(* every render starts with an empty seen set *)
Definition render (f : forest) : forest := snd (once [] f).
Fixpoint marks (f : forest) : list key :=
  match f with
  | FNil => []
  | FNode m _ kids next => (match m with Some k => [k] | None => [] end) ++ marks kids ++ marks next
  end.
Fixpoint obs_of_forest (f : forest) : list obs :=
  match f with
  | FNil => []
  | FNode _ lab kids next => OL (ON lab :: obs_of_forest kids) :: obs_of_forest next
  end.
