(* C04 — the head of a v-for (eval_for.go:parseFor): "item in items", "(index, item) in items",
   "(item) in items", with any blanks around the names, the comma and the parentheses.
   Some (variables, collection expression) or None (the render fails). *)
From V Require Import Base.Bytes Model.Stack.
Definition s_in : bytes := Eval cbv in bs " in ".
(* strings.SplitN(s, " in ", 2): the text before the first " in " and the text after it *)
Fixpoint split_in (s : bytes) : option (bytes * bytes) :=
  match strip s_in s with
  | Some rest => Some ([], rest)
  | None => match s with
            | [] => None
            | c :: r => match split_in r with Some (a, b) => Some (c :: a, b) | None => None end
            end
  end.
Definition last_is (c : byte) (s : bytes) : bool := match rev s with x :: _ => beq x c | [] => false end.
Definition inner (s : bytes) : bytes := match s with _ :: r => removelast r | [] => [] end.   (* s[1 : len(s)-1] *)
Definition parse_for (s : bytes) : option (list bytes * bytes) :=
  match split_in (trim s) with
  | None => None
  | Some (l, r) =>
      let left := trim l in
      let vars := match left with
                  | c :: _ => if beq c x28 && last_is x29 left && Nat.leb 2 (length left)
                              then map trim (split_on x2c (trim (inner left))) else [left]
                  | [] => [left]
                  end in
      match vars with
      | [] => None
      | v :: _ => match v with [] => None | _ => Some (vars, trim r) end
      end
  end.
(* the loop then accepts one or two variables (evalFor: "v-for variables must be 1 or 2") *)
Definition loop_head (s : bytes) : option (list bytes * bytes) :=
  match parse_for s with
  | Some (vs, c) => if Nat.leb (length vs) 2 then Some (vs, c) else None
  | None => None
  end.
