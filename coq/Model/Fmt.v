(* C19 — the formatter's layout rules on parsed trees (formatter/formatter.go: formatNode,
   shouldKeepInline, allChildrenAreInline, renderInlineChildren, normalizeInlineText, escapeText,
   renderOpenTag, helpers.FormatAttr).  Whitespace is ASCII whitespace; comments, pre and raw-text
   elements are outside this model. *)
From Coq Require Import List Bool Arith.
Import ListNotations.
From V Require Import Base.Bytes Model.Escape Model.Tok.

(* strings.TrimSpace / strings.Fields / unicode.IsSpace on ASCII *)
Definition is_uws (c : byte) : bool := is_hws c || beq c x0b.
Fixpoint dropw (s : bytes) : bytes := match s with c :: r => if is_uws c then dropw r else s | [] => [] end.
Definition trimw (s : bytes) : bytes := rev (dropw (rev (dropw s))).
Definition nonempty (s : bytes) : bool := match s with [] => false | _ => true end.
Fixpoint split (s cur : bytes) : list bytes :=
  match s with
  | [] => if nonempty cur then [cur] else []
  | c :: r => if is_uws c then (if nonempty cur then cur :: split r [] else split r [])
              else split r (cur ++ [c])
  end.
Definition fields (s : bytes) := split s [].
Fixpoint join (l : list bytes) : bytes :=
  match l with [] => [] | w :: r => match r with [] => w | _ => w ++ [x20] ++ join r end end.
(* helpers.FormatAttr: trim, newlines to spaces, whitespace runs to one space *)
Definition format_attr (s : bytes) : bytes := join (fields s).

(* normalizeInlineText *)
Definition first_ws (s : bytes) : bool := match s with c :: _ => is_uws c | [] => false end.
Definition normalize_inline (s : bytes) : bytes :=
  match fields s with
  | [] => if nonempty s then [x20] else []
  | fs => (if first_ws s then [x20] else []) ++ join fs ++ (if first_ws (rev s) then [x20] else [])
  end.

(* escapeText: & < > escaped, a closed {{ ... }} region copied as it is *)
Fixpoint find_close (s : bytes) (acc : bytes) : option (bytes * bytes) :=   (* up to the first "}}" *)
  match s with
  | a :: r => match r with
              | b :: r' => if beq a x7d && beq b x7d then Some (acc, r') else find_close r (acc ++ [a])
              | [] => None
              end
  | [] => None
  end.
Definition esc_t1 (c : byte) : bytes :=
  if beq c x26 then bs "&amp;" else if beq c x3c then bs "&lt;" else if beq c x3e then bs "&gt;" else [c].
(* inside a copied expression a "<" that would open a tag, end tag, comment or processing instruction is
   written as a reference (an expression that holds a decodable character reference is re-encoded too;
   that rule needs the table of named references and is outside the model) *)
Definition tag_start (c : byte) : bool := is_alpha c || beq c x2f || beq c x21 || beq c x3f.
Fixpoint esc_must (s : bytes) : bytes :=
  match s with
  | a :: r => match r with
              | b :: _ => if beq a x3c && tag_start b then bs "&lt;" ++ esc_must r else a :: esc_must r
              | [] => [a]
              end
  | [] => []
  end.
Fixpoint esc_text (fuel : nat) (s : bytes) : bytes :=
  match fuel with O => [] | S f =>
  match s with
  | [] => []
  | a :: r =>
      match r with
      | b :: r' =>
          if beq a x7b && beq b x7b then
            match find_close r' [] with
            | Some (inside, rest) => esc_must ([x7b; x7b] ++ inside ++ [x7d; x7d]) ++ esc_text f rest
            | None => esc_t1 a ++ esc_text f r
            end
          else esc_t1 a ++ esc_text f r
      | [] => esc_t1 a
      end
  end end.
Definition escape_text (s : bytes) : bytes := esc_text (S (length s)) s.

(* the attribute escaping of renderOpenTag *)
Definition esc_a1 (c : byte) : bytes := if beq c x26 then bs "&amp;" else if beq c x22 then bs "&quot;" else [c].
Definition escape_attr (s : bytes) : bytes := flat_map esc_a1 s.
Definition fmt_attr (kv : bytes * bytes) : bytes :=
  let v := format_attr (snd kv) in
  [x20] ++ fst kv ++ (if nonempty v then [x3d; x22] ++ escape_attr v ++ [x22] else []).
Definition fmt_open (t : bytes) (a : attrs) : bytes := [x3c] ++ t ++ flat_map fmt_attr a ++ [x3e].
Definition fmt_close (t : bytes) : bytes := [x3c; x2f] ++ t ++ [x3e].

Section Layout.
Variables voids inlines phrasings : list bytes.    (* regenerated from the source: Gen/Sites_C19.v *)
Definition mem (t : bytes) (l : list bytes) : bool := existsb (bytes_eqb t) l.
Definition nonempty_l {A} (l : list A) : bool := match l with [] => false | _ => true end.
Definition is_elem (n : node) : bool := match n with Elem _ _ _ => true | _ => false end.
Definition ws_only (n : node) : bool := match n with Text s => negb (nonempty (trimw s)) | _ => false end.

Fixpoint all_inline (fuel : nat) (kids : list node) : bool :=
  forallb (fun c => match c with
                    | Text _ => true
                    | Elem t _ k =>
                        if mem t voids then true
                        else mem t inlines && match fuel with
                                              | O => negb (nonempty_l k)
                                              | S f => all_inline f k
                                              end
                    end) kids.
Definition keep_inline (fuel : nat) (t : bytes) (kids : list node) : bool :=
  if existsb is_elem kids then (mem t inlines || mem t phrasings) && all_inline fuel kids else true.

Fixpoint inline_children (fuel : nat) (kids : list node) : bytes :=
  match fuel with O => [] | S f =>
  trimw (flat_map (fun c => match c with
                            | Text s => escape_text (normalize_inline s)
                            | Elem t a k => fmt_open t a ++ (if mem t voids then [] else inline_children f k ++ fmt_close t)
                            end) kids)
  end.

Definition spaces (n : nat) : bytes := repeat x20 n.
Fixpoint fmt_node (fuel : nat) (depth : nat) (n : node) : bytes :=
  match fuel with O => [] | S f =>
  let indent := spaces (depth * 2) in
  match n with
  | Text s => let t := trimw s in if nonempty t then indent ++ escape_text t ++ [x0a] else []
  | Elem t a kids =>
      indent ++ fmt_open t a ++
      (if mem t voids then [x0a] else
       let children := filter (fun c => negb (ws_only c)) kids in
       match children with
       | [] => fmt_close t ++ [x0a]
       | _ => if keep_inline f t kids then inline_children f kids ++ fmt_close t ++ [x0a]
              else [x0a] ++ flat_map (fmt_node f (S depth)) children ++ indent ++ fmt_close t ++ [x0a]
       end)
  end end.

Fixpoint drop_nl (s : bytes) : bytes := match s with c :: r => if beq c x0a then drop_nl r else s | [] => [] end.
Definition trim_right_nl (s : bytes) : bytes := rev (drop_nl (rev s)).
Fixpoint depthn (n : node) : nat :=
  match n with Text _ => 1 | Elem _ _ k => S (fold_right (fun x a => Nat.max (depthn x) a) 0 k) end.
Definition forest_depth (k : list node) : nat := fold_right (fun x a => Nat.max (depthn x) a) 0 k.
(* formatFragment on the parsed nodes, final newline inserted *)
Definition format_forest (k : list node) : bytes :=
  trim_right_nl (flat_map (fmt_node (S (forest_depth k)) 0) k) ++ [x0a].
End Layout.
