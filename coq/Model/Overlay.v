(* C18: model of overlay_fs.go.  A layer is the finite table of what that layer
   itself answers (Open/Stat, ReadDir, Glob) on the queried universe; a missing
   key means the layer reported an error.  [None] in a layer list is a nil fs.FS. *)
From V Require Import Base.Bytes.

Record entry := { e_dir : bool; e_data : bytes }.      (* Stat().IsDir, file content (size = length) *)
Definition dirent := (bytes * bool)%type.                (* name, isDir *)
Record layer := {
  opens : list (bytes * entry);
  readdirs : list (bytes * list dirent);
  globs : list (bytes * list bytes) }.

Fixpoint assoc {A} (k : bytes) (l : list (bytes * A)) : option A :=
  match l with
  | [] => None
  | (k', v) :: r => if bytes_eqb k k' then Some v else assoc k r
  end.
Definition l_open (l : layer) p := assoc p (opens l).
Definition l_readdir (l : layer) d := assoc d (readdirs l).
Definition l_glob (l : layer) pat := match assoc pat (globs l) with Some m => m | None => [] end.

Definition layers := list (option layer).
Definition live (ls : layers) : list layer :=
  flat_map (fun o => match o with Some l => [l] | None => [] end) ls.

(* Open: first layer that opens the name *)
Fixpoint ov_open (ls : list layer) (p : bytes) : option entry :=
  match ls with
  | [] => None
  | l :: r => match l_open l p with Some e => Some e | None => ov_open r p end
  end.

(* ReadDir: merge, first layer wins per name, sort by name; error iff no layer has it *)
Definition has (n : bytes) (acc : list dirent) : bool := existsb (fun d => bytes_eqb (fst d) n) acc.
Fixpoint add_new (acc es : list dirent) : list dirent :=
  match es with
  | [] => acc
  | d :: r => if has (fst d) acc then add_new acc r else add_new (acc ++ [d]) r
  end.
Fixpoint merge (ls : list layer) (d : bytes) (acc : list dirent) (found : bool) : list dirent * bool :=
  match ls with
  | [] => (acc, found)
  | l :: r => match l_readdir l d with
              | Some es => merge r d (add_new acc es) true
              | None => merge r d acc found
              end
  end.
Fixpoint insert (d : dirent) (l : list dirent) : list dirent :=
  match l with
  | [] => [d]
  | x :: r => if bytes_leb (fst d) (fst x) then d :: l else x :: insert d r
  end.
Definition sort (l : list dirent) : list dirent := fold_right insert [] l.
Definition ov_readdir (ls : list layer) (d : bytes) : option (list dirent) :=
  let '(acc, found) := merge ls d [] false in if found then Some (sort acc) else None.

(* Glob: sorted union without duplicates; never an error *)
Fixpoint dedup (l : list bytes) : list bytes :=
  match l with [] => [] | x :: r => if existsb (bytes_eqb x) r then dedup r else x :: dedup r end.
Definition ov_glob (ls : list layer) (pat : bytes) : list bytes :=
  map fst (sort (map (fun n => (n, false)) (dedup (flat_map (fun l => l_glob l pat) ls)))).
