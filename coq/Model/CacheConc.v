(* C09 — cache transparency under every schedule, files changing underneath.
   Threads share a cache of a function of (file version, key): parsed templates by file name (version =
   modification time), compiled programs by expression text and split paths by path text (version
   constant).  A lookup is three separate steps - stat the file; read the cache under the read lock;
   on a miss load + store under the write lock - so other threads' steps and file modifications fall
   anywhere in between, fills interleave and overwrite one another. *)
From Coq Require Import List Bool Arith.
Import ListNotations.
Section C.
Variable value : Type.
Variable f : nat -> nat -> value.                 (* version -> key -> parse / compile / split: pure *)
Definition cache := nat -> option (nat * value).  (* key -> (recorded mtime, value) *)
Definition updc (c : cache) (k : nat) (e : nat * value) : cache := fun x => if Nat.eqb x k then Some e else c x.

Inductive phase := Idle | Statted (k m : nat) | Missed (k m : nat).
(* a finished lookup: key, file version when it started, file version when it finished, value returned *)
Definition result := (nat * nat * nat * value)%type.
Record tstate := { todo : list nat; ph : phase; results : list result }.
Record state := { shared : cache; ver : nat -> nat; threads : nat -> tstate }.
Definition updt (ts : nat -> tstate) (t : nat) (s : tstate) : nat -> tstate := fun u => if Nat.eqb u t then s else ts u.

Inductive event := Run (t : nat) | Touch (k : nat).   (* a thread step / the file behind key k is modified *)

Definition step (s : state) (e : event) : state :=
  match e with
  | Touch k => {| shared := shared s; ver := (fun x => if Nat.eqb x k then S (ver s x) else ver s x); threads := threads s |}
  | Run t =>
    let th := threads s t in
    match ph th with
    | Idle =>
        match todo th with
        | [] => s
        | k :: r => (* fs.Stat *)
            {| shared := shared s; ver := ver s;
               threads := updt (threads s) t {| todo := r; ph := Statted k (ver s k); results := results th |} |}
        end
    | Statted k m => (* read under the read lock; a hit needs the recorded mtime to equal the stat'ed one *)
        match shared s k with
        | Some (m', v) =>
            if Nat.eqb m' m
            then {| shared := shared s; ver := ver s;
                    threads := updt (threads s) t {| todo := todo th; ph := Idle; results := results th ++ [(k, m, ver s k, v)] |} |}
            else {| shared := shared s; ver := ver s;
                    threads := updt (threads s) t {| todo := todo th; ph := Missed k m; results := results th |} |}
        | None => {| shared := shared s; ver := ver s;
                     threads := updt (threads s) t {| todo := todo th; ph := Missed k m; results := results th |} |}
        end
    | Missed k m => (* load the file as it is NOW, store it under the stat'ed mtime (write lock), return it *)
        let v := f (ver s k) k in
        {| shared := updc (shared s) k (m, v); ver := ver s;
           threads := updt (threads s) t {| todo := todo th; ph := Idle; results := results th ++ [(k, m, ver s k, v)] |} |}
    end
  end.
Definition run (s : state) (schedule : list event) : state := fold_left step schedule s.
Definition init (c0 : cache) (v0 : nat -> nat) (work : nat -> list nat) : state :=
  {| shared := c0; ver := v0; threads := fun t => {| todo := work t; ph := Idle; results := [] |} |}.
End C.
