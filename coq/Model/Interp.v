(* interpolate.go: containsInterpolation and the mustache scanner of interpolateToWriter, for
   expressions that are plain paths (pipes, calls and operators are routed elsewhere: C13). *)
From V Require Import Base.Bytes Base.Val Model.Stack Model.Escape.

(* strings.Count / strings.Index for a two-byte pattern *)
Fixpoint count2 (a b : byte) (s : bytes) : nat :=
  match s with
  | x :: ((y :: r) as t) => if beq x a && beq y b then S (count2 a b r) else count2 a b t
  | _ => 0
  end.
Fixpoint find2 (a b : byte) (s : bytes) : option (bytes * bytes) :=   (* (before, after the pattern) *)
  match s with
  | x :: ((y :: r) as t) =>
      if beq x a && beq y b then Some ([], r)
      else match find2 a b t with Some (pre, post) => Some (x :: pre, post) | None => None end
  | _ => None
  end.
Definition contains_interpolation (s : bytes) : bool :=
  Nat.eqb (count2 x7b x7b s) (count2 x7d x7d s) && Nat.ltb 0 (count2 x7b x7b s).
Definition is_sp (c : byte) : bool := beq c x20 || beq c x09 || beq c x0a || beq c x0d.
Fixpoint drop_sp (s : bytes) : bytes := match s with [] => [] | c :: r => if is_sp c then drop_sp r else s end.
Definition trim_sp (s : bytes) : bytes := rev (drop_sp (rev (drop_sp s))).
(* an expression the scanner resolves itself: no pipe, no call, no operator surrounded by spaces *)
Definition simple_expr (e : bytes) : bool :=
  negb (mem_byte x7c e) && negb (mem_byte x28 e) && negb (mem_byte x20 e) && negb (mem_byte x3f e).
(* the printed value: nil and unresolved print nothing; everything else fmt.Sprint.  The value goes
   into the evaluated DOM raw: the serialiser is the single escaping point ([raw] is kept for the
   script/style case, where the serialiser does not escape either) *)
Definition print_value (raw : bool) (s : stack) (e : bytes) : bytes :=
  match resolve s e with
  | Some v => if is_nil v then [] else sprint v
  | None => []
  end.
Fixpoint interp_go (fuel : nat) (raw : bool) (s : stack) (input : bytes) : option bytes :=
  match fuel with
  | O => None
  | S f =>
      match find2 x7b x7b input with
      | None => Some input
      | Some (pre, rest) =>
          match find2 x7d x7d rest with
          | None => Some input                       (* no closing braces: the rest is copied *)
          | Some (e, rest') =>
              let e' := trim_sp e in
              if simple_expr e' then
                match interp_go f raw s rest' with
                | Some tl => Some (pre ++ print_value raw s e' ++ tl)
                | None => None
                end
              else None                              (* outside this model *)
          end
      end
  end.
(* Vue.interpolate *)
Definition interpolate (raw : bool) (s : stack) (input : bytes) : option bytes :=
  if contains_interpolation input then interp_go (S (length input)) raw s input else Some input.
