(* C20 — Markdown through the default templates.  The AST is the part of goldmark's AST the engine
   dispatches on (raw HTML is outside the model); [ref_*] is the reference DOM; [md_*] is the byte
   string the vuego path produces: every node rendered through its template, the rendered children
   concatenated and inserted raw through v-html, text escaped, bound attributes escaped by the
   serialiser, a falsy bound attribute omitted. *)
From Coq Require Import List Bool Arith.
Import ListNotations.
From V Require Import Base.Bytes Model.Escape Model.Tok.

Inductive inline :=
| IText (s : bytes)                        (* resolved text of a segment *)
| ICode (s : bytes)
| IEm (strong : bool) (l : list inline)
| ILink (href title : bytes) (l : list inline)
| IImage (src alt title : bytes)
| IAuto (href label : bytes)
| IDel (l : list inline)
| IBreak                                   (* hard line break *)
| ICheck (checked : bool).
Inductive block :=
| BPara (l : list inline)
| BText (l : list inline)                  (* the inline content of a tight list item *)
| BHeading (level : nat) (l : list inline)
| BCode (lang code : bytes)
| BQuote (b : list block)
| BList (ordered : bool) (start : nat) (items : list (list block))
| BHr
| BTable (head : list (bytes * list inline)) (rows : list (list (bytes * list inline))).   (* (align, cell) *)

Definition nonempty (s : bytes) : bool := match s with [] => false | _ => true end.
Definition opt_attr (k v : bytes) : attrs := if nonempty v then [(k, v)] else [].
Definition hname (level : nat) : bytes :=
  match level with 1 => bs "h1" | 2 => bs "h2" | 3 => bs "h3" | 4 => bs "h4" | 5 => bs "h5" | _ => bs "h6" end.
Definition check_attrs (c : bool) : attrs :=
  (bs "type", bs "checkbox") :: (if c then [(bs "checked", [])] else []) ++ [(bs "disabled", [])].

(* ---- the reference DOM ---- *)
Fixpoint ref_i (i : inline) : list node :=
  match i with
  | IText s => [Text s]
  | ICode s => [Elem (bs "code") [] [Text s]]
  | IEm st l => [Elem (if st then bs "strong" else bs "em") [] (flat_map ref_i l)]
  | ILink h t l => [Elem (bs "a") ((bs "href", h) :: opt_attr (bs "title") t) (flat_map ref_i l)]
  | IImage s a t => [Elem (bs "img") ((bs "src", s) :: opt_attr (bs "alt") a ++ opt_attr (bs "title") t) []]
  | IAuto h lbl => [Elem (bs "a") [(bs "href", h)] [Text lbl]]
  | IDel l => [Elem (bs "del") [] (flat_map ref_i l)]
  | IBreak => [Elem (bs "br") [] []]
  | ICheck c => [Elem (bs "input") (check_attrs c) []]
  end.
Definition ref_cell (tag : bytes) (c : bytes * list inline) : node :=
  Elem tag (opt_attr (bs "align") (fst c)) (flat_map ref_i (snd c)).
Fixpoint ref_b (b : block) : list node :=
  match b with
  | BPara l => [Elem (bs "p") [] (flat_map ref_i l)]
  | BText l => flat_map ref_i l
  | BHeading lv l => [Elem (hname lv) [] (flat_map ref_i l)]
  | BCode lang code =>
      [Elem (bs "pre") [] [Elem (bs "code") (if nonempty lang then [(bs "class", bs "language-" ++ lang)] else []) [Text code]]]
  | BQuote bl => [Elem (bs "blockquote") [] (flat_map ref_b bl)]
  | BList ord st items =>
      [Elem (if ord then bs "ol" else bs "ul") (if ord then [(bs "start", dec_nat st)] else [])
            (map (fun it => Elem (bs "li") [] (flat_map ref_b it)) items)]
  | BHr => [Elem (bs "hr") [] []]
  | BTable hd rows =>
      [Elem (bs "table") []
         [Elem (bs "thead") [] [Elem (bs "tr") [] (map (ref_cell (bs "th")) hd)];
          Elem (bs "tbody") [] (map (fun r => Elem (bs "tr") [] (map (ref_cell (bs "td")) r)) rows)]]
  end.

(* ---- the vuego path ---- *)
(* a template  <t attrs v-html="content"></t>  (or  <t attrs>{{ escaped }}</t>)  emits this *)
Definition tpl (t : bytes) (a : attrs) (content : bytes) : bytes :=
  [x3c] ++ t ++ ser_attrs a ++ [x3e] ++ content ++ [x3c; x2f] ++ t ++ [x3e].
Fixpoint md_i (i : inline) : bytes :=
  match i with
  | IText s => escape s
  | ICode s => tpl (bs "code") [] (escape s)
  | IEm st l => tpl (if st then bs "strong" else bs "em") [] (flat_map md_i l)
  | ILink h t l => tpl (bs "a") ((bs "href", h) :: opt_attr (bs "title") t) (flat_map md_i l)
  | IImage s a t => tpl (bs "img") ((bs "src", s) :: opt_attr (bs "alt") a ++ opt_attr (bs "title") t) []
  | IAuto h lbl => tpl (bs "a") [(bs "href", h)] (escape lbl)
  | IDel l => tpl (bs "del") [] (flat_map md_i l)
  | IBreak => tpl (bs "br") [] []
  | ICheck c => tpl (bs "input") (check_attrs c) []
  end.
Definition md_cell (tag : bytes) (c : bytes * list inline) : bytes :=
  tpl tag (opt_attr (bs "align") (fst c)) (flat_map md_i (snd c)).
Fixpoint md_b (b : block) : bytes :=
  match b with
  | BPara l => tpl (bs "p") [] (flat_map md_i l)
  | BText l => flat_map md_i l
  | BHeading lv l => tpl (hname lv) [] (flat_map md_i l)
  | BCode lang code =>
      tpl (bs "pre") [] (tpl (bs "code") (if nonempty lang then [(bs "class", bs "language-" ++ lang)] else []) (escape code))
  | BQuote bl => tpl (bs "blockquote") [] (flat_map md_b bl)
  | BList ord st items =>
      tpl (if ord then bs "ol" else bs "ul") (if ord then [(bs "start", dec_nat st)] else [])
          (flat_map (fun it => tpl (bs "li") [] (flat_map md_b it)) items)
  | BHr => tpl (bs "hr") [] []
  | BTable hd rows =>
      tpl (bs "table") []
        (tpl (bs "thead") [] (tpl (bs "tr") [] (flat_map (md_cell (bs "th")) hd)) ++
         tpl (bs "tbody") [] (flat_map (fun r => tpl (bs "tr") [] (flat_map (md_cell (bs "td")) r)) rows))
  end.
Definition md_doc (d : list block) : bytes := flat_map md_b d.
Definition ref_doc (d : list block) : list node := flat_map ref_b d.
