(* C07: template.Render's dispatch and the loop of template.layout
   (template_render.go, template_layout.go), generic in the per-file renderer. *)
From V Require Import Base.Bytes.

Definition env := list (bytes * bytes).
Fixpoint eget (e : env) (k : bytes) : option bytes :=
  match e with [] => None | (k', v) :: r => if bytes_eqb k' k then Some v else eget r k end.
Fixpoint edel (e : env) (k : bytes) : env :=
  match e with [] => [] | (k', v) :: r => if bytes_eqb k' k then edel r k else (k', v) :: edel r k end.
Definition eput (e : env) (k v : bytes) : env := (k, v) :: edel e k.
(* Fill(data) after Load: front-matter over data *)
Definition emerge (fm data : env) : env := fm ++ data.
Definition k_layout := Eval cbv in bs "layout".
Definition k_content := Eval cbv in bs "content".
(* Get("layout"): absent and empty both mean "no layout" *)
Definition layout_of (e : env) : option bytes :=
  match eget e k_layout with Some [] => None | o => o end.

Inductive outcome := Ok (b : bytes) | ErrDepth | ErrMissing | ErrRender.

Section Layout.
Variable files : bytes -> option env.                 (* None: the file does not exist; Some fm: its front-matter *)
Variable R : bytes -> env -> option bytes.            (* render one file in an environment; None = error *)
Variable resolve : bytes -> bytes -> bytes.           (* resolveLayoutPath layout current *)
Variable base : bytes.                                (* layouts/base.vuego *)

(* n = remaining budget (maxDepth - depth) *)
Fixpoint loop (n : nat) (f : bytes) (first : bool) (data : env) : outcome :=
  match n with
  | O => ErrDepth
  | S n' =>
      match files f with
      | None => ErrMissing
      | Some fm =>
          let e := emerge fm data in
          match R f e with
          | None => ErrRender
          | Some c =>
              let data' := edel (eput data k_content c) k_layout in
              match layout_of e with
              | Some l => loop n' (resolve l f) false data'
              | None => if first then loop n' base false data' else Ok c
              end
          end
      end
  end.

(* Render: the loop is entered when the loaded page names a layout or the default exists *)
Definition render_entry (maxd : nat) (f : bytes) (data : env) : outcome :=
  match files f with
  | None => ErrMissing
  | Some fm =>
      let e := emerge fm data in
      match layout_of e with
      | Some _ => loop maxd f true e
      | None => match files base with
                | Some _ => loop maxd f true e
                | None => match R f e with Some c => Ok c | None => ErrRender end
                end
      end
  end.

(* ---- specification: the chain of files, independent of rendering ---- *)
Inductive why := Done | Depth | Missing.
(* [dl]: a layout named by the data handed to the first link (later links only see their own front-matter) *)
Fixpoint walk (n : nat) (f : bytes) (first : bool) (dl : option bytes) : list bytes * why :=
  match n with
  | O => ([], Depth)
  | S n' =>
      match files f with
      | None => ([], Missing)
      | Some fm =>
          match (match layout_of fm with Some l => Some l | None => dl end) with
          | Some l => let '(fs, w) := walk n' (resolve l f) false None in (f :: fs, w)
          | None => if first then let '(fs, w) := walk n' base false None in (f :: fs, w) else ([f], Done)
          end
      end
  end.
(* fold the renderer along the chain, innermost (page) first: each link sees its own front-matter
   over the accumulated data, which carries the previous result as [content] and no [layout] *)
Fixpoint renders (fs : list bytes) (data : env) (last : option bytes) : option (option bytes) :=
  match fs with
  | [] => Some last
  | f :: r => match files f with
              | None => None
              | Some fm => match R f (emerge fm data) with
                           | Some c => renders r (edel (eput data k_content c) k_layout) (Some c)
                           | None => None end
              end
  end.
End Layout.

(* ---- resolveLayoutPath (for names without "." / ".." segments) ---- *)
Fixpoint last_slash (s : bytes) (acc cur : bytes) : option bytes :=
  (* acc: reversed prefix up to the last '/', cur: reversed prefix so far *)
  match s with
  | [] => match acc with [] => None | _ => Some (rev acc) end
  | c :: r => if beq c x2f then last_slash r cur (c :: cur) else last_slash r acc (c :: cur)
  end.
Definition dir (f : bytes) : bytes := match last_slash f [] [] with Some d => d | None => [x2e] end.
Definition join (d x : bytes) : bytes := if bytes_eqb d [x2e] then x else d ++ x2f :: x.
Definition ext := Eval cbv in bs ".vuego".
Definition layouts_dir := Eval cbv in bs "layouts/".
Definition has_suffix (s suf : bytes) : bool :=
  Nat.leb (length suf) (length s) && bytes_eqb (skipn (length s - length suf) s) suf.
Definition resolve_path (exists_ : bytes -> bool) (l cur : bytes) : bytes :=
  let d := dir cur in
  if has_suffix l ext && exists_ (join d l) then join d l
  else if exists_ (join d (l ++ ext)) then join d (l ++ ext)
  else layouts_dir ++ l ++ ext.
Definition base_file := Eval cbv in bs "layouts/base.vuego".
