(* C10: order-independence of the places that iterate over a Go map, and the pool invariant. *)
From Coq Require Import Sorting.Permutation.
From V Require Import Base.Bytes.

(* ---- classification of a `range` over a map (filled in by the translator) ---- *)
Inductive range_class :=
| RMerge                 (* the body only writes entries keyed by the loop key / fields of the entry's own value / deletes keys *)
| RSorted                (* the body collects into a slice that is sorted right after the loop *)
| ROther (why : bytes).  (* anything else: the result may depend on the iteration order *)
Definition range_site := (bytes * bytes * bytes * range_class)%type.   (* file, function, ranged expression, class *)
Definition order_free (s : range_site) : bool := match snd s with ROther _ => false | _ => true end.

(* ---- a merge site: for k, v := range entries { acc[k] = v } ---- *)
Section Merge.
Variable val : Type.
Definition smap := list (bytes * val).
Fixpoint sget (m : smap) (k : bytes) : option val :=
  match m with [] => None | (k', v) :: r => if bytes_eqb k' k then Some v else sget r k end.
Fixpoint sput (m : smap) (k : bytes) (v : val) : smap :=
  match m with
  | [] => [(k, v)]
  | (k', v') :: r => if bytes_eqb k' k then (k, v) :: r else (k', v') :: sput r k v
  end.
Definition merge (acc entries : smap) : smap := fold_left (fun a kv => sput a (fst kv) (snd kv)) entries acc.
(* the twin that is NOT order-free: appending what the iteration yields *)
Definition append_all (acc entries : smap) : smap := acc ++ entries.
End Merge.

(* ---- pooled scope maps: Push takes a map from the pool, Pop clears it and puts it back ---- *)
Section Pool.
Variable val : Type.
Definition pscope := list (bytes * val).
Record pstate := { pstack : list pscope; ppool : list pscope }.
Inductive pop_ := PPush | PPop | PSet (k : bytes) (v : val).
Definition pstep (s : pstate) (o : pop_) : pstate :=
  match o with
  | PPush => match ppool s with
             | m :: r => {| pstack := m :: pstack s; ppool := r |}      (* reuse *)
             | [] => {| pstack := [] :: pstack s; ppool := [] |}        (* New *)
             end
  | PPop => match pstack s with
            | _ :: r => {| pstack := r; ppool := [] :: ppool s |}       (* clear, then Put *)
            | [] => s
            end
  | PSet k v => match pstack s with
                | m :: r => {| pstack := ((k, v) :: m) :: r; ppool := ppool s |}
                | [] => s
                end
  end.
Definition pstep_fresh (st : list pscope) (o : pop_) : list pscope :=
  match o with
  | PPush => [] :: st
  | PPop => match st with _ :: r => r | [] => [] end
  | PSet k v => match st with m :: r => ((k, v) :: m) :: r | [] => [] end
  end.
Definition pool_clean (s : pstate) : Prop := Forall (fun m => m = []) (ppool s).
End Pool.
