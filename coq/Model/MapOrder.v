(* C10: order-independence of the places that iterate over a Go map, and the pool invariant. *)
From Coq Require Import Sorting.Permutation.
From V Require Import Base.Bytes.

(* ---- classification of a `range` over a map (filled in by the translator) ---- *)
Inductive range_class :=
| RMerge                 (* the body only writes entries keyed by the loop key / fields of the entry's own value / deletes keys *)
| RSorted                (* the body collects into a slice that is sorted right after the loop *)
| ROther (why : bytes).  (* anything else: the result may depend on the iteration order *)
Definition range_site := (bytes * bytes * bytes * range_class)%type.   (* file, function, ranged expression, class *)
Definition order_free (s : range_site) : bool := match snd s with ROther _ => false | _ => true end.

(* ---- a merge site: for k, v := range entries { acc[k] = v } ---- *)
Section Merge.
Variable val : Type.
Definition smap := list (bytes * val).
Fixpoint sget (m : smap) (k : bytes) : option val :=
  match m with [] => None | (k', v) :: r => if bytes_eqb k' k then Some v else sget r k end.
Fixpoint sput (m : smap) (k : bytes) (v : val) : smap :=
  match m with
  | [] => [(k, v)]
  | (k', v') :: r => if bytes_eqb k' k then (k, v) :: r else (k', v') :: sput r k v
  end.
Definition merge (acc entries : smap) : smap := fold_left (fun a kv => sput a (fst kv) (snd kv)) entries acc.
(* the twin that is NOT order-free: appending what the iteration yields *)
Definition append_all (acc entries : smap) : smap := acc ++ entries.
End Merge.

(* ---- pooled scope maps (stack.go: Push / Pop / Set and the process-wide mapPool) ----
   Push(nil) takes a map from the pool (or a new one); Push(m) puts the CALLER's map m on the stack;
   Pop clears a map and hands it to the pool only when it came from the pool, is not the bottom
   scope and is not empty; a caller's map is released as it is (with what was set while it was on
   top); popping the last scope leaves one new empty scope.  Scopes are association lists, newest
   binding first. *)
Section Pool.
Variable val : Type.
Definition pscope := list (bytes * val).
Inductive pkind := KPool | KOwn (id : nat) | KRoot.
Definition is_pool (k : pkind) : bool := match k with KPool => true | _ => false end.
Record pstate := { pstack : list (pscope * pkind);      (* top first *)
                   ppool : list pscope;                  (* what waits in the pool *)
                   pout : list (nat * pscope) }.         (* callers' maps as released, newest first *)
Inductive pop_ := PPush | PPushOwn (id : nat) (m : pscope) | PPop | PSet (k : bytes) (v : val).
Definition nonempty {A} (l : list A) : bool := match l with [] => false | _ => true end.
Definition released (k : pkind) (m : pscope) (out : list (nat * pscope)) :=
  match k with KOwn id => (id, m) :: out | _ => out end.
Definition refill (r : list (pscope * pkind)) := match r with [] => [([], KRoot)] | _ => r end.
Definition pstep (s : pstate) (o : pop_) : pstate :=
  match o with
  | PPush => match ppool s with
             | m :: r => {| pstack := (m, KPool) :: pstack s; ppool := r; pout := pout s |}      (* reuse *)
             | [] => {| pstack := ([], KPool) :: pstack s; ppool := []; pout := pout s |}        (* New *)
             end
  | PPushOwn id m => {| pstack := (m, KOwn id) :: pstack s; ppool := ppool s; pout := pout s |}
  | PPop => match pstack s with
            | (m, k) :: r =>
                {| pstack := refill r;
                   ppool := if is_pool k && nonempty r && nonempty m then [] :: ppool s else ppool s;  (* clear, then Put *)
                   pout := released k m (pout s) |}
            | [] => s
            end
  | PSet k v => match pstack s with
                | (m, kd) :: r => {| pstack := ((k, v) :: m, kd) :: r; ppool := ppool s; pout := pout s |}
                | [] => {| pstack := [([(k, v)], KRoot)]; ppool := ppool s; pout := pout s |}
                end
  end.
(* the specification: every Push(nil) gets a brand-new map and nothing is ever reused *)
Record fstate := { fstack : list (pscope * pkind); fout : list (nat * pscope) }.
Definition pstep_fresh (s : fstate) (o : pop_) : fstate :=
  match o with
  | PPush => {| fstack := ([], KPool) :: fstack s; fout := fout s |}
  | PPushOwn id m => {| fstack := (m, KOwn id) :: fstack s; fout := fout s |}
  | PPop => match fstack s with
            | (m, k) :: r => {| fstack := refill r; fout := released k m (fout s) |}
            | [] => s
            end
  | PSet k v => match fstack s with
                | (m, kd) :: r => {| fstack := ((k, v) :: m, kd) :: r; fout := fout s |}
                | [] => {| fstack := [([(k, v)], KRoot)]; fout := fout s |}
                end
  end.
Definition pview (s : pstate) : fstate := {| fstack := pstack s; fout := pout s |}.
Definition pool_clean (s : pstate) : Prop := Forall (fun m => m = []) (ppool s).
(* the twin that forgets to clear: Pop hands the map back as it is *)
Definition pstep_dirty (s : pstate) (o : pop_) : pstate :=
  match o with
  | PPop => match pstack s with
            | (m, k) :: r => {| pstack := refill r;
                                ppool := if is_pool k && nonempty r && nonempty m then m :: ppool s else ppool s;
                                pout := released k m (pout s) |}
            | [] => s
            end
  | _ => pstep s o
  end.
(* what a lookup sees: the newest binding of the key in the topmost scope that has one *)
Fixpoint plookup (st : list (pscope * pkind)) (k : bytes) : option val :=
  match st with
  | [] => None
  | (m, _) :: r => match sget val m k with Some v => Some v | None => plookup r k end
  end.
End Pool.
