(* C13: how an expression text is routed (internal/helpers/expr.go: IsFunctionCall, IsComplexExpr,
   NormalizeComparisonOperators; funcmap.go: parsePipeExpr, classifySegment, parseArgs, evalPipe,
   evalSegment, evalFilter; the position-specific fallbacks of interpolate.go, eval_attributes.go,
   eval_condition.go, eval_visibility.go).  The expr-lang evaluator and the registered functions
   are parameters. *)
From V Require Import Base.Bytes Base.Val Model.Stack Model.Truthy Model.Interp.

(* ---- predicates ---- *)
Definition is_alpha (c : byte) : bool := (N.leb 97 (bN c) && N.leb (bN c) 122) || (N.leb 65 (bN c) && N.leb (bN c) 90) || beq c x5f.
Definition is_digit (c : byte) : bool := N.leb 48 (bN c) && N.leb (bN c) 57.
Definition ident_char (first : bool) (c : byte) : bool := is_alpha c || (negb first && is_digit c).
Fixpoint is_identifier_from (first : bool) (s : bytes) : bool :=
  match s with [] => true | c :: r => ident_char first c && is_identifier_from false r end.
Definition is_identifier (s : bytes) : bool := match s with [] => false | _ => is_identifier_from true s end.
(* IsFunctionCall: identifier characters up to the first '(' , which must not be the first character *)
Fixpoint fn_call_scan (first : bool) (s : bytes) : bool :=
  match s with
  | [] => false
  | c :: r => if beq c x28 then negb first else if ident_char first c then fn_call_scan false r else false
  end.
Definition is_function_call (e : bytes) : bool := fn_call_scan true (trim e).
Definition ops_anywhere : list bytes := Eval cbv in map bs ["=="; "==="; "!="; "!=="; "<="; ">="; "&&"; "||"]%string.
Definition ops_spaced : list bytes := Eval cbv in map bs [" + "; " - "; " * "; " / "; " % "; " < "; " > "]%string.
Definition is_complex (s : bytes) : bool :=
  existsb (fun op => contains op s) ops_anywhere || existsb (fun op => contains op s) ops_spaced
  || (mem_byte x3f s && mem_byte x3a s).
(* NormalizeComparisonOperators: === -> ==, !== -> != , left to right *)
Fixpoint normalize_cmp (s : bytes) : bytes :=
  match s with
  | a :: ((b :: ((c :: r) as t2)) as t1) =>
      if beq b x3d && beq c x3d && (beq a x3d || beq a x21) then a :: x3d :: normalize_cmp r
      else a :: normalize_cmp t1
  | _ => s
  end.

(* ---- parsePipeExpr ---- *)
Inductive seg := SFilter (name : bytes) (args : list bytes) | SExpr (text : bytes).
Record pexpr := { p_initial : bytes; p_segs : list seg }.
Definition word_char (c : byte) : bool := is_alpha c || is_digit c.
Fixpoint span_word (s : bytes) : bytes * bytes :=
  match s with
  | c :: r => if word_char c then let '(w, t) := span_word r in (c :: w, t) else ([], s)
  | [] => ([], [])
  end.
(* filterRe = ^(\w+)(?:\((.*?)\))?$ : name and the text between the first '(' and a final ')' *)
Definition filter_match (s : bytes) : option (bytes * bytes) :=
  let '(w, t) := span_word s in
  match w, t with
  | [], _ => None
  | _, [] => Some (w, [])
  | _, c :: r => if beq c x28 then match rev r with d :: m => if beq d x29 then Some (w, rev m) else None | [] => None end
                 else None
  end.
(* parseArgs: split on commas outside quotes; the quote characters stay on the argument (resolveArgument tells a
   string literal by them) *)
Fixpoint parse_args_go (s : bytes) (q : option byte) (cur : bytes) : list bytes :=
  match s with
  | [] => match cur with [] => [] | _ => [trim (rev cur)] end
  | c :: r =>
      match q with
      | None => if beq c x22 || beq c x27 then parse_args_go r (Some c) (c :: cur)
                else if beq c x2c then (match cur with [] => [] | _ => [trim (rev cur)] end) ++ parse_args_go r None []
                else parse_args_go r None (c :: cur)
      | Some qc => if beq c qc then parse_args_go r None (c :: cur) else parse_args_go r q (c :: cur)
      end
  end.
Definition parse_args (s : bytes) : list bytes := parse_args_go (trim s) None [].
Definition classify_segment (part : bytes) : seg :=
  if is_complex part then SExpr part
  else match filter_match part with
       | Some (name, args) => if is_identifier name then SFilter name (match args with [] => [] | _ => parse_args args end) else SExpr part
       | None => SExpr part
       end.
Definition parse_pipe (e : bytes) : pexpr :=
  let t := trim e in
  if is_complex t then {| p_initial := []; p_segs := [SExpr t] |}
  else if negb (mem_byte x7c e) then
    match filter_match t with
    | Some (name, args) => {| p_initial := []; p_segs := [SFilter name (parse_args args)] |}
    | None => {| p_initial := t; p_segs := [] |}
    end
  else match split_on x7c e with
       | first :: rest =>
           (* a first part that is itself a call fn(args) is the first segment: called without a piped value *)
           let f := trim first in
           let segs := map (fun p => classify_segment (trim p)) rest in
           match rev f with
           | c :: _ => if beq c x29 then
                         match filter_match f with
                         | Some (name, args) => if is_identifier name then {| p_initial := []; p_segs := SFilter name (parse_args args) :: segs |}
                                                else {| p_initial := f; p_segs := segs |}
                         | None => {| p_initial := f; p_segs := segs |}
                         end
                       else {| p_initial := f; p_segs := segs |}
           | [] => {| p_initial := f; p_segs := segs |}
           end
       | [] => {| p_initial := []; p_segs := [] |}
       end.

(* ---- evaluation, generic in the expression evaluator and the registered functions ---- *)
Inductive xres := XVal (v : val) | XErr (named : option bytes).   (* an error, naming a function when one is involved *)
Section Eval.
Variable X : bytes -> stack -> option val -> xres.      (* expr-lang on a text, "." bound to the optional input *)
Variable call : bytes -> list val -> option xres.       (* a registered function applied to arguments; None = not registered *)
Variable s : stack.
(* resolveArgument: quoted literal, int, bool, variable, else the text itself (floats: not in the generated stream) *)
Definition resolve_argument (a : bytes) : val :=
  let a := trim a in
  match a with
  | q :: r => match rev r with
              | q' :: mid => if (beq q x22 && beq q' x22) || (beq q x27 && beq q' x27) then VStr (rev mid)
                             else match atoi a with Some z => VInt KInt z | None =>
                                    if bytes_eqb a (bs "true") then VBool true else if bytes_eqb a (bs "false") then VBool false
                                    else match resolve s a with Some v => v | None => VStr a end end
              | [] => match atoi a with Some z => VInt KInt z | None => match resolve s a with Some v => v | None => VStr a end end
              end
  | [] => VStr []
  end.
Definition eval_filter (name : bytes) (args : list bytes) (input : option val) (with_input : bool) : xres :=
  match call name ((if with_input then [match input with Some v => v | None => VNil end] else []) ++ map resolve_argument args) with
  | None => XErr (Some name)                      (* function '%s' not found *)
  | Some (XErr _) => XErr (Some name)             (* "%s(): ..." *)
  | Some (XVal v) => XVal v
  end.
Definition eval_segment (g : seg) (input : option val) (with_input : bool) : xres :=
  match g with
  | SFilter n a => eval_filter n a input with_input
  | SExpr t => X t s (match input with Some VNil => None | o => o end)
  end.
Fixpoint eval_rest (gs : list seg) (v : val) : xres :=
  match gs with
  | [] => XVal v
  | g :: r => match eval_segment g (Some v) true with XVal v' => eval_rest r v' | e => e end
  end.
Definition eval_pipe (p : pexpr) : xres :=
  match p_initial p, p_segs p with
  | [], g :: r => match eval_segment g None false with XVal v => eval_rest r v | e => e end
  | init, gs =>
      match resolve s init with
      | Some v => eval_rest gs v
      | None => match gs with [] => XErr None | _ => eval_rest gs VNil end
      end
  end.

(* ---- the positions ---- *)
Definition routed_to_pipe (e : bytes) : bool := mem_byte x7c e || is_function_call e || is_complex e.
(* {{ e }} (interpolateToWriter) and a bound attribute (evalBoundAttribute, for values that are neither
   mustache text nor object literals): the printed / bound value *)
Definition value_interp (e : bytes) : xres :=
  if routed_to_pipe e then eval_pipe (parse_pipe e)
  else XVal (match resolve s e with Some v => v | None => VNil end).
Definition value_bound (e : bytes) : xres :=
  if routed_to_pipe e then eval_pipe (parse_pipe e)
  else XVal (match resolve s e with Some v => v | None => VStr [] end).
(* v-if / v-else-if (evalConditionExpr) *)
Definition cond_if (e : bytes) : bool :=
  let e := normalize_cmp (trim e) in
  match X e s None with
  | XVal v => truthy v
  | XErr _ =>
      match e with
      | c :: inner =>
          if beq c x21 then
            let inner := trim inner in
            match X inner s None with
            | XVal v => negb (truthy v)
            | XErr _ => match resolve s inner with Some v => negb (truthy v) | None => true end
            end
          else match resolve s e with Some v => truthy v | None => false end
      | [] => false
      end
  end.
(* v-show (evalVShow) *)
Definition cond_show (e : bytes) : bool :=
  match X e s None with
  | XVal v => truthy v
  | XErr _ => match resolve s e with Some v => truthy v | None => false end
  end.
End Eval.
