(* C06: slots (slot_processor.go:extractSlotContent, eval_slot.go:evalSlot, eval_include.go)
   over the stack model.  Supplied content is a closure: it remembers how many scopes the
   includer had and the includer's own slot closure; every <slot> evaluates a fresh copy of it
   with exactly those scopes plus the props the slot binds. *)
From V Require Import Base.Bytes Base.Obs Base.Val Model.Stack Model.Truthy Model.Loops Model.Include.

(* how supplied content receives the slot's props *)
Inductive scoped := ScNone | ScVar (x : bytes) | ScDestr (names : list bytes).
Inductive stpl :=
| SNil
| SPrint (id : nat) (views : list view) (next : stpl)
| SSlot (name : bytes) (props : list (bytes * bytes)) (fallback : stpl) (next : stpl)   (* <slot name :k="path"> *)
| SFor (var : bytes) (coll : bytes) (body : stpl) (next : stpl)
| SInclude (file : bytes) (props : list (bytes * pval)) (supplied : list (bytes * scoped * stpl)) (next : stpl).
Definition supply := (bytes * scoped * stpl)%type.
Record scomp := { sc_fm : scope; sc_body : stpl }.
Definition sworld := list (bytes * scomp).
Inductive clo := Clo (supplied : list supply) (depth : nat) (outer : option clo).

Fixpoint find_supply (n : bytes) (l : list supply) : option (scoped * stpl) :=
  match l with
  | [] => None
  | (m, sc, t) :: r => if bytes_eqb m n then Some (sc, t) else find_supply n r
  end.
(* the props a slot binds: evaluated in the component's environment; nil / unresolved are not passed *)
Fixpoint slot_props (s : stack) (ps : list (bytes * bytes)) : scope :=
  match ps with
  | [] => []
  | (k, p) :: r => match resolve s p with
                   | Some v => if is_nil v then slot_props s r else put (slot_props s r) k v
                   | None => slot_props s r end
  end.
Definition bind_props (s : stack) (sc : scoped) (props : scope) : stack :=
  match sc with
  | ScNone => set_all s props
  | ScVar x => set s x (VMap props)
  | ScDestr names => fold_left (fun acc n => set acc n (match assocb n props with Some v => v | None => VNil end)) names s
  end.
(* the scopes the includer had: the lowest [depth] ones (scopes are innermost first) *)
Definition lower (depth : nat) (s : stack) : stack :=
  {| scopes := skipn (length (scopes s) - depth) (scopes s); root := root s |}.
Definition upper (depth : nat) (s : stack) : list scope := firstn (length (scopes s) - depth) (scopes s).
Definition restore (hidden : list scope) (s : stack) : stack := {| scopes := hidden ++ scopes s; root := root s |}.

Section Eval.
Variable w : sworld.
Fixpoint eval (fuel : nat) (s : stack) (c : option clo) (t : stpl) {struct fuel} : res (list record * stack) :=
  match fuel with
  | O => Err EFuel
  | S fu =>
      match t with
      | SNil => Ok ([], s)
      | SPrint id ws next =>
          match eval fu s c next with Err e => Err e | Ok (o, s') => Ok (mkrec s id ws :: o, s') end
      | SFor x coll body next =>
          let iter := fix it (s : stack) (items : list val) {struct items} : res (list record * stack) :=
            match items with
            | [] => Ok ([], s)
            | v :: r =>
                match eval fu (set (push s []) x v) c body with
                | Err e => Err e
                | Ok (o, s2) => match it (pop s2) r with Err e => Err e | Ok (o', s3) => Ok (o ++ o', s3) end
                end
            end in
          match iter s (for_each s coll) with
          | Err e => Err e
          | Ok (o, s1) => match eval fu s1 c next with Err e => Err e | Ok (o', s2) => Ok (o ++ o', s2) end
          end
      | SSlot name props fb next =>
          let filled :=
            match c with
            | Some (Clo sup depth outer) =>
                match find_supply name sup with
                | Some (sc, content) =>
                    let hidden := upper depth s in
                    let s1 := bind_props (push (lower depth s) []) sc (slot_props s props) in
                    Some (match eval fu s1 outer content with
                          | Err e => Err e
                          | Ok (o, s2) => Ok (o, restore hidden (pop s2))
                          end)
                | None => None
                end
            | None => None
            end in
          match (match filled with Some r => r | None => eval fu s c fb end) with
          | Err e => Err e
          | Ok (o, s1) => match eval fu s1 c next with Err e => Err e | Ok (o', s2) => Ok (o ++ o', s2) end
          end
      | SInclude file props sup next =>
          match assocb file w with
          | None => Err (EMissing file)
          | Some cp =>
              let s1 := set_all (push s (eval_props s props)) (sc_fm cp) in
              match eval fu s1 (Some (Clo sup (length (scopes s)) c)) (sc_body cp) with
              | Err e => Err e
              | Ok (o, s2) => match eval fu (pop s2) c next with Err e => Err e | Ok (o', s3) => Ok (o ++ o', s3) end
              end
          end
      end
  end.
End Eval.
