(* C11 — include recursion is bounded.  Files are lists of items; an item includes another file, plainly
   or wrapped in a loop / conditional element.  evalInclude refuses when the inclusion chain is longer
   than the limit; the budget d is (limit + 1 - chain length), so [render] is structurally recursive on d
   and total for EVERY file table, cyclic or not. *)
From Coq Require Import List Bool Arith.
Import ListNotations.
From V Require Import Base.Bytes.

Inductive item := IInc (g : nat) | ILoop (g : nat) | IIf (g : nat).
Definition target (i : item) : nat := match i with IInc g | ILoop g | IIf g => g end.
Definition files := list (list item).
Inductive res := Ok (out : bytes) | ErrDepth | ErrMissing.

Definition wrap (i : item) (b : bytes) : bytes :=
  match i with
  | IInc _ => b
  | ILoop _ => bs "<p>" ++ b ++ bs "</p>"
  | IIf _ => bs "<span>" ++ b ++ bs "</span>"
  end.

Section R.
Variable fs : files.
(* the items of a file are evaluated left to right; the first error aborts the render *)
Fixpoint items (rec : nat -> res) (its : list item) : res :=
  match its with
  | [] => Ok []
  | i :: r =>
      match rec (target i) with
      | Ok b => match items rec r with Ok b' => Ok (wrap i b ++ b') | e => e end
      | e => e
      end
  end.
Definition body (f : nat) (inner : res) : res :=
  match inner with Ok b => Ok (bs "<div>F" ++ dec_nat f ++ b ++ bs "</div>") | e => e end.
(* render d f: the file f evaluated when d more includes may still be nested *)
Fixpoint render (d : nat) (f : nat) : res :=
  match nth_error fs f with
  | None => ErrMissing
  | Some its =>
      body f (items (fun g => match d with O => ErrDepth | S d' => render d' g end) its)
  end.
End R.
