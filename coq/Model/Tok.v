(* The fragment of the HTML5 tokenizer that serialiser output reaches (data, tag open, tag name,
   attribute name / value states, bogus comment), a plain serialiser over DOM trees whose text
   nodes and attribute values hold raw strings, and the skeleton projection. *)
From V Require Import Base.Bytes Model.Escape.
Inductive token :=
| TStart (name : bytes) (attrs : list (bytes * bytes))
| TEnd (name : bytes)
| TText (raw : bytes).

Definition attrs := list (bytes * bytes).

Inductive st :=
| Data (txt : bytes)
| TagOpen (txt : bytes)
| EndTagOpen
| TagName (e : bool) (n : bytes) 
| BeforeAN (e : bool) (n : bytes) (a : attrs)
| AttrN (e : bool) (n : bytes) (a : attrs) (an : bytes)
| AfterAN (e : bool) (n : bytes) (a : attrs) (an : bytes)
| BeforeAV (e : bool) (n : bytes) (a : attrs) (an : bytes)
| AVdq (e : bool) (n : bytes) (a : attrs) (an av : bytes)
| AVsq (e : bool) (n : bytes) (a : attrs) (an av : bytes)
| AVunq (e : bool) (n : bytes) (a : attrs) (an av : bytes)
| AfterAVq (e : bool) (n : bytes) (a : attrs)
| Bogus.

Definition is_alpha (c : byte) : bool :=
  let n := Byte.to_N c in
  ((65 <=? n) && (n <=? 90) || (97 <=? n) && (n <=? 122))%N.
Definition is_hws (c : byte) : bool := beq c x20 || beq c x09 || beq c x0a || beq c x0c || beq c x0d.

Definition emit_text (txt : bytes) : list token := match txt with [] => [] | _ => [TText txt] end.
Definition emit_tag (e : bool) (n : bytes) (a : attrs) : list token :=
  if e then [TEnd n] else [TStart n a].

Definition step (s : st) (c : byte) : st * list token :=
  match s with
  | Data txt => if beq c x3c then (TagOpen txt, []) else (Data (txt ++ [c]), [])
  | TagOpen txt =>
      if is_alpha c then (TagName false [c], emit_text txt)
      else if beq c x2f then (EndTagOpen, emit_text txt)
      else if beq c x21 || beq c x3f then (Bogus, emit_text txt)
      else if beq c x3c then (TagOpen (txt ++ [x3c]), [])
      else (Data (txt ++ [x3c; c]), [])
  | EndTagOpen =>
      if is_alpha c then (TagName true [c], [])
      else if beq c x3e then (Data [], []) else (Bogus, [])
  | TagName e n =>
      if is_hws c || beq c x2f then (BeforeAN e n [], [])
      else if beq c x3e then (Data [], emit_tag e n [])
      else (TagName e (n ++ [c]), [])
  | BeforeAN e n a =>
      if is_hws c || beq c x2f then (BeforeAN e n a, [])
      else if beq c x3e then (Data [], emit_tag e n a)
      else (AttrN e n a [c], [])
  | AttrN e n a an =>
      if is_hws c then (AfterAN e n a an, [])
      else if beq c x2f then (BeforeAN e n (a ++ [(an, [])]), [])
      else if beq c x3e then (Data [], emit_tag e n (a ++ [(an, [])]))
      else if beq c x3d then (BeforeAV e n a an, [])
      else (AttrN e n a (an ++ [c]), [])
  | AfterAN e n a an =>
      if is_hws c then (AfterAN e n a an, [])
      else if beq c x2f then (BeforeAN e n (a ++ [(an, [])]), [])
      else if beq c x3e then (Data [], emit_tag e n (a ++ [(an, [])]))
      else if beq c x3d then (BeforeAV e n a an, [])
      else (AttrN e n (a ++ [(an, [])]) [c], [])
  | BeforeAV e n a an =>
      if is_hws c then (BeforeAV e n a an, [])
      else if beq c x22 then (AVdq e n a an [], [])
      else if beq c x27 then (AVsq e n a an [], [])
      else if beq c x3e then (Data [], emit_tag e n (a ++ [(an, [])]))
      else (AVunq e n a an [c], [])
  | AVdq e n a an av =>
      if beq c x22 then (AfterAVq e n (a ++ [(an, av)]), []) else (AVdq e n a an (av ++ [c]), [])
  | AVsq e n a an av =>
      if beq c x27 then (AfterAVq e n (a ++ [(an, av)]), []) else (AVsq e n a an (av ++ [c]), [])
  | AVunq e n a an av =>
      if is_hws c then (BeforeAN e n (a ++ [(an, av)]), [])
      else if beq c x3e then (Data [], emit_tag e n (a ++ [(an, av)]))
      else (AVunq e n a an (av ++ [c]), [])
  | AfterAVq e n a =>
      if is_hws c || beq c x2f then (BeforeAN e n a, [])
      else if beq c x3e then (Data [], emit_tag e n a)
      else (AttrN e n a [c], [])
  | Bogus => if beq c x3e then (Data [], []) else (Bogus, [])
  end.

Fixpoint run (s : st) (inp : bytes) : st * list token :=
  match inp with
  | [] => (s, [])
  | c :: r => let '(s1, o1) := step s c in let '(s2, o2) := run s1 r in (s2, o1 ++ o2)
  end.

(* ---- names ---- *)
Definition namech (c : byte) : bool := negb (is_hws c || beq c x2f) && negb (beq c x3e).
Definition anamech (c : byte) : bool := namech c && negb (beq c x3d).
Definition wf_tag (t : bytes) : bool :=
  match t with c :: r => is_alpha c && forallb namech r | [] => false end.
Definition wf_key (k : bytes) : bool :=
  match k with c :: r => anamech c && forallb anamech r | [] => false end.

(* ---- serialiser ---- *)
Inductive node := Text (s : bytes) | Elem (t : bytes) (a : attrs) (k : list node).

Definition ser_attr (kv : bytes * bytes) : bytes :=
  [x20] ++ fst kv ++ [x3d; x22] ++ escape (snd kv) ++ [x22].
Definition ser_attrs (a : attrs) : bytes := flat_map ser_attr a.
Fixpoint ser (n : node) : bytes :=
  match n with
  | Text s => escape s
  | Elem t a k => [x3c] ++ t ++ ser_attrs a ++ [x3e] ++ flat_map ser k ++ [x3c; x2f] ++ t ++ [x3e]
  end.

Fixpoint wf (n : node) : bool :=
  match n with
  | Text _ => true
  | Elem t a k => wf_tag t && forallb (fun kv => wf_key (fst kv)) a && forallb wf k
  end.

Inductive sk := SStart (t : bytes) (keys : list bytes) | SEnd (t : bytes).
Definition skel1 (tk : token) : list sk :=
  match tk with TStart t a => [SStart t (map fst a)] | TEnd t => [SEnd t] | TText _ => [] end.
Definition skel (l : list token) : list sk := flat_map skel1 l.
Fixpoint dskel (n : node) : list sk :=
  match n with
  | Text _ => []
  | Elem t a k => SStart t (map fst a) :: flat_map dskel k ++ [SEnd t]
  end.
