(* C01 / C02 — the content of <textarea> and <title> (RCDATA).  An HTML5 tokenizer reads such content
   as character data up to the first "</" followed by the element's own name in any letter case and
   then white space, "/" or ">" (x/net/html: readRawOrRCDATA / readRawEndTag); no other "<" means
   anything there.  The engine's serialiser escapes the text of these elements like any other text. *)
From V Require Import Base.Bytes Model.Escape Model.Tok.

Definition lowerN (n : N) : N := if ((65 <=? n) && (n <=? 90))%N then (n + 32)%N else n.
Definition beq_ci (a b : byte) : bool := N.eqb (lowerN (Byte.to_N a)) (lowerN (Byte.to_N b)).
Arguments beq_ci : simpl never.
Fixpoint strip_ci (p s : bytes) : option bytes :=
  match p, s with
  | [], _ => Some s
  | a :: p', b :: s' => if beq_ci a b then strip_ci p' s' else None
  | _, [] => None
  end.
(* does [s] begin with the end tag of [tag]? *)
Definition closes (tag s : bytes) : bool :=
  match strip_ci (x3c :: x2f :: tag) s with
  | Some (d :: _) => is_hws d || beq d x2f || beq d x3e
  | _ => false
  end.
(* the character data of the element, and what is left from its end tag on (None: never closed) *)
Fixpoint rc_split (tag s : bytes) {struct s} : bytes * option bytes :=
  match s with
  | [] => ([], None)
  | c :: r => if closes tag s then ([], Some s)
              else let '(t, k) := rc_split tag r in (c :: t, k)
  end.
Definition close_tag (tag : bytes) : bytes := [x3c; x2f] ++ tag ++ [x3e].
(* what a parser gives back as the element's text: the character data with references decoded *)
Definition rc_text (tag s : bytes) : bytes := unescape (fst (rc_split tag s)).
