(* C15: the template cache of vue.go (Vue.loadCachedWithFrontMatter) and the
   read-through paths (template.Load, evalInclude, RenderFragment -> loader.loadFragment)
   as a state machine over a filesystem with explicit modification times.
   Generic in the file contents and in the parser (front-matter + DOM). *)
From Coq Require Import List Bool Arith Lia.
Import ListNotations.

Section Cache.
Variables content parsed : Type.
Variable parse : content -> option parsed.   (* None: the file does not load (bad front-matter) *)
Definition name := nat.
Definition mtime := nat.                      (* 0 = the filesystem reports the zero time *)

Record state := { files : name -> option (content * mtime);
                  cache : name -> option (parsed * mtime) }.
Definition upd {A} (m : name -> option A) (k : name) (v : option A) : name -> option A :=
  fun x => if Nat.eqb x k then v else m x.

Inductive out := OOk (p : parsed) | OErr.

(* loader.loadFragment + parse: what Load, include and RenderFragment do, and what a new engine does *)
Definition read_through (fs : name -> option (content * mtime)) (f : name) : out :=
  match fs f with
  | Some (c, _) => match parse c with Some p => OOk p | None => OErr end
  | None => OErr
  end.

(* Vue.loadCachedWithFrontMatter: (new state, result, served from the cache?) *)
Definition reload (s : state) (f : name) (c : content) (t : mtime) : state * out * bool :=
  match parse c with
  | Some p => ({| files := files s; cache := upd (cache s) f (Some (p, t)) |}, OOk p, false)
  | None => (s, OErr, false)
  end.
Definition load_cached (s : state) (f : name) : state * out * bool :=
  match files s f with
  | None => (s, OErr, false)                    (* Stat fails: a miss; the read then fails *)
  | Some (c, t) =>
      match cache s f with
      | Some (p, tc) => if Nat.eqb t 0 || Nat.eqb tc t then (s, OOk p, true) else reload s f c t
      | None => reload s f c t
      end
  end.
(* the unrepaired tree: a Stat error left the current mtime zero, and zero means "always hit" *)
Definition load_cached_legacy (s : state) (f : name) : state * out * bool :=
  match files s f with
  | None => match cache s f with Some (p, _) => (s, OOk p, true) | None => (s, OErr, false) end
  | Some _ => load_cached s f
  end.

(* a render is a tree of file accesses: each goes through the cache or reads through, and
   what is accessed next may depend on what was loaded (a layout named in front-matter) *)
Inductive plan := Done | Access (f : name) (cached : bool) (k : out -> plan)
                | Probe (f : name) (k : bool -> plan).   (* Stat: does the file exist now?  (the default layout) *)
Definition exists_file (s : state) (f : name) : bool := match files s f with Some _ => true | None => false end.
Fixpoint run_plan (fuel : nat) (s : state) (p : plan) : state * list (name * out) :=
  match fuel, p with
  | S fu, Access f true k =>
      let '(s1, o, _) := load_cached s f in
      let '(s2, tr) := run_plan fu s1 (k o) in (s2, (f, o) :: tr)
  | S fu, Access f false k =>
      let o := read_through (files s) f in
      let '(s2, tr) := run_plan fu s (k o) in (s2, (f, o) :: tr)
  | S fu, Probe f k => run_plan fu s (k (exists_file s f))
  | _, _ => (s, [])
  end.

(* the same run, also recording which accesses were served from the cache (no file read) *)
Fixpoint run_plan_h (fuel : nat) (s : state) (p : plan) : state * list (name * out * bool) :=
  match fuel, p with
  | S fu, Access f true k =>
      let '(s1, o, h) := load_cached s f in
      let '(s2, tr) := run_plan_h fu s1 (k o) in (s2, (f, o, h) :: tr)
  | S fu, Access f false k =>
      let o := read_through (files s) f in
      let '(s2, tr) := run_plan_h fu s (k o) in (s2, (f, o, false) :: tr)
  | S fu, Probe f k => run_plan_h fu s (k (exists_file s f))
  | _, _ => (s, [])
  end.

Inductive op := Edit (f : name) (c : content) (t : mtime) | Delete (f : name) | Render (p : plan).
Definition plan_fuel := 16.
Definition step (s : state) (o : op) : state :=
  match o with
  | Edit f c t => {| files := upd (files s) f (Some (c, t)); cache := cache s |}
  | Delete f => {| files := upd (files s) f None; cache := cache s |}
  | Render p => fst (run_plan plan_fuel s p)
  end.
Definition init (fs : name -> option (content * mtime)) : state := {| files := fs; cache := fun _ => None |}.
Definition fresh (s : state) : state := init (files s).

(* the guard under which the property claims freshness: files carry a non-zero mtime and an
   edit never re-uses the mtime the cache currently remembers for that file *)
Definition guard (s : state) (o : op) : Prop :=
  match o with
  | Edit f _ t => t <> 0 /\ (forall p tc, cache s f = Some (p, tc) -> tc <> t)
  | _ => True
  end.
Fixpoint guarded (s : state) (ops : list op) : Prop :=
  match ops with [] => True | o :: r => guard s o /\ guarded (step s o) r end.
Definition coherent (s : state) : Prop :=
  forall f p tc c t, cache s f = Some (p, tc) -> files s f = Some (c, t) -> tc = t -> parse c = Some p.
Definition timed (s : state) : Prop := forall f c t, files s f = Some (c, t) -> t <> 0.
End Cache.
Arguments OOk {parsed}. Arguments OErr {parsed}.
Arguments Done {parsed}. Arguments Access {parsed}. Arguments Probe {parsed}.
Arguments Edit {content parsed}. Arguments Delete {content parsed}. Arguments Render {content parsed}.
