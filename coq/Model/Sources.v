(* C08: where a template's variables come from (template.go: NewFS/loadConfig, New, Load, Fill,
   Assign, Get; template_render.go / vue.go: the render's re-merge of front-matter), over the
   stack model. *)
From V Require Import Base.Bytes Base.Obs Base.Val Model.Stack Model.Truthy Model.Loops Model.Include.

Record tmpl := { t_stack : stack; t_fm : scope; t_file : option bytes }.
Record engine := { e_theme : scope; e_datafiles : list scope (* directory order *); e_files : list (bytes * scope) }.
(* loadConfig: theme.yml first, then data/*.yml in directory order, each overriding what is there *)
Definition config (e : engine) : scope := fold_left (fun acc f => overlay acc f) (e_datafiles e) (overlay [] (e_theme e)).
Definition data_map (d : val) : scope := match to_env d with VMap m => m | _ => [] end.   (* toMapData *)

Definition base (e : engine) : tmpl :=
  {| t_stack := {| scopes := [overlay [] (config e)]; root := VMap (config e) |}; t_fm := []; t_file := None |}.
Definition t_new (t : tmpl) : tmpl := {| t_stack := copy (t_stack t); t_fm := []; t_file := None |}.
Definition t_load (e : engine) (f : bytes) (t : tmpl) : tmpl :=
  let fm := match assocb f (e_files e) with Some m => m | None => [] end in
  {| t_stack := set_all (copy (t_stack t)) fm; t_fm := fm; t_file := Some f |}.
Definition t_fill (e : engine) (d : val) (t : tmpl) : tmpl :=
  {| t_stack := {| scopes := [overlay (overlay (overlay [] (config e)) (data_map d)) (t_fm t)]; root := d |};
     t_fm := t_fm t; t_file := t_file t |}.
Definition t_assign (k : bytes) (v : val) (t : tmpl) : tmpl :=
  {| t_stack := set (t_stack t) k v; t_fm := t_fm t; t_file := t_file t |}.
(* template.Get *)
Definition t_get (t : tmpl) (k : bytes) : bytes :=
  match lookup (t_stack t) k with Some v => if is_nil v then [] else sprint v | None => [] end.
(* the stack the evaluator starts from: file render = cached front-matter over the template's merged
   environment; string render = a copy of the template's stack *)
Definition render_stack (e : engine) (t : tmpl) : stack :=
  match t_file t with
  | Some f =>
      let fm := match assocb f (e_files e) with Some m => m | None => [] end in
      let m := overlay (envmap (t_stack t)) fm in
      {| scopes := [m]; root := VMap m |}
  | None => copy (t_stack t)
  end.
Definition string_stack (t : tmpl) : stack := copy (t_stack t).
(* what a probe in the rendered template shows of a key: {{ k }}, :attr="k", v-if="k" *)
Definition probe (s : stack) (k : bytes) : list bytes :=
  [show_view s (VText k); show_view s (VAttr k);
   if match assocb k (envmap s) with Some v => truthy v | None => false end then [x74] else [x66]].

Inductive op :=
| ONew (i : nat) | OLoad (i : nat) (f : bytes) | OFill (i : nat) (d : val) | OAssign (i : nat) (k : bytes) (v : val)
| OGet (i : nat) (k : bytes) | ORender (i : nat) | ORenderString (i : nat).
Definition state := list tmpl.
Definition dflt : tmpl := {| t_stack := {| scopes := [[]]; root := VNil |}; t_fm := []; t_file := None |}.
Definition step (e : engine) (keys : list bytes) (st : state) (o : op) : state * obs :=
  match o with
  | ONew i => (st ++ [t_new (nth i st dflt)], OL [])
  | OLoad i f => (st ++ [t_load e f (nth i st dflt)], OL [])
  | OFill i d => (upd st i (t_fill e d (nth i st dflt)), OL [])
  | OAssign i k v => (upd st i (t_assign k v (nth i st dflt)), OL [])
  | OGet i k => (st, OA (t_get (nth i st dflt) k))
  | ORender i => (st, OL (map (fun k => OL (map OA (probe (render_stack e (nth i st dflt)) k))) keys))
  | ORenderString i => (st, OL (map (fun k => OL (map OA (probe (string_stack (nth i st dflt)) k))) keys))
  end.
Fixpoint run_ops (e : engine) (keys : list bytes) (st : state) (ops : list op) : list obs :=
  match ops with
  | [] => []
  | o :: r => let '(st', ob) := step e keys st o in ob :: run_ops e keys st' r
  end.
