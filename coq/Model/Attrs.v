(* C14: eval_attributes.go (evalAttributes, evalBoundAttribute, evalObjectBinding, buildClassString,
   buildStyleString, camelToKebab, mergeStyles), eval_visibility.go (evalVShow, setStyleProperty),
   component.go (shouldIgnoreAttr, isLiteralAttr, renderAttrs) for one element. *)
From V Require Import Base.Bytes Base.Val Model.Stack Model.Truthy Model.Escape Model.Interp.

Inductive vexpr := ELit (v : val) | EPath (p : bytes).
Inductive asrc :=
| AStatic (k v : bytes)                         (* k="v" as written: plain, with mustaches, a directive, or [k] *)
| ABound (k p : bytes)                          (* :k="p" / v-bind:k="p", p a plain path *)
| ABoundInterp (k v : bytes)                    (* :k="text {{ p }} text" *)
| AObj (k : bytes) (pairs : list (bytes * vexpr)).  (* :k="{ key: value, ... }" *)
Definition attrs := list (bytes * bytes).

(* ---- CSS declarations (parseStyleDecls / setStyleDecl / joinStyleDecls) ---- *)
Fixpoint find1 (c : byte) (s : bytes) : option (bytes * bytes) :=
  match s with
  | [] => None
  | x :: r => if beq x c then Some ([], r)
              else match find1 c r with Some (a, b) => Some (x :: a, b) | None => None end
  end.
Fixpoint set_decl (ds : attrs) (k v : bytes) : attrs :=
  match ds with
  | [] => [(k, v)]
  | (k', v') :: r => if bytes_eqb k' k then (k', v) :: r else (k', v') :: set_decl r k v
  end.
Definition parse_decls (style : bytes) : attrs :=
  fold_left (fun ds part =>
               let part := trim part in
               match part with
               | [] => ds
               | _ => match find1 x3a part with
                      | Some (k, v) => set_decl ds (trim k) (trim v)
                      | None => ds end
               end) (split_on x3b style) [].
Definition join_decls (ds : attrs) : bytes := flat_map (fun kv => fst kv ++ x3a :: snd kv ++ [x3b]) ds.
Definition merge_styles (static bound : bytes) : bytes :=
  join_decls (fold_left (fun ds kv => set_decl ds (fst kv) (snd kv)) (parse_decls bound) (parse_decls static)).

(* ---- object syntax ---- *)
(* parseObjectPairs hands the value text to expr-lang first. A dotted path of plain names (with bracketed numeric
   indexes) is an expression: an unknown name or a missing key is nil there, without an error. A text that is not an
   expression - a numeric or hyphenated segment (list.0, m.is-open), a keyword of the language - is an error there,
   and the code falls back to the path resolver: the pair counts only when the path resolves. *)
Definition xp_alpha (c : byte) : bool := (N.leb 97 (bN c) && N.leb (bN c) 122) || (N.leb 65 (bN c) && N.leb (bN c) 90) || beq c x5f.
Definition xp_digit (c : byte) : bool := N.leb 48 (bN c) && N.leb (bN c) 57.
Fixpoint xp_index (s : bytes) (some : bool) : bool :=       (* digits] then nothing *)
  match s with
  | [] => false
  | c :: r => if beq c x5d then some && match r with [] => true | _ => false end
              else xp_digit c && xp_index r true
  end.
Fixpoint xp_name (s : bytes) (first : bool) : bool :=        (* name or name[digits] *)
  match s with
  | [] => negb first
  | c :: r => if beq c x5b then negb first && xp_index r false
              else (xp_alpha c || (negb first && xp_digit c)) && xp_name r false
  end.
(* words the expression language reserves; as the first name of a path they are not a variable (after a dot a word
   is a member name; the literals true / false / nil are not generated as paths) *)
Definition xp_keywords : list bytes := map bs ["not"; "in"; "let"; "and"; "or"; "if"; "else"; "matches"; "contains"]%string.
Fixpoint xp_split (s cur : bytes) : list bytes :=
  match s with
  | [] => [rev cur]
  | c :: r => if beq c x2e then rev cur :: xp_split r [] else xp_split r (c :: cur)
  end.
Definition expr_plain (p : bytes) : bool :=
  let segs := xp_split p [] in
  forallb (fun seg => xp_name seg true) segs &&
  match segs with first :: _ => negb (existsb (bytes_eqb first) xp_keywords) | [] => false end.
(* the text before the last dot: the value the last name is looked up in *)
Fixpoint xp_parent_go (s cur : bytes) (last : option bytes) : option bytes :=
  match s with
  | [] => last
  | c :: r => if beq c x2e then xp_parent_go r (c :: cur) (Some (rev cur)) else xp_parent_go r (c :: cur) last
  end.
Definition xp_parent (p : bytes) : option bytes := xp_parent_go p [] None.
(* ... where the expression's value for a path that does not resolve is nil only when the miss is the last step: an
   unknown root name, or a missing key of a map; a step through nil (or through something that is not a map) is an
   error of the expression, and the fallback resolver does not find the path either *)
Definition expr_path (s : stack) (p : bytes) : option val :=
  match resolve s p with
  | Some v => Some v
  | None => match xp_parent p with
            | None => Some VNil
            | Some q => match resolve s q with Some (VMap _) => Some VNil | _ => None end
            end
  end.
Definition eval_vexpr (s : stack) (e : vexpr) : option val :=
  match e with
  | ELit v => Some v
  | EPath p => if expr_plain p then expr_path s p else resolve s p
  end.
Definition is_upper (c : byte) : bool := N.leb 65 (bN c) && N.leb (bN c) 90.
Definition to_lower (c : byte) : byte := match Byte.of_N (bN c + 32) with Some b => b | None => c end.
Fixpoint camel_to_kebab (first : bool) (s : bytes) : bytes :=   (* eval_attributes.go:camelToKebab *)
  match s with
  | [] => []
  | c :: r => (if is_upper c && negb first then [x2d; to_lower c] else [c]) ++ camel_to_kebab false r
  end.
Definition is_quote (c : byte) : bool := beq c x22 || beq c x27.
Fixpoint drop_q (s : bytes) : bytes := match s with [] => [] | c :: r => if is_quote c then drop_q r else s end.
Definition trim_quotes (s : bytes) : bytes := rev (drop_q (rev (drop_q s))).
Definition class_of_pairs (s : stack) (ps : list (bytes * vexpr)) : bytes :=
  Val.join [x20] (flat_map (fun kv => match eval_vexpr s (snd kv) with
                                      | Some v => if truthy v then [fst kv] else []
                                      | None => [] end) ps).
Definition style_of_pairs (s : stack) (ps : list (bytes * vexpr)) : bytes :=
  flat_map (fun kv => match eval_vexpr s (snd kv) with
                      | Some v => if is_nil v then [] else
                          let value := trim_quotes (trim (sprint v)) in
                          match value with
                          | [] => []
                          | _ => (if mem_byte x2d (fst kv) then fst kv else camel_to_kebab true (fst kv)) ++ x3a :: value ++ [x3b]
                          end
                      | None => [] end) ps.
Definition other_of_pairs (s : stack) (ps : list (bytes * vexpr)) : bytes :=
  Val.join [x20] (flat_map (fun kv => match eval_vexpr s (snd kv) with
                                      | Some v => [fst kv ++ x3a :: sprint v]
                                      | None => [] end) ps).
Definition k_class := Eval cbv in bs "class".
Definition k_style := Eval cbv in bs "style".
Definition k_vshow := Eval cbv in bs "v-show".

(* ---- evalBoundAttribute ---- *)
Definition bound_value (s : stack) (a : asrc) : option (bytes * val) :=
  match a with
  | ABound k p => Some (k, match resolve s p with Some v => v | None => VStr [] end)
  | ABoundInterp k v => match interpolate false s (trim v) with Some t => Some (k, VStr t) | None => None end
  | AObj k ps => Some (k, VStr (if bytes_eqb k k_class then class_of_pairs s ps
                               else if bytes_eqb k k_style then style_of_pairs s ps
                               else other_of_pairs s ps))
  | AStatic _ _ => None
  end.

(* ---- evalVShow on the source attributes ---- *)
Fixpoint get_static (k : bytes) (l : list asrc) : option bytes :=
  match l with
  | [] => None
  | AStatic k' v :: r => if bytes_eqb k' k then Some v else get_static k r
  | _ :: r => get_static k r
  end.
Fixpoint set_static (k v : bytes) (l : list asrc) : list asrc :=
  match l with
  | [] => [AStatic k v]
  | AStatic k' v' :: r => if bytes_eqb k' k then AStatic k v :: r else AStatic k' v' :: set_static k v r
  | a :: r => a :: set_static k v r
  end.
Definition cond_truthy (s : stack) (p : bytes) : bool :=
  match resolve s p with Some v => truthy v | None => false end.
Definition eval_vshow (s : stack) (l : list asrc) : list asrc :=
  match get_static k_vshow l with
  | Some cond =>
      match cond with
      | [] => l
      | _ => if cond_truthy s cond then l
             else set_static k_style
                    (join_decls (set_decl (parse_decls (match get_static k_style l with Some v => v | None => [] end))
                                          (bs "display") (bs "none"))) l
      end
  | None => l
  end.

(* ---- evalAttributes ---- *)
(* first pass: static attributes (interpolated, trimmed) in order; bound results in first-seen order *)
Fixpoint put_keep_pos (m : list (bytes * val)) (k : bytes) (v : val) : list (bytes * val) :=
  match m with
  | [] => [(k, v)]
  | (k', v') :: r => if bytes_eqb k' k then (k', v) :: r else (k', v') :: put_keep_pos r k v
  end.
Fixpoint first_pass (s : stack) (l : list asrc) (stat : attrs) (bound : list (bytes * val)) : option (attrs * list (bytes * val)) :=
  match l with
  | [] => Some (stat, bound)
  | AStatic k v :: r =>
      match interpolate false s (trim v) with
      | Some t => first_pass s r (stat ++ [(k, t)]) bound
      | None => None
      end
  | a :: r =>
      match bound_value s a with
      | Some (k, v) => if truthy v then first_pass s r stat (put_keep_pos bound k v) else first_pass s r stat bound
      | None => None
      end
  end.
Fixpoint replace_first (k : bytes) (f : bytes -> bytes) (l : attrs) : option attrs :=
  match l with
  | [] => None
  | (k', v) :: r => if bytes_eqb k' k then Some ((k', f v) :: r)
                    else match replace_first k f r with Some r' => Some ((k', v) :: r') | None => None end
  end.
Definition merge_one (stat : attrs) (kv : bytes * val) : attrs :=
  let k := fst kv in let b := sprint (snd kv) in
  let f := if bytes_eqb k k_class then (fun st => st ++ x20 :: b)
           else if bytes_eqb k k_style then (fun st => merge_styles st b)
           else (fun _ => b) in
  match replace_first k f stat with
  | Some stat' => stat'
  | None => stat ++ [(k, b)]
  end.
Definition eval_attributes (s : stack) (l : list asrc) : option attrs :=
  match first_pass s l [] [] with
  | Some (stat, bound) => Some (fold_left merge_one bound stat)
  | None => None
  end.

(* ---- renderAttrs ---- *)
Definition directives : list bytes :=
  map bs ["v-if"; "v-keep"; "v-else-if"; "v-else"; "v-for"; "v-pre"; "v-html"; "v-text"; "v-show"; "v-once";
          "v-once-id"; "data-v-html-content"; "data-v-text-content"]%string.
Definition is_bracketed (k : bytes) : bool :=
  match k with c :: r => beq c x5b && (match rev r with d :: _ => beq d x5d | [] => false end) | [] => false end.
Definition unbracket (k : bytes) : bytes := match k with _ :: r => rev (tl (rev r)) | [] => [] end.
Definition ignored (k : bytes) : bool := negb (is_bracketed k) && existsb (bytes_eqb k) directives.
Definition render_attrs (l : attrs) : attrs :=
  flat_map (fun kv => if ignored (fst kv) then [] else [(if is_bracketed (fst kv) then unbracket (fst kv) else fst kv, snd kv)]) l.

(* the attributes of the rendered element, as an HTML parser reads them back (values unescaped) *)
Definition element_attrs (s : stack) (l : list asrc) : option attrs :=
  match eval_attributes s (eval_vshow s l) with
  | Some a => Some (render_attrs a)
  | None => None
  end.
