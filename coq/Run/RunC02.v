From V Require Import Base.Bytes Base.Obs Model.Escape Model.Tok Proofs.RoundTrip Proofs.Padded Proofs.Pretty Proofs.ReadBack.
(* the reading function of the round-trip theorems (tokenize, normalise whitespace, build the tree,
   decode references) applied to the bytes the implementation actually wrote *)
Record case := { c_kind : nat; c_out : bytes; c_dom : list node }.
Fixpoint obs_node (n : node) : obs :=
  match n with
  | Text s => OL [OS "t"; OA s]
  | Elem t a k => OL (OS "e" :: OA t :: OL (map (fun kv => OL [OA (fst kv); OA (snd kv)]) a) :: map obs_node k)
  end.
Definition run (c : case) : obs :=
  match c_kind c with
  | 0 =>
    match read (c_out c) with
    | Some f => if obs_eqb (OL (map obs_node f)) (OL (map obs_node (c_dom c))) then OL [OS "same"]
                else OL (OS "differs" :: map obs_node f)
    | None => OL [OS "unreadable"]
    end
  | _ => (* the model's pretty printer (the function pretty_read_back is about) on the engine's own DOM *)
    OA (flat_map (fun n => pretty (depth n) 0 n) (c_dom c))
  end.
