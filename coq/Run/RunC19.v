From V Require Import Base.Bytes Base.Obs.
Definition case := nat.
Definition run (c : case) : obs := OL [].
