From Coq Require Import List Arith.
Import ListNotations.
From V Require Import Base.Bytes Base.Obs Model.Escape Model.Tok Proofs.RoundTrip Model.Fmt Gen.Sites_C19.
(* kind 0: the model's layout of the parsed source, to be compared byte for byte with Format's output;
   kind 1: the bytes Format wrote are parsed by the model's own tokenizer and tree builder and laid out
           again by the model: must reproduce those bytes (idempotence, evaluated on real output) *)
Record case := { c_kind : nat; c_out : bytes; c_dom : list node }.
Definition fmt := format_forest voids inlines phrasings.
(* the model tokenizer / tree builder of C02 reads serialisations in which every element has an end tag
   and quotes are written &#34;: adapt the formatter's output language to it (void elements closed at
   once, &quot; read as &#34;) *)
Fixpoint requot (fuel : nat) (s : bytes) : bytes :=
  match fuel with O => s | S f =>
  match s with
  | [] => []
  | c :: r => match strip (bs "&quot;") s with
              | Some rest => bs "&#34;" ++ requot f rest
              | None => c :: requot f r
              end
  end end.
Definition rq (s : bytes) : bytes := requot (length s) s.
Definition fix_tok (t : token) : list token :=
  match t with
  | TStart n a => TStart n (map (fun kv => (fst kv, rq (snd kv))) a) :: (if mem n voids then [TEnd n] else [])
  | TText raw => [TText (rq raw)]
  | TEnd n => [TEnd n]
  end.
Definition run (c : case) : obs :=
  match c_kind c with
  | 0 => OA (fmt (c_dom c))
  | _ => match build (flat_map fix_tok (tokens (c_out c))) [] [] with
         | Some f => OA (fmt f)
         | None => OL [OS "unreadable"]
         end
  end.
