From V Require Import Base.Bytes Base.Obs Base.Val Model.Stack Model.Truthy Model.Loops Model.ForHead.
Inductive case :=
| CNest (c_data : val) (c_tpl : tpl)      (* a loop nest rendered on data *)
| CHead (s : bytes).                       (* the head of a v-for alone (eval_for.go:parseFor) *)
Definition run (c : case) : obs :=
  match c with
  | CNest d t => OL (map (fun r : record => OL (ON (fst r) :: map OA (snd r))) (fst (Loops.run (init_stack d) t)))
  | CHead s => match parse_for s with Some (vs, coll) => OL [OS "ok"; OL (map OA vs); OA coll] | None => OL [OS "error"] end
  end.
