From V Require Import Base.Bytes Base.Obs Base.Val Model.Stack Model.Truthy Model.Loops.
Record case := { c_data : val; c_tpl : tpl }.
Definition run (c : case) : obs :=
  OL (map (fun r : record => OL (ON (fst r) :: map OA (snd r))) (fst (Loops.run (init_stack (c_data c)) (c_tpl c)))).
