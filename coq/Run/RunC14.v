From V Require Import Base.Bytes Base.Obs Base.Val Model.Stack Model.Truthy Model.Loops Model.Attrs.
Record case := { c_data : val; c_attrs : list asrc }.
Definition run (c : case) : obs :=
  match element_attrs (init_stack (c_data c)) (c_attrs c) with
  | Some l => OL (map (fun kv => OL [OA (fst kv); OA (snd kv)]) l)
  | None => OL [OS "outside-model"]
  end.
