From V Require Import Base.Bytes Base.Obs Model.Layout Gen.Sites_C07.
(* a file: name, front-matter, does its body fail to render *)
Record file := { f_name : bytes; f_fm : env; f_fails : bool }.
Record case := { c_files : list file; c_page : bytes; c_data : env }.
Fixpoint find_file (fs : list file) (n : bytes) : option file :=
  match fs with [] => None | f :: r => if bytes_eqb (f_name f) n then Some f else find_file r n end.
Definition files_of (fs : list file) (n : bytes) : option env := option_map f_fm (find_file fs n).
Definition exists_in (fs : list file) (n : bytes) : bool := match find_file fs n with Some _ => true | None => false end.
Definition val_of (e : env) (k : bytes) : bytes := match eget e k with Some v => v | None => [] end.
(* every test file prints a record of what it sees, followed by the content it was given *)
Definition R_of (fs : list file) (n : bytes) (e : env) : option bytes :=
  match find_file fs n with
  | Some f => if f_fails f then None
              else Some (x5b :: n ++ x7c :: val_of e (bs "a") ++ x7c :: val_of e (bs "b") ++ x5d :: val_of e k_content)
  | None => None
  end.
Definition run (c : case) : obs :=
  match render_entry (files_of (c_files c)) (R_of (c_files c)) (resolve_path (exists_in (c_files c))) base_file
                     max_depth (c_page c) (c_data c) with
  | Ok b => OL [OS "ok"; OA b]
  | ErrDepth => OL [OS "depth"]
  | ErrMissing => OL [OS "missing"]
  | ErrRender => OL [OS "render"]
  end.
Definition F (n : bytes) (fm : env) (fails : bool) : file := {| f_name := n; f_fm := fm; f_fails := fails |}.
