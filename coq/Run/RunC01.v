From V Require Import Base.Bytes Base.Obs Model.Escape Model.Tok Model.Rcdata Model.Hole.
Inductive case :=
| CEscape (s : bytes)          (* html.EscapeString / escapeAttrValue / a serialised text node *)
| CTok (s : bytes)             (* the tokenizer fragment on an arbitrary string *)
| CRc (tag s : bytes)          (* the content of a <textarea> / <title>: character data, and whether its end tag was found *)
| CMini (W : list (env * list tnode)) (r : env) (t : list tnode).   (* the miniature evaluator of Model/Hole.v on concrete data; W: the component files *)
(* canonical print of a DOM: adjacent text merged, whitespace removed from text, empty text dropped *)
Definition strip_ws (s : bytes) : bytes := filter (fun c => negb (is_hws c)) s.
Inductive item := ITxt (s : bytes) | IEl (tag : bytes) (a : list (bytes * bytes)) (k : list item).
Fixpoint to_item (fuel : nat) (n : onode) : item :=
  match fuel with O => ITxt [] | S f =>
  match n with
  | OText h => ITxt (strip_ws (fill [] h))
  | OElem tag a kids => IEl tag (map (fun kv => (fst kv, fill [] (snd kv))) a) (map (to_item f) kids)
  end end.
Fixpoint merge_items (l : list item) : list item :=
  match l with
  | ITxt a :: r => match merge_items r with ITxt b :: r' => ITxt (a ++ b) :: r' | m => ITxt a :: m end
  | x :: r => x :: merge_items r
  | [] => []
  end.
Fixpoint show_item (fuel : nat) (i : item) : bytes :=
  match fuel with O => [] | S f =>
  match i with
  | ITxt [] => []
  | ITxt s => bs "[" ++ s ++ bs "]"
  | IEl tag a k =>
      bs "<" ++ tag ++ flat_map (fun kv => bs " " ++ fst kv ++ bs "=" ++ snd kv) a ++ bs ">" ++
      flat_map (show_item f) (merge_items k) ++ bs "</" ++ tag ++ bs ">"
  end end.
Definition obs_tok (t : token) : obs :=
  match t with
  | TStart n a => OL (OS "start" :: OA n :: map (fun kv => OA (fst kv)) a)
  | TEnd n => OL [OS "end"; OA n]
  | Tok.TText r => OL [OS "text"; OA r]
  end.
(* adjacent text tokens are merged: how a tokenizer chunks character data is not observable *)
Fixpoint merge_text (l : list token) : list token :=
  match l with
  | Tok.TText a :: r => match merge_text r with Tok.TText b :: r' => Tok.TText (a ++ b) :: r' | m => Tok.TText a :: m end
  | x :: r => x :: merge_text r
  | [] => []
  end.
Definition run (c : case) : obs :=
  match c with
  | CEscape s => OL [OA (escape s); OA (escape s); OA (escape s)]
  | CMini W r t =>
      match evals_with (eval W 40) CNone r t with
      | Ok d => OA (flat_map (show_item 40) (merge_items (map (to_item 40) d)))
      | _ => OL [OS "error"]
      end
  | CRc tag s => let '(t, k) := rc_split tag s in OL [OA t; OB (match k with Some _ => true | None => false end)]
  | CTok s =>
      let '(st, out) := Tok.run (Data []) s in
      let flush := match st with Data txt => emit_text txt | TagOpen txt => emit_text (txt ++ [x3c]) | _ => [] end in
      OL [OB (match st with Data _ | TagOpen _ => true | _ => false end); OL (map obs_tok (merge_text (out ++ flush)))]
  end.
