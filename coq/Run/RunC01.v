From V Require Import Base.Bytes Base.Obs Model.Escape Model.Tok.
Inductive case :=
| CEscape (s : bytes)          (* html.EscapeString / escapeAttrValue / a serialised text node *)
| CTok (s : bytes).            (* the tokenizer fragment on an arbitrary string *)
Definition obs_tok (t : token) : obs :=
  match t with
  | TStart n a => OL (OS "start" :: OA n :: map (fun kv => OA (fst kv)) a)
  | TEnd n => OL [OS "end"; OA n]
  | TText r => OL [OS "text"; OA r]
  end.
(* adjacent text tokens are merged: how a tokenizer chunks character data is not observable *)
Fixpoint merge_text (l : list token) : list token :=
  match l with
  | TText a :: r => match merge_text r with TText b :: r' => TText (a ++ b) :: r' | m => TText a :: m end
  | x :: r => x :: merge_text r
  | [] => []
  end.
Definition run (c : case) : obs :=
  match c with
  | CEscape s => OL [OA (escape s); OA (escape s); OA (escape s)]
  | CTok s =>
      let '(st, out) := Tok.run (Data []) s in
      let flush := match st with Data txt => emit_text txt | TagOpen txt => emit_text (txt ++ [x3c]) | _ => [] end in
      OL [OB (match st with Data _ | TagOpen _ => true | _ => false end); OL (map obs_tok (merge_text (out ++ flush)))]
  end.
