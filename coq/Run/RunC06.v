From V Require Import Base.Bytes Base.Obs Base.Val Model.Stack Model.Truthy Model.Loops Model.Include Model.Slots.
Record case := { c_world : sworld; c_data : val; c_page : stpl }.
Definition fuel := 400.
Definition run (c : case) : obs :=
  match eval (c_world c) fuel (init_stack (c_data c)) None (c_page c) with
  | Ok (recs, _) => OL (OS "ok" :: map (fun r : record => OL (ON (fst r) :: map OA (snd r))) recs)
  | Err (EMissing f) => OL [OS "err"; OS "missing"; OA f]
  | Err (ERequired n) => OL [OS "err"; OS "required"; OA n]
  | Err (EUnknownTag t) => OL [OS "err"; OS "unknown-tag"; OA t]
  | Err EFuel => OL [OS "err"; OS "fuel"]
  end.
Definition SC (fm : scope) (body : stpl) : scomp := {| sc_fm := fm; sc_body := body |}.
