From Coq Require Import List Arith.
Import ListNotations.
From V Require Import Base.Bytes Base.Obs Model.CacheConc.
(* sequential histories over the cache model: a lookup is run to completion (stat; read; on a miss load
   and store), modifications fall between lookups.  The value of a file is its (version, key) pair. *)
Inductive hev := HLookup (t k : nat) | HTouch (k : nat).
Definition case := list hev.
Definition f (v k : nat) : nat * nat := (k, v).
Definition lookup (s : state (nat * nat)) (t k : nat) : state (nat * nat) * option (nat * nat) :=
  (* give thread t the key, then step it until it is idle again *)
  let th := threads _ s t in
  let s0 := {| shared := shared _ s; ver := ver _ s;
               threads := updt _ (threads _ s) t {| todo := [k]; ph := Idle; results := [] |} |} in
  let s1 := step _ f s0 (Run t) in
  let s2 := step _ f s1 (Run t) in
  let s3 := match ph _ (threads _ s2 t) with Idle => s2 | _ => step _ f s2 (Run t) end in
  (s3, match results _ (threads _ s3 t) with [(_, _, _, v)] => Some v | _ => None end).
Fixpoint go (s : state (nat * nat)) (h : list hev) : list obs :=
  match h with
  | [] => []
  | HTouch k :: r => go (step _ f s (Touch k)) r
  | HLookup t k :: r =>
      let '(s', v) := lookup s t k in
      match v with
      | Some (k', ver') => OA (bs "<p>K" ++ dec_nat k' ++ bs "V" ++ dec_nat ver' ++ bs "</p>")
      | None => OA (bs "STUCK")
      end :: go s' r
  end.
Definition run (c : case) : obs :=
  OL (go (init _ (fun _ => None) (fun _ => 0) (fun _ => [])) c).
