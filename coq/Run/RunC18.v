From V Require Import Base.Bytes Base.Obs Model.Overlay.
Inductive query := QOpen (p : bytes) | QReadDir (d : bytes) | QGlob (pat : bytes).
Record case := { c_layers : layers; c_queries : list query }.
Definition run_query (ls : list layer) (q : query) : obs :=
  match q with
  | QOpen p => match ov_open ls p with
               | Some e => OL [OS "ok"; OB (e_dir e); OA (e_data e)]
               | None => OL [OS "notexist"] end
  | QReadDir d => match ov_readdir ls d with
                  | Some es => OL (OS "ok" :: map (fun e => OL [OA (fst e); OB (snd e)]) es)
                  | None => OL [OS "err"] end
  | QGlob pat => OL (map OA (ov_glob ls pat))
  end.
Definition run (c : case) : obs := OL (map (run_query (live (c_layers c))) (c_queries c)).
Definition L (o : list (bytes * (bool * bytes))) (r : list (bytes * list dirent)) (g : list (bytes * list bytes)) : option layer :=
  Some {| opens := map (fun x => (fst x, {| e_dir := fst (snd x); e_data := snd (snd x) |})) o;
          readdirs := r; globs := g |}.
