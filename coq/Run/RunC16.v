From V Require Import Base.Bytes Base.Obs Model.Once.
(* the expanded forest of one render: obtained from the implementation itself by rendering the
   same program with v-once renamed to a marker attribute that carries the source element's key *)
Record case := { c_expanded : forest }.
Definition run (c : case) : obs := OL (obs_of_forest (render (c_expanded c))).
