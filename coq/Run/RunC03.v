From V Require Import Base.Bytes Base.Obs Base.Val Model.Chain Model.Truthy.
Inductive case :=
| CChain (repeat : nat) (l : list node)           (* sibling list, rendered [repeat] times (inside a v-for) *)
| CTruthyFn (v : val)                             (* IsTruthy itself *)
| CPosition (p : position) (o : option val).      (* the value observed at a position *)
Fixpoint rep {A} (n : nat) (l : list A) : list A := match n with O => [] | S k => l ++ rep k l end.
Definition run (c : case) : obs :=
  match c with
  | CChain n l => OL (map ON (rep n (E l)))
  | CTruthyFn v => OB (truthy v)
  | CPosition p o => OB (effect p o)
  end.
