From V Require Import Base.Bytes Base.Obs Base.Val Model.Chain Model.Truthy.
Inductive case :=
| CChain (repeat : nat) (l : list node)           (* sibling list, rendered [repeat] times (inside a v-for) *)
| CChainT (repeat : nat) (vis : list id) (l : list node)
| CTruthyFn (v : val)                             (* IsTruthy itself *)
| CPosition (p : position) (o : option val).      (* the value observed at a position *)
Fixpoint rep {A} (n : nat) (l : list A) : list A := match n with O => [] | S k => l ++ rep k l end.
Definition run (c : case) : obs :=
  match c with
  | CChain n l => OL (map ON (rep n (E l)))
  | CChainT n vis l =>   (* with the rendered text: of the non-element nodes only those written as visible text can be observed *)
      OL (map (fun x : bool * id => if fst x then ON (snd x) else OL [OS "t"; ON (snd x)])
              (rep n (filter (fun x : bool * id => fst x || existsb (Nat.eqb (snd x)) vis) (ET l))))
  | CTruthyFn v => OB (truthy v)
  | CPosition p o => OB (effect p o)
  end.
