From V Require Import Base.Bytes Base.Obs Model.MapOrder.
(* histories on the real Stack (stack.go, with the process-wide sync.Pool behind Push(nil)) against the
   pool model: what every lookup sees after every step, and the caller-owned maps as they come back *)
Inductive cop := CO (o : pop_ bytes) | CLook (k : bytes).
Definition universe : list bytes := [bs "a"; bs "b"; bs "c"; bs "d"; bs "e"; bs "f"; bs "g"; bs "h"; bs "i"; bs "j"; bs "k"; bs "l"].
Definition obs_opt_b (o : option bytes) : obs := match o with Some v => OL [OS "some"; OA v] | None => OL [OS "none"] end.
Definition obs_scope (m : pscope bytes) : obs := OL (map (fun k => obs_opt_b (sget bytes m k)) universe).
Fixpoint run_ops (s : pstate bytes) (ops : list cop) : list obs :=
  match ops with
  | [] => [OL (map (fun im => OL [OA (dec_nat (fst im)); obs_scope (snd im)]) (rev (pout bytes s)))]
  | CO o :: r => run_ops (pstep bytes s o) r
  | CLook k :: r => obs_opt_b (plookup bytes (pstack bytes s) k) :: run_ops s r
  end.
Record case := { c_ops : list cop }.
Definition run (c : case) : obs :=
  OL (run_ops {| pstack := [([], KRoot)]; ppool := []; pout := [] |} (c_ops c)).
