From V Require Import Base.Bytes Base.Obs Model.Entry.
Record case := { c_cancelled : bool; c_entry : entry; c_fail_at : option nat }.
Definition run (c : case) : obs :=
  let r := run_entry (c_cancelled c) (c_entry c) (c_fail_at c) in
  OL [OA (fst r); OB (snd r)].
