From V Require Import Base.Bytes Base.Obs Base.Val Model.Stack Model.Truthy Model.Loops Model.Include Model.FrontMatter.
Record tree_case := { c_world : world; c_data : val; c_page : itpl }.
(* an include tree, or a file text whose front-matter block is to be told from its body *)
Inductive case := CTree (t : tree_case) | CSplit (s : bytes).
Definition fuel := 400.
(* the body alone is compared: it is the whole text exactly when no block was recognised (the hook's "has a block"
   answer is nil-ness of the parsed map, which a block holding the null document also gives) *)
Definition run_split (s : bytes) : obs := OL [OA (snd (extract s))].
Definition run_tree (c : tree_case) : obs :=
  match eval (c_world c) fuel (init_stack (c_data c)) (c_page c) with
  | Ok (recs, _) => OL (OS "ok" :: map (fun r : record => OL (ON (fst r) :: map OA (snd r))) recs)
  | Err (EMissing f) => OL [OS "err"; OS "missing"; OA f]
  | Err (ERequired n) => OL [OS "err"; OS "required"; OA n]
  | Err (EUnknownTag t) => OL [OS "err"; OS "unknown-tag"; OA t]
  | Err EFuel => OL [OS "err"; OS "fuel"]
  end.
Definition run (c : case) : obs := match c with CTree t => run_tree t | CSplit s => run_split s end.
Definition C (fm : scope) (wrapper : bool) (req : list bytes) (body : itpl) : comp :=
  {| c_fm := fm; c_wrapper := wrapper; c_required := req; c_body := body |}.
