From Coq Require Import List Bool Arith.
Import ListNotations.
From V Require Import Base.Bytes Base.Obs Model.Escape Model.Tok Proofs.RoundTrip Proofs.Padded Proofs.ReadBack Model.Md.
(* the bytes the engine wrote for a Markdown document are read by the model's reader (tokenize, trim,
   build, decode) and compared with the reference DOM the model assigns to the document's AST; both
   sides in canonical form: adjacent text merged, text trimmed, heading ids and start="1" dropped *)
Record case := { c_out : bytes; c_doc : list block }.
Definition is_heading (t : bytes) : bool :=
  match t with [a; b] => beq a x68 && (beq b x31 || beq b x32 || beq b x33 || beq b x34 || beq b x35 || beq b x36) | _ => false end.
Definition keep_attr (t : bytes) (kv : bytes * bytes) : bool :=
  negb (is_heading t && bytes_eqb (fst kv) (bs "id")) &&
  negb (bytes_eqb (fst kv) (bs "start") && bytes_eqb (snd kv) (bs "1")).
Fixpoint merge_text (k : list node) : list node :=
  match k with
  | Text a :: r => match merge_text r with Text b :: r' => Text (a ++ b) :: r' | r' => Text a :: r' end
  | n :: r => n :: merge_text r
  | [] => []
  end.
Fixpoint canon (fuel : nat) (n : node) : list node :=
  match fuel with O => [] | S f =>
  match n with
  | Text s => let t := htrim s in match t with [] => [] | _ => [Text t] end
  | Elem t a k => [Elem t (filter (keep_attr t) a) (flat_map (canon f) (merge_text k))]
  end end.
Fixpoint obs_node (fuel : nat) (n : node) : obs :=
  match fuel with O => OL [] | S f =>
  match n with
  | Text s => OL [OS "t"; OA s]
  | Elem t a k => OL (OS "e" :: OA t :: OL (map (fun kv => OL [OA (fst kv); OA (snd kv)]) a) :: map (obs_node f) k)
  end end.
Definition canon_forest (k : list node) : list node := flat_map (canon 60) (merge_text k).
Definition run (c : case) : obs :=
  match read (c_out c) with
  | Some f =>
      let got := OL (map (obs_node 60) (canon_forest f)) in
      let want := OL (map (obs_node 60) (canon_forest (ref_doc (c_doc c)))) in
      if obs_eqb got want then OL [OS "same"] else OL [OS "differs"; got; want]
  | None => OL [OS "unreadable"]
  end.
