From V Require Import Base.Bytes Base.Obs Base.Val Model.Stack Model.Truthy Model.Loops Model.Route.
Inductive pos := PInterp | PBound | PIf | PShow.
Inductive case :=
| CClassify (e : bytes)
| CPosition (p : pos) (e : bytes) (data : val) (xtab : list (bytes * option val)).   (* expr-lang's answers, supplied *)
Definition obs_seg (g : seg) : obs :=
  match g with
  | SFilter n a => OL (OS "filter" :: OA n :: map OA a)
  | SExpr t => OL [OS "expr"; OA t]
  end.
Definition X_of (tab : list (bytes * option val)) (e : bytes) (_ : stack) (_ : option val) : xres :=
  match assocb e tab with Some (Some v) => XVal v | _ => XErr None end.
Definition no_funcs (_ : bytes) (_ : list val) : option xres := None.
Definition show_x (r : xres) : obs :=
  match r with XVal v => OL [OS "val"; OA (if is_nil v then [] else sprint v)] | XErr _ => OL [OS "error"] end.
Definition run (c : case) : obs :=
  match c with
  | CClassify e =>
      let p := parse_pipe e in
      OL [OB (is_function_call e); OB (is_complex e); OA (normalize_cmp e); OA (p_initial p); OL (map obs_seg (p_segs p))]
  | CPosition p e data tab =>
      let s := init_stack data in
      match p with
      | PInterp => show_x (value_interp (X_of tab) no_funcs s e)
      | PBound => match value_bound (X_of tab) no_funcs s e with
                  | XVal v => OL [OS "attr"; OA (if truthy v then x3d :: sprint v else [x2d])]
                  | XErr _ => OL [OS "error"] end
      | PIf => OB (cond_if (X_of tab) s e)
      | PShow => OB (cond_show (X_of tab) s e)
      end
  end.
