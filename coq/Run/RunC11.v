From Coq Require Import List Arith.
Import ListNotations.
From V Require Import Base.Bytes Base.Obs Model.Depth Model.LayoutSlots Gen.Sites_C11.
(* an include graph rendered from its root file, the depth limit read from the source; or a table of slot
   contents a page hands to its layout, and that layout *)
Inductive case :=
| CGraph (c_files : files) (c_root : nat)
| CSlots (t : ltable) (layout : list litem).
(* a chain f0 -> f1 -> ... -> f(k) written compactly *)
Definition chain (k : nat) : files := map (fun i => [IInc (S i)]) (seq 0 k) ++ [[]].
Definition run (c : case) : obs :=
  match c with
  | CGraph fs root =>
      match render fs max_include_depth root with
      | Ok b => OL [OS "ok"; OA b]
      | ErrDepth => OL [OS "depth"]
      | ErrMissing => OL [OS "missing"]
      end
  | CSlots t layout =>
      match layout_slots t layout with
      | Some ids => OL [OS "ok"; OL (map ON ids)]
      | None => OL [OS "out-of-fuel"]
      end
  end.
