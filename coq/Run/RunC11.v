From Coq Require Import List Arith.
Import ListNotations.
From V Require Import Base.Bytes Base.Obs Model.Depth Gen.Sites_C11.
(* an include graph rendered from its root file, the depth limit read from the source *)
Record case := { c_files : files; c_root : nat }.
(* a chain f0 -> f1 -> ... -> f(k) written compactly *)
Definition chain (k : nat) : files := map (fun i => [IInc (S i)]) (seq 0 k) ++ [[]].
Definition run (c : case) : obs :=
  match render (c_files c) max_include_depth (c_root c) with
  | Ok b => OL [OS "ok"; OA b]
  | ErrDepth => OL [OS "depth"]
  | ErrMissing => OL [OS "missing"]
  end.
