From V Require Import Base.Bytes Base.Obs Model.Cache.
(* concrete instance: a file version is (content id, loads?) ; parsing yields the id *)
Definition content := (nat * bool)%type.
Definition parse (c : content) : option nat := if snd c then Some (fst c) else None.
Definition st := Cache.state content nat.
Definition PAGE := 0. Definition COMP := 1. Definition LAY := 2.
Definition stop_on_err (k : plan nat) (o : out nat) : plan nat := match o with OOk _ => k | OErr => Done end.
(* the access plans of the entry points, written down from template.go / template_render.go /
   template_layout.go / vue.go / eval_include.go *)
Definition eval_page : plan nat :=                     (* Vue.Render(page): cached page, then the include reads through *)
  Access PAGE true (stop_on_err (Access COMP false (fun _ => Done))).
Definition plan_vue_render := eval_page.
Definition plan_vue_fragment : plan nat :=              (* RenderFragment: no cache at all *)
  Access PAGE false (stop_on_err (Access COMP false (fun _ => Done))).
Definition plan_tpl_plain : plan nat :=                 (* Load(page).Render, no layout: Load reads, Render goes through the cache *)
  Access PAGE false (stop_on_err eval_page).
Definition plan_tpl_layout : plan nat :=                (* page declares layout: lay *)
  Access PAGE false (stop_on_err                        (* Load in the caller; Render returns its sticky error *)
   (Access PAGE false (fun _ =>                         (* Load in template.layout: its error is not looked at ... *)
    (Access PAGE true (stop_on_err                      (* ... renderWithoutLayout -> Vue.Render decides *)
     (Access COMP false (stop_on_err
      (Access LAY false (fun _ =>                       (* Load(layout), error not looked at *)
       (Access LAY true (fun _ => Done))))))))))).      (* Vue.Render(layout) *)
(* the page names no layout: Render asks the filesystem whether layouts/base.vuego exists (file LAY in this
   scenario) and takes the layout path with it, or the plain path without *)
Definition default_layout_path : plan nat :=
  let a4 := Access LAY true (fun _ => Done) in
  let a3 := Access LAY false (fun _ => a4) in
  let a2 := Access COMP false (stop_on_err a3) in
  let a1 := Access PAGE true (stop_on_err a2) in
  Access PAGE false (fun _ => a1).
Definition plan_tpl_default : plan nat :=
  Access PAGE false (stop_on_err (Probe LAY (fun b => if b then default_layout_path else eval_page))).
Inductive entry := VueRender | VueFragment | TplPlain | TplLayout | TplDefault.
Definition plan_of (e : entry) : plan nat :=
  match e with VueRender => plan_vue_render | VueFragment => plan_vue_fragment | TplPlain => plan_tpl_plain | TplLayout => plan_tpl_layout | TplDefault => plan_tpl_default end.

Inductive hop := HEdit (f : nat) (cid : nat) (valid : bool) (t : nat) | HDelete (f : nat) | HRender (e : entry).
Record case := { c_ops : list hop }.

Fixpoint last_of (f : nat) (tr : list (nat * out nat * bool)) (acc : obs) : obs :=
  match tr with
  | [] => acc
  | (g, o, _) :: r => last_of f r (if Nat.eqb g f then match o with OOk n => ON n | OErr => OS "err" end else acc)
  end.
Definition reads (f : nat) (tr : list (nat * out nat * bool)) : nat :=
  length (filter (fun x => Nat.eqb (fst (fst x)) f && negb (snd x)) tr).
(* a render fails iff the access it ended on failed (errors of Loads that the code does not
   look at are followed by another access) *)
Definition failed (tr : list (nat * out nat * bool)) : bool :=
  match rev tr with (_, OErr, _) :: _ => true | _ => false end.
Definition obs_render (tr : list (nat * out nat * bool)) : obs :=
  if failed tr then OL [OS "err"; OL [ON (reads PAGE tr); ON (reads COMP tr); ON (reads LAY tr)]]
  else OL [OS "ok"; last_of PAGE tr (OS "-"); last_of COMP tr (OS "-"); last_of LAY tr (OS "-");
           OL [ON (reads PAGE tr); ON (reads COMP tr); ON (reads LAY tr)]].
Fixpoint run_ops (s : st) (ops : list hop) : list obs :=
  match ops with
  | [] => []
  | HEdit f cid v t :: r => run_ops (step content nat parse s (Edit f (cid, v) t)) r
  | HDelete f :: r => run_ops (step content nat parse s (Delete f)) r
  | HRender e :: r =>
      let '(s', tr) := run_plan_h content nat parse plan_fuel s (plan_of e) in
      obs_render tr :: run_ops s' r
  end.
Definition run (c : case) : obs := OL (run_ops (init content nat (fun _ => None)) (c_ops c)).
