From V Require Import Base.Bytes Base.Obs Base.Val Model.Stack Model.Sources.
Record case := { c_engine : engine; c_keys : list bytes; c_ops : list op }.
Definition run (c : case) : obs := OL (run_ops (c_engine c) (c_keys c) [base (c_engine c)] (c_ops c)).
Definition E (theme : scope) (dfs : list scope) (files : list (bytes * scope)) : engine :=
  {| e_theme := theme; e_datafiles := dfs; e_files := files |}.
