From V Require Import Base.Bytes Base.Obs Base.Val Model.Stack.
Definition obs_list (l : list bytes) : obs := OL (map OA l).
Definition obs_env (m : scope) : obs := obs_of_val (VMap m).
Definition step (st : state) (o : op) : state * obs :=
  let s := cur_stack st in
  match o with
  | OPush m => (with_cur st (push s m), OL [])
  | OPop => (with_cur st (pop s), OL [])
  | OSet k v => (with_cur st (set s k v), OL [])
  | OLookup k => (st, obs_opt (lookup s k))
  | OResolve p => (st, obs_opt (resolve s p))
  | OEnvMap => (st, obs_env (envmap s))
  | OCopy => ({| stacks := stacks st ++ [copy s]; cur := cur st |}, OL [])
  | OSwitch i => ({| stacks := stacks st; cur := i |}, OL [])
  | OForEach p => (st, OL (map obs_of_val (for_each s p)))
  | OGetString p => (st, match resolve s p with
                          | Some v => if printable_val v
                                      then match get_string s p with Some x => OL [OS "some"; OA x] | None => OL [OS "none"] end
                                      else OL [OS "address-inside"]
                          | None => OL [OS "none"] end)
  | OGetInt p => (st, match resolve s p with
                       | Some (VFloat _ _ _) => OL [OS "float-not-modelled"]
                       | _ => match get_int s p with Some z => OL [OS "some"; OA (dec_Z z)] | None => OL [OS "none"] end
                       end)
  | OGetSlice p => (st, match get_slice s p with Some l => OL (OS "some" :: map obs_of_val l) | None => OL [OS "none"] end)
  | OGetMap p => (st, match get_map s p with Some m => OL [OS "some"; obs_env m] | None => OL [OS "none"] end)
  | OSplit p => (st, obs_list (split_path p))
  end.
Fixpoint run_ops (st : state) (ops : list op) : list obs :=
  match ops with
  | [] => []
  | o :: r => let '(st', ob) := step st o in ob :: run_ops st' r
  end.
Record case := { c_rootmap : scope; c_rootdata : val; c_ops : list op }.
Definition run (c : case) : obs :=
  OL (run_ops {| stacks := [{| scopes := [c_rootmap c]; root := c_rootdata c |}]; cur := 0 |} (c_ops c)).
