From Coq Require Import Sorting.Sorted Sorting.Permutation.
From V Require Import Base.Bytes Model.Overlay.

(* ---- Open ---- *)
Lemma open_first ls p e : ov_open ls p = Some e <->
  exists pre l post, ls = pre ++ l :: post /\ l_open l p = Some e /\
                     Forall (fun l' => l_open l' p = None) pre.
Proof.
  split.
  - induction ls as [|l r IH]; cbn; [discriminate|].
    destruct (l_open l p) eqn:E.
    + intros [= ->]. exists [], l, r. auto.
    + intro H. destruct (IH H) as (pre & l' & post & -> & Hl & Hp).
      exists (l :: pre), l', post. auto.
  - intros (pre & l & post & -> & Hl & Hp). induction Hp as [|x pre Hx _ IH]; cbn.
    + now rewrite Hl.
    + now rewrite Hx.
Qed.
Lemma open_none ls p : ov_open ls p = None <-> Forall (fun l => l_open l p = None) ls.
Proof.
  induction ls as [|l r IH]; cbn; [split; auto|].
  destruct (l_open l p) eqn:E; split.
  - discriminate.
  - intro H. inversion H. congruence.
  - intro H. constructor; [assumption|]. now apply IH.
  - intro H. inversion H. now apply IH.
Qed.
Lemma nil_skipped_open (ls : layers) p : ov_open (live (None :: ls)) p = ov_open (live ls) p.
Proof. reflexivity. Qed.
Lemma live_app a b : live (a ++ b) = live a ++ live b.
Proof. unfold live. apply flat_map_app. Qed.
Lemma nil_skipped_anywhere (a b : layers) : live (a ++ None :: b) = live (a ++ b).
Proof. rewrite !live_app. reflexivity. Qed.

(* ---- sorting ---- *)
Definition le_d (a b : dirent) : Prop := bytes_leb (fst a) (fst b) = true.
Lemma insert_perm d l : Permutation (insert d l) (d :: l).
Proof.
  induction l as [|x r IH]; cbn; [auto|]. destruct (bytes_leb (fst d) (fst x)); [auto|].
  rewrite IH. apply perm_swap.
Qed.
Lemma sort_perm l : Permutation (sort l) l.
Proof. induction l; cbn; [auto|]. rewrite insert_perm. auto. Qed.
Lemma insert_sorted d l : Sorted le_d l -> Sorted le_d (insert d l).
Proof.
  induction 1 as [|x r Hr IH Hx]; cbn; [repeat constructor|].
  destruct (bytes_leb (fst d) (fst x)) eqn:E.
  - repeat constructor; auto.
  - assert (le_d x d) as Hxd.
    { unfold le_d. destruct (bytes_leb_total (fst d) (fst x)); congruence. }
    constructor; [assumption|].
    destruct r as [|y r]; cbn in *.
    + constructor. exact Hxd.
    + destruct (bytes_leb (fst d) (fst y)); constructor; auto.
      inversion Hx; assumption.
Qed.
Lemma sort_sorted l : Sorted le_d (sort l).
Proof. induction l; cbn; [constructor|]. now apply insert_sorted. Qed.

(* ---- ReadDir ---- *)
Definition names (l : list dirent) := map fst l.
Definition lists (l : layer) (d : bytes) : bool :=
  match l_readdir l d with Some _ => true | None => false end.
Lemma merge_found ls d : forall acc f, snd (merge ls d acc f) = f || existsb (fun l => lists l d) ls.
Proof.
  unfold lists.
  induction ls as [|l r IH]; intros acc f; cbn; [now rewrite orb_false_r|].
  destruct (l_readdir l d); rewrite IH; cbn; [now rewrite orb_true_r|reflexivity].
Qed.
Lemma readdir_error_iff ls d : ov_readdir ls d = None <-> Forall (fun l => l_readdir l d = None) ls.
Proof.
  unfold ov_readdir. pose proof (merge_found ls d [] false) as H.
  destruct (merge ls d [] false) as [acc f]. cbn in H. subst f.
  rewrite Forall_forall. destruct (existsb _ ls) eqn:E.
  - split; [discriminate|]. intro Hn. apply existsb_exists in E. destruct E as [l [Hl Hs]].
    unfold lists in Hs. rewrite (Hn l Hl) in Hs. discriminate.
  - split; [|reflexivity]. intros _ l Hl. destruct (l_readdir l d) eqn:El; [|reflexivity].
    assert (existsb (fun l => lists l d) ls = true).
    { apply existsb_exists. exists l. unfold lists. now rewrite El. }
    congruence.
Qed.
Lemma readdir_sorted ls d es : ov_readdir ls d = Some es -> Sorted le_d es.
Proof.
  unfold ov_readdir. destruct (merge ls d [] false) as [acc f]. destruct f; [|discriminate].
  intros [= <-]. apply sort_sorted.
Qed.

Lemma has_spec n acc : has n acc = true <-> In n (names acc).
Proof.
  unfold has, names. rewrite existsb_exists, in_map_iff. split.
  - intros [d [Hd He]]. apply bytes_eqb_eq in He. eauto.
  - intros [d [He Hd]]. exists d. split; [assumption|]. now apply bytes_eqb_eq.
Qed.
Lemma has_false n acc : has n acc = false <-> ~ In n (names acc).
Proof. rewrite <- has_spec. destruct (has n acc); split; congruence. Qed.
Lemma nodup_snoc (l : list bytes) x : NoDup l -> ~ In x l -> NoDup (l ++ [x]).
Proof.
  induction 1 as [|y l Hy Hl IH]; intros Hx; cbn.
  - repeat constructor. auto.
  - constructor.
    + rewrite in_app_iff. cbn. intros [H|[H|[]]]; [auto|]. apply Hx. left. auto.
    + apply IH. intro H. apply Hx. right. auto.
Qed.

(* the entry served under a name: first entry of that name in a listing *)
Fixpoint first_named (n : bytes) (es : list dirent) : option dirent :=
  match es with
  | [] => None
  | e :: r => if bytes_eqb (fst e) n then Some e else first_named n r
  end.
Lemma first_named_None n es : first_named n es = None <-> ~ In n (names es).
Proof.
  induction es as [|e r IH]; cbn; [tauto|].
  destruct (bytes_eqb_spec (fst e) n).
  - split; [discriminate|]. intro H. exfalso. apply H. auto.
  - rewrite IH. tauto.
Qed.
Lemma first_named_Some n es e : first_named n es = Some e -> In e es /\ fst e = n.
Proof.
  induction es as [|x r IH]; cbn; [discriminate|].
  destruct (bytes_eqb_spec (fst x) n).
  - intros [= ->]. auto.
  - intro H. destruct (IH H). auto.
Qed.
(* spec of the shadowing union over the layers that list the directory *)
Fixpoint served (ls : list layer) (d n : bytes) : option dirent :=
  match ls with
  | [] => None
  | l :: r => match l_readdir l d with
              | Some es => match first_named n es with Some e => Some e | None => served r d n end
              | None => served r d n
              end
  end.
(* lookup in an accumulator with unique names *)
Notation acc_get := first_named (only parsing).
Lemma acc_get_app_l n a b e : acc_get n a = Some e -> acc_get n (a ++ b) = Some e.
Proof.
  induction a as [|x a IH]; cbn; [discriminate|].
  destruct (bytes_eqb (fst x) n); auto.
Qed.
Lemma acc_get_app_r n a b : acc_get n a = None -> acc_get n (a ++ b) = acc_get n b.
Proof.
  induction a as [|x a IH]; cbn; [reflexivity|].
  destruct (bytes_eqb (fst x) n); [discriminate|auto].
Qed.
Lemma add_new_get es : forall acc n,
  acc_get n (add_new acc es) =
  match acc_get n acc with Some e => Some e | None => first_named n es end.
Proof.
  induction es as [|x r IH]; intros acc n; cbn.
  - destruct (acc_get n acc); reflexivity.
  - destruct (has (fst x) acc) eqn:Hh.
    + rewrite IH. destruct (acc_get n acc) eqn:Ea; [reflexivity|].
      destruct (bytes_eqb_spec (fst x) n); [|reflexivity].
      exfalso. apply has_spec in Hh. subst n. apply first_named_None in Ea. auto.
    + rewrite IH. destruct (acc_get n acc) eqn:Ea.
      * now rewrite (acc_get_app_l _ _ _ _ Ea).
      * rewrite (acc_get_app_r _ _ _ Ea). unfold acc_get. cbn.
        destruct (bytes_eqb (fst x) n); reflexivity.
Qed.
Lemma merge_get ls d : forall acc f n,
  acc_get n (fst (merge ls d acc f)) =
  match acc_get n acc with Some e => Some e | None => served ls d n end.
Proof.
  induction ls as [|l r IH]; intros acc f n; cbn.
  - destruct (acc_get n acc); reflexivity.
  - destruct (l_readdir l d) as [es|].
    + rewrite IH, add_new_get. destruct (acc_get n acc); [reflexivity|].
      destruct (first_named n es); reflexivity.
    + apply IH.
Qed.
Lemma add_new_nodup es : forall acc, NoDup (names acc) -> NoDup (names (add_new acc es)).
Proof.
  induction es as [|d r IH]; intros acc H; cbn; [assumption|].
  destruct (has (fst d) acc) eqn:E; [auto|]. apply IH.
  unfold names. rewrite map_app. cbn. apply nodup_snoc; [assumption|].
  intro Hin. apply has_spec in Hin. congruence.
Qed.
Lemma merge_nodup ls d : forall acc f, NoDup (names acc) -> NoDup (names (fst (merge ls d acc f))).
Proof.
  induction ls as [|l r IH]; intros acc f H; cbn; [assumption|].
  destruct (l_readdir l d); apply IH; [now apply add_new_nodup|assumption].
Qed.
Lemma nodup_get_in acc : NoDup (names acc) -> forall e, In e acc <-> acc_get (fst e) acc = Some e.
Proof.
  induction acc as [|x acc IH]; cbn; intros Hn e.
  - split; [tauto|discriminate].
  - inversion Hn as [|? ? Hx Hn']; subst. destruct (bytes_eqb_spec (fst x) (fst e)) as [E|E].
    + split.
      * intros [->|H]; [reflexivity|]. exfalso. apply Hx. rewrite E. now apply in_map.
      * intros [= ->]. auto.
    + rewrite <- (IH Hn' e). split; [intros [->|H]; [congruence|assumption]|auto].
Qed.
Lemma readdir_names_unique ls d es : ov_readdir ls d = Some es -> NoDup (names es).
Proof.
  unfold ov_readdir. pose proof (merge_nodup ls d [] false (NoDup_nil _)) as H.
  destruct (merge ls d [] false) as [acc f]. destruct f; [|discriminate]. intros [= <-].
  cbn in H. unfold names in *. eapply Permutation_NoDup; [|exact H].
  apply Permutation_map. symmetry. apply sort_perm.
Qed.
(* the full characterisation of the listing's content *)
Lemma readdir_served ls d es : ov_readdir ls d = Some es ->
  forall e, In e es <-> served ls d (fst e) = Some e.
Proof.
  unfold ov_readdir.
  pose proof (merge_nodup ls d [] false (NoDup_nil _)) as Hn.
  pose proof (merge_get ls d [] false) as Hg.
  destruct (merge ls d [] false) as [acc f]. destruct f; [|discriminate]. intros [= <-] e.
  cbn in Hn, Hg. rewrite <- Hg. rewrite <- (nodup_get_in acc Hn e).
  split; apply Permutation_in; [apply sort_perm|symmetry; apply sort_perm].
Qed.
(* [served] is "the first layer, among those that list d, whose listing has the name" *)
Lemma served_first ls d n e : served ls d n = Some e <->
  exists pre l post es, ls = pre ++ l :: post /\ l_readdir l d = Some es /\ first_named n es = Some e /\
    Forall (fun l' => forall es', l_readdir l' d = Some es' -> ~ In n (names es')) pre.
Proof.
  split.
  - induction ls as [|l r IH]; cbn; [discriminate|].
    destruct (l_readdir l d) as [es|] eqn:El.
    + destruct (first_named n es) eqn:Ef.
      * intros [= ->]. exists [], l, r, es. auto.
      * intro H. destruct (IH H) as (pre & l' & post & es' & -> & H1 & H2 & H3).
        exists (l :: pre), l', post, es'. repeat split; auto. constructor; [|assumption].
        intros es0 E0. rewrite El in E0. injection E0 as <-. now apply first_named_None.
    + intro H. destruct (IH H) as (pre & l' & post & es' & -> & H1 & H2 & H3).
      exists (l :: pre), l', post, es'. repeat split; auto. constructor; [|assumption].
      intros es0 E0. congruence.
  - intros (pre & l & post & es & -> & H1 & H2 & H3). induction H3 as [|x pre Hx _ IH]; cbn.
    + now rewrite H1, H2.
    + destruct (l_readdir x d) as [esx|] eqn:Ex; [|assumption].
      specialize (Hx esx eq_refl). apply first_named_None in Hx. now rewrite Hx.
Qed.

(* ---- Glob ---- *)
Lemma dedup_in x l : In x (dedup l) <-> In x l.
Proof.
  induction l as [|y r IH]; cbn; [tauto|]. destruct (existsb (bytes_eqb y) r) eqn:E.
  - rewrite IH. split; [auto|]. intros [->|H]; [|assumption].
    apply existsb_exists in E. destruct E as [z [Hz Hq]]. apply bytes_eqb_eq in Hq. now subst.
  - cbn. rewrite IH. tauto.
Qed.
Lemma dedup_nodup l : NoDup (dedup l).
Proof.
  induction l as [|y r IH]; cbn; [constructor|]. destruct (existsb (bytes_eqb y) r) eqn:E; [assumption|].
  constructor; [|assumption]. rewrite dedup_in. intro H.
  assert (existsb (bytes_eqb y) r = true); [|congruence].
  apply existsb_exists. exists y. split; [assumption|apply bytes_eqb_refl].
Qed.
Lemma glob_union ls pat x : In x (ov_glob ls pat) <-> exists l, In l ls /\ In x (l_glob l pat).
Proof.
  unfold ov_glob. rewrite in_map_iff. split.
  - intros [[n b] [<- H]]. cbn. apply (Permutation_in _ (sort_perm _)) in H.
    apply in_map_iff in H. destruct H as [m [[= <- <-] H]]. rewrite dedup_in in H.
    apply in_flat_map in H. exact H.
  - intros [l [Hl Hx]]. exists (x, false). split; [reflexivity|].
    eapply Permutation_in; [symmetry; apply sort_perm|].
    apply (in_map (fun n => (n, false))). rewrite dedup_in.
    apply in_flat_map. eauto.
Qed.
Lemma glob_nodup ls pat : NoDup (ov_glob ls pat).
Proof.
  unfold ov_glob. set (l := dedup _). assert (NoDup l) as Hl by apply dedup_nodup.
  eapply Permutation_NoDup.
  - apply Permutation_map. symmetry. apply sort_perm.
  - rewrite map_map. cbn. now rewrite map_id.
Qed.
Lemma map_fst_sorted l : Sorted le_d l -> Sorted (fun a b => bytes_leb a b = true) (map fst l).
Proof.
  induction 1 as [|x r Hr IH Hx]; cbn; constructor; auto.
  destruct Hx; cbn; constructor. assumption.
Qed.
Lemma glob_sorted ls pat : Sorted (fun a b => bytes_leb a b = true) (ov_glob ls pat).
Proof. unfold ov_glob. apply map_fst_sorted, sort_sorted. Qed.
(* strictly increasing: sorted and duplicate-free *)

(* ---- an overlay used as a layer of another overlay ---- *)
(* the table of what the overlay of [ls] answers on given universes of names, directories and patterns *)
Definition as_layer (ls : list layer) (ps ds pats : list bytes) : layer :=
  {| opens := flat_map (fun p => match ov_open ls p with Some e => [(p, e)] | None => [] end) ps;
     readdirs := flat_map (fun d => match ov_readdir ls d with Some es => [(d, es)] | None => [] end) ds;
     globs := map (fun pat => (pat, ov_glob ls pat)) pats |}.
Definition mem (p : bytes) (ps : list bytes) : bool := existsb (bytes_eqb p) ps.

Lemma assoc_table {A} (f : bytes -> option A) p ps :
  assoc p (flat_map (fun q => match f q with Some e => [(q, e)] | None => [] end) ps) = if mem p ps then f p else None.
Proof.
  induction ps as [|q ps IH]; cbn; [reflexivity|].
  destruct (f q) as [e|] eqn:Eq; cbn.
  - destruct (bytes_eqb_spec p q) as [->|Hne]; cbn; [now rewrite Eq|exact IH].
  - rewrite IH. destruct (bytes_eqb_spec p q) as [->|Hne]; cbn; [|reflexivity].
    rewrite Eq. now destruct (mem q ps).
Qed.
Lemma as_layer_open ls ps ds pats p : mem p ps = true -> l_open (as_layer ls ps ds pats) p = ov_open ls p.
Proof. intro H. unfold l_open, as_layer. cbn [opens]. now rewrite assoc_table, H. Qed.
Lemma as_layer_readdir ls ps ds pats d : mem d ds = true -> l_readdir (as_layer ls ps ds pats) d = ov_readdir ls d.
Proof. intro H. unfold l_readdir, as_layer. cbn [readdirs]. now rewrite assoc_table, H. Qed.
Lemma as_layer_glob ls ps ds pats pat : mem pat pats = true -> l_glob (as_layer ls ps ds pats) pat = ov_glob ls pat.
Proof.
  unfold l_glob, as_layer. cbn [globs]. induction pats as [|q r IH]; intro H; [discriminate|]. cbn in *.
  destruct (bytes_eqb_spec pat q) as [E|Hne]; [now rewrite E|]. now apply IH.
Qed.

Lemma ov_open_app a b p : ov_open (a ++ b) p = match ov_open a p with Some e => Some e | None => ov_open b p end.
Proof. induction a as [|l a IH]; cbn; [reflexivity|]. now destruct (l_open l p). Qed.
(* Open through a nested overlay is Open on the flattened stack *)
Theorem nested_open a b ps ds pats p : mem p ps = true ->
  ov_open (as_layer a ps ds pats :: b) p = ov_open (a ++ b) p.
Proof. intro H. cbn [ov_open]. now rewrite (as_layer_open a ps ds pats p H), ov_open_app. Qed.

Lemma served_app a b d n : served (a ++ b) d n = match served a d n with Some e => Some e | None => served b d n end.
Proof.
  induction a as [|l a IH]; cbn; [reflexivity|].
  destruct (l_readdir l d) as [es|]; [|exact IH]. destruct (first_named n es); [reflexivity|exact IH].
Qed.
Lemma first_named_of_listing ls d es n : ov_readdir ls d = Some es -> first_named n es = served ls d n.
Proof.
  intro H. destruct (served ls d n) as [e|] eqn:Es.
  - assert (Hin : In e es).
    { apply (readdir_served ls d es H e). destruct (proj1 (served_first ls d n e) Es) as (pre & l & post & esl & _ & _ & Hf & _).
      destruct (first_named_Some _ _ _ Hf) as [_ Hn]. now rewrite Hn. }
    assert (Hfst : fst e = n).
    { destruct (proj1 (served_first ls d n e) Es) as (pre & l & post & esl & _ & _ & Hf & _). exact (proj2 (first_named_Some _ _ _ Hf)). }
    pose proof (readdir_names_unique ls d es H) as Hn.
    apply (nodup_get_in es Hn e) in Hin. now rewrite Hfst in Hin.
  - apply first_named_None. intro Hin. unfold names in Hin. apply in_map_iff in Hin. destruct Hin as [e [He Hie]].
    apply (readdir_served ls d es H e) in Hie. rewrite He in Hie. congruence.
Qed.
Lemma served_none_error ls d : ov_readdir ls d = None -> forall n, served ls d n = None.
Proof.
  intros H n. apply readdir_error_iff in H. induction H as [|l r Hl _ IH]; cbn; [reflexivity|]. now rewrite Hl.
Qed.
(* ReadDir through a nested overlay: the same names are served, each by the same entry, and it fails in the
   same cases, as on the flattened stack *)
Theorem nested_readdir_served a b ps ds pats d n : mem d ds = true ->
  served (as_layer a ps ds pats :: b) d n = served (a ++ b) d n.
Proof.
  intro H. cbn [served]. rewrite (as_layer_readdir a ps ds pats d H), served_app.
  destruct (ov_readdir a d) as [es|] eqn:E.
  - now rewrite (first_named_of_listing a d es n E).
  - now rewrite (served_none_error a d E n).
Qed.
Theorem nested_readdir_error a b ps ds pats d : mem d ds = true ->
  (ov_readdir (as_layer a ps ds pats :: b) d = None <-> ov_readdir (a ++ b) d = None).
Proof.
  intro H. rewrite !readdir_error_iff, Forall_app. split.
  - intro F. inversion F as [|x r Hx Hr]; subst. rewrite (as_layer_readdir a ps ds pats d H) in Hx.
    split; [now apply readdir_error_iff|assumption].
  - intros [Fa Fb]. constructor; [|assumption]. rewrite (as_layer_readdir a ps ds pats d H). now apply readdir_error_iff.
Qed.
Theorem nested_glob a b ps ds pats pat x : mem pat pats = true ->
  (In x (ov_glob (as_layer a ps ds pats :: b) pat) <-> In x (ov_glob (a ++ b) pat)).
Proof.
  intro H. rewrite !glob_union. split.
  - intros [l [[<-|Hl] Hx]].
    + rewrite (as_layer_glob a ps ds pats pat H) in Hx. apply glob_union in Hx. destruct Hx as [l' [Hl' Hx']].
      exists l'. split; [apply in_or_app; now left|assumption].
    + exists l. split; [apply in_or_app; now right|assumption].
  - intros [l [Hl Hx]]. apply in_app_or in Hl. destruct Hl as [Hl|Hl].
    + exists (as_layer a ps ds pats). split; [now left|]. rewrite (as_layer_glob a ps ds pats pat H). apply glob_union. eauto.
    + exists l. split; [now right|assumption].
Qed.
