From Coq Require Import List Bool Arith Lia.
Import ListNotations.
From V Require Import Model.Cache.

Section CacheP.
Variables content parsed : Type.
Variable parse : content -> option parsed.
Notation state := (state content parsed).
Notation load_cached := (load_cached content parsed parse).
Notation read_through := (read_through content parsed parse).
Notation run_plan := (run_plan content parsed parse).
Notation step := (step content parsed parse).
Notation coherent := (coherent content parsed parse).
Notation timed := (timed content parsed).
Notation guard := (guard content parsed).
Notation guarded := (guarded content parsed parse).

Lemma upd_same {A} (m : name -> option A) k v : upd m k v k = v.
Proof. unfold upd. now rewrite Nat.eqb_refl. Qed.
Lemma upd_other {A} (m : name -> option A) k v x : x <> k -> upd m k v x = m x.
Proof. unfold upd. intro H. apply Nat.eqb_neq in H. now rewrite H. Qed.

Lemma reload_files s f c t : files _ _ (fst (fst (reload content parsed parse s f c t))) = files _ _ s.
Proof. unfold reload. destruct (parse c); reflexivity. Qed.
Lemma load_cached_files s f : files _ _ (fst (fst (load_cached s f))) = files _ _ s.
Proof.
  unfold load_cached. destruct (files _ _ s f) as [[c t]|]; [|reflexivity].
  destruct (cache _ _ s f) as [[p tc]|]; [destruct (Nat.eqb t 0 || Nat.eqb tc t); [reflexivity|]|]; apply reload_files.
Qed.
Lemma reload_coherent s f c t : coherent s -> files _ _ s f = Some (c, t) ->
  coherent (fst (fst (reload content parsed parse s f c t))).
Proof.
  intros Hc Ef. unfold reload. destruct (parse c) as [p|] eqn:Ep; [|exact Hc].
  intros g p' tc c' t' Hca Hfi Heq. cbn in *. destruct (Nat.eq_dec g f) as [->|Hne].
  - rewrite upd_same in Hca. injection Hca as <- <-. congruence.
  - rewrite upd_other in Hca by assumption. eapply Hc; eauto.
Qed.
Lemma load_cached_coherent s f : coherent s -> coherent (fst (fst (load_cached s f))).
Proof.
  intro Hc. unfold load_cached. destruct (files _ _ s f) as [[c t]|] eqn:Ef; [|exact Hc].
  destruct (cache _ _ s f) as [[p tc]|]; [destruct (Nat.eqb t 0 || Nat.eqb tc t); [exact Hc|]|]; now apply reload_coherent.
Qed.
(* one access through the cache answers like a re-read *)
Lemma load_cached_agrees s f : coherent s -> timed s ->
  snd (fst (load_cached s f)) = read_through (files _ _ s) f.
Proof.
  intros Hc Ht. unfold load_cached, Cache.read_through. destruct (files _ _ s f) as [[c t]|] eqn:Ef; [|reflexivity].
  assert (Hr : snd (fst (reload content parsed parse s f c t)) = match parse c with Some p => OOk p | None => OErr end)
    by (unfold reload; destruct (parse c); reflexivity).
  destruct (cache _ _ s f) as [[p tc]|] eqn:Ec; [|exact Hr].
  destruct (Nat.eqb t 0 || Nat.eqb tc t) eqn:E; [|exact Hr]. cbn.
  apply orb_true_iff in E. destruct E as [E|E]; apply Nat.eqb_eq in E.
  - exfalso. eapply Ht; eauto.
  - now rewrite (Hc f p tc c t Ec Ef E).
Qed.

(* a whole render: same trace of loaded files as an engine created just now *)
Lemma run_plan_inv fuel : forall s p, coherent s -> timed s ->
  coherent (fst (run_plan fuel s p)) /\ files _ _ (fst (run_plan fuel s p)) = files _ _ s.
Proof.
  induction fuel as [|fu IH]; intros s p Hc Ht; [cbn; auto|]. destruct p as [|f [|] k|f k]; cbn; [auto| | |apply IH; assumption].
  - destruct (load_cached s f) as [[s1 o] h] eqn:El.
    assert (Hc1 : coherent s1) by (pose proof (load_cached_coherent s f Hc) as H; now rewrite El in H).
    assert (Hf1 : files _ _ s1 = files _ _ s) by (pose proof (load_cached_files s f) as H; now rewrite El in H).
    assert (Ht1 : timed s1) by (unfold Cache.timed; rewrite Hf1; exact Ht).
    destruct (IH s1 (k o) Hc1 Ht1) as [H1 H2]. destruct (run_plan fu s1 (k o)) as [s2 tr]. cbn in *. split; [exact H1|congruence].
  - destruct (IH s (k (read_through (files _ _ s) f)) Hc Ht) as [H1 H2].
    destruct (run_plan fu s (k (read_through (files _ _ s) f))) as [s2 tr]. cbn in *. auto.
Qed.
Lemma fresh_coherent s : coherent (fresh _ _ s).
Proof. intros f p tc c t H. discriminate. Qed.
Lemma run_plan_agrees fuel : forall s s' p, coherent s -> timed s -> coherent s' -> files _ _ s' = files _ _ s ->
  snd (run_plan fuel s p) = snd (run_plan fuel s' p).
Proof.
  induction fuel as [|fu IH]; intros s s' p Hc Ht Hc' Hf; [reflexivity|].
  destruct p as [|f [|] k|f k]; cbn; [reflexivity| | |unfold Cache.exists_file; rewrite Hf; apply IH; assumption].
  - assert (Ht' : timed s') by (unfold Cache.timed; rewrite Hf; exact Ht).
    pose proof (load_cached_agrees s f Hc Ht) as A. pose proof (load_cached_agrees s' f Hc' Ht') as A'.
    pose proof (load_cached_coherent s f Hc) as C. pose proof (load_cached_coherent s' f Hc') as C'.
    pose proof (load_cached_files s f) as F. pose proof (load_cached_files s' f) as F'.
    destruct (load_cached s f) as [[s1 o] h]. destruct (load_cached s' f) as [[s1' o'] h']. cbn in *.
    assert (E : o' = o) by congruence. clear A A'. subst o'.
    assert (Ht1 : timed s1) by (unfold Cache.timed; rewrite F; exact Ht).
    specialize (IH s1 s1' (k o) C Ht1 C' ltac:(congruence)).
    destruct (run_plan fu s1 (k o)) as [s2 tr]. destruct (run_plan fu s1' (k o)) as [s2' tr']. cbn in *. congruence.
  - rewrite Hf. specialize (IH s s' (k (read_through (files _ _ s) f)) Hc Ht Hc' Hf).
    destruct (run_plan fu s (k (read_through (files _ _ s) f))) as [s2 tr].
    destruct (run_plan fu s' (k (read_through (files _ _ s) f))) as [s2' tr']. cbn in *. congruence.
Qed.

Lemma run_plan_h_erase fuel : forall s p,
  fst (Cache.run_plan_h content parsed parse fuel s p) = fst (run_plan fuel s p) /\
  map fst (snd (Cache.run_plan_h content parsed parse fuel s p)) = snd (run_plan fuel s p).
Proof.
  induction fuel as [|fu IH]; intros s p; [cbn; auto|]. destruct p as [|f [|] k|f k]; cbn; [auto| | |apply IH].
  - destruct (load_cached s f) as [[s1 o] h]. destruct (IH s1 (k o)) as [H1 H2].
    destruct (Cache.run_plan_h content parsed parse fu s1 (k o)) as [s2 tr]. destruct (run_plan fu s1 (k o)) as [s2' tr'].
    cbn in *. split; congruence.
  - destruct (IH s (k (read_through (files _ _ s) f))) as [H1 H2].
    destruct (Cache.run_plan_h content parsed parse fu s (k (read_through (files _ _ s) f))) as [s2 tr].
    destruct (run_plan fu s (k (read_through (files _ _ s) f))) as [s2' tr']. cbn in *. split; congruence.
Qed.

Lemma step_inv s o : coherent s -> timed s -> guard s o -> coherent (step s o) /\ timed (step s o).
Proof.
  intros Hc Ht Hg. destruct o as [f c t | f | p]; cbn [Cache.step].
  - destruct Hg as [Ht0 Hg]. split.
    + intros g p tc c' t' Hca Hfi Heq. cbn in *. destruct (Nat.eq_dec g f) as [->|Hne].
      * rewrite upd_same in Hfi. injection Hfi as <- <-. exfalso. eapply Hg; eauto.
      * rewrite upd_other in Hfi by assumption. eapply Hc; eauto.
    + intros g c' t' Hfi. cbn in *. destruct (Nat.eq_dec g f) as [->|Hne].
      * rewrite upd_same in Hfi. now injection Hfi as <- <-.
      * rewrite upd_other in Hfi by assumption. eapply Ht; eauto.
  - split.
    + intros g p tc c' t' Hca Hfi Heq. cbn in *. destruct (Nat.eq_dec g f) as [->|Hne].
      * rewrite upd_same in Hfi. discriminate.
      * rewrite upd_other in Hfi by assumption. eapply Hc; eauto.
    + intros g c' t' Hfi. cbn in *. destruct (Nat.eq_dec g f) as [->|Hne].
      * rewrite upd_same in Hfi. discriminate.
      * rewrite upd_other in Hfi by assumption. eapply Ht; eauto.
  - destruct (run_plan_inv plan_fuel s p Hc Ht) as [H1 H2]. split; [exact H1|].
    unfold Cache.timed. rewrite H2. exact Ht.
Qed.
Lemma history_inv ops : forall s, coherent s -> timed s -> guarded s ops ->
  coherent (fold_left step ops s) /\ timed (fold_left step ops s).
Proof.
  induction ops as [|o r IH]; intros s Hc Ht Hg; cbn in *; [auto|]. destruct Hg as [Hgo Hgr].
  destruct (step_inv s o Hc Ht Hgo). apply IH; assumption.
Qed.

(* C15: at every point of every guarded history, a render on the long-lived engine loads exactly
   what a render on a newly created engine loads from the current files *)
Theorem cached_equals_fresh fs ops p :
  (forall g c t, fs g = Some (c, t) -> t <> 0) -> guarded (init _ _ fs) ops ->
  let s := fold_left step ops (init _ _ fs) in
  snd (run_plan plan_fuel s p) = snd (run_plan plan_fuel (fresh _ _ s) p).
Proof.
  intros Ht0 Hg. cbn zeta.
  destruct (history_inv ops (init _ _ fs)) as [Hc Ht]; [intros f p' tc c t H; discriminate|exact Ht0|exact Hg|].
  apply run_plan_agrees; [exact Hc|exact Ht|apply fresh_coherent|reflexivity].
Qed.

(* a failed load leaves the cache exactly as it was *)
Theorem failed_load_leaves_no_entry s f : snd (fst (load_cached s f)) = OErr -> fst (fst (load_cached s f)) = s.
Proof.
  unfold load_cached. destruct (files _ _ s f) as [[c t]|]; [|reflexivity].
  assert (Hr : snd (fst (reload content parsed parse s f c t)) = OErr -> fst (fst (reload content parsed parse s f c t)) = s)
    by (unfold reload; destruct (parse c); [discriminate|reflexivity]).
  destruct (cache _ _ s f) as [[p tc]|]; [destruct (Nat.eqb t 0 || Nat.eqb tc t); [discriminate|]|]; exact Hr.
Qed.
(* the cache is used exactly when the remembered mtime is the file's current one (or there is no mtime) *)
Theorem hit_iff_unchanged s f : snd (load_cached s f) = true <->
  exists c t p tc, files _ _ s f = Some (c, t) /\ cache _ _ s f = Some (p, tc) /\ (t = 0 \/ tc = t).
Proof.
  unfold load_cached. destruct (files _ _ s f) as [[c t]|]; [|split; [discriminate|intros (?&?&?&?&H&_); discriminate]].
  assert (Hr : snd (reload content parsed parse s f c t) = false) by (unfold reload; destruct (parse c); reflexivity).
  destruct (cache _ _ s f) as [[p tc]|].
  - destruct (Nat.eqb t 0 || Nat.eqb tc t) eqn:E.
    + split; [intros _|reflexivity]. exists c, t, p, tc. repeat split.
      apply orb_true_iff in E. destruct E as [E|E]; apply Nat.eqb_eq in E; auto.
    + rewrite Hr. split; [discriminate|]. intros (c' & t' & p' & tc' & [= <- <-] & [= <- <-] & H).
      apply orb_false_iff in E. destruct E as [E1 E2]. apply Nat.eqb_neq in E1. apply Nat.eqb_neq in E2. lia.
  - rewrite Hr. split; [discriminate|]. intros (?&?&?&?&_&H&_). discriminate.
Qed.
(* a hit performs no read and returns the remembered parse *)
Theorem hit_returns_entry s f : snd (load_cached s f) = true ->
  fst (fst (load_cached s f)) = s /\ exists p tc, cache _ _ s f = Some (p, tc) /\ snd (fst (load_cached s f)) = OOk p.
Proof.
  unfold load_cached. destruct (files _ _ s f) as [[c t]|]; [|discriminate].
  assert (Hr : snd (reload content parsed parse s f c t) = false) by (unfold reload; destruct (parse c); reflexivity).
  destruct (cache _ _ s f) as [[p tc]|]; [|rewrite Hr; discriminate].
  destruct (Nat.eqb t 0 || Nat.eqb tc t); [|rewrite Hr; discriminate]. intros _. split; [reflexivity|]. eauto.
Qed.
End CacheP.

(* the unrepaired tree served a deleted file from the cache *)
Lemma legacy_refuted : exists s : Cache.state nat nat,
  snd (fst (load_cached_legacy nat nat Some s 0)) <> read_through nat nat Some (files _ _ s) 0.
Proof.
  exists {| files := fun _ => None; cache := fun f => if Nat.eqb f 0 then Some (7, 1) else None |}. cbn. discriminate.
Qed.
