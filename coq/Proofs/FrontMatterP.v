From V Require Import Base.Bytes Model.FrontMatter.
(* a text in which no line feed is followed by three dashes *)
Definition fence_free (y : bytes) : Prop := forall acc, find_fence y acc = None.
Lemma strip_fence_short r t : strip fence r = None -> strip fence (r ++ x0a :: t) = None.
Proof.
  assert (E : beq x2d x0a = false) by reflexivity.
  unfold fence. destruct r as [|a [|b [|c r]]]; cbn [strip app]; rewrite ?E.
  - reflexivity.
  - destruct (beq x2d a); [now rewrite ?E|reflexivity].
  - destruct (beq x2d a); [|reflexivity]. destruct (beq x2d b); [now rewrite ?E|reflexivity].
  - destruct (beq x2d a); [|reflexivity]. destruct (beq x2d b); [|reflexivity]. destruct (beq x2d c); [discriminate|reflexivity].
Qed.
Lemma find_fence_app y : forall acc t, find_fence y acc = None ->
  find_fence (y ++ x0a :: fence ++ t) acc = Some (rev acc ++ y, t).
Proof.
  induction y as [|c r IH]; intros acc t H.
  - cbn [app find_fence]. rewrite beq_refl. change (fence ++ t) with (fence ++ t). rewrite strip_app. now rewrite app_nil_r.
  - cbn [app find_fence] in *. destruct (beq c x0a) eqn:E.
    + destruct (strip fence r) eqn:S; [discriminate|].
      rewrite (strip_fence_short r (fence ++ t) S). rewrite (IH (c :: acc) t H). cbn [rev]. now rewrite <- app_assoc.
    + rewrite (IH (c :: acc) t H). cbn [rev]. now rewrite <- app_assoc.
Qed.
(* 1. a file that does not begin with three dashes has no front matter and is its own body *)
Theorem extract_none s : strip fence s = None -> extract s = (None, s).
Proof. intro H. unfold extract. now rewrite H. Qed.
(* 2. a file that opens with the fence, holds a fence-free block y (the rest of the opening line included) and closes
   it with a fence on a line of its own: the block is exactly y and the body is exactly what follows the closing
   line - whatever the body contains, further fences included *)
Theorem extract_block y body : fence_free y ->
  extract (fence ++ y ++ x0a :: fence ++ x0a :: body) = (Some y, body).
Proof.
  intro H. unfold extract. rewrite strip_app. rewrite (find_fence_app y [] (x0a :: body) (H [])).
  cbn [rev app]. now rewrite beq_refl.
Qed.
(* ... and when the closing fence is the last thing in the file, or other text follows it on its line, that text
   stays in front of the body *)
Theorem extract_block_tail y tail : fence_free y -> (match tail with c :: _ => beq c x0a = false | [] => True end) ->
  extract (fence ++ y ++ x0a :: fence ++ tail) = (Some y, tail).
Proof.
  intros H Ht. unfold extract. rewrite strip_app. rewrite (find_fence_app y [] tail (H [])). cbn [rev app].
  destruct tail as [|c r]; [reflexivity|]. now rewrite Ht.
Qed.
(* 3. an opening fence without a closing one is not a block: the whole file is the body *)
Theorem extract_unclosed y : fence_free y -> extract (fence ++ y) = (None, fence ++ y).
Proof. intro H. unfold extract. rewrite strip_app. now rewrite (H []). Qed.
(* fence_free is decidable by running the search *)
Lemma fence_free_acc y a b : find_fence y a = None -> find_fence y b = None.
Proof.
  revert a b. induction y as [|c r IH]; intros a b H; [reflexivity|]. cbn [find_fence] in *.
  destruct (beq c x0a); [destruct (strip fence r); [discriminate|]|]; eapply IH; eauto.
Qed.
Lemma fence_free_dec y : find_fence y [] = None -> fence_free y.
Proof. intros H acc. eapply fence_free_acc; eauto. Qed.

(* the converse: whatever the search finds is a fence-free text followed by a line feed and the fence *)
Lemma find_fence_sound s : forall acc b a, find_fence s acc = Some (b, a) ->
  exists y, b = rev acc ++ y /\ s = y ++ x0a :: fence ++ a /\ find_fence y [] = None.
Proof.
  induction s as [|c r IH]; intros acc b a H; [discriminate|]. cbn [find_fence] in H.
  destruct (beq c x0a) eqn:E.
  - destruct (strip fence r) as [a'|] eqn:S.
    + inversion H; subst. exists []. rewrite app_nil_r. repeat split.
      apply beq_true in E. subst c. cbn [app]. f_equal. now apply strip_Some.
    + destruct (IH _ _ _ H) as (y & Hb & Hs & Hf). exists (c :: y). repeat split.
      * rewrite Hb. cbn [rev]. now rewrite <- app_assoc.
      * cbn [app]. now rewrite Hs.
      * cbn [find_fence]. rewrite E.
        assert (Sy : strip fence y = None).
        { destruct (strip fence y) as [t|] eqn:Sy; [|reflexivity]. exfalso.
          apply strip_Some in Sy. rewrite Sy in Hs. rewrite Hs in S. rewrite <- app_assoc in S. now rewrite strip_app in S. }
        rewrite Sy. eapply fence_free_acc; eauto.
  - destruct (IH _ _ _ H) as (y & Hb & Hs & Hf). exists (c :: y). repeat split.
    + rewrite Hb. cbn [rev]. now rewrite <- app_assoc.
    + cbn [app]. now rewrite Hs.
    + cbn [find_fence]. rewrite E. eapply fence_free_acc; eauto.
Qed.
(* so a recognised block is always fence-free, and the file is fence, block, line feed, fence, rest of that line and body *)
Theorem extract_sound s y body : extract s = (Some y, body) ->
  fence_free y /\ exists tail, s = fence ++ y ++ x0a :: fence ++ tail /\
    body = match tail with c :: r => if beq c x0a then r else tail | [] => [] end.
Proof.
  unfold extract. destruct (strip fence s) as [rest|] eqn:S; [|discriminate].
  destruct (find_fence rest []) as [[fm after]|] eqn:F; [|discriminate].
  intro H. inversion H; subst. destruct (find_fence_sound _ _ _ _ F) as (y' & Hb & Hs & Hf).
  cbn [rev app] in Hb. subst y'. split; [now apply fence_free_dec|].
  exists after. split; [|reflexivity]. apply strip_Some in S. now rewrite S, Hs.
Qed.
