From V Require Import Base.Bytes Model.FrontMatter.
(* a text in which no line feed is followed by three dashes *)
Definition fence_free (y : bytes) : Prop := forall acc, find_fence y acc = None.
Lemma strip_fence_short r t : strip fence r = None -> strip fence (r ++ x0a :: t) = None.
Proof.
  assert (E : beq x2d x0a = false) by reflexivity.
  unfold fence. destruct r as [|a [|b [|c r]]]; cbn [strip app]; rewrite ?E.
  - reflexivity.
  - destruct (beq x2d a); [now rewrite ?E|reflexivity].
  - destruct (beq x2d a); [|reflexivity]. destruct (beq x2d b); [now rewrite ?E|reflexivity].
  - destruct (beq x2d a); [|reflexivity]. destruct (beq x2d b); [|reflexivity]. destruct (beq x2d c); [discriminate|reflexivity].
Qed.
Lemma find_fence_app y : forall acc t, find_fence y acc = None ->
  find_fence (y ++ x0a :: fence ++ t) acc = Some (rev acc ++ y, t).
Proof.
  induction y as [|c r IH]; intros acc t H.
  - cbn [app find_fence]. rewrite beq_refl. change (fence ++ t) with (fence ++ t). rewrite strip_app. now rewrite app_nil_r.
  - cbn [app find_fence] in *. destruct (beq c x0a) eqn:E.
    + destruct (strip fence r) eqn:S; [discriminate|].
      rewrite (strip_fence_short r (fence ++ t) S). rewrite (IH (c :: acc) t H). cbn [rev]. now rewrite <- app_assoc.
    + rewrite (IH (c :: acc) t H). cbn [rev]. now rewrite <- app_assoc.
Qed.
(* 1. a file that does not begin with three dashes has no front matter and is its own body *)
Theorem extract_none s : strip fence s = None -> extract s = (None, s).
Proof. intro H. unfold extract. now rewrite H. Qed.
(* 2. a file that opens with the fence, holds a fence-free block y (the rest of the opening line included) and closes
   it with a fence on a line of its own: the block is exactly y and the body is exactly what follows the closing
   line - whatever the body contains, further fences included *)
Theorem extract_block y body : fence_free y ->
  extract (fence ++ y ++ x0a :: fence ++ x0a :: body) = (Some y, body).
Proof.
  intro H. unfold extract. rewrite strip_app. rewrite (find_fence_app y [] (x0a :: body) (H [])).
  cbn [rev app]. now rewrite beq_refl.
Qed.
(* ... and when the closing fence is the last thing in the file, or other text follows it on its line, that text
   stays in front of the body *)
Theorem extract_block_tail y tail : fence_free y -> (match tail with c :: _ => beq c x0a = false | [] => True end) ->
  extract (fence ++ y ++ x0a :: fence ++ tail) = (Some y, tail).
Proof.
  intros H Ht. unfold extract. rewrite strip_app. rewrite (find_fence_app y [] tail (H [])). cbn [rev app].
  destruct tail as [|c r]; [reflexivity|]. now rewrite Ht.
Qed.
(* 3. an opening fence without a closing one is not a block: the whole file is the body *)
Theorem extract_unclosed y : fence_free y -> extract (fence ++ y) = (None, fence ++ y).
Proof. intro H. unfold extract. rewrite strip_app. now rewrite (H []). Qed.
(* fence_free is decidable by running the search *)
Lemma fence_free_acc y a b : find_fence y a = None -> find_fence y b = None.
Proof.
  revert a b. induction y as [|c r IH]; intros a b H; [reflexivity|]. cbn [find_fence] in *.
  destruct (beq c x0a); [destruct (strip fence r); [discriminate|]|]; eapply IH; eauto.
Qed.
Lemma fence_free_dec y : find_fence y [] = None -> fence_free y.
Proof. intros H acc. eapply fence_free_acc; eauto. Qed.
