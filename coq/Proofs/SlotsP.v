From V Require Import Base.Bytes Base.Obs Base.Val Model.Stack Model.Truthy Model.Loops Model.Include Model.Slots
  Proofs.StackP Proofs.LoopsP Proofs.IncludeP.

Fixpoint clo_ok' (c : clo) : Prop :=
  match c with Clo _ d outer => 1 <= d /\ match outer with Some o => clo_ok' o | None => True end end.
Definition clo_ok (c : option clo) : Prop := match c with None => True | Some x => clo_ok' x end.
Lemma clo_ok_some sup d outer : clo_ok (Some (Clo sup d outer)) <-> 1 <= d /\ clo_ok outer.
Proof. cbn. destruct outer; tauto. Qed.

Lemma restore_upper_lower d s : restore (upper d s) (lower d s) = s.
Proof. unfold restore, upper, lower. cbn. rewrite firstn_skipn. destruct s; reflexivity. Qed.
Lemma lower_nonempty d s : 1 <= d -> scopes s <> [] -> scopes (lower d s) <> [].
Proof.
  intros Hd Hs. unfold lower. cbn. intro H. apply (f_equal (@length scope)) in H. rewrite skipn_length in H.
  assert (0 < length (scopes s)) by (destruct (scopes s); [congruence|cbn; lia]). cbn [length] in H. lia.
Qed.
Lemma bind_props_keeps_lower sc props : forall s top tl, scopes s = top :: tl ->
  exists top', scopes (bind_props s sc props) = top' :: tl /\ root (bind_props s sc props) = root s.
Proof.
  intros s top tl H. destruct sc as [|x|names]; cbn [bind_props].
  - now apply set_all_keeps_lower with (top := top).
  - now apply set_keeps_lower with (top := top).
  - revert s top H. induction names as [|n r IH]; intros s top H; cbn [fold_left]; [eauto|].
    destruct (set_keeps_lower s n (match assocb n props with Some v => v | None => VNil end) top tl H) as (t1 & H1 & R1).
    destruct (IH _ _ H1) as (t2 & H2 & R2). exists t2. split; [exact H2|congruence].
Qed.
Lemma pop_after_bind s sc props : scopes s <> [] -> pop (bind_props (push s []) sc props) = s.
Proof.
  intro H. destruct (bind_props_keeps_lower sc props (push s []) [] (scopes s) eq_refl) as (t & Hs & Hr).
  unfold pop. rewrite Hs. destruct s as [sc0 rt]. cbn in *. destruct sc0 as [|a b]; [congruence|]. now rewrite Hr.
Qed.
Lemma scopes_bind_props s sc props : scopes s <> [] -> scopes (bind_props s sc props) <> [].
Proof.
  intro H. destruct (scopes s) as [|top tl] eqn:E; [congruence|].
  destruct (bind_props_keeps_lower sc props s top tl E) as (t & Hs & _). rewrite Hs. discriminate.
Qed.

(* nothing leaks: whatever a render does with slots, includes and loops, a successful evaluation
   hands back the stack it was given *)
Theorem slots_no_leak w : forall fuel s c t o s', scopes s <> [] -> clo_ok c -> eval w fuel s c t = Ok (o, s') -> s' = s.
Proof.
  induction fuel as [|fu IH]; intros s c t o s' Hs Hc H; [discriminate|].
  destruct t as [|id ws next|name props fb next|x coll body next|file props sup next]; cbn [eval] in H.
  - now injection H as _ <-.
  - destruct (eval w fu s c next) as [[o1 s1]|] eqn:E; [|discriminate]. injection H as _ <-. eapply IH; eauto.
  - (* slot *)
    assert (Hfill : forall r, (match c with
              | Some (Clo sup depth outer) =>
                  match find_supply name sup with
                  | Some (sc, content) =>
                      Some (match eval w fu (bind_props (push (lower depth s) []) sc (slot_props s props)) outer content with
                            | Err e => Err e
                            | Ok (o, s2) => Ok (o, restore (upper depth s) (pop s2))
                            end)
                  | None => None
                  end
              | None => None
              end) = Some r -> forall o1 s1, r = Ok (o1, s1) -> s1 = s).
    { intros r Hr o1 s1 Er. destruct c as [[sup depth outer]|]; [|discriminate]. apply (proj1 (clo_ok_some _ _ _)) in Hc. destruct Hc as [Hd Ho].
      destruct (find_supply name sup) as [[sc content]|]; [|discriminate]. injection Hr as <-.
      destruct (eval w fu (bind_props (push (lower depth s) []) sc (slot_props s props)) outer content) as [[o2 s2]|] eqn:E; [|discriminate].
      injection Er as _ <-.
      assert (Hl : scopes (lower depth s) <> []) by now apply lower_nonempty.
      assert (s2 = bind_props (push (lower depth s) []) sc (slot_props s props)).
      { eapply IH; [|exact Ho|exact E]. apply scopes_bind_props. cbn. discriminate. }
      subst s2. rewrite pop_after_bind by assumption. apply restore_upper_lower. }
    match type of H with context [match ?f with Some r => r | None => _ end] => destruct f as [r|] eqn:Ef end.
    + destruct r as [[o1 s1]|] eqn:Er; [|discriminate]. assert (s1 = s) by (eapply Hfill; eauto). subst s1.
      destruct (eval w fu s c next) as [[o2 s2]|] eqn:E2; [|discriminate]. injection H as _ <-. eapply IH; eauto.
    + destruct (eval w fu s c fb) as [[o1 s1]|] eqn:E1; [|discriminate]. assert (s1 = s) by (eapply IH; eauto). subst s1.
      destruct (eval w fu s c next) as [[o2 s2]|] eqn:E2; [|discriminate]. injection H as _ <-. eapply IH; eauto.
  - (* loop *)
    match type of H with context [?it s (for_each s coll)] => set (iter := it) in * end.
    assert (Hit : forall items s0 o0 s1, scopes s0 <> [] -> iter s0 items = Ok (o0, s1) -> s1 = s0).
    { induction items as [|v r IHi]; intros s0 o0 s1 Hs0 Hi; cbn -[set push pop] in Hi; [now injection Hi as _ <-|].
      destruct (eval w fu (set (push s0 []) x v) c body) as [[o1 s2]|] eqn:E; [|discriminate].
      assert (s2 = set (push s0 []) x v) by (eapply IH; [apply scopes_set|exact Hc|exact E]). subst s2.
      assert (Hp : pop (set (push s0 []) x v) = s0) by (apply (pop_bind_push s0 [x] 0%Z v Hs0)). rewrite Hp in Hi.
      destruct (iter s0 r) as [[o2 s3]|] eqn:E2; [|discriminate]. injection Hi as _ <-. eapply IHi; eauto. }
    destruct (iter s (for_each s coll)) as [[o1 s1]|] eqn:E1; [|discriminate].
    assert (s1 = s) by (eapply Hit; eauto). subst s1.
    destruct (eval w fu s c next) as [[o2 s2]|] eqn:E2; [|discriminate]. injection H as _ <-. eapply IH; eauto.
  - (* include *)
    destruct (assocb file w) as [cp|]; [|discriminate].
    set (s1 := set_all (push s (eval_props s props)) (sc_fm cp)) in *.
    destruct (eval w fu s1 (Some (Clo sup (length (scopes s)) c)) (sc_body cp)) as [[o1 s2]|] eqn:E1; [|discriminate].
    assert (Hs1 : scopes s1 <> []) by (apply scopes_set_all; cbn; discriminate).
    assert (s2 = s1).
    { eapply IH; [exact Hs1| |exact E1]. apply clo_ok_some. split; [|exact Hc]. destruct (scopes s); [congruence|cbn; lia]. }
    subst s2. assert (Hp : pop s1 = s) by (apply pop_after_include; exact Hs). rewrite Hp in H.
    destruct (eval w fu s c next) as [[o2 s3]|] eqn:E2; [|discriminate]. injection H as _ <-. eapply IH; eauto.
Qed.

(* 1. a filled slot renders the supplied content, evaluated in the includer's scopes plus one scope
      holding the slot's props (under the declared name, destructured, or directly), with the
      includer's own slot closure - nothing the component pushed since is visible to it *)
Theorem slot_fill w fu s sup depth outer name props fb sc content :
  find_supply name sup = Some (sc, content) ->
  eval w (S fu) s (Some (Clo sup depth outer)) (SSlot name props fb SNil) =
  match eval w fu (bind_props (push (lower depth s) []) sc (slot_props s props)) outer content with
  | Err e => Err e
  | Ok (o, s2) => match eval w fu (restore (upper depth s) (pop s2)) (Some (Clo sup depth outer)) SNil with
                  | Err e => Err e | Ok (o', s3) => Ok (o ++ o', s3) end
  end.
Proof. intro H. cbn [eval]. rewrite H. destruct (eval w fu _ outer content) as [[o s2]|]; reflexivity. Qed.
Corollary slot_sees_includer_only w fu sa sb sup depth outer name props fb sc content :
  find_supply name sup = Some (sc, content) ->
  lower depth sa = lower depth sb -> slot_props sa props = slot_props sb props ->
  match eval w (S fu) sa (Some (Clo sup depth outer)) (SSlot name props fb SNil),
        eval w (S fu) sb (Some (Clo sup depth outer)) (SSlot name props fb SNil) with
  | Ok (oa, _), Ok (ob, _) => oa = ob
  | Err ea, Err eb => True
  | _, _ => fu = 0
  end.
Proof.
  intros Hf Hl Hp. rewrite !(slot_fill w fu _ sup depth outer name props fb sc content Hf). rewrite Hl, Hp.
  destruct (eval w fu (bind_props (push (lower depth sb) []) sc (slot_props sb props)) outer content) as [[o s2]|]; [|exact I].
  destruct fu; [reflexivity|]. reflexivity.
Qed.
(* 2. the fallback is rendered exactly when nothing was supplied for that name *)
Theorem slot_fallback_none w fu s name props fb next :
  eval w (S fu) s None (SSlot name props fb next) =
  match eval w fu s None fb with
  | Err e => Err e
  | Ok (o, s1) => match eval w fu s1 None next with Err e => Err e | Ok (o', s2) => Ok (o ++ o', s2) end
  end.
Proof. reflexivity. Qed.
Theorem slot_fallback_not_supplied w fu s sup depth outer name props fb next : find_supply name sup = None ->
  eval w (S fu) s (Some (Clo sup depth outer)) (SSlot name props fb next) =
  match eval w fu s (Some (Clo sup depth outer)) fb with
  | Err e => Err e
  | Ok (o, s1) => match eval w fu s1 (Some (Clo sup depth outer)) next with Err e => Err e | Ok (o', s2) => Ok (o ++ o', s2) end
  end.
Proof. intro H. cbn [eval]. now rewrite H. Qed.
(* 3. per instance: an include evaluates the component with a closure made of ITS OWN supplied
      content; what follows is evaluated in the unchanged stack with the unchanged closure *)
Theorem include_instance w fu s c file props sup next cp : assocb file w = Some cp -> scopes s <> [] -> clo_ok c ->
  eval w (S fu) s c (SInclude file props sup next) =
  match eval w fu (set_all (push s (eval_props s props)) (sc_fm cp)) (Some (Clo sup (length (scopes s)) c)) (sc_body cp) with
  | Err e => Err e
  | Ok (o, _) => match eval w fu s c next with Err e => Err e | Ok (o', s3) => Ok (o ++ o', s3) end
  end.
Proof.
  intros Hf Hs Hc. cbn [eval]. rewrite Hf.
  set (s1 := set_all (push s (eval_props s props)) (sc_fm cp)).
  destruct (eval w fu s1 (Some (Clo sup (length (scopes s)) c)) (sc_body cp)) as [[o s2]|] eqn:E; [|reflexivity].
  assert (s2 = s1).
  { eapply slots_no_leak; [apply scopes_set_all; cbn; discriminate| |exact E]. apply clo_ok_some. split; [|exact Hc]. destruct (scopes s); [congruence|cbn; lia]. }
  subst s2. unfold s1. now rewrite pop_after_include.
Qed.
(* 4. a slot inside a loop: the body (slots included) is evaluated once per item with that item bound *)
Theorem loop_step w fu s c x coll body v r : for_each s coll = v :: r -> scopes s <> [] -> clo_ok c ->
  forall o1 s2, eval w fu (set (push s []) x v) c body = Ok (o1, s2) -> s2 = set (push s []) x v /\ pop s2 = s.
Proof.
  intros _ Hs Hc o1 s2 E. assert (s2 = set (push s []) x v) by (eapply slots_no_leak; [apply scopes_set|exact Hc|exact E]).
  subst s2. split; [reflexivity|]. apply (pop_bind_push s [x] 0%Z v Hs).
Qed.
