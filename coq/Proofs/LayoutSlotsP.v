From Coq Require Import List Bool Arith Lia.
Import ListNotations.
From V Require Import Model.LayoutSlots.

(* induction over items with the nested lists *)
Section Ind.
  Variable P : litem -> Prop.
  Hypothesis HT : forall id, P (LText id).
  Hypothesis HW : forall kids, Forall P kids -> P (LWrap kids).
  Hypothesis HS : forall n fb, Forall P fb -> P (LSlot n fb).
  Fixpoint litem_ind' (it : litem) : P it :=
    match it with
    | LText id => HT id
    | LWrap kids => HW kids ((fix go (l : list litem) : Forall P l :=
                                match l with [] => Forall_nil _ | x :: r => Forall_cons _ (litem_ind' x) (go r) end) kids)
    | LSlot n fb => HS n fb ((fix go (l : list litem) : Forall P l :=
                                match l with [] => Forall_nil _ | x :: r => Forall_cons _ (litem_ind' x) (go r) end) fb)
    end.
End Ind.

(* equations of [expand], independent of how much fuel there is *)
Lemma expand_text fuel t chain id : expand fuel t chain (LText id) = Some [id].
Proof. destruct fuel; reflexivity. Qed.
Lemma expand_wrap fuel t chain kids : expand fuel t chain (LWrap kids) = seq_opt (expand fuel t chain) kids.
Proof. destruct fuel; reflexivity. Qed.
Lemma expand_slot fuel t chain n fb :
  expand fuel t chain (LSlot n fb) =
  match lcontent t n with
  | Some c => if memb n chain then seq_opt (expand fuel t chain) fb
              else match fuel with O => None | S f => seq_opt (expand f t (n :: chain)) c end
  | None => seq_opt (expand fuel t chain) fb
  end.
Proof. destruct fuel; reflexivity. Qed.

Lemma seq_opt_total f its : Forall (fun x => f x <> None) its -> seq_opt f its <> None.
Proof.
  induction 1 as [|x r Hx _ IH]; cbn; [discriminate|].
  destruct (f x); [|congruence]. destruct (seq_opt f r); [discriminate|congruence].
Qed.
Lemma seq_opt_ext f g its : Forall (fun x => forall o, f x = Some o -> g x = Some o) its ->
  forall o, seq_opt f its = Some o -> seq_opt g its = Some o.
Proof.
  induction 1 as [|x r Hx _ IH]; cbn; intros o H; [exact H|].
  destruct (f x) as [a|] eqn:Ea; [|discriminate]. destruct (seq_opt f r) as [b|] eqn:Eb; [|discriminate].
  rewrite (Hx _ eq_refl), (IH _ eq_refl). exact H.
Qed.

(* the chain holds distinct names of supplied slots *)
Definition chain_ok (t : ltable) (chain : list nat) : Prop :=
  NoDup chain /\ forall n, In n chain -> lcontent t n <> None.
Lemma lcontent_in t n : lcontent t n <> None -> In n (map fst t).
Proof.
  induction t as [|[k c] r IH]; cbn; [congruence|].
  destruct (Nat.eqb_spec k n); [now left|right; auto].
Qed.
Lemma memb_false n l : memb n l = false -> ~ In n l.
Proof.
  unfold memb. intros H Hin. assert (E : existsb (Nat.eqb n) l = true).
  { apply existsb_exists. exists n. split; [exact Hin|apply Nat.eqb_refl]. } congruence.
Qed.
Lemma memb_true n l : In n l -> memb n l = true.
Proof. intro H. unfold memb. apply existsb_exists. exists n. split; [exact H|apply Nat.eqb_refl]. Qed.
Lemma chain_bound t chain : chain_ok t chain -> length chain <= length t.
Proof.
  intros [Hnd Hin]. rewrite <- (map_length fst t). apply NoDup_incl_length; [exact Hnd|].
  intros n Hn. apply lcontent_in. now apply Hin.
Qed.
Lemma chain_ok_cons t chain n c : chain_ok t chain -> lcontent t n = Some c -> memb n chain = false -> chain_ok t (n :: chain).
Proof.
  intros [Hnd Hin] Hc Hm. split; [constructor; [now apply memb_false|exact Hnd]|].
  intros m [<-|Hm']; [congruence|now apply Hin].
Qed.

(* 1. expansion always ends: with fuel for every supplied slot not yet on the chain, no item of any
      shape over any table - cyclic or not - runs out *)
Theorem expand_total t : forall fuel chain, chain_ok t chain -> length t <= fuel + length chain ->
  forall it, expand fuel t chain it <> None.
Proof.
  induction fuel as [|f IH]; intros chain Hok Hlen it.
  - induction it as [id|kids IHk|n fb IHf] using litem_ind'.
    + rewrite expand_text. discriminate.
    + rewrite expand_wrap. now apply seq_opt_total.
    + rewrite expand_slot. destruct (lcontent t n) as [c|] eqn:Ec; [|now apply seq_opt_total].
      destruct (memb n chain) eqn:Em; [now apply seq_opt_total|].
      exfalso. pose proof (chain_bound t (n :: chain) (chain_ok_cons _ _ _ _ Hok Ec Em)) as Hb. cbn in Hb, Hlen. lia.
  - induction it as [id|kids IHk|n fb IHf] using litem_ind'.
    + rewrite expand_text. discriminate.
    + rewrite expand_wrap. now apply seq_opt_total.
    + rewrite expand_slot. destruct (lcontent t n) as [c|] eqn:Ec; [|now apply seq_opt_total].
      destruct (memb n chain) eqn:Em; [now apply seq_opt_total|].
      apply seq_opt_total. apply Forall_forall. intros x _.
      apply IH; [now apply (chain_ok_cons _ _ _ c)|cbn; lia].
Qed.
Theorem layout_slots_total t layout : layout_slots t layout <> None.
Proof.
  unfold layout_slots, expand_all. apply seq_opt_total, Forall_forall. intros x _.
  apply expand_total; [split; [constructor|intros n []]|cbn; lia].
Qed.

(* 2. more fuel changes nothing: what a layout shows is a function of table and layout alone *)
Theorem expand_mono t : forall fuel fuel' chain it o, fuel <= fuel' ->
  expand fuel t chain it = Some o -> expand fuel' t chain it = Some o.
Proof.
  induction fuel as [|f IH]; intros fuel' chain it.
  - induction it as [id|kids IHk|n fb IHf] using litem_ind'; intros o Hle H.
    + now rewrite expand_text in *.
    + rewrite expand_wrap in *. eapply seq_opt_ext; [|exact H].
      eapply Forall_impl; [|exact IHk]. intros x Hx o' Ho'. now apply Hx.
    + rewrite expand_slot in *. destruct (lcontent t n) as [c|].
      * destruct (memb n chain); [|discriminate]. eapply seq_opt_ext; [|exact H].
        eapply Forall_impl; [|exact IHf]. intros x Hx o' Ho'. now apply Hx.
      * eapply seq_opt_ext; [|exact H]. eapply Forall_impl; [|exact IHf]. intros x Hx o' Ho'. now apply Hx.
  - induction it as [id|kids IHk|n fb IHf] using litem_ind'; intros o Hle H.
    + now rewrite expand_text in *.
    + rewrite expand_wrap in *. eapply seq_opt_ext; [|exact H].
      eapply Forall_impl; [|exact IHk]. intros x Hx o' Ho'. now apply Hx.
    + rewrite expand_slot in *. destruct (lcontent t n) as [c|].
      * destruct (memb n chain).
        -- eapply seq_opt_ext; [|exact H]. eapply Forall_impl; [|exact IHf]. intros x Hx o' Ho'. now apply Hx.
        -- destruct fuel' as [|f']; [lia|]. eapply seq_opt_ext; [|exact H].
           apply Forall_forall. intros x _ o' Ho'. eapply IH; [|exact Ho']. lia.
      * eapply seq_opt_ext; [|exact H]. eapply Forall_impl; [|exact IHf]. intros x Hx o' Ho'. now apply Hx.
Qed.
Theorem layout_slots_fuel_irrelevant t layout fuel : length t <= fuel ->
  expand_all fuel t [] layout = layout_slots t layout.
Proof.
  intro Hle. destruct (layout_slots t layout) as [o|] eqn:E; [|now apply layout_slots_total in E].
  unfold layout_slots, expand_all in *. eapply seq_opt_ext; [|exact E].
  apply Forall_forall. intros x _ o' Ho'. eapply expand_mono; [exact Hle|exact Ho'].
Qed.

(* 3. which content a slot shows *)
Theorem slot_filled f t chain n fb c : lcontent t n = Some c -> ~ In n chain ->
  expand (S f) t chain (LSlot n fb) = expand_all f t (n :: chain) c.
Proof.
  intros Hc Hn. rewrite expand_slot, Hc. destruct (memb n chain) eqn:Em; [|reflexivity].
  exfalso. apply Hn. unfold memb in Em. apply existsb_exists in Em. destruct Em as [m [Hm E]].
  apply Nat.eqb_eq in E. now subst.
Qed.
Theorem slot_unsupplied fuel t chain n fb : lcontent t n = None ->
  expand fuel t chain (LSlot n fb) = expand_all fuel t chain fb.
Proof. intro Hc. now rewrite expand_slot, Hc. Qed.
Theorem slot_inside_its_own_content fuel t chain n fb : In n chain ->
  expand fuel t chain (LSlot n fb) = expand_all fuel t chain fb.
Proof. intro Hn. rewrite expand_slot. destruct (lcontent t n); [|reflexivity]. now rewrite memb_true. Qed.

(* 4. the twin with a one-name memory never ends on two contents that use each other *)
Definition ring : ltable := [(0, [LSlot 1 []]); (1, [LSlot 0 []])].
Lemma ring_diverges : forall fuel,
  expand_inner fuel ring (Some 0) (LSlot 1 []) = None /\ expand_inner fuel ring (Some 1) (LSlot 0 []) = None.
Proof.
  induction fuel as [|f [IH1 IH2]]; [split; reflexivity|].
  split.
  - change (expand_inner (S f) ring (Some 0) (LSlot 1 [])) with (seq_opt (expand_inner f ring (Some 1)) [LSlot 0 []]).
    cbn [seq_opt]. now rewrite IH2.
  - change (expand_inner (S f) ring (Some 1) (LSlot 0 [])) with (seq_opt (expand_inner f ring (Some 0)) [LSlot 1 []]).
    cbn [seq_opt]. now rewrite IH1.
Qed.
Theorem innermost_only_diverges : exists t layout, forall fuel,
  seq_opt (expand_inner fuel t None) layout = None.
Proof.
  exists ring, [LSlot 0 []]. intros [|f]; [reflexivity|].
  change (seq_opt (expand_inner (S f) ring None) [LSlot 0 []])
    with (match seq_opt (expand_inner f ring (Some 0)) [LSlot 1 []], Some (@nil nat) with Some a, Some b => Some (a ++ b) | _, _ => None end).
  cbn [seq_opt]. now rewrite (proj1 (ring_diverges f)).
Qed.
(* ... while the chain ends it, showing the fallback of the slot met again *)
Example ring_ends : layout_slots [(0, [LText 1; LSlot 1 [LText 2]]); (1, [LText 3; LSlot 0 [LText 4]])] [LSlot 0 [LText 5]; LSlot 7 [LText 6]]
  = Some [1; 3; 4; 6].
Proof. reflexivity. Qed.
